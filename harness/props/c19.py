"""C19  Operations have no hidden side effects and results are history-independent.

A case is a *history*: a pool of caller-owned arrays (float ndarrays, Python lists, Quantities in and
out of the internal unit) and dictionaries, and a list of public calls on the objects the history
itself creates (operands are chosen by selectors that are resolved against the live pool when the
history runs, so every generated call is meaningful).  After every call the harness

  * byte-compares every caller-owned array and dictionary with its snapshot,
  * reads np.geterr(), the astropy unit registry (enabled units + equivalencies) and
    synphot.conf.default_integrator, and restores whatever it finds changed,
  * re-samples every live object on a probe grid (bit-identical unless the call is a documented
    mutator of it) and re-reads every object's metadata.

The oracle is evaluated on the implementation alone; the same resolved history then runs on the Lean
store model (Core/Heap.lean, `Fixes.current`), which must predict every change, the outcome class,
the metadata of every new object and (where it knows the numbers) its samples.
"""
import copy
import json
import math
import os
import shutil
import tempfile
from fractions import Fraction as F

import numpy as np

from .. import core, objects as O
from ..core import q, qs, unq, exc_name

LIBW = ('NegativeFlux', 'PartialOverlap', 'PartialRenorm')
DEF_ERR = {'divide': 'warn', 'over': 'warn', 'under': 'ignore', 'invalid': 'warn'}
KNOWN_ERRS = {'ZeroWavelength', 'UnsortedWavelength', 'DuplicateWavelength', 'UnitError', 'SynphotError', 'OverlapError',
              'PartialOverlap', 'DisjointError', 'IncompatibleSources', 'InterpolationNotAllowed', 'UndefinedBinset',
              'NotImplementedError', 'IndexError', 'ZeroDivisionError', 'NaN', 'TypeError', 'ValueError', 'OSError',
              'LookupError', 'UnboundLocalError'}
ZS = [F(1), F(3), F(-1, 2), F(0), F(7), F(-3, 4)]       # 1+z a power of two: L/(1+z) is exact
BAD_Z = ['complex', 'str', 'none', 'array']
BAD_OPERANDS = [('dimq', 'badQuantity'), ('complexq', 'badQuantity'), ('complex', 'complex'), ('str', 'other'),
                ('none', 'other'), ('list', 'other'), ('array', 'other')]


def fast_unit_errors():
    """see c16.fast_unit_errors: replaces the text of an error message astropy composes and discards inside
    BaseSpectrum.__init__; makes the public constructors ~40x faster, changes nothing else"""
    import astropy.units.format.base as fb
    fb.did_you_mean = lambda *a, **k: ''


def canon_err(name):
    return name if name in KNOWN_ERRS else 'ValueError'


def jcanon(v):
    return json.dumps(v, default=repr, sort_keys=False)


# ------------------------------------------------------------------ caller-owned values
def unit_of(name):
    import astropy.units as u
    from synphot import units
    return {'AA': u.AA, 'nm': u.nm, 'photlam': units.PHOTLAM, 'flam': units.FLAM,
            'dimless': u.dimensionless_unscaled, 'percent': u.percent}[name]


def make_array(d):
    vals = [O.fl(x) for x in d['data']]
    c = d['container']
    if c == 'ndarray':
        return np.array(vals, dtype=float)
    if c == 'list':
        return list(vals)
    return np.array(vals, dtype=float) * unit_of(d['unit'])


def arr_values(a):
    import astropy.units as u
    if isinstance(a, u.Quantity):
        return np.asarray(a.value, dtype=float)
    return np.asarray(a, dtype=float)


def arr_snapshot(a):
    import astropy.units as u
    if isinstance(a, u.Quantity):
        return ('q', str(a.unit), a.value.dtype.str, a.value.shape, a.value.tobytes())
    if isinstance(a, np.ndarray):
        return ('nd', a.dtype.str, a.shape, a.tobytes())
    return ('l', repr(a))


def dict_canon(d):
    return [[k, jcanon(v)] for k, v in d.items()]


def meta_canon(m):
    w = m.get('warnings', {}) if isinstance(m, dict) else {}
    return {'warnings': {k: ('<lib>' if k in LIBW else jcanon(v)) for k, v in w.items()},
            'entries': {k: jcanon(v) for k, v in m.items() if k != 'warnings'}}


def value_state(v):
    import astropy.units as u
    if isinstance(v, u.Quantity):
        return ('q', str(v.unit), np.asarray(v.value).tobytes())
    if isinstance(v, np.ndarray):
        return ('a', v.dtype.str, v.shape, v.tobytes())
    if isinstance(v, (bool, int, float, complex, str, type(None))):
        return ('v', repr(v))
    if isinstance(v, tuple) and all(isinstance(x, (bool, int, float, str, type(None))) for x in v):
        return ('v', repr(v))
    return ('id', id(v))


def attr_state(ob):
    """everything an operation could write on a spectrum object without it being visible in the samples at the
    probe wavelengths: its instance attributes (names, identities of the objects they refer to, values of plain
    numbers / arrays) and, for every model instance of `_model`, its identity, parameter values and plain
    attributes (fill_value, ...).  Metadata contents are compared separately."""
    st = {'attrs': tuple(sorted((k, value_state(v)) for k, v in vars(ob).items()))}
    leaves = []
    for l in model_leaves(ob._model):
        plain = tuple(sorted((k, value_state(v)) for k, v in vars(l).items()
                             if isinstance(v, (bool, int, float, str, type(None))) and not k.startswith('__')))
        leaves.append((id(l), np.asarray(l.parameters, dtype=float).tobytes(), repr(getattr(l, 'fill_value', None)), plain))
    st['leaves'] = tuple(leaves)
    return st


def state_diff(a, b):
    """names of what differs between two attribute states"""
    out = []
    da, db = dict(a['attrs']), dict(b['attrs'])
    for k in sorted(set(da) | set(db)):
        if da.get(k) != db.get(k):
            out.append(k if k in da and k in db else ('+' + k if k in db else '-' + k))
    if a['leaves'] != b['leaves']:
        out.append('<model instances / parameters>')
    return out


def merge_values(left, right):
    """astropy.utils.metadata.merge(left, right, metadata_conflicts='silent') on plain Python values: keys of either
    operand; nested dicts merged recursively; list + list concatenated (MergePlus); otherwise the right value wins
    (unless it is None or equal)"""
    out = copy.deepcopy(left)
    for k, rv in right.items():
        if k not in out:
            out[k] = copy.deepcopy(rv)
        elif isinstance(out[k], dict) and isinstance(rv, dict):
            out[k] = merge_values(out[k], rv)
        elif isinstance(out[k], list) and isinstance(rv, list):
            out[k] = out[k] + copy.deepcopy(rv)
        elif rv is not None and out[k] != rv:
            out[k] = copy.deepcopy(rv)
    return out


def clean_values(m):
    return {k: v for k, v in m.items() if k not in ('header', 'expr')}


def nested_targets(meta):
    """the mutable containers below the top level of a metadata dictionary: (top-level key, container)"""
    out = []

    def walk(top, v):
        if isinstance(v, (list, dict)):
            out.append((top, v))
            for x in (v.values() if isinstance(v, dict) else v):
                walk(top, x)
    for k in meta:
        if k != 'warnings':
            walk(k, meta[k])
    return out


def model_leaves(m):
    from astropy.modeling import CompoundModel
    if isinstance(m, CompoundModel):
        return model_leaves(m.left) + model_leaves(m.right)
    return [m]


def registry_state(full=True):
    """enabled units and equivalencies of the current unit registry; the cheap form (registry object, sizes,
    identity of every equivalency) runs after every call, the full form (identity of every enabled unit) when a
    history starts and ends"""
    import astropy.units as u
    r = u.get_current_unit_registry()
    cheap = (id(r), len(r.all_units), tuple(id(e) for e in r.equivalencies))
    if not full:
        return cheap
    return cheap + (frozenset(id(x) for x in r.all_units),)


# ------------------------------------------------------------------ one history on the implementation
class World:
    def __init__(self, case):
        import astropy.units as u
        from synphot.config import conf
        self.case = case
        self.desc = case['arrays']
        self.arrs = [make_array(d) for d in self.desc]
        self.dicts = [{k: json.loads(v) for k, v in d} for d in case['dicts']]
        self.arr_snap = [arr_snapshot(a) for a in self.arrs]
        self.dict_snap = [dict_canon(d) for d in self.dicts]
        self.objs, self.kinds, self.bad, self.dead = [], [], [], set()
        self.probe = np.array([O.fl(x) for x in case['probe']])
        self.fp, self.meta_snap, self.state = [], [], []
        self.rd, self.rd_new = {}, {}
        self.pristine, self.mutlog = [], []
        self.own_table, self.on_tables = [], []
        self.meta_real = {}     # deep copies of every object's metadata as of its last change
        self._bbflag = {}
        self.last_operand = None
        self.last_source = None
        self.triggers = []      # (object, names of the hidden attributes written) of the current step
        self.hidden_tags = []
        self.followups = []
        self.tmp = tempfile.mkdtemp(prefix='c19_', dir=os.environ.get('TMPDIR', '/tmp'))
        self.files = []
        self.reg0 = registry_state()
        self.reg_units = set(u.get_current_unit_registry().all_units)
        self.reg_equiv = list(u.get_current_unit_registry().equivalencies)
        self.integ0 = conf.default_integrator
        np.seterr(**DEF_ERR)
        self.failures = []      # (signature, message, step index)
        # magnitude of the numbers in play: absolute floor of the numerical comparisons (cancellation to 0)
        self.scale = max([0.0] + [float(np.max(np.abs(arr_values(a)))) for a, d in zip(self.arrs, self.desc)
                                  if d['role'] != 'wave' and len(d['data'])])

    # ---------------------------------------------------------------- bookkeeping
    def add_obj(self, ob, kind, bad, tables=(), own=False):
        """`tables`: the tabulated models (identified by the object that was constructed on them) this object is built
        on ACCORDING TO THE DOCUMENTATION: a constructor on Empirical1D / a tapered copy owns a new one (`own`), an
        operator / normalize / Observation returns a new composite over its operands' tables and owns none.  This
        book-keeping never looks at the implementation's object graph."""
        i = len(self.objs)
        self.own_table.append(i if own else None)
        self.on_tables.append(frozenset(tables) | ({i} if own else frozenset()))
        if kind == 'source' and not bad:
            self.last_source = len(self.objs)
        # a private copy taken before anything has been asked of the new object, and the documented mutators
        # applied to the object since: replaying them on a copy of the copy gives a fresh twin in the same state
        self.pristine.append(None if kind == 'observation' or bad else copy.deepcopy(ob))
        self.mutlog.append([])
        self.objs.append(ob)
        self.kinds.append(kind)
        self.bad.append(bad)
        self.fp.append(None)
        self.state.append(None)
        self.meta_snap.append(None)
        return len(self.objs) - 1

    def readings(self, ob, kind, light=False):
        """the DEFAULT-wavelength readings of an object: `waveset` (or None), `waverange`, `integrate()` with the
        trapezoid rule and, for a bandpass, `avgwave()`; (bytes for the bit-comparison, digest for the report)"""
        r = self.guarded(lambda: ob.waveset)
        if 'err' in r:
            return ('err', r['err']), {'err': r['err']}
        if r['ok'] is None:
            rng = self.guarded(lambda: list(ob.waverange))
            return ('none', repr(rng.get('ok'))), {'none': True}
        w = np.asarray(r['ok'].value, dtype=float)
        rng = self.guarded(lambda: np.asarray(ob.waverange.value, dtype=float))
        rb = rng['ok'].tobytes() if 'ok' in rng else ('err', rng['err'])
        dig = {'n': int(w.size), 'lo': float(w[0]), 'hi': float(w[-1]), 'integ': None}
        it = {'err': 'skipped'} if light else self.guarded(lambda: float(ob.integrate(integration_type='trapezoid').value))
        ib = it.get('ok', it.get('err'))
        if 'ok' in it and math.isfinite(it['ok']):
            dig['integ'] = it['ok']
        ab = None
        if kind == 'bandpass':
            av = self.guarded(lambda: float(ob.avgwave().value))
            ab = av.get('ok', av.get('err'))
            if 'ok' in av and math.isfinite(av['ok']):
                dig['avg'] = av['ok']
        return ('ok', w.tobytes(), rb, repr(ib), repr(ab)), dig

    def has_bb(self, i):
        """does the object's model contain a BlackBody1D (its integral is C16's subject and costs ~10 ms per call)"""
        if i not in self._bbflag:
            from synphot.models import BlackBody1D
            self._bbflag[i] = any(isinstance(l, BlackBody1D) for l in model_leaves(self.objs[i]._model))
        return self._bbflag[i]

    def fingerprint(self, i):
        """(bytes used for the bit-comparison, values for reporting); the default-wavelength readings are kept
        in self.rd[i] / self.rd_dig[i]"""
        if i in self.dead:
            return ('dead',), None
        ob = self.objs[i]
        if self.bad[i]:
            return ('bad',), None
        self.rd_new[i] = self.readings(ob, self.kinds[i], light=self.has_bb(i))
        try:
            v = np.asarray(ob(self.probe).value, dtype=float)
        except Exception as e:  # noqa
            return ('err', exc_name(e)), {'err': canon_err(exc_name(e))}
        extra = b''
        if self.kinds[i] == 'observation':
            extra = np.asarray(ob.binflux.value).tobytes() + np.asarray(ob.binset.value).tobytes()
        if np.all(np.isfinite(v)):
            vals = v.tolist()
            self.scale = max([self.scale] + [abs(x) for x in vals])
        else:
            vals = {'err': 'NaN'}
        return ('ok', v.tobytes(), extra), vals

    def sel(self, n, pred=None):
        if n == 'src':
            i = self.last_source
            return i if i is not None and i not in self.dead and (pred is None or pred(i)) else None
        if n == 'last':
            # the operand the latest deriving call (operator, normalize, Observation, taper) was applied to
            i = self.last_operand
            return i if i is not None and i not in self.dead and (pred is None or pred(i)) else None
        c = [i for i in range(len(self.objs)) if i not in self.dead and (pred is None or pred(i))]
        return c[n % len(c)] if c else None

    def arr_sel(self, n, role, length=None, valid=None):
        c = [i for i, d in enumerate(self.desc) if d['role'] == role and (length is None or len(d['data']) == length)
             and (valid is None or d.get('valid', True) == valid)]
        return c[n % len(c)] if c else None

    def wave_conv(self, i):
        """values in Angstrom of a caller-owned wavelength array (exact for Å, astropy's conversion otherwise)"""
        import astropy.units as u
        d = self.desc[i]
        if d['container'] != 'q_other':
            return None
        return qs(self.arrs[i].to_value(u.AA).tolist())

    def wave_arg(self, st, key='w'):
        """the `wavelengths=` argument: None or a caller-owned array"""
        if st.get(key) is None:
            return None, None
        i = self.arr_sel(st[key], 'wave')
        if i is None:
            return None, None
        c = self.wave_conv(i)
        a = {'w': i}
        if c is not None:
            a['conv'] = c
        return self.arrs[i], a

    # ---------------------------------------------------------------- the calls
    def run_step(self, k, st):
        """returns (concrete step for the model | None, outcome, info for the oracle)"""
        return getattr(self, 'do_' + st['do'])(st)

    def guarded(self, fn):
        import warnings
        try:
            with warnings.catch_warnings():
                warnings.simplefilter('ignore')
                return {'ok': fn()}
        except Exception as e:  # noqa
            return {'err': canon_err(exc_name(e)), 'cls': type(e).__name__, 'msg': str(e)[:120]}

    def z_kwargs(self, st, kind, kw, conc):
        """the constructor keywords z=, z_type= of a SourceSpectrum"""
        if kind == 'source' and st.get('z') is not None:
            kw['z'] = O.fl(st['z'])
            conc['z'] = st['z']
            if st.get('ztype'):
                kw['z_type'] = st['ztype']
                conc['ztype'] = st['ztype']
            return True
        return False

    def do_new_empirical(self, st):
        from synphot import SourceSpectrum, SpectralElement, ReddeningLaw
        from synphot.models import Empirical1D
        from synphot import units
        kind = st['kind']
        xi = self.arr_sel(st['x'], 'wave', valid=True)
        if xi is None:
            return None, None, None
        role = 'flux_src' if kind == 'source' else 'flux_band'
        yi = self.arr_sel(st['y'], role, length=len(self.desc[xi]['data']))
        if yi is None:
            return None, None, None
        cls = {'source': SourceSpectrum, 'bandpass': SpectralElement, 'reddening': ReddeningLaw}[kind]
        kw = dict(points=self.arrs[xi], lookup_table=self.arrs[yi], keep_neg=st['keep_neg'])
        conc = {'do': 'new_empirical', 'kind': kind, 'x': xi, 'y': yi, 'keep_neg': st['keep_neg'], 'meta': None}
        zk = self.z_kwargs(st, kind, kw, conc)
        fill = st.get('fill', '0' if st.get('fill0') else None)
        if fill is not None:
            # explicit fill_value (np.nan: extrapolate; a number: no extrapolation, so that force_extrapolation() -
            # directly, via normalize or Observation - is observable outside the table), whatever the end values are
            kw['fill_value'] = np.nan if fill == 'nan' else O.fl(fill)
            conc['fill'] = fill
        xc = self.wave_conv(xi)
        if xc is not None:
            conc['xconv'] = xc
        if self.desc[yi]['container'] == 'q_other':
            # values in the internal unit, obtained through the public conversion (C01's subject)
            import astropy.units as u
            if kind == 'source':
                w = self.arrs[xi] if isinstance(self.arrs[xi], u.Quantity) else np.asarray(self.arrs[xi]) * u.AA
                if st.get('z') is not None:
                    # `_process_flux_param` converts at the observed wavelengths `_redshift_model(wave)`
                    w = w.to(u.AA) * (1 + O.fl(st['z']))
                conc['yconv'] = qs(units.convert_flux(w, self.arrs[yi], units.PHOTLAM).value.tolist())
            else:
                conc['yconv'] = qs(self.arrs[yi].to_value(u.dimensionless_unscaled).tolist())
        if st.get('meta') is not None and self.dicts:
            di = st['meta'] % len(self.dicts)
            kw['meta'] = self.dicts[di]
            conc['meta'] = di
        out = self.guarded(lambda: cls(Empirical1D, **kw))
        info = {'y': yi}
        if 'ok' in out:
            out = {'ok': {'obj': self.add_obj(out['ok'], kind, False, own=True)}}
        return conc, out, info

    def do_new_analytic(self, st):
        leaf = copy.deepcopy(st['leaf'])
        if leaf.get('leaf') == 'box_rel':
            # a box placed relative to the wavelength range of the newest source (public `waverange`): sticking out of
            # it by half ('high', 'low': partial_notmost), by a sliver ('sliver': partial_most), disjoint, or inside
            o = self.sel('src')
            r = self.guarded(lambda: [float(x.value) for x in self.objs[o].waverange]) if o is not None else {}
            if 'ok' not in r or not all(map(math.isfinite, r['ok'])) or r['ok'][0] <= 0 or r['ok'][1] <= r['ok'][0]:
                return None, None, None
            lo, hi = r['ok']
            span = hi - lo
            w = min(0.6 * span, 0.9 * lo)
            x0 = {'high': hi, 'low': lo, 'sliver': hi - 0.496 * w, 'disjoint': hi + 2 * w, 'inside': 0.5 * (lo + hi)}[leaf['rel']]
            # on the dyadic lattice (multiples of 1/8 A), so that the edge tests `x0 - w/2 <= x` of the box at its own
            # sampling points are decided identically in binary64 and in exact arithmetic
            x0 = F(round(x0 * 8), 8)
            w = F(max(round(w * 8), 8), 8)
            leaf = {'leaf': 'box', 'amp': leaf['amp'], 'x0': q(x0), 'width': q(w), 'step': q(w / 8)}
        d = {'prim': st['kind'], 'leaf': leaf}
        O.fill_ss(d, with_ss=True)      # the analytic model's own sampling set is data for the model (DESIGN 1.2a)
        conc = {'do': 'new_analytic', 'kind': st['kind'], 'leaf': d['leaf']}
        if self.z_kwargs(st, st['kind'], {}, conc):
            d['z'] = st['z']
            if st.get('ztype'):
                d['ztype'] = st['ztype']
        out = self.guarded(lambda: O.build_prim(d))
        if 'ok' in out:
            out = {'ok': {'obj': self.add_obj(out['ok'], st['kind'], False)}}
        return conc, out, {}

    def do_new_blackbody(self, st):
        from synphot import SourceSpectrum
        from synphot.models import BlackBody1D
        t = O.fl(st['temp'])
        kw = {}
        conc = {'do': 'new_blackbody', 'temp': st['temp'], 'expr': jcanon('bb({0})'.format(float(t)))}
        self.z_kwargs(st, 'source', kw, conc)
        if t > 0:
            ss = np.asarray(BlackBody1D(temperature=t).sampleset(), dtype=float)
            if np.all(np.isfinite(ss)):
                conc['ss'] = qs(ss.tolist())
        out = self.guarded(lambda: SourceSpectrum(BlackBody1D, temperature=t, **kw))
        if 'ok' in out:
            out = {'ok': {'obj': self.add_obj(out['ok'], 'source', t < 0)}}
        return conc, out, {}

    def do_sample(self, st):
        o = self.sel(st['o'])
        wi = self.arr_sel(st['w'], 'wave')
        if o is None or wi is None:
            return None, None, None
        conc = {'do': 'sample', 'o': o, 'w': wi}
        c = self.wave_conv(wi)
        if c is not None:
            conc['conv'] = c

        def f():
            v = np.asarray(self.objs[o](self.arrs[wi]).value, dtype=float)
            v2 = np.asarray(self.objs[o](self.arrs[wi]).value, dtype=float)
            return v, v2
        out = self.guarded(f)
        info = {'twice': None}
        if 'ok' in out:
            v, v2 = out['ok']
            info['twice'] = v.tobytes() == v2.tobytes()
            out = {'ok': {'vals': v.tolist()}} if np.all(np.isfinite(v)) else {'err': 'NaN'}
        return conc, out, info

    def do_arith(self, st):
        a = self.sel(st['a'], lambda i: self.kinds[i] != 'observation')
        if a is None:
            return None, None, None
        b = st['b']
        info = {'a': a, 'b': None}
        if 'sel' in b:
            bi = self.sel(b['sel'])
            other, bj = self.objs[bi], {'obj': bi}
            info['b'] = bi
        elif 'scalar' in b:
            other = O.build_scalar(b)
            bj = {'quantity': b['v']} if b['scalar'] == 'quantity' else {'real': b['v']}
        else:
            other = O.build_scalar({'scalar': b['bad']})
            bj = {'bad': dict(BAD_OPERANDS)[b['bad']]}
        left = self.objs[a]
        op = st['op']
        self.last_operand = a if self.kinds[a] == 'source' or info['b'] is None or self.kinds[info['b']] != 'source' else info['b']
        out = self.guarded(lambda: {'add': lambda: left + other, 'sub': lambda: left - other,
                                    'mul': lambda: left * other, 'div': lambda: left / other}[op]())
        if 'ok' in out:
            res = out['ok']
            bad = self.bad[a] or (info['b'] is not None and self.bad[info['b']])
            tb = self.on_tables[a] | (self.on_tables[info['b']] if info['b'] is not None else frozenset())
            out = {'ok': {'obj': self.add_obj(res, O.kind_of(res), bad, tables=tb)}}
        return {'do': 'arith', 'op': op, 'a': a, 'b': bj}, out, info

    def do_rmul(self, st):
        a = self.sel(st['a'], lambda i: self.kinds[i] != 'observation')
        if a is None:
            return None, None, None
        v = O.fl(st['v'])
        self.last_operand = a
        out = self.guarded(lambda: v * self.objs[a])
        if 'ok' in out:
            res = out['ok']
            out = {'ok': {'obj': self.add_obj(res, O.kind_of(res), self.bad[a], tables=self.on_tables[a])}}
        return {'do': 'rmul', 'v': st['v'], 'a': a}, out, {'a': a, 'b': None}

    def overlap(self, band, src, bad):
        """the verdict of check_overlap (C06's subject, data for the model); None: check_overlap itself fails
        numerically (a band without positive throughput, ...), the call is then outside the domain"""
        r = self.guarded(lambda: band.check_overlap(src))
        if 'err' in r:
            return 'full' if bad else None
        return r['ok']

    def do_normalize(self, st):
        from synphot import units
        import astropy.units as u
        o = self.sel(st['o'], lambda i: self.kinds[i] == 'source')
        band = self.sel(st['band'], (lambda i: self.kinds[i] == 'bandpass') if not st.get('wild') else None)
        if o is None or band is None:
            return None, None, None
        sp, bp = self.objs[o], self.objs[band]
        self.last_operand = o
        stat = self.overlap(bp, sp, self.bad[o]) if self.kinds[band] == 'bandpass' else 'full'
        if stat is None:
            return None, None, None
        val = {'flam': 1e-13 * units.FLAM, 'photlam': 2.0 * units.PHOTLAM, 'abmag': 20 * u.ABmag,
               'number': 3.0, 'count': 100 * u.count}[st['val']]
        kw = {'area': 45238.93416 * units.AREA} if st['val'] == 'count' else {}
        out = self.guarded(lambda: sp.normalize(val, band=bp, force=st['force'], **kw))
        conc = {'do': 'normalize', 'o': o, 'band': band, 'force': st['force'], 'stat': stat,
                'num_err': out.get('err')}
        info = {'o': o, 'band': band, 'stat': stat}
        if 'ok' in out:
            res = out['ok']
            try:
                conc['k'] = q(float(res.model.right.factor.value))
            except Exception:  # noqa
                pass
            out = {'ok': {'obj': self.add_obj(res, 'source', self.bad[o], tables=self.on_tables[o])}}
        return conc, out, info

    def taper_data(self, o):
        """what taper() obtains by sampling, through the public interface: x = waveset, y = self(x), and
        (for a model that is not a table) whether self(w1), self(w2) are non-zero"""
        ob = self.objs[o]
        d = {}

        def f():
            x = ob.waveset
            y = ob(x)
            w1 = x[0] ** 2 / x[1]
            w2 = x[-1] ** 2 / x[-2]
            return x.value.tolist(), y.value.tolist(), bool(ob(w1) != 0), bool(ob(w2) != 0)
        if self.bad[o]:
            return d
        r = self.guarded(f)
        if 'err' in r and r['err'] not in ('SynphotError', 'UnsortedWavelength', 'NotImplementedError'):
            return None         # sampling the spectrum fails numerically (0/0 in a ratio, ...): outside the domain
        if 'ok' in r:
            if not all(map(math.isfinite, r['ok'][0] + r['ok'][1])):
                return None     # a spectrum with NaN/inf samples (0/0 in a ratio): outside the domain
            d = {'xs': qs(r['ok'][0]), 'ys': qs(r['ok'][1]), 'front': r['ok'][2], 'back': r['ok'][3]}
        return d

    def do_taper(self, st):
        o = self.sel(st['o'])
        if o is None:
            return None, None, None
        conc = {'do': 'taper', 'o': o}
        self.last_operand = o
        td = self.taper_data(o)
        if td is None:
            return None, None, None
        conc.update(td)
        out = self.guarded(lambda: self.objs[o].taper())
        if 'ok' in out:
            res = out['ok']
            if res is self.objs[o]:
                out = {'ok': {'obj': o}}
            else:
                out = {'ok': {'obj': self.add_obj(res, self.kinds[o], False, own=True)}}
        return conc, out, {'o': o}

    def do_observation(self, st):
        from synphot import Observation
        src = self.sel(st['src'], (lambda i: self.kinds[i] == 'source' and not self.bad[i]) if not st.get('wild') else None)
        band = self.sel(st['band'], (lambda i: self.kinds[i] == 'bandpass') if not st.get('wild') else None)
        if src is None or band is None:
            return None, None, None
        sp, bp = self.objs[src], self.objs[band]
        self.last_operand = src
        ok_kinds = self.kinds[src] == 'source' and self.kinds[band] == 'bandpass'
        stat = self.overlap(bp, sp, self.bad[src]) if ok_kinds else 'full'
        if stat is None:
            return None, None, None
        conc = {'do': 'observation', 'src': src, 'band': band, 'force': st['force'], 'stat': stat, 'binset': None}
        kw = {}
        if st.get('binset') is not None:
            arr, a = self.wave_arg(st, 'binset')
            if a is not None:
                kw['binset'] = arr
                conc['binset'] = a
        if st['force'] == 'taper' and ok_kinds:
            td = self.taper_data(src)
            if td is None:
                return None, None, None
            conc.update(td)
        out = self.guarded(lambda: Observation(sp, bp, force=st['force'], **kw))
        conc['num_err'] = out.get('err')
        info = {'src': src, 'band': band, 'stat': stat, 'force': st['force'], 'tapered': None}
        if 'ok' in out:
            res = out['ok']
            if res.spectrum is not sp:
                t = self.add_obj(res.spectrum, 'source', False, own=True)
                info['tapered'] = t
                out = {'ok': {'objs': [t, self.add_obj(res, 'observation', False, tables=self.on_tables[t] | self.on_tables[band])]}}
            else:
                out = {'ok': {'obj': self.add_obj(res, 'observation', False, tables=self.on_tables[src] | self.on_tables[band])}}
        return conc, out, info

    def do_integrate(self, st):
        o = self.sel(st['o'])
        if o is None:
            return None, None, None
        arr, a = self.wave_arg(st)
        if self.bad[o] and a is None and st['itype'] == 'analytical':
            return None, None, None
        it = {'default': None}.get(st['itype'], st['itype'])

        def f():
            r1 = self.objs[o].integrate(wavelengths=arr, integration_type=it)
            r2 = self.objs[o].integrate(wavelengths=arr, integration_type=it)
            return np.asarray(r1.value).tobytes() == np.asarray(r2.value).tobytes()
        out = self.guarded(f)
        info = {'twice': out.get('ok')}
        conc = {'do': 'integrate', 'o': o, 'w': a, 'itype': st['itype'], 'num_err': out.get('err')}
        if 'ok' in out:
            out = {'ok': None}
        return conc, out, info

    def do_query(self, st):
        pred = None
        if st['m'] == 'auto':
            # choose the object first, then a query its class offers
            o = self.sel(st['o'])
            if o is None:
                return None, None, None
            pool = {'bandpass': ANY_QUERIES + BAND_QUERIES, 'reddening': LAW_QUERIES * 3 + ANY_QUERIES}.get(self.kinds[o], ANY_QUERIES)
            st = dict(st, m=pool[st.get('mi', 0) % len(pool)])
            pred = lambda i: i == o
        elif st['m'] in BAND_QUERIES:
            pred = lambda i: self.kinds[i] == 'bandpass'
        elif st['m'] in LAW_QUERIES:
            pred = lambda i: self.kinds[i] == 'reddening'
        o = self.sel(st['o'], pred)
        if o is None:
            return None, None, None
        arr, a = self.wave_arg(st)
        ob = self.objs[o]

        def call():
            if st['m'] == 'equivwidth':
                return ob.equivwidth(wavelengths=arr)
            if st['m'] == 'extinction_curve':
                # a query whose result is a new, independent object (fresh arrays): sample the law, 10^(-0.4 R E)
                c = ob.extinction_curve(O.fl(st.get('ebv', '1/4')), wavelengths=arr)
                return np.concatenate([np.asarray(c.model.points[0], dtype=float), np.asarray(c.model.lookup_table, dtype=float)])
            return getattr(ob, st['m'])(wavelengths=arr)

        def f():
            r1, r2 = call(), call()
            return np.asarray(getattr(r1, 'value', r1)).tobytes() == np.asarray(getattr(r2, 'value', r2)).tobytes()
        out = self.guarded(f)
        info = {'twice': out.get('ok')}
        conc = {'do': 'query', 'o': o, 'w': a, 'num_err': out.get('err'), 'm': st['m']}
        if 'ok' in out:
            out = {'ok': None}
        return conc, out, info

    def do_to_fits(self, st):
        o = self.sel(st['o'], lambda i: self.kinds[i] in ('source', 'bandpass', 'reddening'))
        if o is None:
            return None, None, None
        arr, a = self.wave_arg(st)
        kw = {}
        ext = None
        if st.get('ext') is not None and self.dicts:
            ext = st['ext'] % len(self.dicts)
            kw['ext_header'] = self.dicts[ext]
        if st.get('reuse') is not None and self.files:
            fn = self.files[st['reuse'] % len(self.files)]
        else:
            fn = os.path.join(self.tmp, 'f%d.fits' % len(self.files))
        if st.get('overwrite'):
            kw['overwrite'] = True
        out = self.guarded(lambda: self.objs[o].to_fits(fn, wavelengths=arr, **kw))
        if 'ok' in out and fn not in self.files:
            self.files.append(fn)
        conc = {'do': 'to_fits', 'o': o, 'w': a, 'ext': ext, 'io_err': out.get('err')}
        if 'ok' in out:
            out = {'ok': None}
        return conc, out, {'cls': type(self.objs[o]).__name__, 'ext': ext}

    def do_utility(self, st):
        from synphot import units, utils, binning, specio
        import astropy.units as u
        wi = self.arr_sel(st['w'], 'wave')
        if wi is None:
            return None, None, None
        n = len(self.desc[wi]['data'])
        fi = self.arr_sel(st['f'], 'flux_src', length=n)
        w2 = self.arr_sel(st['f'], 'wave')
        arrs, dicts = [wi], []
        m = st['m']
        if m == 'convert_flux' and fi is not None:
            arrs.append(fi)
            f = lambda: units.convert_flux(self.arrs[wi], self.arrs[fi], st['unit'], area=100 * units.AREA)
        elif m == 'merge_wavelengths' and w2 is not None:
            arrs.append(w2)
            f = lambda: utils.merge_wavelengths(arr_values(self.arrs[wi]), arr_values(self.arrs[w2]))
        elif m == 'calculate_bin_edges':
            f = lambda: binning.calculate_bin_edges(self.arrs[wi])
        elif m == 'write_fits_spec' and fi is not None and len(self.dicts) >= 1:
            arrs.append(fi)
            d1 = st['d1'] % len(self.dicts)
            d2 = st['d2'] % len(self.dicts)
            dicts = [d1, d2]
            fn = os.path.join(self.tmp, 'u%d.fits' % len(self.files))
            self.files.append(fn)
            wq = self.arrs[wi] if isinstance(self.arrs[wi], u.Quantity) else np.asarray(self.arrs[wi], dtype=float)
            fq = self.arrs[fi] if isinstance(self.arrs[fi], u.Quantity) else np.asarray(self.arrs[fi], dtype=float)
            f = lambda: specio.write_fits_spec(fn, wq, fq, pri_header=self.dicts[d1], ext_header=self.dicts[d2],
                                               overwrite=True)
        else:
            f = lambda: utils.validate_wavelengths(self.arrs[wi])
        out = self.guarded(f)
        conc = {'do': 'utility', 'arrs': arrs, 'dicts': dicts, 'out': out.get('err')}
        if 'ok' in out:
            out = {'ok': None}
        return conc, out, {}

    def do_set_z(self, st):
        o = self.sel(st['o'], lambda i: self.kinds[i] == 'source')
        if o is None:
            return None, None, None

        def f():
            self.objs[o].z = O.fl(st['z'])
        out = self.guarded(f)
        return {'do': 'set_z', 'o': o, 'z': st['z']}, out, {'o': o}

    def do_set_z_bad(self, st):
        import astropy.units as u
        o = self.sel(st['o'], lambda i: self.kinds[i] == 'source')
        if o is None:
            return None, None, None
        v = {'complex': 1 + 2j, 'str': '1', 'none': None, 'array': np.array([1.0, 2.0])}[st['kind']]

        def f():
            self.objs[o].z = v
        return {'do': 'set_z_bad', 'o': o}, self.guarded(f), {'o': o}

    def do_set_ztype(self, st):
        o = self.sel(st['o'], lambda i: self.kinds[i] == 'source')
        if o is None:
            return None, None, None

        def f():
            self.objs[o].z_type = st['t']
        return {'do': 'set_ztype', 'o': o, 't': st['t']}, self.guarded(f), {'o': o}

    def do_force_extrap(self, st):
        o = self.sel(st['o'])
        if o is None:
            return None, None, None
        out = self.guarded(lambda: self.objs[o].force_extrapolation())
        if 'ok' in out:
            out = {'ok': {'flag': bool(out['ok'])}}
        return {'do': 'force_extrap', 'o': o}, out, {'o': o}

    def do_set_warnings(self, st):
        o = self.sel(st['o'])
        if o is None:
            return None, None, None

        def f():
            self.objs[o].warnings = {k: json.loads(v) for k, v in st['w']}
        return {'do': 'set_warnings', 'o': o, 'w': st['w']}, self.guarded(f), {'o': o}

    def do_edit_meta_deep(self, st):
        """edit an object's metadata below the top level, in place: append to a nested list, set a key of a nested
        dict, mutate an element of a list, or replace a whole nested value.  For the (flat) model this is an
        assignment of the new value of the affected top-level entry."""
        o = self.sel(st['o'])
        if o is None:
            return None, None, None
        meta = self.objs[o].meta
        targets = nested_targets(meta)
        mode = st['mode']
        tag = st['tag']
        cands = {'append_list': [t for t in targets if isinstance(t[1], list)],
                 'set_dict_key': [t for t in targets if isinstance(t[1], dict)],
                 'mutate_elem': [t for t in targets if isinstance(t[1], list) and any(isinstance(x, dict) for x in t[1])],
                 'replace_nested': [t for t in targets if isinstance(t[1], dict) and t[1]]}[mode]
        if not cands:
            return None, None, None
        top, c = cands[st['n'] % len(cands)]

        def f():
            if mode == 'append_list':
                c.append({'added': tag})
            elif mode == 'set_dict_key':
                c['edited'] = tag
            elif mode == 'mutate_elem':
                for x in c:
                    if isinstance(x, dict):
                        x['file'] = tag
                        x['reviewed'] = True
            else:
                key = sorted(c)[0]
                c[key] = [tag]
        out = self.guarded(f)
        return {'do': 'set_meta', 'o': o, 'k': top, 'v': jcanon(meta[top]), 'deep': mode}, out, {'o': o}

    def do_set_meta(self, st):
        o = self.sel(st['o'])
        if o is None:
            return None, None, None

        def f():
            self.objs[o].meta[st['k']] = json.loads(st['v'])
        return {'do': 'set_meta', 'o': o, 'k': st['k'], 'v': st['v']}, self.guarded(f), {'o': o}

    # ---------------------------------------------------------------- after every call
    def sharing(self, o):
        """objects whose compound model contains the Empirical1D instance `force_extrapolation` would re-assign"""
        from synphot.models import Empirical1D
        m = self.objs[o]._model
        if not isinstance(m, Empirical1D):
            return set()
        return {i for i in range(len(self.objs)) if i not in self.dead
                and any(l is m for l in model_leaves(self.objs[i].model))}

    def reached_by_force(self, o):
        """the objects the documentation allows `force_extrapolation()` on #o to change: nothing unless #o was itself
        constructed on a table (a composite or analytic spectrum is not an Empirical1D: "only applicable to
        Empirical1D"); otherwise #o and every object built on that table"""
        t = self.own_table[o]
        if t is None:
            return set()
        return {i for i in range(len(self.objs)) if i not in self.dead and t in self.on_tables[i]}

    def allowed_before(self, conc, info):
        """what the documentation allows this call to modify in place: (objects whose samples may change,
        objects whose metadata may change), from the harness's own book-keeping of what was built on what."""
        d = conc['do']
        if d in ('set_z', 'set_ztype'):
            return {info['o']}, set()
        if d == 'force_extrap':
            return self.reached_by_force(info['o']), set()
        if d == 'normalize' and info['stat'].startswith('partial') and not (
                info['stat'] == 'partial_notmost' and not conc['force']):
            # only where renormalisation proceeds on a partial overlap; a call refused with PartialOverlap
            # (force=False, partial_notmost) or DisjointError must leave its operand exactly as it was
            return self.reached_by_force(info['o']), set()
        if d == 'observation' and info['stat'].startswith('partial') and str(conc['force']).lower().startswith('extrap') \
                and self.kinds[info['src']] == 'source':
            return self.reached_by_force(info['src']), set()
        if d in ('set_warnings', 'set_meta'):
            return set(), {info['o']}
        return set(), set()

    def observe(self, k, conc, out, info, allowed, n_before, last=False):
        """compare the world with its snapshot; record changes and oracle failures"""
        import astropy.units as u
        from synphot.config import conf
        d = conc['do']
        raised = 'err' in out
        rec = {'arr': [], 'dict': [], 'objs': [], 'meta_changed': [], 'meta': {}, 'samples': {}, 'kinds': {}, 'dflt': {}}
        clipped = set()
        for i, a in enumerate(self.arrs):
            s = arr_snapshot(a)
            if s != self.arr_snap[i]:
                self.arr_snap[i] = s
                rec['arr'].append([i, qs(arr_values(a).tolist())])
                clipped.add(i)
                self.fail('%s:caller_array_modified' % d,
                          'caller-owned %s #%d (%s) was modified by %s%s' % (
                              self.desc[i]['container'], i, self.desc[i]['role'], d, ' (which raised)' if raised else ''), k)
        for i, dd in enumerate(self.dicts):
            s = dict_canon(dd)
            if s != self.dict_snap[i]:
                added = [kv[0] for kv in s if kv not in self.dict_snap[i]]
                self.dict_snap[i] = s
                rec['dict'].append([i, s])
                role = 'ext_header' if d == 'to_fits' and info.get('ext') == i else 'dict'
                self.fail('%s:%s:caller_dict_modified' % (d, role),
                          'caller-owned dictionary #%d passed as %s to %s.%s gained/changed %s%s' % (
                              i, role, info.get('cls', ''), d, added, ' (the call raised)' if raised else ''), k)
        g = np.geterr()
        rec['np'] = 'default' if g == DEF_ERR else 'ignore' if all(v == 'ignore' for v in g.values()) else 'other'
        if g != DEF_ERR:
            self.fail('np.geterr:call_%s:left_%s' % ('raised_' + out['err'] if raised else 'returned',
                                                      'all_ignore' if rec['np'] == 'ignore' else 'changed'),
                      'np.geterr() is %s after %s%s' % (g, d, ' raised ' + out.get('cls', '') if raised else ''), k)
            np.seterr(**DEF_ERR)
        rs = registry_state(full=last)
        rec['units'] = 0 if rs == self.reg0[:len(rs)] else 1
        if rs != self.reg0[:len(rs)]:
            self.fail('%s:unit_registry_changed' % d, 'enabled units / equivalencies changed by %s' % d, k)
            u.set_enabled_units(list(self.reg_units))
            u.set_enabled_equivalencies(self.reg_equiv)
            self.reg0 = registry_state()
        rec['integ'] = conf.default_integrator
        if conf.default_integrator != self.integ0:
            self.fail('%s:conf.default_integrator_changed' % d,
                      'conf.default_integrator is %r after %s' % (conf.default_integrator, d), k)
            conf.default_integrator = self.integ0
        allow_s, allow_m = allowed
        for i in range(len(self.objs)):
            fp, vals = self.fingerprint(i)
            mc = None if i in self.dead else meta_canon(self.objs[i].meta)
            rdn = self.rd_new.get(i)
            if rdn is not None:
                rec['dflt'][str(i)] = rdn[1]
                if i < n_before and i in self.rd and rdn[0] != self.rd[i][0] and i not in allow_s:
                    self.fail('%s:default_wavelength_readings_changed' % d,
                              'waveset / waverange / integrate() / avgwave() of object #%d (%s) differ after %s%s, which '
                              'is not a documented mutator of it (%s -> %s)' % (
                                  i, self.kinds[i], d, ' (the call raised %s)' % out['err'] if raised else '',
                                  self.rd[i][1], rdn[1]), k)
                self.rd[i] = rdn
            if i >= n_before:
                rec['samples'][str(i)] = vals
                rec['meta'][str(i)] = mc
                rec['kinds'][str(i)] = self.kinds[i]
            else:
                if fp != self.fp[i]:
                    rec['objs'].append(i)
                    rec['samples'][str(i)] = vals
                    if i not in allow_s:
                        shares = any(self.shares_array(i, j) for j in clipped)
                        self.fail('%s:live_object_changed%s' % (d, ':shares_clipped_array' if shares else ''),
                                  'object #%d (%s) samples differently after %s%s, which is not a documented mutator of it%s' % (
                                      i, self.kinds[i], d, ' (the call raised %s)' % out['err'] if raised else '',
                                      ': its table is a view of the modified array' if shares else ''), k)
                if mc != self.meta_snap[i]:
                    rec['meta_changed'].append(i)
                    rec['meta'][str(i)] = mc
                    if i not in allow_m:
                        self.fail('%s:metadata_of_other_object_changed' % d,
                                  'metadata of object #%d changed by %s of another object' % (i, d), k)
            if i not in self.dead and (i >= n_before or mc != self.meta_snap[i] or i not in self.meta_real):
                self.meta_real[i] = copy.deepcopy(self.objs[i].meta)
            sta = None if i in self.dead else attr_state(self.objs[i])
            if i < n_before and sta != self.state[i] and i not in allow_s and i not in allow_m:
                # hidden state of a library object (a memo, a cache, a bookkeeping attribute) was written by a call
                # that is not a documented mutator of it.  That alone violates nothing the property lists: it is a
                # *trigger* for the directed follow-up, which tries to turn it into an observable difference
                self.triggers.append((i, state_diff(self.state[i], sta)))
            self.fp[i], self.meta_snap[i], self.state[i] = fp, mc, sta
        if info.get('twice') is False:
            self.fail('%s:evaluated_twice_differs' % d, 'the same call twice gave different values', k)
        return rec

    # ---------------------------------------------------------------- directed follow-up after a hidden write
    def answer(self, ob, m, grid, ebv):
        """canonical bytes of one query's answer (or its error class)"""
        def f():
            if m == '__call__':
                r = ob(grid)
            elif m == 'extinction_curve':
                c = ob.extinction_curve(ebv, wavelengths=grid)
                return np.concatenate([np.asarray(c.model.points[0], dtype=float),
                                       np.asarray(c.model.lookup_table, dtype=float)]).tobytes()
            elif m == 'integrate':
                r = ob.integrate(wavelengths=grid, integration_type='trapezoid')
            else:
                r = getattr(ob, m)(wavelengths=grid)
            return np.asarray(getattr(r, 'value', r), dtype=float).tobytes()
        r = self.guarded(f)
        return ('ok', r['ok']) if 'ok' in r else ('err', r['err'])

    def follow_up(self, k, st, conc, i, names):
        """Object #i had hidden state written by step k.  Try to make that observable: the same query again, the
        query with related arguments (same length and end points with other interior points, reversed order, the
        same numbers in another unit, another scalar), each answer compared bit for bit with the answer of a
        structurally identical FRESH object that never saw the earlier queries (rebuilt by replaying only the
        constructing / documented-mutator steps of the history in a new world); finally every live object is
        re-sampled.  Only an observable difference is a failure."""
        import astropy.units as u
        cls = type(self.objs[i]).__name__
        self.hidden_tags.append('hidden_write:' + cls)
        fresh_world = self.fresh_world(k)
        try:
            if len(fresh_world.objs) <= i or fresh_world.kinds[i] != self.kinds[i]:
                return              # the object cannot be rebuilt without the skipped calls: nothing to compare with
            live = self.objs[i]
            # grids: the one the triggering call used, and a pair inside the object's own range
            grids = []
            g0 = None
            if isinstance(conc.get('w'), dict):
                g0 = arr_values(self.arrs[conc['w']['w']]).copy()
                if self.desc[conc['w']['w']]['container'] in ('q_int', 'q_other'):
                    g0 = self.arrs[conc['w']['w']].to_value(u.AA)
            elif conc.get('do') == 'sample':
                g0 = np.asarray(self.arrs[conc['w']].to_value(u.AA) if hasattr(self.arrs[conc['w']], 'unit')
                                else self.arrs[conc['w']], dtype=float).copy()
            ws = self.guarded(lambda: None if live.waveset is None else live.waveset.value)
            lo, hi = (float(np.min(ws['ok'])), float(np.max(ws['ok']))) if ws.get('ok') is not None else (1200.0, 8800.0)
            t = np.linspace(0.0, 1.0, 6)
            g1 = lo + (hi - lo) * t
            g2 = lo + (hi - lo) * t ** 2            # same length, same end points, other interior points
            g2[-1] = g1[-1]
            if g0 is not None:
                grids += [('same', g0), ('same again', g0)]
                if len(g0) >= 3:
                    gi = np.array(g0, dtype=float)
                    gi[1:-1] = gi[0] + (gi[1:-1] - gi[0]) * 0.75 if gi[-1] != gi[0] else gi[1:-1]
                    grids.append(('same ends, other interior', gi))
                grids += [('reversed', g0[::-1].copy()), ('in nm', (g0 / 10.0) * u.nm)]
            else:
                grids += [('default', None), ('default again', None)]
            grids += [('linear', g1), ('same ends, other interior (quadratic)', g2), ('linear reversed', g1[::-1].copy()),
                      ('linear in nm', (g1 / 10.0) * u.nm)]
            methods = ['__call__', 'avgwave', 'integrate']
            if self.kinds[i] == 'bandpass':
                methods += ['tpeak', 'equivwidth']
            if self.kinds[i] == 'reddening':
                methods += ['extinction_curve']
            m0 = conc.get('m') if conc.get('do') == 'query' else None
            if m0 and m0 not in methods:
                methods.append(m0)
            ebv0 = O.fl(st.get('ebv', '1/4'))
            done = []
            for m in methods:
                for e in ([ebv0, ebv0 + 0.25] if m == 'extinction_curve' else [None]):
                    for gname, g in grids:
                        if m == '__call__' and g is None:
                            continue
                        a_live = self.answer(live, m, g, e)
                        a_fresh = self.answer(copy.deepcopy(fresh_world.objs[i]), m, g, e)
                        done.append({'m': m, 'grid': gname, 'ebv': e})
                        if a_live != a_fresh:
                            self.fail('%s:result_depends_on_earlier_call:%s' % (m, cls),
                                      'after step %d (%s) wrote %s on object #%d, %s(%s%s) on it differs from the answer '
                                      'of a fresh identical object that never saw the earlier calls (%s vs %s)'
                                      % (k, conc.get('m', conc['do']), names, i, m, gname,
                                         '' if e is None else ', E=%g' % e, a_live[0], a_fresh[0]), k)
                            self.followups.append({'step': k, 'object': i, 'queries': done})
                            return
            # each documented mutator once, on a private copy of the live object (hidden state included) and on a
            # copy of the fresh twin alike, followed by the default-wavelength readings and the samples
            for which in ('z', 'z_type', 'force_extrapolation', 'meta'):
                a_live = self.mutate_and_read(copy.deepcopy(live), self.kinds[i], which)
                a_fresh = self.mutate_and_read(copy.deepcopy(fresh_world.objs[i]), self.kinds[i], which)
                done.append({'mutator': which})
                if a_live != a_fresh:
                    self.fail('%s:result_depends_on_earlier_call:%s' % (which, cls),
                              'after step %d (%s) wrote %s on object #%d: assigning %s and then reading waveset / waverange / '
                              'integrate() / samples gives something else than on a fresh identical object that never saw '
                              'the earlier calls' % (k, conc.get('m', conc['do']), names, i, which), k)
                    self.followups.append({'step': k, 'object': i, 'queries': done})
                    return
            self.followups.append({'step': k, 'object': i, 'queries': len(done)})
        finally:
            fresh_world.close()
            np.seterr(**DEF_ERR)

    def fresh_world(self, k):
        """a new world in which only the constructing / documented-mutator steps 0..k of the history have run: its
        objects are structurally identical to the live ones, carry the same final attribute values, and never saw
        any query"""
        fw = World(self.case)
        for j, sj in enumerate(self.case['steps'][:k + 1]):
            if sj['do'] in BUILDING_STEPS:
                fw.run_step(j, sj)
        return fw

    def log_force(self, o):
        """forced extrapolation of the Empirical1D under object o reaches every object whose compound model contains
        that instance: record, for each of them, which of its model instances was switched"""
        from synphot.models import Empirical1D
        m = self.objs[o]._model
        if not isinstance(m, Empirical1D):
            return
        reach = self.reached_by_force(o)
        for j in range(len(self.objs)):
            if j in self.dead or self.pristine[j] is None or j not in reach:
                continue
            for idx, l in enumerate(model_leaves(self.objs[j]._model)):
                if l is m:
                    self.mutlog[j].append(('force', idx))

    def log_mutation(self, conc, info, out):
        """record the documented mutator a step applied (its own assignments, and the forced extrapolation of
        force_extrapolation / normalize / Observation(force='extrap') on the table under their operand)"""
        d = conc['do']
        if 'err' in out and d in ('set_z', 'set_ztype'):
            return
        if d == 'set_z':
            self.mutlog[info['o']].append(('z', O.fl(conc['z'])))
        elif d == 'set_ztype':
            self.mutlog[info['o']].append(('z_type', conc['t']))
        elif d == 'force_extrap':
            self.log_force(info['o'])
        elif d == 'normalize' and info['stat'].startswith('partial') and not (info['stat'] == 'partial_notmost' and not conc['force']):
            self.log_force(info['o'])
        elif d == 'observation' and info['stat'].startswith('partial') and str(conc['force']).lower().startswith('extrap') \
                and self.kinds[info['src']] == 'source':
            self.log_force(info['src'])

    def twin(self, o):
        """a fresh object structurally identical to #o and carrying the same final attribute values: a copy of the
        copy taken at construction, with the documented mutators that have reached #o replayed on it; never queried"""
        if self.pristine[o] is None:
            return None
        t = copy.deepcopy(self.pristine[o])
        for m in self.mutlog[o]:
            if m[0] == 'z':
                t.z = m[1]
            elif m[0] == 'z_type':
                t.z_type = m[1]
            else:
                model_leaves(t._model)[m[1]].fill_value = np.nan
        return t

    def check_assigned(self, k, conc, info):
        """after z / z_type / force_extrapolation has been assigned on object o: its default-wavelength readings and
        its samples must equal those of a fresh twin built with the final attribute values"""
        o = info.get('o')
        if o is None or o in self.dead or self.bad[o]:
            return
        twin = self.guarded(lambda: self.twin(o)).get('ok')
        if twin is None:
            return
        light = self.has_bb(o)
        r_live = self.rd_new.get(o) or self.readings(self.objs[o], self.kinds[o], light)
        r_twin = self.readings(twin, self.kinds[o], light)
        if r_live[0] != r_twin[0]:
            self.fail('%s:readings_depend_on_earlier_queries' % conc['do'],
                      'after %s on object #%d its waveset / waverange / integrate() / avgwave() are %s; a fresh identical '
                      'object given the same final attribute values (and never queried before) reads %s'
                      % (conc['do'], o, r_live[1], r_twin[1]), k)
        s_live = self.guarded(lambda: np.asarray(self.objs[o](self.probe).value).tobytes())
        s_twin = self.guarded(lambda: np.asarray(twin(self.probe).value).tobytes())
        if s_live.get('ok') != s_twin.get('ok'):
            self.fail('%s:samples_depend_on_earlier_calls' % conc['do'],
                      'after %s object #%d samples differently from a fresh identical object with the same final '
                      'attribute values' % (conc['do'], o), k)

    def mutate_and_read(self, ob, kind, which):
        """apply one documented mutator to `ob` (a private copy) and take its default-wavelength readings"""
        def f():
            if which == 'z' and kind == 'source':
                ob.z = 1.0 if ob.z != 1.0 else 3.0
            elif which == 'z_type' and kind == 'source':
                ob.z_type = 'conserve_flux' if ob.z_type != 'conserve_flux' else 'wavelength_only'
            elif which == 'force_extrapolation':
                ob.force_extrapolation()
            elif which == 'meta':
                ob.meta['followup'] = 'edited'
        e = self.guarded(f)
        if 'err' in e:
            return ('err', e['err'])
        return self.readings(ob, kind)[0], self.guarded(lambda: np.asarray(ob(self.probe).value).tobytes()).get('ok')

    def after_follow_up(self, k, conc):
        """every live object must still sample as before the follow-up queries"""
        for i in range(len(self.objs)):
            fp, _ = self.fingerprint(i)
            if fp != self.fp[i]:
                self.fail('%s:followup:live_object_changed' % conc['do'],
                          'object #%d (%s) samples differently after the follow-up queries of step %d' % (i, self.kinds[i], k), k)
            self.fp[i] = fp
            self.state[i] = None if i in self.dead else attr_state(self.objs[i])

    def shares_array(self, i, j):
        from synphot.models import Empirical1D
        a = self.arrs[j]
        if isinstance(a, list):
            return False
        buf = a.value if hasattr(a, 'unit') else a
        for l in model_leaves(self.objs[i].model):
            if isinstance(l, Empirical1D) and np.shares_memory(l.lookup_table, buf):
                return True
        return False

    def fail(self, sig, msg, k):
        self.failures.append((sig, msg, k))

    # ---------------------------------------------------------------- metadata of results (oracle)
    def check_result_meta(self, k, conc, out, info, real_before):
        """result metadata = astropy-merge of deep copies of the operands' metadata minus header / expr (+ the
        library's own warning); computed on the real values the operands had before the call"""
        d = conc['do']
        if 'ok' not in out or not isinstance(out['ok'], dict):
            return
        lib = None
        if d in ('arith', 'rmul') and 'obj' in out['ok']:
            A = real_before[info['a']]
            B = real_before[info['b']] if info.get('b') is not None else {}
            if info.get('b') is not None and self.kinds[info['a']] != 'source' and self.kinds[info['b']] == 'source' \
                    and conc.get('op') == 'mul':
                A, B = B, A
            want = merge_values(clean_values(A), clean_values(B))
            rid = out['ok']['obj']
        elif d == 'normalize' and 'obj' in out['ok']:
            want = merge_values(clean_values(real_before[info['o']]), {})
            lib = 'PartialRenorm' if info['stat'].startswith('partial') else None
            rid = out['ok']['obj']
        elif d == 'observation':
            if 'objs' in out['ok']:
                s, rid = out['ok']['objs']
                S = self.objs[s].meta
            else:
                rid = out['ok']['obj']
                S = real_before[info['src']]
            want = merge_values(clean_values(S), clean_values(real_before[info['band']]))
            lib = 'PartialOverlap' if info['stat'].startswith('partial') else None
        else:
            return
        # BaseSpectrum.__init__ first gives a new object the merged metadata of its model instances (get_metadata,
        # cleaned for a compound model); the operator then merges the operands' metadata onto that
        # (an Observation goes through both steps twice: for `spec * band` and for itself)
        M = {}
        for l in model_leaves(self.objs[rid]._model):
            M = merge_values(M, dict(getattr(l, 'meta', {}) or {}))
        want = merge_values(clean_values(M), want)
        if d == 'observation':
            want = merge_values(clean_values(M), want)
        # astropy concatenates list-valued entries at every merge (model instances, then operands; an Observation
        # twice), so how often an element is repeated says nothing about the operands: lists are compared as the set
        # of their elements
        def as_set(v):
            if isinstance(v, dict):
                return {a: as_set(b) for a, b in v.items()}
            if isinstance(v, list):
                return sorted({jcanon(as_set(x)) for x in v})
            return v
        want = meta_canon(as_set(want))
        if lib:
            want['warnings'][lib] = '<lib>'
        got = meta_canon(as_set(copy.deepcopy(self.objs[rid].meta)))
        if got != want:
            what = 'header_or_expr_kept' if any(x in got['entries'] for x in ('header', 'expr')) else 'not_the_merge'
            self.fail('%s:result_metadata:%s' % (d, what),
                      'metadata of the result is %s, merge of the operands (minus header/expr) is %s' % (got, want), k)

    def close(self):
        np.seterr(**DEF_ERR)
        shutil.rmtree(self.tmp, ignore_errors=True)


BAND_QUERIES = ('tpeak', 'wpeak', 'equivwidth', 'rectwidth', 'efficiency', 'rmswidth', 'photbw')
ANY_QUERIES = ('avgwave', 'pivot', 'barlam')
LAW_QUERIES = ('extinction_curve',)
# the steps that build objects or are documented mutators: replayed to obtain a fresh identical object
BUILDING_STEPS = ('edit_meta_deep', 'new_empirical', 'new_analytic', 'new_blackbody', 'arith', 'rmul', 'normalize', 'taper', 'observation',
                  'set_z', 'set_z_bad', 'set_ztype', 'force_extrap', 'set_warnings', 'set_meta')


def impl_call(case):
    core.quiet()
    fast_unit_errors()
    w = World(case)
    steps = []
    try:
        for k, st in enumerate(case['steps']):
            n_before = len(w.objs)
            real_before = dict(w.meta_real)      # deep copies taken when each object's metadata last changed
            # operands are resolved first so that the documented write-set is read off the graph as it is
            # *before* the call; `run_step` resolves the same way
            conc, out, info = w.run_step(k, st)
            if conc is None:
                steps.append(None)
                continue
            # `allowed` must describe the pre-state: recompute sharing now is safe because sharing is a
            # property of the object graph, which no call rewires (objects' `_model` is never re-assigned;
            # the bit-comparison below would catch it)
            allowed = w.allowed_before(conc, info or {})
            w.triggers = []
            rec = w.observe(k, conc, out, info or {}, allowed, n_before, last=(k == len(case['steps']) - 1))
            w.check_result_meta(k, conc, out, info or {}, real_before)
            w.log_mutation(conc, info or {}, out)
            if conc['do'] in ('set_z', 'set_ztype', 'force_extrap') and 'err' not in out:
                w.check_assigned(k, conc, info or {})
            if w.triggers and not case.get('_fresh'):
                for i, names in w.triggers[:3]:
                    w.follow_up(k, st, conc, i, names)
                w.after_follow_up(k, conc)
            rec['out'] = {kk: v for kk, v in out.items() if kk in ('ok', 'err')}
            steps.append({'conc': conc, 'rec': rec, 'msg': out.get('msg')})
        return {'ok': steps, 'failures': w.failures, 'scale': w.scale, 'hidden': w.hidden_tags, 'followups': w.followups}
    finally:
        w.close()


# ------------------------------------------------------------------ comparison with the model
def model_case(case, impl):
    steps = [s['conc'] for s in impl['ok'] if s is not None]
    arrays = [{'data': a['data'], 'container': a['container']} for a in case['arrays']]
    mc = {'op': 'heap_history', 'const': case['const'], 'thr': q(O.THR), 'probe': case['probe'], 'arrays': arrays,
          'dicts': case['dicts'], 'steps': steps}
    if os.environ.get('C19_FIXES') is not None:
        # scratch-worktree runs against another code version: the model version that contains exactly the named
        # repairs (normal runs use Fixes.current of lean/Synphot/Core/Heap.lean = all three)
        mc['fixes'] = os.environ['C19_FIXES']
    return mc


def compare(case, impl, model):
    if 'ok' not in model:
        return 'model: %s' % model
    isteps = [s for s in impl['ok'] if s is not None]
    if len(isteps) != len(model['ok']):
        return 'step count %d vs %d' % (len(isteps), len(model['ok']))
    atol = 1e-11 * impl.get('scale', 0.0)
    mread = {}      # the model's default-wavelength readings of every object, as of its last change
    for n, (s, m) in enumerate(zip(isteps, model['ok'])):
        mread.update(m.get('dflt', {}))
        r = compare_readings(s['rec'].get('dflt', {}), mread, 'step[%d:%s]' % (n, s['conc']['do']), atol)
        if r:
            return r
        rec, conc = s['rec'], s['conc']
        where = 'step[%d:%s]' % (n, conc['do'])
        # outcome
        io, mo = rec['out'], m['out']
        if mo.get('err') == 'NaN' or (isinstance(mo.get('ok'), dict) and 'vals' in mo['ok'] and mo['ok']['vals'] is None):
            # the model refuses to sample where a division by zero occurs (NumPy yields inf/nan *values*, which a
            # later operation may turn into finite numbers again: 1/inf = 0), as in C02;
            # sampling an object whose numbers the model does not know (black body, ...): only the class
            if 'ok' in io or io.get('err') == 'NaN':
                io = mo = {'ok': None}
        if ('err' in io) != ('err' in mo) or ('err' in io and io['err'] != mo['err']):
            return '%s: outcome impl %s (%s) vs model %s' % (where, core._short(io), s.get('msg'), core._short(mo))
        if 'ok' in io and isinstance(io['ok'], dict):
            if not isinstance(mo['ok'], dict):
                return '%s: result impl %s vs model %s' % (where, core._short(io), core._short(mo))
            for key in ('obj', 'objs', 'flag'):
                if key in io['ok'] and io['ok'][key] != mo['ok'].get(key):
                    return '%s: result impl %s vs model %s' % (where, core._short(io), core._short(mo))
            if 'vals' in io['ok'] and mo['ok'].get('vals') is not None:
                r = core.same(io['ok']['vals'], mo['ok']['vals'], rtol=1e-9, atol=atol, path=where + '.vals')
                if r:
                    return r
        # caller-owned state: exact
        if rec['arr'] != m['arr']:
            return '%s: caller arrays changed: impl %s vs model %s' % (where, core._short(rec['arr']), core._short(m['arr']))
        if [[i, [list(kv) for kv in d]] for i, d in rec['dict']] != m['dict']:
            return '%s: caller dicts changed: impl %s vs model %s' % (where, core._short(rec['dict']), core._short(m['dict']))
        if rec['np'] != m['np']:
            return '%s: np.geterr(): impl %s vs model %s' % (where, rec['np'], m['np'])
        if rec['units'] != m['units'] or rec['integ'] != m['integ']:
            return '%s: registry/config: impl %s,%s vs model %s,%s' % (where, rec['units'], rec['integ'], m['units'], m['integ'])
        # which live objects changed: everything the implementation changed must be predicted
        extra = [i for i in rec['objs'] if i not in m['objs']]
        if extra:
            return '%s: objects %s re-sample differently, model predicts changes only for %s' % (where, extra, m['objs'])
        mchg = list(m['meta_changed'])
        if conc.get('deep') and conc.get('o') in mchg and conc.get('o') not in rec['meta_changed']:
            # a deep edit that left the nested value as it was (the same tag written again): the flat model does not
            # keep the list- / dict-valued entries of composites (astropy's recursive merge) and so sees an assignment
            mchg.remove(conc['o'])
        if sorted(rec['meta_changed']) != sorted(mchg):
            return '%s: metadata changed for %s, model predicts %s' % (where, rec['meta_changed'], m['meta_changed'])
        for i, mc in rec['meta'].items():
            mm = m['meta'].get(i)
            if mm is None:
                return '%s: no model metadata for object %s' % (where, i)
            mm = {'warnings': dict(map(tuple, mm['warnings'])), 'entries': dict(map(tuple, mm['entries']))}
            # the model's metadata is flat (strings, the right operand wins a conflict): entries whose value is a
            # list or dict are merged by astropy recursively / by concatenation, which only the implementation-side
            # oracle `result_metadata` checks; they are left out of the comparison with the model
            structured = {kk for kk, vv in list(mc['entries'].items()) + list(mm['entries'].items())
                          if kk != 'header' and vv[:1] in ('[', '{')}
            if structured:
                mm = dict(mm, entries={kk: vv for kk, vv in mm['entries'].items() if kk not in structured})
                mc = dict(mc, entries={kk: vv for kk, vv in mc['entries'].items() if kk not in structured})
            if mm != mc:
                return '%s: metadata of object %s: impl %s vs model %s' % (where, i, mc, mm)
        for i, kd in rec['kinds'].items():
            if m['kinds'].get(i) != kd:
                return '%s: class of object %s: impl %s vs model %s' % (where, i, kd, m['kinds'].get(i))
        for i, v in rec['samples'].items():
            mv = m['samples'].get(i)
            if mv is None or v is None:
                continue        # numbers unknown to the model (black body, renormalisation factor not given)
            if isinstance(mv, dict) and mv.get('err') == 'NaN':
                continue        # division by zero somewhere in the tree: see above
            if isinstance(v, dict) or isinstance(mv, dict):
                if not (isinstance(v, dict) and isinstance(mv, dict) and v.get('err') == mv.get('err')):
                    return '%s: samples of object %s: impl %s vs model %s' % (where, i, core._short(v), core._short(mv))
                continue
            r = core.same(v, mv, rtol=1e-9, atol=atol, path='%s.samples[%s]' % (where, i))
            if r:
                return r
    return None


def compare_readings(impl, mread, where, atol):
    for i, v in impl.items():
        mv = mread.get(i)
        if mv is None or v is None:
            continue
        if 'err' in v or 'err' in mv:
            if v.get('err') != mv.get('err'):
                return '%s: waveset of object %s: impl %s vs model %s' % (where, i, v, core._short(mv))
            continue
        if v.get('none') or mv.get('none'):
            if not (v.get('none') and mv.get('none')):
                return '%s: waveset of object %s: impl %s vs model %s' % (where, i, v, core._short(mv))
            continue
        if v['n'] != mv['n']:
            return '%s: waveset of object %s has %d points, model %d' % (where, i, v['n'], mv['n'])
        for key in ('lo', 'hi', 'integ', 'avg'):
            if v.get(key) is None or mv.get(key) is None:
                continue
            r = core.same(v[key], mv[key], rtol=1e-9, atol=atol if key in ('integ',) else 0.0,
                          path='%s.dflt[%s].%s' % (where, i, key))
            if r:
                return r
    return None


# ------------------------------------------------------------------ generators
def gen_pool(rng):
    arrays = []
    ngroups = rng.randint(2, 3)
    for g in range(ngroups):
        n = rng.choice([1, 2, 3, 4, 5, 6, 8]) if rng.random() < 0.9 else 1
        n = max(n, 1)
        xs = sorted({O.dy(rng, 900, 9000, 3) for _ in range(n)})
        while len(xs) < n:
            xs = sorted(set(xs) | {O.dy(rng, 900, 9000, 3)})
        desc = rng.random() < 0.4
        for cont, unit in [('ndarray', None)] + rng.sample([('list', None), ('q_int', 'AA'), ('q_other', 'nm')], rng.randint(0, 2)):
            v = [x / 10 if unit == 'nm' else x for x in xs]
            if desc:
                v = v[::-1]
            arrays.append({'data': qs(v), 'container': cont, 'unit': unit, 'role': 'wave', 'valid': True})
        desc = False
        for role in ('flux_src', 'flux_src', 'flux_band'):
            for _ in range(rng.randint(1, 2)):
                vals = []
                for _k in range(n):
                    r = rng.random()
                    if r < 0.12:
                        vals.append(F(0))
                    elif r < 0.35:
                        vals.append(-O.dy(rng, 0, 4, 4) - F(1, 16))
                    else:
                        vals.append(O.dy(rng, 0, 4 if role == 'flux_src' else 1, 4) + F(1, 16))
                if rng.random() < 0.2:
                    vals[0] = vals[-1] = F(0)
                if role == 'flux_src':
                    cont, unit = rng.choice([('ndarray', None), ('ndarray', None), ('list', None), ('q_int', 'photlam'),
                                             ('q_other', 'flam')])
                    if unit == 'flam':
                        vals = [v / 2 ** 40 for v in vals]
                else:
                    cont, unit = rng.choice([('ndarray', None), ('ndarray', None), ('list', None), ('q_int', 'dimless'),
                                             ('q_other', 'percent')])
                arrays.append({'data': qs(vals), 'container': cont, 'unit': unit, 'role': role})
    # wavelength arrays that validate_wavelengths refuses
    bad = rng.choice([[F(0), F(1000), F(2000)], [F(3000), F(1000), F(2000)], [F(1000), F(1000), F(2000)],
                      [F(-5), F(10)]])
    arrays.append({'data': qs(bad), 'container': rng.choice(['ndarray', 'list']), 'unit': None, 'role': 'wave',
                   'valid': False})
    # a sampling grid inside every table
    arrays.append({'data': qs(O.sample_grid(rng, rng.randint(2, 6), 1000, 8800)), 'container': rng.choice(['ndarray', 'q_int']),
                   'unit': 'AA', 'role': 'wave', 'valid': True, 'grid': True})
    ha = [{'step': 'load', 'file': 'a%d.fits' % rng.randint(0, 9)}]
    hb = [{'step': 'load', 'file': 'b%d.fits' % rng.randint(0, 9)}, {'step': 'scale', 'by': 2}]
    dicts = [
        [['history', jcanon('mine')], ['tdisp1', jcanon('F8.3')]] if rng.random() < 0.5 else [['observer', jcanon('me')]],
        # nested mutable values (lists of dicts, dicts of lists), the same key on several dictionaries with equal and
        # with different values, alongside flat entries
        [['expr', jcanon('em(%d)' % rng.randint(1, 9))], ['note', jcanon('n%d' % rng.randint(0, 9))], ['history', jcanon(ha)]],
        [['header', jcanon({'SIMPLE': 'T', 'N': rng.randint(0, 9)})], ['expr', jcanon('band(x)')], ['owner', jcanon('cal')],
         ['history', jcanon(hb)], ['tags', jcanon({'seen': ['x'], 'n': 1})]],
        [['history', jcanon(ha)], ['tags', jcanon({'seen': ['y'], 'by': {'who': 'me'}})], ['note', jcanon('shared')]],
        [],
    ]
    rng.shuffle(dicts)
    return arrays, dicts[:rng.randint(3, 5)]


def gen_leaf(rng, kind):
    if kind == 'bandpass':
        r = rng.random()
        if r < 0.7:
            x0 = O.dy(rng, 2000, 8000, 2)
            w = O.dy(rng, 200, int(x0), 2)          # the default sampling set stays at positive wavelengths
            return {'leaf': 'box', 'amp': q(O.dy(rng, 0.0625, 1, 4)), 'x0': q(x0), 'width': q(w),
                    'step': q(w / rng.choice([4, 8, 16]))}
        return {'leaf': 'const1', 'amp': q(O.dy(rng, 0.0625, 2, 4))}
    r = rng.random()
    if r < 0.45:
        return {'leaf': 'constflux', 'amp': q(O.dy(rng, 0.0625, 8, 4)), 'unit_name': rng.choice(['photlam', 'flam'])}
    if r < 0.8:
        x0 = O.dy(rng, 3000, 7000, 2)
        w = O.dy(rng, 500, int(x0), 2)
        return {'leaf': 'box', 'amp': q(O.dy(rng, 0.0625, 8, 4)), 'x0': q(x0), 'width': q(w),
                'step': q(w / rng.choice([4, 8, 16]))}
    return {'leaf': 'gaussian', 'amp': q(O.dy(rng, 0.0625, 8, 4)), 'mean': q(O.dy(rng, 4000, 7000, 2)), 'sd': q(O.dy(rng, 50, 300, 2))}


def S(rng):
    return rng.randint(0, 10 ** 6)


def gen_fill(rng):
    """fill_value= of Empirical1D, independent of the table's end values: absent (45 %), 0, another number, NaN"""
    r = rng.random()
    return None if r < 0.45 else '0' if r < 0.75 else q(rng.choice([F(1, 2), F(3, 4), F(2)])) if r < 0.9 else 'nan'


def gen_probe(rng):
    """probe wavelengths inside and well OUTSIDE every table (tables span 900..9000 A, up to x8 when redshifted)"""
    inside = O.sample_grid(rng, 4, 1000, 9000)
    return qs(sorted(set(inside) | {O.dy(rng, 150, 800, 2), O.dy(rng, 9500, 14000, 2), O.dy(rng, 20000, 60000, 0), F(150000)}))


def zinit(rng, st):
    """constructor keywords z=, z_type= on 45 % of the sources (non-zero z; both redshift behaviours)"""
    if st.get('kind', 'source') == 'source' and rng.random() < 0.45:
        st['z'] = q(rng.choice([z for z in ZS if z != 0]))
        r = rng.random()
        if r < 0.55:
            st['ztype'] = 'conserve_flux'
        elif r < 0.75:
            st['ztype'] = 'wavelength_only'
    return st


def opt_w(rng, p=0.5):
    return S(rng) if rng.random() < p else None


def gen_step(rng, k):
    r = rng.random()
    if k < 2 and rng.random() < 0.85:
        # most histories start with a source and a bandpass, so that normalize / Observation have operands
        kind = 'source' if k == 0 else 'bandpass'
        if rng.random() < 0.3:
            return zinit(rng, {'do': 'new_analytic', 'kind': kind, 'leaf': gen_leaf(rng, kind)})
        return zinit(rng, {'do': 'new_empirical', 'kind': kind, 'x': S(rng), 'y': S(rng), 'keep_neg': rng.random() < 0.35,
                           'meta': S(rng) if rng.random() < 0.65 else None, 'fill': gen_fill(rng)})
    if r < 0.10:
        return zinit(rng, {'do': 'new_empirical', 'kind': rng.choice(['source', 'source', 'bandpass', 'bandpass', 'reddening', 'reddening']),
                           'x': S(rng), 'y': S(rng), 'keep_neg': rng.random() < 0.35,
                           'meta': S(rng) if rng.random() < 0.65 else None, 'fill': gen_fill(rng)})
    if r < 0.19:
        kind = rng.choice(['source', 'bandpass', 'bandpass'])
        return zinit(rng, {'do': 'new_analytic', 'kind': kind, 'leaf': gen_leaf(rng, kind)})
    if r < 0.23:
        t = rng.choice([F(5000), F(12000), F(300), F(-5), F(-300)]) if rng.random() < 0.6 else F(rng.choice([3000, 6000, 9000]))
        return zinit(rng, {'do': 'new_blackbody', 'temp': q(t)})
    if r < 0.32:
        return {'do': 'sample', 'o': S(rng), 'w': S(rng)}
    if r < 0.43:
        rb = rng.random()
        if rb < 0.6:
            b = {'sel': S(rng)}
        elif rb < 0.9:
            b = dict(rng.choice(UNIT_FACTORS)) if rng.random() < 0.25 else O.gen_scalar(rng, valid=True)
        else:
            b = {'bad': rng.choice(BAD_OPERANDS)[0]}
        return {'do': 'arith', 'op': rng.choice(['mul', 'mul', 'mul', 'add', 'sub', 'div']), 'a': S(rng), 'b': b}
    if r < 0.45:
        return {'do': 'rmul', 'v': q(rng.choice([F(2), F(1, 2), F(3)])), 'a': S(rng)}
    if r < 0.53:
        return {'do': 'normalize', 'o': S(rng), 'band': S(rng), 'force': rng.random() < 0.5, 'wild': rng.random() < 0.1,
                'val': rng.choice(['flam', 'flam', 'photlam', 'abmag', 'number', 'count'])}
    if r < 0.58:
        return {'do': 'taper', 'o': S(rng)}
    if r < 0.69:
        return {'do': 'observation', 'src': S(rng), 'band': S(rng), 'wild': rng.random() < 0.1,
                'force': rng.choice(['none', 'none', 'extrap', 'extrap', 'taper', 'taper', 'Extrap', 'bogus']),
                'binset': opt_w(rng, 0.5)}
    if r < 0.74:
        return {'do': 'integrate', 'o': S(rng), 'w': opt_w(rng), 'itype': rng.choice(['default', 'trapezoid', 'trapezoid', 'analytical', 'simpson'])}
    if r < 0.80:
        return {'do': 'query', 'o': S(rng), 'w': opt_w(rng), 'm': rng.choice(('auto',) * 12 + ANY_QUERIES + BAND_QUERIES + LAW_QUERIES), 'mi': S(rng),
                'ebv': q(rng.choice([F(1, 4), F(1, 2), F(-1, 4), F(0)]))}
    if r < 0.86:
        return {'do': 'to_fits', 'o': S(rng), 'w': opt_w(rng, 0.3), 'ext': S(rng) if rng.random() < 0.7 else None,
                'reuse': S(rng) if rng.random() < 0.3 else None, 'overwrite': rng.random() < 0.4}
    if r < 0.89:
        return {'do': 'utility', 'm': rng.choice(['convert_flux', 'merge_wavelengths', 'calculate_bin_edges', 'write_fits_spec',
                                                  'validate_wavelengths']), 'w': S(rng), 'f': S(rng), 'd1': S(rng), 'd2': S(rng),
                'unit': rng.choice(['flam', 'fnu', 'photnu', 'count', 'abmag'])}
    if r < 0.92:
        return {'do': 'set_z', 'o': S(rng), 'z': q(rng.choice(ZS))}
    if r < 0.93:
        return {'do': 'set_z_bad', 'o': S(rng), 'kind': rng.choice(BAD_Z)}
    if r < 0.95:
        return {'do': 'set_ztype', 'o': S(rng), 't': rng.choice(['conserve_flux', 'wavelength_only', 'conserve_flux', 'bogus'])}
    if r < 0.97:
        return {'do': 'force_extrap', 'o': S(rng)}
    if r < 0.985:
        return {'do': 'set_warnings', 'o': S(rng), 'w': [[rng.choice(['mine', 'calib', 'seen']), jcanon('w%d' % rng.randint(0, 9))]]}
    if rng.random() < 0.5:
        return gen_deep_edit(rng, S(rng))
    return {'do': 'set_meta', 'o': S(rng), 'k': rng.choice(['note', 'expr', 'header', 'owner', 'tag', 'history']),
            'v': jcanon('v%d' % rng.randint(0, 9))}


UNIT_FACTORS = [{'scalar': 'int', 'v': '1'}, {'scalar': 'float', 'v': '1'}, {'scalar': 'bool', 'v': '1'},
                {'scalar': 'npfloat', 'v': '1'}, {'scalar': 'npint', 'v': '1'}, {'scalar': 'quantity', 'v': '1'}]


def gen_unit_scale(rng, a):
    """`x * 1`, `x / 1`, `1 * x` with the factor one in every spelling: the result is a NEW composite"""
    if rng.random() < 0.15:
        return {'do': 'rmul', 'v': '1', 'a': a}
    return {'do': 'arith', 'op': rng.choice(['mul', 'mul', 'div']), 'a': a, 'b': dict(rng.choice(UNIT_FACTORS))}


def mutators_on_result(rng):
    """the mutators the property names, applied to the newest object (the result of the preceding step)"""
    out = []
    r = rng.random()
    if r < 0.35:
        out.append({'do': 'force_extrap', 'o': -1})
    elif r < 0.65:
        out.append({'do': 'new_analytic', 'kind': 'bandpass',
                    'leaf': {'leaf': 'box_rel', 'rel': rng.choice(['high', 'low']), 'amp': q(O.dy(rng, 0.25, 1, 2))}})
        out.append({'do': 'observation', 'src': 'src', 'band': -1, 'wild': False, 'binset': None, 'force': 'extrap'})
    else:
        out.append({'do': 'new_analytic', 'kind': 'bandpass',
                    'leaf': {'leaf': 'box_rel', 'rel': rng.choice(['high', 'low']), 'amp': q(O.dy(rng, 0.25, 1, 2))}})
        out.append({'do': 'normalize', 'o': 'src', 'band': -1, 'force': True, 'wild': False, 'val': rng.choice(['flam', 'photlam'])})
    return out


def gen_deep_edit(rng, o):
    return {'do': 'edit_meta_deep', 'o': o, 'n': S(rng), 'tag': 'E%d' % rng.randint(0, 99),
            'mode': rng.choice(['append_list', 'set_dict_key', 'mutate_elem', 'mutate_elem', 'replace_nested'])}


def follow_ups(rng, st):
    """after a call that builds a result: edit the result's metadata (meta_no_alias), re-sample"""
    out = []
    if st['do'] == 'new_blackbody' and unq(st['temp']) < 0 and rng.random() < 0.8:
        # sampling it raises inside BlackBody1D.evaluate
        out.append(rng.choice([{'do': 'sample', 'o': -1, 'w': S(rng)},
                               {'do': 'integrate', 'o': -1, 'w': S(rng), 'itype': 'trapezoid'},
                               {'do': 'query', 'o': -1, 'w': S(rng), 'm': 'avgwave'},
                               {'do': 'arith', 'op': 'mul', 'a': -1, 'b': {'scalar': 'float', 'v': '2'}}]))
    if st['do'] == 'new_empirical' and st['kind'] == 'source' and rng.random() < 0.45:
        # a band placed relative to this source's range, then calls that the library must refuse (or accept) without
        # touching the source: normalize with and without force, Observation with every force option
        rel = rng.choice(['high', 'high', 'low', 'low', 'sliver', 'disjoint', 'inside'])
        out.append({'do': 'new_analytic', 'kind': 'bandpass',
                    'leaf': {'leaf': 'box_rel', 'rel': rel, 'amp': q(O.dy(rng, 0.25, 1, 2))}})
        for _ in range(rng.choice([1, 2])):
            if rng.random() < 0.55:
                out.append({'do': 'normalize', 'o': 'src', 'band': -1, 'force': rng.random() < 0.3, 'wild': False,
                            'val': rng.choice(['flam', 'photlam', 'number'])})
            else:
                out.append({'do': 'observation', 'src': 'src', 'band': -1, 'wild': False, 'binset': None,
                            'force': rng.choice(['none', 'none', 'none', 'extrap', 'taper', 'bogus'])})
    if st['do'] == 'new_empirical' and rng.random() < 0.22:
        # multiplying / dividing by exactly one (in every spelling) gives a NEW composite object: it carries no
        # header / expr, and the mutators the property names, applied to the RESULT, must not reach the operand
        out.append(gen_unit_scale(rng, -1))
        if st['kind'] == 'source':
            out.extend(mutators_on_result(rng))
        else:
            out.append({'do': 'force_extrap', 'o': -1})
        if rng.random() < 0.5:
            out.append(rng.choice([{'do': 'set_meta', 'o': -1, 'k': rng.choice(['note', 'expr', 'header']), 'v': jcanon('r%d' % rng.randint(0, 9))},
                                   {'do': 'set_warnings', 'o': -1, 'w': [['result', jcanon('w')]]}, gen_deep_edit(rng, -1)]))
        return out
    if st['do'] == 'new_empirical' and st.get('meta') is not None and st['kind'] in ('source', 'bandpass') and rng.random() < 0.3:
        # a second operand that also carries user metadata (often under the same keys), a product / sum of the two,
        # and edits of the result's metadata at every depth: the operands' metadata must stay as they are
        k2 = 'bandpass' if st['kind'] == 'source' or rng.random() < 0.6 else 'source'
        out.append({'do': 'new_empirical', 'kind': k2, 'x': S(rng), 'y': S(rng), 'keep_neg': rng.random() < 0.35,
                    'meta': S(rng), 'fill': gen_fill(rng)})
        op = 'mul' if k2 == 'bandpass' else rng.choice(['add', 'sub'])
        out.append({'do': 'arith', 'op': op, 'a': -2, 'b': {'sel': -1}})
        for _ in range(rng.choice([1, 2, 3])):
            out.append(gen_deep_edit(rng, -1))
        return out
    if st['do'] == 'new_empirical' and st['kind'] == 'reddening' and rng.random() < 0.7:
        # queries on the new law: extinction curves on one or two grids
        for _ in range(rng.choice([1, 2])):
            out.append({'do': 'query', 'o': -1, 'w': opt_w(rng, 0.6), 'm': 'extinction_curve',
                        'ebv': q(rng.choice([F(1, 4), F(1, 2), F(-1, 4)]))})
    if st['do'] == 'new_empirical' and st['keep_neg'] and rng.random() < 0.4:
        # a second object on the same caller-owned arrays, this time with negative values removed
        out.append(dict(st, keep_neg=False, meta=None))
    if st['do'] in ('arith', 'rmul', 'normalize', 'observation', 'taper') and rng.random() < 0.6:
        # attribute assignments on the OPERAND after something has been derived from it: the derived objects
        # (and everything else alive) must sample as before
        for _ in range(rng.choice([1, 1, 2])):
            r = rng.random()
            if r < 0.45:
                out.append({'do': 'set_z', 'o': 'last', 'z': q(rng.choice(ZS))})
            elif r < 0.7:
                out.append({'do': 'set_ztype', 'o': 'last', 't': rng.choice(['conserve_flux', 'conserve_flux', 'wavelength_only'])})
            elif r < 0.8:
                out.append({'do': 'set_meta', 'o': 'last', 'k': rng.choice(['note', 'expr', 'tag']), 'v': jcanon('op%d' % rng.randint(0, 9))})
            elif r < 0.9:
                out.append({'do': 'set_warnings', 'o': 'last', 'w': [['operand', jcanon('w%d' % rng.randint(0, 9))]]})
            else:
                out.append({'do': 'force_extrap', 'o': 'last'})
    if st['do'] in ('arith', 'normalize', 'observation', 'rmul') and rng.random() < 0.45:
        # the newest object is addressed by selector -1 (n % len == len - 1)
        out.append({'do': 'set_warnings', 'o': -1, 'w': [['edited', jcanon('yes')]]})
        if rng.random() < 0.5:
            out.append({'do': 'set_meta', 'o': -1, 'k': 'note', 'v': jcanon('edited')})
        # ... and below the top level: every nested container of the result's metadata is the result's own
        for _ in range(rng.choice([1, 2])):
            out.append(gen_deep_edit(rng, -1))
    return out


def gen_case(rng, K, maxlen):
    arrays, dicts = gen_pool(rng)
    # re-sampling every live object after every call makes a history's cost quadratic in its length:
    # 30 % of the histories use the full length range, the rest the lower third
    n = rng.randint(3, maxlen) if rng.random() < 0.3 else rng.randint(3, max(4, maxlen // 3))
    steps = []
    nbb = 0
    while len(steps) < n:
        st = gen_step(rng, len(steps))
        if st['do'] == 'new_blackbody':
            nbb += 1
            if nbb > 2:         # every re-sampling of a black body costs ~10 ms of astropy unit handling
                continue
        steps.append(st)
        steps.extend(follow_ups(rng, st))
    return {'op': 'heap_history', 'const': K, 'arrays': arrays, 'dicts': dicts,
            'probe': gen_probe(rng), 'steps': steps[:maxlen]}


# ------------------------------------------------------------------ driver
def run_histories(rep, cases):
    impl = core.pmap(impl_call, cases)
    mcases = [model_case(c, o) for c, o in zip(cases, impl)]
    model = core.run_model(mcases)
    for c, o, m in zip(cases, impl, model):
        done = [s for s in o['ok'] if s is not None]
        tags = ['len:%02d' % (10 * (len(done) // 10))]
        for s in done:
            tags.append('call:' + s['conc']['do'])
            if s['conc']['do'] in ('normalize', 'observation'):
                tags.append('%s:%s:%s' % (s['conc']['do'], s['conc']['stat'], s['rec']['out'].get('err', 'ok')))
            if 'fill' in s['conc']:
                tags.append('fill_value:' + ('nan' if s['conc']['fill'] == 'nan' else '0' if s['conc']['fill'] == '0' else 'number'))
            if s['conc']['do'] == 'query':
                tags.append('query:' + s['conc'].get('m', '?'))
            tags.append('outcome:' + ('raised' if 'err' in s['rec']['out'] else 'returned'))
        tags += o.get('hidden', [])
        rep.count({k: v for k, v in c.items() if k != 'const'}, nontrivial=len(done) >= 2, tags=tags)
        r = compare(c, o, m)
        if r:
            rep.mismatch('heap_history', r, c, {'steps': [s and {'conc': s['conc'], 'out': s['rec']['out']} for s in o['ok']]}, None)
        for sig, msg, k in o['failures']:
            # the replay is the history up to the failing step; the directed follow-up queries it triggers (listed
            # in the outcome) are re-derived deterministically when the replay runs
            rep.oracle_fail(sig, 'step %d: %s' % (k, msg), dict(c, steps=c['steps'][:k + 1]),
                            {'step': k, 'call': c['steps'][k],
                             'followup': [f for f in o.get('followups', []) if f['step'] == k]})
    return impl, model


def run(rep):
    thorough = rep.tier == 'thorough'
    rng = rep.rng('c19')
    K = O.consts()
    cases = core.load_corpus('C19')
    for c in cases:
        c['const'] = K
    maxlen = 60 if thorough else 12
    cases += [gen_case(rng, K, maxlen) for _ in range(20000 if thorough else 500)]
    rep.rule = ('random histories (3..%d calls) over a pool of 2-3 groups of caller-owned wavelength / flux arrays (float '
                'ndarrays, lists, Quantities in and out of the internal unit; ascending and descending; negative and zero '
                'values; one- to eight-point tables; arrays that validate_wavelengths refuses) and 2-4 dictionaries: '
                'constructors on caller arrays (source / bandpass / reddening law, keep_neg, meta=), analytic and black-body '
                'sources (incl. negative temperature, which raises when sampled), sampling, + - * / with spectra, numbers, '
                'Quantities and invalid operands, normalize (force on/off, every overlap verdict), taper, Observation '
                '(force none/extrap/taper/invalid, binset from a caller array), integrate (every integration_type, also an '
                'invalid one), avgwave/pivot/barlam/tpeak/wpeak/equivwidth/rectwidth/efficiency/rmswidth/photbw, to_fits '
                '(ext_header from the pool, existing file without overwrite), convert_flux / merge_wavelengths / '
                'calculate_bin_edges / validate_wavelengths / write_fits_spec on caller arrays and dicts, and the documented '
                'mutators (z, z_type incl. invalid values, force_extrapolation, warnings setter, meta edits). After every '
                'call: byte-comparison of every caller array and dict, np.geterr(), unit registry, conf.default_integrator, '
                'bit-identical re-sampling and metadata of every live object. Non-trivial: at least two executed calls.'
                % maxlen)
    run_histories(rep, cases)
    rep.samples = rep.samples[:3]


def search(rep, mismatches):
    sub = core.Report(rep.pid, 'thorough', rep.seed + 1)
    rng = sub.rng('c19-search')
    K = O.consts()
    cases = [gen_case(rng, K, 16) for _ in range(1500)]
    impl = core.pmap(impl_call, cases)
    for c, o in zip(cases, impl):
        for sig, msg, k in o['failures']:
            sub.oracle_fail(sig, 'step %d: %s' % (k, msg), c, {'step': k, 'call': c['steps'][k]})
    rep.notes.append('directed search after mismatch: %d histories, %d oracle failures' % (len(cases), len(sub.oracle_failures)))
    return sub.oracle_failures


def replay(rep, payload):
    c = payload['case']
    c['const'] = O.consts()
    run_histories(rep, [c])
