/-
  C10 — Normalisation reaches the requested value and preserves spectral shape.

  `normalizeFactor` (Core/ObsPhot.lean) transcribes `BaseSourceSpectrum.normalize`: it returns the
  scalar `k` the spectrum is multiplied by, the operand after the call (switched to extrapolation on
  the partial-overlap path only) and whether a warning was recorded.
-/
import Synphot.Props.C09
import Synphot.Lemmas.C10x
import Synphot.Lemmas.TranscReal

set_option linter.unusedSectionVars false
set_option linter.unusedVariables false
set_option linter.unusedSimpArgs false

namespace Synphot.C10
open Synphot
variable {K : Type} [Field K] [LinearOrder K] [IsStrictOrderedRing K]

/-- the normalised spectrum is the original multiplied by one scalar at every wavelength -/
theorem normalized_is_scalar_multiple (E : Env K) (m : Tree K) (k x v : K) (h : m.eval E x = .ok v) :
    (Tree.scale m k).eval E x = .ok (v * k) := eval_scale_of h

/-- linear targets: `k = target · (std / total)` is positive for a positive target and positive band integrals -/
theorem factor_pos (target std total : K) (ht : 0 < target) (hs : 0 < std) (htot : 0 < total) :
    0 < target * (std / total) := mul_pos ht (div_pos hs htot)

/-- magnitude targets: the factor `10^(−0.4·(target + 2.5 log₁₀(total/std)))` is positive -/
theorem factor_mag_pos (T : Transc K) (hT : T.Lawful) (x : K) : 0 < T.pow10 x := hT.pow10_pos x

/-- **post-condition, FLAM**: with `k = target · std/total`, `total = ∫ F P` on the observation's grid and
`std = ∫ (λ/hc) P` on the bandpass's grid (a spectrum flat at 1 FLAM, in PHOTLAM), the FLAM effective
stimulus `|∫ λ F_λ' P| / |∫ λ P|` of the scaled spectrum is the target.  `obs` holds `(λ, F·P)` in
PHOTLAM, `band` holds `(λ, P)`. -/
theorem normalize_hits_target_flam (obs band : List (K × K)) (hc target : K) (hhc : 0 < hc)
    (ht : 0 < target) (hpos : ∀ p ∈ obs, p.1 ≠ 0)
    (htot : 0 < trapz obs) (hden : 0 < trapz (C09.timesLam band)) :
    let std := trapz (band.map fun p => (p.1, p.1 / hc * p.2))
    let k := target * (std / trapz obs)
    C09.effstimFlam (obs.map fun p => (p.1, k * p.2 * hc / p.1)) band = target := by
  intro std k
  have hstd : std = trapz (C09.timesLam band) / hc := by
    simp only [std, C09.timesLam]
    have : (band.map fun p => (p.1, p.1 / hc * p.2)) =
        (band.map fun p => (p.1, p.1 * p.2)).map fun p => (p.1, (1 / hc) * p.2) := by
      simp only [List.map_map]; apply List.map_congr_left; intro p _; simp only [Function.comp]; congr 1; ring
    rw [this, trapz_smul]; ring
  unfold C09.effstimFlam
  have h1 : C09.timesLam (obs.map fun p => (p.1, k * p.2 * hc / p.1)) = obs.map fun p => (p.1, (k * hc) * p.2) := by
    simp only [C09.timesLam, List.map_map]; apply List.map_congr_left; intro p hp
    simp only [Function.comp]; have := hpos p hp; congr 1; field_simp
  rw [h1, trapz_smul]
  have hk : 0 < k := mul_pos ht (div_pos (by rw [hstd]; exact div_pos hden hhc) htot)
  rw [abs_of_pos (mul_pos (mul_pos hk hhc) htot), abs_of_pos hden]
  simp only [k, hstd]
  have h1 := ne_of_gt htot; have h2 := ne_of_gt hden; have h3 := ne_of_gt hhc
  field_simp

/-- the same spectrum observed in FNU (converted at the pivot) reaches an FNU target:
`std = ∫ (c/(λ hc)) P` for a spectrum flat at 1 FNU -/
theorem normalize_hits_target_fnu (obs band : List (K × K)) (hc c target : K) (hhc : 0 < hc) (hcc : 0 < c)
    (ht : 0 < target) (hpos : ∀ p ∈ obs, p.1 ≠ 0) (hposb : ∀ p ∈ band, p.1 ≠ 0)
    (htot : 0 < trapz obs) (hB : 0 < trapz (C09.timesLam band)) (hA : 0 < trapz (C09.overLam band)) :
    let std := trapz (band.map fun p => (p.1, c / (p.1 * hc) * p.2))
    let k := target * (std / trapz obs)
    C09.effstimFlam (obs.map fun p => (p.1, k * p.2 * hc / p.1)) band *
      |trapz (C09.timesLam band) / trapz (C09.overLam band)| / c = target := by
  intro std k
  have hstd : std = c / hc * trapz (C09.overLam band) := by
    simp only [std, C09.overLam]
    have : (band.map fun p => (p.1, c / (p.1 * hc) * p.2)) =
        (band.map fun p => (p.1, p.2 / p.1)).map fun p => (p.1, (c / hc) * p.2) := by
      simp only [List.map_map]; apply List.map_congr_left; intro p hp; simp only [Function.comp]
      have := hposb p hp; have := ne_of_gt hhc; congr 1; field_simp
    rw [this, trapz_smul]
  unfold C09.effstimFlam
  have h1 : C09.timesLam (obs.map fun p => (p.1, k * p.2 * hc / p.1)) = obs.map fun p => (p.1, (k * hc) * p.2) := by
    simp only [C09.timesLam, List.map_map]; apply List.map_congr_left; intro p hp
    simp only [Function.comp]; have := hpos p hp; congr 1; field_simp
  rw [h1, trapz_smul]
  have hstdpos : 0 < std := by rw [hstd]; exact mul_pos (div_pos hcc hhc) hA
  have hk : 0 < k := mul_pos ht (div_pos hstdpos htot)
  rw [abs_of_pos (mul_pos (mul_pos hk hhc) htot), abs_of_pos hB, abs_of_pos (div_pos hB hA)]
  simp only [k, hstd]
  have h1 := ne_of_gt htot; have h2 := ne_of_gt hB; have h3 := ne_of_gt hhc; have h4 := ne_of_gt hA
  have h5 := ne_of_gt hcc
  field_simp

/-! ## Deepening: every target unit

Conventions of the sums-level theorems: `obs` holds the samples `(λ, F(λ)·P(λ))` of source × band in
PHOTLAM on the grid `normalize` integrates the source on (which is the grid `effstim` samples the
observation on, the scaled source having the same sampling set); `band` holds `(λ, P(λ))` on the
bandpass's grid (the grid of the standard spectrum × band, `ConstFlux1D` having no sampling set, and of
`effstim`'s denominator and pivot).  `total = ∫ obs` and `std = ∫ standard × band` are the two
(unsigned, here positive) trapezoid sums of the code; the normalised observation's FLAM samples are
`k · F P · hc / λ`. -/

open C10x

/-- the factor is positive **for every target unit**: magnitude units unconditionally, linear units
for a positive target (positive band integrals) -/
theorem factor_pos_every_unit (T : Transc K) (hT : T.Lawful) (u : FluxUnit K) (target total std : K)
    (htot : 0 < total) (hstd : 0 < std) (ht : u.isMag = true ∨ 0 < target) :
    0 < factorValue T u target total std := factorValue_pos hT u target total std htot hstd ht

/-- **post-condition, Jy and prefixed Jy** (`.jy s`: `s` = value of the unit in Jy, `mJy ↦ 1/1000`):
the FLAM effective stimulus of the normalised spectrum, converted by `convert_flux` at the pivot
wavelength `sqrt|∫λP / ∫P/λ|` to the target's unit, is the target.  (`s = 1/jyFnu` gives FNU, and the
same statement for FLAM holds with the identity conversion.) -/
theorem normalize_hits_target_jy (P : PhysConst K) (T : Transc K) (hP : P.Pos) (hT : T.Lawful)
    (obs band : List (K × K)) (s target : K) (hs : 0 < s) (ht : 0 < target)
    (hpos : ∀ p ∈ obs, p.1 ≠ 0) (hposb : ∀ p ∈ band, p.1 ≠ 0)
    (htot : 0 < trapz obs) (hB : 0 < trapz (C09.timesLam band)) (hA : 0 < trapz (C09.overLam band)) :
    let std := trapz (band.map fun p => (p.1, flatPhotlam P (.jy s) 1 p.1 * p.2))
    let k := factorValue T (.jy s) target (trapz obs) std
    let wp := T.sqrt |trapz (C09.timesLam band) / trapz (C09.overLam band)|
    convertOne P T (plainSamp wp) .flam (.jy s)
      (C09.effstimFlam (obs.map fun p => (p.1, k * p.2 * (P.h * P.c) / p.1)) band) = .ok target := by
  intro std k wp
  have hh := hP.h; have hc := hP.c; have hj := hP.jy
  have hstd : std = 1 * s * P.jyFnu * P.c / (P.h * P.c) * trapz (C09.overLam band) := std_jy P band s 1 hposb
  have hstdpos : 0 < std := by rw [hstd]; positivity
  have hk : k = target * (std / trapz obs) := by simp [k, factorValue, FluxUnit.isMag]
  have hkpos : 0 < k := by rw [hk]; positivity
  obtain ⟨hwp, hsq⟩ := pivot_sq hT _ _ hA hB
  rw [effstimFlam_scaled obs band (P.h * P.c) k (mul_pos hh hc) hkpos hpos htot hB,
    convert_flam_jy P T hP s wp _ hwp]
  congr 1
  show _ * (wp * wp) / _ / _ = _
  rw [hsq, hk, hstd]
  have h1 := ne_of_gt htot; have h2 := ne_of_gt hB; have h3 := ne_of_gt hh; have h4 := ne_of_gt hA
  have h5 := ne_of_gt hc; have h6 := ne_of_gt hs; have h7 := ne_of_gt hj
  field_simp

/-- **post-condition, STmag**: the standard spectrum is flat at `stZero` FLAM (0 STmag), the factor is
`10^(−0.4 (target + 2.5 log₁₀(total/std)))`; the normalised spectrum's STmag effective stimulus
`−2.5 log₁₀(F_λ,eff / stZero)` is the target — for every real target (no sign condition) -/
theorem normalize_hits_target_stmag (P : PhysConst K) (T : Transc K) (hP : P.Pos) (hT : T.Lawful)
    (obs band : List (K × K)) (target : K) (hpos : ∀ p ∈ obs, p.1 ≠ 0)
    (htot : 0 < trapz obs) (hB : 0 < trapz (C09.timesLam band)) :
    let std := trapz (band.map fun p => (p.1, flatPhotlam P .flam P.stZero p.1 * p.2))
    let k := factorValue T .stmag target (trapz obs) std
    toMag T (C09.effstimFlam (obs.map fun p => (p.1, k * p.2 * (P.h * P.c) / p.1)) band / P.stZero) = .ok target := by
  intro std k
  have hh := hP.h; have hc := hP.c; have hz := hP.st
  have hstd : std = P.stZero / (P.h * P.c) * trapz (C09.timesLam band) := std_flam P band P.stZero
  have hstdpos : 0 < std := by rw [hstd]; positivity
  have hk : k = ofMag T target * (std / trapz obs) := factorValue_mag hT .stmag rfl _ _ _ htot hstdpos
  have hm := ofMag_pos hT target
  have hkpos : 0 < k := by rw [hk]; positivity
  rw [effstimFlam_scaled obs band (P.h * P.c) k (mul_pos hh hc) hkpos hpos htot hB]
  have e : k * (P.h * P.c) * trapz obs / trapz (C09.timesLam band) / P.stZero = ofMag T target := by
    rw [hk, hstd]
    have h1 := ne_of_gt htot; have h2 := ne_of_gt hB; have h3 := ne_of_gt hh
    have h5 := ne_of_gt hc; have h6 := ne_of_gt hz
    field_simp
  rw [toMag_congr e, toMag_ofMag hT]

/-- **post-condition, ABmag**: standard spectrum flat at `abZero` FNU (0 ABmag); the FLAM effective
stimulus converted at the pivot to ABmag is the target, for every real target -/
theorem normalize_hits_target_abmag (P : PhysConst K) (T : Transc K) (hP : P.Pos) (hT : T.Lawful)
    (obs band : List (K × K)) (target : K)
    (hpos : ∀ p ∈ obs, p.1 ≠ 0) (hposb : ∀ p ∈ band, p.1 ≠ 0)
    (htot : 0 < trapz obs) (hB : 0 < trapz (C09.timesLam band)) (hA : 0 < trapz (C09.overLam band)) :
    let std := trapz (band.map fun p => (p.1, flatPhotlam P .fnu P.abZero p.1 * p.2))
    let k := factorValue T .abmag target (trapz obs) std
    let wp := T.sqrt |trapz (C09.timesLam band) / trapz (C09.overLam band)|
    convertOne P T (plainSamp wp) .flam .abmag
      (C09.effstimFlam (obs.map fun p => (p.1, k * p.2 * (P.h * P.c) / p.1)) band) = .ok target := by
  intro std k wp
  have hh := hP.h; have hc := hP.c; have hz := hP.ab
  have hstd : std = P.abZero * P.c / (P.h * P.c) * trapz (C09.overLam band) := std_fnu P band P.abZero hposb
  have hstdpos : 0 < std := by rw [hstd]; positivity
  have hk : k = ofMag T target * (std / trapz obs) := factorValue_mag hT .abmag rfl _ _ _ htot hstdpos
  have hm := ofMag_pos hT target
  have hkpos : 0 < k := by rw [hk]; positivity
  obtain ⟨hwp, hsq⟩ := pivot_sq hT _ _ hA hB
  rw [effstimFlam_scaled obs band (P.h * P.c) k (mul_pos hh hc) hkpos hpos htot hB,
    convert_flam_abmag P T hP wp _ hwp]
  have e : k * (P.h * P.c) * trapz obs / trapz (C09.timesLam band) * (wp * wp) / P.c / P.abZero = ofMag T target := by
    rw [hsq, hk, hstd]
    have h1 := ne_of_gt htot; have h2 := ne_of_gt hB; have h3 := ne_of_gt hh; have h4 := ne_of_gt hA
    have h5 := ne_of_gt hc; have h6 := ne_of_gt hz
    field_simp
  rw [toMag_congr e, toMag_ofMag hT]

/-- **post-condition, count**: `f` are the PHOTLAM samples of source × band, `cf` the count factors
(bin width × area) `convert_flux` multiplies them by; `total = Σ f·cf`, `std = 1`; the normalised
spectrum's count rate `Σ (k f)·cf` is the target -/
theorem normalize_hits_target_count (T : Transc K) (f cf : List K) (target : K)
    (htot : 0 < (mulFactors f cf).sum) :
    let k := factorValue T .count target (mulFactors f cf).sum 1
    (mulFactors (f.map (k * ·)) cf).sum = target := by
  intro k
  have hk : k = target * (1 / (mulFactors f cf).sum) := by simp [k, factorValue, FluxUnit.isMag]
  rw [mulFactors_scaled_sum, hk]
  have := ne_of_gt htot
  field_simp

/-- **post-condition, OBMAG**: `−2.5 log₁₀` of the normalised spectrum's count rate is the target -/
theorem normalize_hits_target_obmag (T : Transc K) (hT : T.Lawful) (f cf : List K) (target : K)
    (htot : 0 < (mulFactors f cf).sum) :
    let k := factorValue T .obmag target (mulFactors f cf).sum 1
    toMag T (mulFactors (f.map (k * ·)) cf).sum = .ok target := by
  intro k
  have hk : k = ofMag T target * (1 / (mulFactors f cf).sum) :=
    factorValue_mag hT .obmag rfl _ _ _ htot one_pos
  have e : (mulFactors (f.map (k * ·)) cf).sum = ofMag T target := by
    rw [mulFactors_scaled_sum, hk]
    have := ne_of_gt htot
    field_simp
  rw [toMag_congr e, toMag_ofMag hT]

/-- **post-condition, VEGAMAG**: `vband` holds `(λ, Vega(λ)·P(λ))` on the grid of Vega × band;
`std = ∫ Vega P`; the normalised spectrum's magnitude relative to Vega,
`2.5 (log₁₀ ∫Vega P − log₁₀ ∫ k F P)` (what `effstim('vegamag')` returns), is the target -/
theorem normalize_hits_target_vegamag (T : Transc K) (hT : T.Lawful) (obs vband : List (K × K)) (target : K)
    (htot : 0 < trapz obs) (hstd : 0 < trapz vband) :
    let k := factorValue T .vegamag target (trapz obs) (trapz vband)
    (5/2) * (T.log10 (trapz vband) - T.log10 (trapz (obs.map fun p => (p.1, k * p.2)))) = target := by
  intro k
  have hk : k = ofMag T target * (trapz vband / trapz obs) := factorValue_mag hT .vegamag rfl _ _ _ htot hstd
  have hm := ofMag_pos hT target
  have e : trapz (obs.map fun p => (p.1, k * p.2)) = ofMag T target * trapz vband := by
    rw [trapz_smul, hk]
    have := ne_of_gt htot
    field_simp
  rw [e, hT.log10_mul _ _ hm hstd]
  unfold ofMag
  rw [hT.log10_pow10]
  ring

/-- **photon-rate form** (PHOTLAM, PHOTNU — and every linear density unit): the normalised spectrum
carries the same rate `∫ F' P dλ` through the band as the spectrum flat at the target value
(`flatPhotlam P u target` is `toPhotlam` of the constant `target`, see `toPhotlam_flat`) -/
theorem normalize_matches_flat (P : PhysConst K) (T : Transc K) (u : FluxUnit K) (hu : IsLinearDensity u)
    (obs band : List (K × K)) (target : K) (htot : trapz obs ≠ 0) :
    let std := trapz (band.map fun p => (p.1, flatPhotlam P u 1 p.1 * p.2))
    let k := factorValue T u target (trapz obs) std
    trapz (obs.map fun p => (p.1, k * p.2)) =
      trapz (band.map fun p => (p.1, flatPhotlam P u target p.1 * p.2)) := by
  intro std k
  have hk : k = target * (std / trapz obs) := by
    cases u <;> first | (simp [k, factorValue, FluxUnit.isMag]; done) | exact absurd hu (by simp [IsLinearDensity])
  have h2 : (band.map fun p => (p.1, flatPhotlam P u target p.1 * p.2)) =
      (band.map fun p => (p.1, flatPhotlam P u 1 p.1 * p.2)).map fun p => (p.1, target * p.2) := by
    simp only [List.map_map]; apply List.map_congr_left; intro p _; simp only [Function.comp]
    rw [flatPhotlam_amp P u target]; congr 1; ring
  rw [trapz_smul, h2, trapz_smul, hk]
  field_simp
  rfl

/-- … and for PHOTLAM this is literally `∫ F' P = target · ∫ P` -/
theorem normalize_photlam_rate (T : Transc K) (P : PhysConst K) (obs band : List (K × K)) (target : K)
    (htot : trapz obs ≠ 0) :
    let k := factorValue T .photlam target (trapz obs)
      (trapz (band.map fun p => (p.1, flatPhotlam P .photlam 1 p.1 * p.2)))
    trapz (obs.map fun p => (p.1, k * p.2)) = target * trapz band := by
  intro k
  have h := normalize_matches_flat P T .photlam trivial obs band target htot
  simp only at h
  rw [h]
  have : (band.map fun p => (p.1, flatPhotlam P .photlam target p.1 * p.2)) =
      band.map fun p => (p.1, target * p.2) := by
    apply List.map_congr_left; intro p _; rfl
  rw [this, trapz_smul]

/-! ### errors and the operand -/

/-- on full overlap the operand is untouched and no warning is recorded -/
theorem full_overlap_leaves_operand (E : Env K) (P : OverlapPar K) (self band : Spec K) (target : K)
    (u : FluxUnit K) (wl : Option (List K)) (force : Bool) (area : Option K) (vega : Option (Tree K))
    (hb : band.kind = .bandpass) (hv : checkOverlap E P band self wl = .ok .full)
    (k : K) (s' : Spec K) (w : Bool)
    (h : normalizeFactor E P self band target u wl force area vega = .ok (k, s', w)) :
    s' = self ∧ w = false := by
  unfold normalizeFactor at h
  simp only [hb, ne_eq, not_true_eq_false, if_false, hv, bind, Except.bind, pure, Except.pure] at h
  -- every remaining step either fails or returns the stored pair (self, false)
  repeat' first
    | (cases h; done)
    | (split at h)
  all_goals first
    | (cases h; done)
    | (injection h with h; injection h with _ h; injection h with h1 h2; exact ⟨h1.symm, h2.symm⟩)

/-- a disjoint band raises DisjointError, an insufficiently overlapping one PartialOverlap unless forced -/
theorem overlap_errors (E : Env K) (P : OverlapPar K) (self band : Spec K) (target : K)
    (u : FluxUnit K) (wl : Option (List K)) (force : Bool) (area : Option K) (vega : Option (Tree K))
    (hb : band.kind = .bandpass) :
    (checkOverlap E P band self wl = .ok .none →
      normalizeFactor E P self band target u wl force area vega = .error .disjointError) ∧
    (checkOverlap E P band self wl = .ok .partialNotMost → force = false →
      normalizeFactor E P self band target u wl force area vega = .error .partialOverlap) := by
  constructor
  · intro hv
    simp [normalizeFactor, hb, hv, bind, Except.bind]
  · intro hv hf
    simp [normalizeFactor, hb, hv, hf, bind, Except.bind]

/-- something that is not a bandpass is refused -/
theorem band_must_be_bandpass (E : Env K) (P : OverlapPar K) (self band : Spec K) (target : K)
    (u : FluxUnit K) (wl : Option (List K)) (force : Bool) (area : Option K) (vega : Option (Tree K))
    (hb : band.kind ≠ .bandpass) :
    normalizeFactor E P self band target u wl force area vega = .error .synphotError := by
  simp [normalizeFactor, hb, bind, Except.bind]

end Synphot.C10
