"""C18  Bin geometry helpers are mutually inverse and fail only with OverlapError."""
import itertools
import math
from fractions import Fraction as F

from ..core import NP as np

from .. import core
from ..core import q, qs, guarded, same, unq

MODES = ['round', 'min', 'max', 'none']


# ------------------------------------------------------------------ implementation calls
def impl_call(case):
    from synphot import binning
    op = case['op']
    if op == 'bin_edges':
        return guarded(lambda: binning.calculate_bin_edges(np.array([float(unq(x)) for x in case['c']])))
    if op == 'bin_widths':
        return guarded(lambda: binning.calculate_bin_widths(np.array([float(unq(x)) for x in case['e']])))
    if op == 'bin_centers':
        return guarded(lambda: binning.calculate_bin_centers(np.array([float(unq(x)) for x in case['e']])))
    if op == 'wave_range':
        bins = np.array([float(unq(x)) for x in case['bins']])
        npix = case['npix'] if case['npix_is_int'] else float(case['npix'])
        return guarded(lambda: list(binning.wave_range(bins, float(unq(case['cen'])), npix, mode=case['mode'])))
    if op == 'pixel_range':
        bins = np.array([float(unq(x)) for x in case['bins']])
        return guarded(lambda: binning.pixel_range(
            bins, (float(unq(case['w0'])), float(unq(case['w1']))), mode=case['mode']))
    if op == 'obs_ranges':
        return obs_ranges(case)
    raise KeyError(op)


def obs_ranges(case):
    """Observation.binned_waverange / binned_pixelrange in a wavelength, frequency or wavenumber unit"""
    import astropy.units as u
    from synphot import SourceSpectrum, SpectralElement, Observation, units
    from synphot.models import ConstFlux1D
    from astropy.modeling.models import Const1D
    unit = u.Unit(case['unit'])
    sp = SourceSpectrum(ConstFlux1D, amplitude=1)
    bp = SpectralElement(Const1D, amplitude=1)
    lattice = np.array([float(unq(x)) for x in case['bins']])
    if case['unit'] in RECIPROCAL_UNITS:
        # the lattice lives in the caller's unit; the observation is binned on the corresponding Angstrom values
        bins_aa = np.sort((lattice * unit).to(u.AA, u.spectral()).value)
        obs = Observation(sp, bp, binset=bins_aa)
        # what binning.wave_range is documented to work on: the bin centres expressed in the unit of cenwave
        seen = units.validate_quantity(obs.binset, unit, equivalencies=u.spectral()).value

        def g():
            w = obs.binned_waverange(float(unq(case['cen'])) * unit, case['npix'], mode=case['mode'])
            if w.unit != unit:
                raise ValueError('range not in the unit of cenwave')
            # counted on the same centres the range was computed on (binned_pixelrange always counts in Angstrom,
            # where the pixels of a frequency grid have other relative sizes: by design not the inverse here)
            from synphot import binning
            lo, hi = outer_edges([float(x) for x in seen])
            wv = sorted(float(x) for x in w.value)
            # a limit sitting exactly on an outer edge may land one ulp outside it after the conversions (as in the
            # length-unit branch below): the count is not asked for there
            if wv[0] - lo < 1e-9 * hi or hi - wv[1] < 1e-9 * hi:
                n = case['npix']
            else:
                n = binning.pixel_range(seen, w.value, mode=case['mode'])
            return {'range': [float(w.value[0]), float(w.value[1])], 'npix': n}
        out = guarded(g)
        out['_seen'] = [float(x) for x in seen]
        return out
    bins_aa = lattice
    obs = Observation(sp, bp, binset=bins_aa)
    fac = (1 * u.AA).to(unit).value

    def f():
        w = obs.binned_waverange(float(unq(case['cen'])) * fac * unit, case['npix'], mode=case['mode'])
        wa = w.to(u.AA).value
        lo, hi = outer_edges([float(x) for x in bins_aa])
        # the round trip through the caller's unit rounds: a limit sitting exactly on an outer edge may
        # land one ulp outside it, which the property ("up to rounding") does not speak about
        if wa[0] - lo < 1e-9 * hi or hi - wa[1] < 1e-9 * hi:
            n = case['npix']
        else:
            n = obs.binned_pixelrange(w, mode=case['mode'])
        return {'range': list(wa), 'npix': n}
    return guarded(f)


RECIPROCAL_UNITS = ('THz', '1/micron')


# ------------------------------------------------------------------ exact reference geometry (oracle side)
def outer_edges(bins):
    b = sorted(bins)
    return b[0] - (b[1] - b[0]) / 2, b[-1] + (b[-1] - b[-2]) / 2


def frac_index(bins, x):
    """exact pixel coordinate of wavelength x: centre i is at i, edges at i +- 1/2, linear in between
    centres, outer half pixels extrapolate the first / last spacing"""
    b = sorted(bins)
    n = len(b)
    if x <= b[0]:
        return F(0) - (b[0] - x) / (b[1] - b[0])
    if x >= b[-1]:
        return F(n - 1) + (x - b[-1]) / (b[-1] - b[-2])
    for i in range(n - 1):
        if b[i] <= x <= b[i + 1]:
            return F(i) + (x - b[i]) / (b[i + 1] - b[i])


# ------------------------------------------------------------------ oracles (implementation alone)
def oracle_helpers(rep, case, out):
    op = case['op']
    if 'err' in out:
        vals = [unq(x) for x in case.get('c', case.get('e'))]
        if len(vals) >= 2:
            rep.oracle_fail('%s:valid_input:%s' % (op, out['err']), 'helper raised on a valid array', case, out)
        elif out['err'] != 'SynphotError':
            rep.oracle_fail('%s:short_input:%s' % (op, out['err']), 'wrong error class', case, out)
        return
    if op == 'bin_edges':
        c = [float(unq(x)) for x in case['c']]
        e = out['ok']
        ok = len(e) == len(c) + 1
        for i in range(1, len(c)):
            ok = ok and math.isclose(e[i], (c[i] + c[i - 1]) / 2, rel_tol=1e-12)
        tol = 1e-12 * max(abs(x) for x in c)
        ok = ok and abs((c[0] - e[0]) - (e[1] - c[0])) <= tol and abs((e[-1] - c[-1]) - (c[-1] - e[-2])) <= tol
        if not ok:
            rep.oracle_fail('bin_edges:not_midpoints', 'edges are not midpoints / symmetric ends', case, out)
        from synphot import binning
        back = binning.calculate_bin_centers(np.array(e)).value
        if not np.allclose(back, c, rtol=1e-9, atol=0):
            rep.oracle_fail('bin_centers:not_inverse', 'centers(edges(c)) != c', case, {'back': back.tolist()})
        w = binning.calculate_bin_widths(np.array(e)).value
        asc = all(c[i] < c[i + 1] for i in range(len(c) - 1))
        desc = all(c[i] > c[i + 1] for i in range(len(c) - 1))
        if asc or desc:
            if not np.all(w > 0):
                rep.oracle_fail('bin_widths:not_positive', 'width <= 0 for monotone centres', case, {'w': w.tolist()})
            if not math.isclose(w.sum(), abs(e[-1] - e[0]), rel_tol=1e-9):
                rep.oracle_fail('bin_widths:sum', 'widths do not sum to the span', case, {'w': w.tolist()})


def pos_class(bins, x):
    lo, hi = outer_edges(bins)
    b = sorted(bins)
    if x < lo:
        return 'below_min_edge'
    if x == lo:
        return 'at_min_edge'
    if x < b[0]:
        return 'in_first_half_pixel'
    if x == b[0]:
        return 'at_first_centre'
    if x > hi:
        return 'above_max_edge'
    if x == hi:
        return 'at_max_edge'
    if x > b[-1]:
        return 'in_last_half_pixel'
    if x == b[-1]:
        return 'at_last_centre'
    return 'interior'


def oracle_wave_range(rep, case, out):
    from synphot import binning
    bins = [unq(x) for x in case['bins']]
    cen = unq(case['cen'])
    mode_ok = case['mode'].lower() in MODES
    if not mode_ok or not case['npix_is_int']:
        if out.get('err') != 'SynphotError':
            rep.oracle_fail('wave_range:invalid_args:%s' % out.get('err', 'returned'),
                            'invalid mode / npix must raise SynphotError', case, out)
        return
    mode = case['mode'].lower()
    npix = case['npix']
    b = sorted(bins)
    n = len(b)
    fits = b[0] <= cen <= b[-1]
    fi = frac_index(b, cen) if fits else None
    if fits:
        fits = fi - F(npix, 2) >= F(-1, 2) and fi + F(npix, 2) <= n - F(1, 2)
    if not fits:
        if out.get('err') != 'OverlapError':
            rep.oracle_fail('wave_range:%s:nofit:%s' % (mode, out.get('err', 'returned')),
                            'request does not fit: must raise OverlapError', case, out)
        return
    f1, f2 = fi - F(npix, 2), fi + F(npix, 2)
    cls = 'lo=%s,hi=%s' % ('edge' if f1 == F(-1, 2) else 'half' if f1 < 0 else 'in',
                           'edge' if f2 == n - F(1, 2) else 'half' if f2 > n - 1 else 'in')
    if 'err' in out:
        rep.oracle_fail('wave_range:%s:fits(%s):%s' % (mode, cls, out['err']),
                        'request fits but raised %s' % out['err'], case, out)
        return
    w1, w2 = out['ok']
    lo, hi = outer_edges(b)
    tol = 1e-9 * float(hi)
    if not (math.isfinite(w1) and math.isfinite(w2)):
        rep.oracle_fail('wave_range:%s:fits(%s):nonfinite' % (mode, cls), 'non-finite range', case, out)
        return
    if not w1 <= w2 or (npix >= 1 and mode in ('round', 'none', 'max') and not w1 < w2):
        rep.oracle_fail('wave_range:%s:fits(%s):unordered' % (mode, cls), 'range not ordered', case, out)
    if w1 < float(lo) - tol or w2 > float(hi) + tol:
        rep.oracle_fail('wave_range:%s:fits(%s):outside' % (mode, cls), 'range outside the outer bin edges', case, out)
        return
    if mode in ('round', 'none'):
        barr = np.array([float(x) for x in bins])
        back = guarded(lambda: binning.pixel_range(barr, (w1, w2), mode=mode))
        if 'err' in back or abs(back['ok'] - npix) > 1e-7:
            rep.oracle_fail('wave_range:%s:fits(%s):pixel_count_%s' % (mode, cls, back.get('err', 'differs')),
                            'pixel_range(wave_range(npix=%d)) = %s' % (npix, back), case, out)


def oracle_pixel_range(rep, case, out, trio=None):
    bins = [unq(x) for x in case['bins']]
    w0, w1 = unq(case['w0']), unq(case['w1'])
    lo_w, hi_w = min(w0, w1), max(w0, w1)
    if case['mode'].lower() not in MODES:
        if out.get('err') != 'SynphotError':
            rep.oracle_fail('pixel_range:invalid_mode:%s' % out.get('err', 'returned'),
                            'invalid mode must raise SynphotError', case, out)
        return
    mode = case['mode'].lower()
    lo, hi = outer_edges(bins)
    cls = 'lo=%s,hi=%s' % (pos_class(bins, lo_w), pos_class(bins, hi_w))
    if lo_w < lo or hi_w > hi:
        if out.get('err') != 'OverlapError':
            rep.oracle_fail('pixel_range:%s:out_of_bounds:%s' % (mode, out.get('err', 'returned')),
                            'range exceeds the bins: must raise OverlapError', case, out)
        return
    if 'err' in out:
        rep.oracle_fail('pixel_range:%s:%s:%s' % (mode, cls, out['err']),
                        'range inside the bins but raised %s' % out['err'], case, out)
        return
    v = out['ok']
    if v < 0:
        rep.oracle_fail('pixel_range:%s:%s:negative' % (mode, cls), 'negative pixel count', case, out)
    # exact reference count for the exact mode
    if mode == 'none':
        ref = frac_index(bins, hi_w) - frac_index(bins, lo_w)
        if abs(F(v) - ref) > F(1, 10 ** 7):
            rep.oracle_fail('pixel_range:none:%s:wrong_count' % cls,
                            'exact mode returns %r, geometry says %s' % (v, float(ref)), case, out)


def oracle_minmax(rep, case_none, outs):
    """outs: dict mode -> outcome for the same bins/range; 'min' <= 'none' <= 'max'"""
    if any('err' in o for o in outs.values()):
        return
    bins = [unq(x) for x in case_none['bins']]
    cls = 'lo=%s,hi=%s' % (pos_class(bins, min(unq(case_none['w0']), unq(case_none['w1']))),
                           pos_class(bins, max(unq(case_none['w0']), unq(case_none['w1']))))
    mn, no, mx = outs['min']['ok'], outs['none']['ok'], outs['max']['ok']
    if mn > no + 1e-9:
        rep.oracle_fail('pixel_range:min>none:%s' % cls, 'min=%s > none=%s' % (mn, no), case_none, outs)
    if mx < no - 1e-9:
        rep.oracle_fail('pixel_range:max<none:%s' % cls, 'max=%s < none=%s' % (mx, no), case_none, outs)


# ------------------------------------------------------------------ generators
def lattice_bins(rng, nmax):
    """strictly monotone centres on a dyadic lattice: every difference, midpoint and quotient the code
    forms before a comparison is exact in binary64"""
    n = rng.randint(2, nmax)
    start = rng.choice([1, 10, 1000, 5000]) * F(1)
    kind = rng.choice(['uniform', 'pow2', 'small_int', 'fine'])
    if kind == 'fine':      # pixels 2^-5 .. 2^-10 wide at wavelengths of thousands: widths down to 1e-7 of the wavelength
        start = rng.choice([4096, 5000, 65536]) * F(1)
    steps = []
    for _ in range(n - 1):
        if kind == 'fine':
            steps.append(steps[0] if steps and rng.random() < 0.7 else F(2) ** -rng.randint(5, 10))
        elif kind == 'uniform':
            steps.append(steps[0] if steps else F(rng.choice([1, 2, 4, 1]), rng.choice([1, 2, 4])))
        elif kind == 'pow2':
            steps.append(F(2) ** rng.randint(-2, 3))
        else:
            steps.append(F(rng.randint(1, 6)))
    b = [start]
    for s in steps:
        b.append(b[-1] + s)
    if rng.random() < 0.25:
        b = b[::-1]
    return b


def gen_helpers(rng, count, nmax):
    for _ in range(count):
        n = rng.randint(0, 3) if rng.random() < 0.05 else rng.randint(2, nmax)
        x = 10 ** rng.uniform(1, 6)
        c = []
        for _ in range(n):
            c.append(x)
            x += 10 ** rng.uniform(-6, 3)
        if rng.random() < 0.3:
            c.reverse()
        yield {'op': 'bin_edges', 'c': qs(c)}
        if rng.random() < 0.5 and n >= 1:
            yield {'op': 'bin_widths', 'e': qs(c)}
            yield {'op': 'bin_centers', 'e': qs(c)}


def cen_candidates(b):
    """centres, edges between them, quarter points (all dyadic), and points just outside"""
    s = sorted(b)
    out = set(s)
    for i in range(len(s) - 1):
        d = s[i + 1] - s[i]
        out.update([s[i] + d / 2, s[i] + d / 4, s[i] + 3 * d / 4, s[i] + d / 8])
    out.update([s[0] - (s[1] - s[0]) / 4, s[-1] + (s[-1] - s[-2]) / 4])
    return sorted(out)


def range_candidates(b):
    s = sorted(b)
    lo, hi = outer_edges(s)
    out = set(cen_candidates(b))
    out.update([lo, hi, lo + (s[0] - lo) / 2, hi - (hi - s[-1]) / 2, lo - (s[1] - s[0]) / 4, hi + (s[-1] - s[-2]) / 4])
    return sorted(out)


def gen_wave_range_exhaustive(bins_list):
    for b in bins_list:
        for cen in cen_candidates(b):
            for npix in range(1, len(b) + 2):
                for mode in MODES:
                    yield {'op': 'wave_range', 'bins': qs(b), 'cen': q(cen), 'npix_is_int': True,
                           'npix': npix, 'mode': mode}


def gen_pixel_range_exhaustive(bins_list):
    for b in bins_list:
        pts = range_candidates(b)
        for i, a in enumerate(pts):
            for c in pts[i:]:
                for mode in MODES:
                    yield {'op': 'pixel_range', 'bins': qs(b), 'w0': q(a), 'w1': q(c), 'mode': mode}


def small_lattices():
    """all centre arrays of 2..4 points with steps in {1,2} (both orders) + a few 5-point ones"""
    out = []
    for n in (2, 3, 4):
        for steps in itertools.product([1, 2], repeat=n - 1):
            b = [F(100)]
            for s in steps:
                b.append(b[-1] + s)
            out.append(b)
    out.append([F(100), F(101), F(103), F(104), F(108)])
    out.append([F(10), F(9), F(7), F(6)])
    out.append([F(5000) + F(i, 2) for i in range(6)])
    return out


def gen_random_ranges(rng, count, nmax):
    for _ in range(count):
        b = lattice_bins(rng, nmax)
        if rng.random() < 0.15:
            # the same geometry in small numbers (wavelengths in metres: 2^-30 .. 2^-36 of the Angstrom values);
            # powers of two keep every operation exact
            k = F(2) ** -rng.randint(30, 36)
            b = [x * k for x in b]
        if rng.random() < 0.5:
            cen = rng.choice(cen_candidates(b))
            mode = rng.choice(MODES)
            case = {'op': 'wave_range', 'bins': qs(b), 'cen': q(cen), 'npix_is_int': True,
                    'npix': rng.randint(1, len(b) + 1), 'mode': mode}
            r = rng.random()
            if r < 0.03:
                case['mode'] = rng.choice(['Round', 'MIN', 'bogus', ''])
            elif r < 0.05:
                case['npix_is_int'] = False
            yield case
        else:
            pts = range_candidates(b)
            a, c = rng.choice(pts), rng.choice(pts)
            mode = rng.choice(MODES)
            if rng.random() < 0.03:
                mode = rng.choice(['None', 'MAX', 'bogus'])
            yield {'op': 'pixel_range', 'bins': qs(b), 'w0': q(a), 'w1': q(c), 'mode': mode}


def gen_obs(rng, count):
    """unit wrappers.  The wrapper converts the caller's wavelengths to Angstrom (one rounding), so the
    central wavelength is placed 1/8 or 3/8 of a spacing off a centre and at least 1/16 pixel away from the
    outer edges: no decision of the helpers sits on a threshold."""
    for _ in range(count):
        b = sorted(lattice_bins(rng, 8))
        if b[0] - (b[1] - b[0]) <= 0:
            continue
        i = rng.randrange(len(b) - 1)
        cen = b[i] + (b[i + 1] - b[i]) * rng.choice([F(1, 8), F(3, 8), F(5, 8)])
        npix = rng.randint(1, len(b))
        fi = frac_index(b, cen)
        if fi - F(npix, 2) < F(-7, 16) or fi + F(npix, 2) > len(b) - F(9, 16):
            npix = 1
            if fi - F(npix, 2) < F(-7, 16) or fi + F(npix, 2) > len(b) - F(9, 16):
                continue
        yield {'op': 'obs_ranges', 'bins': qs(b), 'cen': q(cen), 'npix': npix,
               'mode': rng.choice(MODES), 'unit': rng.choice(['AA', 'nm', 'micron', 'THz', '1/micron'])}


# ------------------------------------------------------------------ driver of the check
def process(rep, cases):
    """run implementation + model on every case, compare, evaluate the oracles"""
    model_cases = [c for c in cases if c['op'] != 'obs_ranges']
    impl = core.pmap(impl_call, cases)
    model = dict(zip(map(id, model_cases), core.run_model(model_cases)))
    groups = {}
    for c, o in zip(cases, impl):
        op = c['op']
        tags = [op, 'outcome:' + (o.get('err') or 'ok')]
        if 'mode' in c:
            tags.append('mode:' + c['mode'].lower())
        rep.count(c, nontrivial='err' not in o or o['err'] in ('OverlapError',), tags=tags)
        if op == 'obs_ranges':
            # wrappers: compare against the plain functions through the model in Angstrom
            mc = {'op': 'wave_range', 'bins': c['bins'], 'cen': c['cen'], 'npix_is_int': True,
                  'npix': c['npix'], 'mode': c['mode']}
            if '_seen' in o:        # reciprocal unit: the centres as the wrapper's conversion hands them to wave_range
                mc['bins'] = qs(o['_seen'])
            m = core.run_model([mc])[0]
            if ('err' in m) != ('err' in o) or ('err' in m and m['err'] != o['err']):
                rep.mismatch(op, 'wrapper outcome %s vs model %s' % (o, m), c, o, m)
            elif 'ok' in m:
                r = same(o['ok']['range'], m['ok'], rtol=1e-9)
                if r:
                    rep.mismatch(op, r, c, o, m)
                # the statement's claims on the implementation alone (whatever the model says)
                if o['ok']['range'][0] > o['ok']['range'][1]:
                    rep.oracle_fail('obs_ranges:%s:unordered' % c['unit'], 'range %r is not ordered' % (o['ok']['range'],), c, o)
                elif c['mode'] in ('round', 'none') and abs(o['ok']['npix'] - c['npix']) > 1e-6:
                    rep.oracle_fail('obs_ranges:%s:pixel_count' % c['mode'],
                                    'binned_pixelrange(binned_waverange(npix)) != npix', c, o)
            continue
        m = model[id(c)]
        r = same(o, m, rtol=1e-9, atol=1e-9 if op == 'pixel_range' else 0.0)
        if r:
            rep.mismatch(op, r, c, o, m)
        if op in ('bin_edges', 'bin_widths', 'bin_centers'):
            oracle_helpers(rep, c, o)
        elif op == 'wave_range':
            oracle_wave_range(rep, c, o)
        elif op == 'pixel_range':
            oracle_pixel_range(rep, c, o)
            key = (tuple(c['bins']), c['w0'], c['w1'])
            groups.setdefault(key, {})[c['mode'].lower()] = (c, o)
    for key, g in groups.items():
        if all(m in g for m in ('min', 'none', 'max')):
            oracle_minmax(rep, g['none'][0], {m: g[m][1] for m in ('min', 'none', 'max')})


def run(rep):
    thorough = rep.tier == 'thorough'
    rng = rep.rng('c18')
    cases = core.load_corpus('C18')
    cases += list(gen_helpers(rng, 4000 if thorough else 400, 200 if thorough else 12))
    lat = small_lattices()
    cases += list(gen_wave_range_exhaustive(lat))
    cases += list(gen_pixel_range_exhaustive(lat))
    nrand = 60000 if thorough else 3000
    rnd = list(gen_random_ranges(rng, nrand, 40 if thorough else 10))
    # complete the min/none/max trio for sampled pixel ranges
    extra = []
    for c in rnd:
        if c['op'] == 'pixel_range' and c['mode'] in MODES and rng.random() < 0.3:
            for m in MODES:
                if m != c['mode']:
                    d = dict(c)
                    d['mode'] = m
                    extra.append(d)
    cases += rnd + extra
    cases += list(gen_obs(rng, 600 if thorough else 160))
    rep.rule = ('bin helpers on random strictly monotone arrays (both orders, 2..N points, spacings 1e-6..1e3); '
                'wave_range / pixel_range exhaustively on all centre arrays of 2..4 points with steps in {1,2} '
                '(+3 irregular/descending/half-step arrays) x every centre, edge, quarter point and just-outside point '
                'x npix 1..N+1 x 4 modes, and randomly on dyadic-lattice arrays; Observation wrappers in AA/nm/micron. '
                'A case is non-trivial unless it ends in an argument-validation error; distinct = distinct case JSON.')
    rep.exhaustive = False
    process(rep, cases)


def search(rep, mismatches):
    """directed search after a model/implementation disagreement: thorough-budget oracles on the ops involved"""
    sub = core.Report(rep.pid, 'thorough', rep.seed + 1)
    rng = sub.rng('c18-search')
    cases = list(gen_helpers(rng, 2000, 50)) + list(gen_random_ranges(rng, 20000, 20))
    process(sub, cases)
    rep.notes.append('directed search after mismatch: %d cases, %d oracle failures' % (len(cases), len(sub.oracle_failures)))
    return sub.oracle_failures


def replay(rep, payload):
    case = payload['case']
    process(rep, [case] if isinstance(case, dict) else case)
