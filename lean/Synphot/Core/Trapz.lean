/-
  Synphot.Core.Trapz — `scipy.integrate.trapezoid(y, x=x)` on a list of sample pairs:
  Σ (xᵢ₊₁ − xᵢ)(yᵢ + yᵢ₊₁)/2, signed.
-/
import Synphot.Core.Basic

namespace Synphot
variable {K : Type} [Field K] [LinearOrder K] [IsStrictOrderedRing K]

def trapz : List (K × K) → K
  | p :: q :: t => (q.1 - p.1) * (p.2 + q.2) / 2 + trapz (q :: t)
  | _ => 0

/-- `trapezoid(y, x=x)` on two parallel arrays (NumPy would raise on a length mismatch;
all callers pass arrays of equal length) -/
def trapzXY (x y : List K) : K := trapz (x.zip y)

/-- sample a function on a grid: the pairs `(x, f x)` -/
def sampled (f : K → K) (x : List K) : List (K × K) := x.map fun a => (a, f a)

end Synphot
