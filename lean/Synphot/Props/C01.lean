/-
  C01 — Flux-unit conversion is physically exact, invertible and path-independent.

  Statements are about `convertOne` (one sample of `units.convert_flux`) and `convertFlux`
  (arrays), for every ordered field `K` (hence ℝ), every lawful family of transcendental
  functions (`Lemmas/TranscReal.lean` shows the real ones are lawful), all positive
  constants, wavelengths, areas × widths and Vega fluxes.
-/
import Synphot.Lemmas.Units
import Synphot.Lemmas.Binning

set_option linter.unusedSectionVars false
set_option linter.unusedVariables false

namespace Synphot.C01
open Synphot
variable {K : Type} [Field K] [LinearOrder K] [IsStrictOrderedRing K]
variable {P : PhysConst K} {T : Transc K} {s : Samp K}

/-- A→B→A is the identity: whenever the conversion A→B returns a value, converting that value
back returns the original (all 10×10 unit pairs, prefixed Jansky included). -/
theorem convert_roundtrip (hP : P.Pos) (hT : T.Lawful) (hs : s.Pos) (a b : FluxUnit K)
    (ha : a.Pos) (hb : b.Pos) {f g : K} (h : convertOne P T s a b f = .ok g) :
    convertOne P T s b a g = .ok f := by
  unfold convertOne at h ⊢
  by_cases hab : a = b
  · subst hab; simp only [if_true] at h ⊢; injection h with h; subst h; rfl
  · have hba : ¬ b = a := fun e => hab e.symm
    rw [if_neg hab] at h; rw [if_neg hba]
    cases hp : toPhotlam P T s a f with
    | error e => rw [hp] at h; cases h
    | ok p =>
      rw [hp] at h
      have h' : ofPhotlam P T s b p = .ok g := h
      have h1 := toPhotlam_ofPhotlam hP hT hs b hb h'
      have h2 := ofPhotlam_toPhotlam hP hT hs a ha hp
      rw [h1]; exact h2

/-- A→B equals A→C→B for every intermediate unit C for which both hops return a value. -/
theorem convert_path_indep (hP : P.Pos) (hT : T.Lawful) (hs : s.Pos) (a b c : FluxUnit K)
    (ha : a.Pos) (hb : b.Pos) (hc : c.Pos) {f y z : K}
    (h1 : convertOne P T s a c f = .ok y) (h2 : convertOne P T s c b y = .ok z) :
    convertOne P T s a b f = .ok z := by
  by_cases hac : a = c
  · subst hac
    have : y = f := by
      unfold convertOne at h1; simp only [if_true] at h1; injection h1 with h1; exact h1.symm
    subst this; exact h2
  by_cases hcb : c = b
  · subst hcb
    have : z = y := by
      unfold convertOne at h2; simp only [if_true] at h2; injection h2 with h2; exact h2.symm
    subst this; exact h1
  by_cases hab : a = b
  · subst hab
    have := convert_roundtrip hP hT hs a c ha hc h1
    rw [this] at h2; injection h2 with h2; subst h2
    unfold convertOne; simp
  · unfold convertOne at h1 h2 ⊢
    rw [if_neg hac] at h1; rw [if_neg hcb] at h2; rw [if_neg hab]
    cases hp : toPhotlam P T s a f with
    | error e => rw [hp] at h1; cases h1
    | ok p =>
      rw [hp] at h1
      have h1' : ofPhotlam P T s c p = .ok y := h1
      have hq := toPhotlam_ofPhotlam hP hT hs c hc h1'
      rw [hq] at h2
      exact h2

/-! ### the physical definitions -/

/-- photon energy `hc/λ`: FLAM = PHOTLAM · hc/λ -/
theorem flam_def (p : K) : ofPhotlam P T s .flam p = .ok (p * (P.h * P.c) / s.lam) := rfl

/-- `F_ν = F_λ λ²/c` -/
theorem fnu_def (p : K) :
    ofPhotlam P T s .fnu p = .ok ((p * (P.h * P.c) / s.lam) * s.lam ^ 2 / P.c) := rfl

theorem photnu_def (p : K) : ofPhotlam P T s .photnu p = .ok (p * s.lam ^ 2 / P.c) := rfl

/-- STmag = −2.5 log₁₀(F_λ / zero point) -/
theorem stmag_def (p : K) (hp : 0 < p * (P.h * P.c) / s.lam / P.stZero) :
    ofPhotlam P T s .stmag p = .ok (-(5/2) * T.log10 (p * (P.h * P.c) / s.lam / P.stZero)) := by
  simp [ofPhotlam, toMag, not_le.mpr hp]

/-- ABmag = −2.5 log₁₀(F_ν / zero point) -/
theorem abmag_def (p : K) (hp : 0 < p * (P.h * P.c) / s.lam * s.lam ^ 2 / P.c / P.abZero) :
    ofPhotlam P T s .abmag p =
      .ok (-(5/2) * T.log10 (p * (P.h * P.c) / s.lam * s.lam ^ 2 / P.c / P.abZero)) := by
  simp [ofPhotlam, toMag, not_le.mpr hp]

/-- with the zero point written as `10^(−0.4·zp)`, the magnitude is `−2.5 log₁₀ F − zp`
(zp = 21.10 for STmag, 48.60 for ABmag) -/
theorem mag_zero_point (hT : T.Lawful) (x zp : K) (hx : 0 < x) :
    -(5/2) * T.log10 (x / T.pow10 (-(2/5) * zp)) = -(5/2) * T.log10 x - zp := by
  have hz := hT.pow10_pos (-(2/5) * zp)
  have : x / T.pow10 (-(2/5) * zp) = x * T.pow10 ((2/5) * zp) := by
    have h1 : T.pow10 (-(2/5) * zp) * T.pow10 ((2/5) * zp) = 1 := by
      rw [← hT.pow10_add]; simp [hT.pow10_zero]
    rw [div_eq_iff (ne_of_gt hz), mul_assoc, mul_comm (T.pow10 (2 / 5 * zp)), h1, mul_one]
  rw [this, hT.log10_mul x _ hx (hT.pow10_pos _), hT.log10_pow10]; ring

/-- count = PHOTLAM × area × wavelength-bin width -/
theorem count_def (p w : K) (hw : s.countFactor = some w) :
    ofPhotlam P T s .count p = .ok (p * w) := by simp [ofPhotlam, hw]

/-- OBMAG = −2.5 log₁₀(count) -/
theorem obmag_def (p w : K) (hw : s.countFactor = some w) (hp : 0 < p * w) :
    ofPhotlam P T s .obmag p = .ok (-(5/2) * T.log10 (p * w)) := by
  simp [ofPhotlam, hw, toMag, not_le.mpr hp]

/-- VEGAMAG = −2.5 log₁₀(F / F_Vega) -/
theorem vegamag_def (p v : K) (hv : s.vega = some v) (hp : 0 < p / v) :
    ofPhotlam P T s .vegamag p = .ok (-(5/2) * T.log10 (p / v)) := by
  simp [ofPhotlam, hv, toMag, not_le.mpr hp]

/-- the count factor of `convert_flux` is bin width × area, with the widths of
`calculate_bin_widths(calculate_bin_edges(wavelengths))` -/
theorem countFactors_def (w e bw : List K) (area : K) (hv : validateWavelengths w = .ok ())
    (he : binEdges w = .ok e) (hw : binWidths e = .ok bw) :
    countFactors w area = .ok (bw.map (· * area)) := by
  simp [countFactors, calcBinEdges_eq w e hv he, hw, bind, Except.bind, pure, Except.pure]

/-! ### missing inputs raise instead of returning a number -/

theorem needs_area (a b : FluxUnit K) (hab : a ≠ b) (hs : s.countFactor = none)
    (hn : a.needsArea = true ∨ b.needsArea = true) (f : K) :
    (∃ e, convertOne P T s a b f = .error e) := by
  unfold convertOne
  rw [if_neg hab]
  rcases hn with hn | hn
  · cases a <;> simp [FluxUnit.needsArea] at hn <;>
      exact ⟨.synphotError, by simp [toPhotlam, hs, bind, Except.bind]⟩
  · cases hp : toPhotlam P T s a f with
    | error e => exact ⟨e, by simp [hp, bind, Except.bind]⟩
    | ok p =>
      cases b <;> simp [FluxUnit.needsArea] at hn <;>
        exact ⟨.synphotError, by simp [hp, ofPhotlam, hs, bind, Except.bind]⟩

theorem needs_vega (a b : FluxUnit K) (hab : a ≠ b) (hs : s.vega = none)
    (hn : a.needsVega = true ∨ b.needsVega = true) (f : K) :
    (∃ e, convertOne P T s a b f = .error e) := by
  unfold convertOne
  rw [if_neg hab]
  rcases hn with hn | hn
  · cases a <;> simp [FluxUnit.needsVega] at hn
    exact ⟨.synphotError, by simp [toPhotlam, hs, bind, Except.bind]⟩
  · cases hp : toPhotlam P T s a f with
    | error e => exact ⟨e, by simp [hp, bind, Except.bind]⟩
    | ok p =>
      cases b <;> simp [FluxUnit.needsVega] at hn
      exact ⟨.synphotError, by simp [hp, ofPhotlam, hs, bind, Except.bind]⟩

/-- the array form never supplies a count factor when no area was given: the first element of a
non-empty request fails, so the whole call fails -/
theorem convertFlux_no_area (a b : FluxUnit K) (hab : a ≠ b) (vega : Option (List K))
    (hn : a.needsArea = true ∨ b.needsArea = true) (w0 f0 : K) (wt ft : List K) :
    ∃ e, convertFlux P T (w0 :: wt) (f0 :: ft) a b none vega = .error e := by
  unfold convertFlux
  rw [if_neg hab]
  have hcf : countFactorsFor (w0 :: wt) a b (none : Option K) = .ok none := by
    unfold countFactorsFor; split_ifs <;> rfl
  rw [hcf]
  obtain ⟨e, he⟩ := needs_area (P := P) (T := T)
    (s := { lam := w0, countFactor := none, vega := vega.bind List.head? }) a b hab rfl hn f0
  refine ⟨e, ?_⟩
  show (do let cf ← (Except.ok none : Except Err (Option (List K))); convertAll P T a b (mkSamples (w0 :: wt) cf vega) (f0 :: ft)) = _
  simp only [bind, Except.bind, mkSamples, convertAll, Option.bind_none] at he ⊢
  rw [he]

/-- the same for a missing Vega spectrum -/
theorem convertFlux_no_vega (a b : FluxUnit K) (hab : a ≠ b) (area : Option K)
    (hn : a.needsVega = true ∨ b.needsVega = true) (w0 f0 : K) (wt ft : List K) :
    (∃ e, convertFlux P T (w0 :: wt) (f0 :: ft) a b area none = .error e) := by
  unfold convertFlux
  rw [if_neg hab]
  cases hcf : countFactorsFor (w0 :: wt) a b area with
  | error e => exact ⟨e, by simp [bind, Except.bind]⟩
  | ok cf =>
    obtain ⟨e, he⟩ := needs_vega (P := P) (T := T)
      (s := { lam := w0, countFactor := cf.bind List.head?, vega := none }) a b hab rfl hn f0
    refine ⟨e, ?_⟩
    simp only [bind, Except.bind, mkSamples, convertAll, Option.bind_none] at he ⊢
    rw [he]

end Synphot.C01
