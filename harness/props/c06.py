"""C06  An observation is source x bandpass, admitted only with adequate overlap."""
import itertools
import math
from fractions import Fraction as F

from ..core import NP as np

from .. import core, objects as O
from ..core import q, qs, guarded, same, unq

LATT = [F(1000), F(2000), F(3000), F(4000), F(5000), F(6000)]
FORCES = [None, 'none', 'taper', 'extrap', 'extrapolate', 'TAPER', 'Extrap', 'bogus']
PAR = {'thr': q(O.THR), 'atol0': q(1e-8), 'ovthr': q(0.01), 'atol': q(1e-8), 'rtol': q(1e-5)}


def force_class(f):
    if f is None:
        return 'none'
    l = f.lower()
    return 'none' if l == 'none' else 'taper' if l == 'taper' else 'extrap' if l.startswith('extrap') else 'invalid'


# ------------------------------------------------------------------ implementation
def impl_call(case):
    op = case['op']
    if op == 'overlap_status':
        from synphot.utils import overlap_status
        return guarded(lambda: overlap_status(np.array([O.fl(x) for x in case['a']]), np.array([O.fl(x) for x in case['b']])))
    if op == 'check_overlap':
        def f():
            band = O.build_prim(case['band'])
            other = O.build_prim(case['other'])
            kw = {}
            if case.get('wl') is not None:
                kw['wavelengths'] = np.array([O.fl(x) for x in case['wl']])
            if 'ovthr' in case:
                kw['threshold'] = O.fl(case['ovthr'])
            return band.check_overlap(other, **kw)
        out = guarded(f)
        out['_facts'] = guarded(lambda: facts(case))
        return out
    if op == 'obs':
        return obs_call(case)
    if op == 'normalize':       # the same verdict decides what normalize() does (C10's machinery, placed pairs only)
        from . import c10
        return c10.impl_call(case)
    raise KeyError(op)


def facts(case):
    """what the statement's characterisation needs, sampled from the implementation's own objects"""
    band = O.build_prim(case['band'])
    other = O.build_prim(case['other'])
    bw = band.waveset
    ow = other.waveset
    d = {'other_unbounded': ow is None, 'band_unbounded': bw is None}
    lf = case['other'].get('leaf', {})
    if lf.get('leaf') == 'empirical' and 'z' not in case['other']:
        # a table whose two end values are not both exactly zero can only be evaluated beyond its range by extrapolation
        ends = [unq(lf['vals'][0]), unq(lf['vals'][-1])]
        if not lf.get('keep_neg'):
            ends = [max(e, 0) for e in ends]       # negative values are zeroed at construction
        d['other_untapered_table'] = not (ends[0] == 0 and ends[1] == 0)
    if bw is not None:
        x = bw.value
        y = band(x).value
        nz = x[y > 0]
        d['a'] = [float(nz.min()), float(nz.max())] if nz.size else None
        d['band_ends'] = [float(x[0]), float(x[-1])]
        if ow is not None:
            d['other_at_band_ends'] = other(x[[0, -1]]).value
    if ow is not None:
        d['b'] = [float(ow.value.min()), float(ow.value.max())]
    if bw is not None and ow is not None and d.get('a') is not None:
        # the excluded-throughput fraction, two ways: end-point trapezoids over the excluded pieces, and the
        # trapezoid over the bandpass's own samples restricted to those pieces
        from scipy.integrate import trapezoid
        a1, a2 = d['a']
        b1, b2 = d['b']
        total = abs(trapezoid(y, x))
        coarse = fine = 0.0
        for lo, hi in ((a1, b1), (b2, a2)):
            if lo < hi:
                coarse += abs(trapezoid(band(np.array([lo, hi])).value, [lo, hi]))
                g = np.unique(np.concatenate([x[(x > lo) & (x < hi)], [lo, hi]]))
                fine += abs(trapezoid(band(g).value, g))
        d['total'], d['excl_coarse'], d['excl_fine'] = float(total), float(coarse), float(fine)
    return d


def obs_call(case):
    from synphot import Observation

    def f():
        src = O.build_prim(case['src'])
        band = O.build_prim(case['band'])
        kw = {}
        if case.get('binset') is not None:
            kw['binset'] = np.array([O.fl(x) for x in case['binset']])
        if case.get('force_given', True):
            kw['force'] = case['force']
        obs = Observation(src, band, **kw)
        outs = []
        for qu in case['queries']:
            xs = np.array([O.fl(x) for x in qu['xs']])
            if qu['q'] == 'sample':
                outs.append(guarded(lambda: obs(xs).value))
            elif qu['q'] == 'src_sample':
                outs.append(guarded(lambda: obs.spectrum(xs).value))
        return {'warned': 'PartialOverlap' in obs.warnings, 'queries': outs,
                '_band': band(np.array([O.fl(x) for x in case['queries'][0]['xs']])).value,
                '_src_after': obs.spectrum(np.array([O.fl(x) for x in case['queries'][0]['xs']])).value}
    out = guarded(f)

    def verdict():
        return O.build_prim(case['band']).check_overlap(O.build_prim(case['src']))
    out['_verdict'] = guarded(verdict)

    def rest():
        s = O.build_prim(case['src'])
        xs = np.array([O.fl(x) for x in case['queries'][0]['xs']])
        w = s.waveset
        return {'vals': s(xs).value, 'range': None if w is None else [float(w.value.min()), float(w.value.max())],
                'ends': None if w is None else s(np.array([w.value.min(), w.value.max()])).value,
                'is_table': type(getattr(s, '_model', s.model)).__name__ == 'Empirical1D'}      # the rest-frame model of a redshifted source
    out['_src_before'] = guarded(rest)
    return out


def model_case(case):
    if case['op'] == 'normalize':
        from . import c10
        return c10.model_case(case)
    c = {k: v for k, v in case.items() if not k.startswith('_')}
    c.update({k: v for k, v in PAR.items() if k not in c})
    if c['op'] == 'obs':
        c['force'] = case['force'] if case['force'] is not None else 'none'
    return c


def compare(case, o, m):
    if case['op'] == 'normalize':
        from . import c10
        return c10.compare(case, o, m)
    o2 = {k: v for k, v in o.items() if not k.startswith('_')}
    if 'ok' in o2 and isinstance(o2['ok'], dict):
        o2 = {'ok': {k: v for k, v in o2['ok'].items() if not k.startswith('_')}}
    return same(o2, m, rtol=1e-9, atol=1e-12)


# ------------------------------------------------------------------ oracle
def oracle(rep, case, out):
    op = case['op']
    if op == 'overlap_status':
        a = [O.fl(x) for x in case['a']]
        b = [O.fl(x) for x in case['b']]
        a1, a2, b1, b2 = min(a), max(a), min(b), max(b)
        want = 'full' if (a1 >= b1 and a2 <= b2) else 'none' if (a2 < b1 or b2 < a1) else 'partial'
        if out.get('ok') != want:
            rep.oracle_fail('overlap_status:%s_expected' % want, 'got %s' % out.get('ok', out), case, out)
        return
    if op == 'check_overlap':
        oracle_verdict(rep, case, out)
        return
    if op == 'normalize':
        from . import c10
        c10.oracle_admission(rep, case, out)
        return
    oracle_obs(rep, case, out)


def oracle_verdict(rep, case, out):
    fx = out.get('_facts', {})
    if 'ok' not in fx or case.get('wl') is not None:
        return
    f = fx['ok']
    if 'err' in out:
        if f.get('a') is None and not f['other_unbounded'] and not f['band_unbounded']:
            return          # an all-zero bandpass has no non-zero sample range
        rep.oracle_fail('check_overlap:%s' % out['err'], 'check_overlap raised %s' % out['err'], case, out)
        return
    v = out['ok']
    if f['other_unbounded']:
        if v != 'full':
            rep.oracle_fail('check_overlap:unbounded_other_not_full', 'unbounded spectrum must give full, got %s' % v, case, out)
        return
    if f['band_unbounded']:
        return
    if f.get('a') is None:
        return
    a1, a2 = f['a']
    b1, b2 = f['b']
    disjoint = a2 < b1 or b2 < a1
    contained = a1 >= b1 and a2 <= b2
    if (v == 'none') != disjoint:
        rep.oracle_fail('check_overlap:none_iff_disjoint', 'verdict %s, ranges %s vs %s' % (v, f['a'], f['b']), case, out)
    if contained and v != 'full':
        rep.oracle_fail('check_overlap:contained_not_full', 'verdict %s although contained' % v, case, out)
    if v == 'full' and not contained and not disjoint:
        # only when the other spectrum is already zero at both ends of the bandpass's sampling range
        ends = f.get('other_at_band_ends')
        if ends is None or not all(abs(e) <= 1e-8 for e in ends):
            rep.oracle_fail('check_overlap:full_without_zero_ends', 'full although not contained and other non-zero at band ends', case, out)
        elif f.get('other_untapered_table'):
            rep.oracle_fail('check_overlap:full_needs_extrapolation',
                            'full although the table is not contained and its end values are not zero (however small): it would have to be extrapolated', case, out)
    if v in ('partial_most', 'partial_notmost') and f.get('total'):
        # graded by the excluded-throughput threshold (decided only where both ways of measuring it agree)
        thr = O.fl(case['ovthr']) if 'ovthr' in case else 0.01
        fr = [f['excl_coarse'] / f['total'], f['excl_fine'] / f['total']]
        want = 'partial_most' if all(x < thr * (1 - 1e-9) for x in fr) else \
            'partial_notmost' if all(x > thr * (1 + 1e-9) for x in fr) else None
        if want is not None and v != want:
            rep.oracle_fail('check_overlap:grade:%s_expected' % want,
                            'verdict %s, excluded fraction %.6g (end-point) / %.6g (sampled), threshold %g' % (v, fr[0], fr[1], thr), case, out)


def oracle_obs(rep, case, out):
    vd = out.get('_verdict', {})
    if 'ok' not in vd:
        return
    v = vd['ok']
    fc = force_class(case['force'])
    if v == 'none':
        want = 'DisjointError'
    elif v == 'full':
        want = None
    else:
        want = {'none': 'PartialOverlap', 'invalid': 'SynphotError'}.get(fc)
    sig = 'obs_init:verdict=%s:force=%s' % (v, fc)
    if want is not None:
        if out.get('err') != want:
            rep.oracle_fail(sig + ':expected_' + want, 'got %s' % (out.get('err') or 'an observation'), case, out)
        return
    if out.get('err') == 'UndefinedBinset' and case.get('binset') is None:
        return      # neither operand has a sampling set and no binset was given: nothing to bin on
    if 'err' in out:
        rep.oracle_fail(sig + ':' + out['err'], 'admissible pair raised %s: %s' % (out['err'], out.get('msg', '')[:80]), case, out)
        return
    o = out['ok']
    if v != 'full' and not o['warned']:
        rep.oracle_fail(sig + ':no_warning', 'forced observation carries no PartialOverlap warning', case, out)
    if v == 'full' and o['warned']:
        rep.oracle_fail(sig + ':spurious_warning', 'fully overlapping pair carries a PartialOverlap warning', case, out)
    # obs(w) = source'(w) * bandpass(w)
    obs_vals = o['queries'][0]
    if 'ok' in obs_vals:
        for a, s, b in zip(obs_vals['ok'], o['_src_after'], o['_band']):
            if abs(a - s * b) > 1e-12 * max(abs(s * b), abs(a)) + 1e-300:
                rep.oracle_fail('obs_eval:not_product', 'obs=%r, source*band=%r' % (a, s * b), case, out)
                break
    # outside its own range the source is held at its end value (extrap) / tapered to zero
    sb = out.get('_src_before', {})
    if 'ok' in sb and sb['ok']['range'] is not None and v != 'full' and sb['ok']['is_table']:
        lo, hi = sb['ok']['range']
        e0, e1 = sb['ok']['ends']
        xs = [O.fl(x) for x in case['queries'][0]['xs']]
        for x, s, s0 in zip(xs, o['_src_after'], sb['ok']['vals']):
            if lo <= x <= hi and fc in ('extrap', 'taper') and abs(s - s0) > 1e-12 * max(abs(s0), abs(s)):
                rep.oracle_fail('obs_%s:changed_inside_the_source_range' % fc,
                                'inside its own range the observed source gives %r, the source itself %r' % (s, s0), case, out)
                break
        for x, s in zip(xs, o['_src_after']):
            if fc == 'extrap':
                if x < lo and abs(s - e0) > 1e-12 * abs(e0):
                    rep.oracle_fail('obs_extrap:not_end_value', 'below the source range: %r, end value %r' % (s, e0), case, out)
                    break
                if x > hi and abs(s - e1) > 1e-12 * abs(e1):
                    rep.oracle_fail('obs_extrap:not_end_value', 'above the source range: %r, end value %r' % (s, e1), case, out)
                    break
            if fc == 'taper':
                # zero beyond the added points lo^2/next and hi^2/prev; between: a ramp bounded by the end value
                if (x < lo and not (min(0.0, e0) - 1e-12 <= s <= max(0.0, e0) + 1e-12 * abs(e0))) or \
                        (x > hi and not (min(0.0, e1) - 1e-12 <= s <= max(0.0, e1) + 1e-12 * abs(e1))):
                    rep.oracle_fail('obs_taper:outside_not_ramp', 'outside the source range the tapered value %r exceeds the end value' % s, case, out)
                    break
            if lo <= x <= hi:
                pass
        if fc == 'taper' and case['src']['leaf']['leaf'] == 'empirical':
            z1 = 1 + (O.fl(case['src']['z']) if 'z' in case['src'] else 0.0)
            pts = sorted(O.fl(p) * z1 for p in case['src']['leaf']['pts'])
            w1, w2 = pts[0] ** 2 / pts[1], pts[-1] ** 2 / pts[-2]
            far = [s for x, s in zip(xs, o['_src_after']) if x < w1 * (1 - 1e-9) or x > w2 * (1 + 1e-9)]
            if any(s != 0 for s in far):
                rep.oracle_fail('obs_taper:not_zero_far_out', 'tapered source is non-zero far outside its range', case, out)


# ------------------------------------------------------------------ generators
def table_on(points, tapered, rng, nonneg=True, scale=None):
    vals = [O.dy(rng, 0.25, 4, 3) for _ in points]
    if scale is not None:
        vals = [v * scale for v in vals]
    if tapered:
        vals[0] = vals[-1] = F(0)
    return {'leaf': 'empirical', 'pts': qs(points), 'vals': qs(vals), 'keep_neg': True}


def sub_lattices():
    out = []
    for i in range(len(LATT)):
        for j in range(i + 1, len(LATT)):
            out.append(LATT[i:j + 1])
    return out


def band_variants(rng, pts):
    v = [('untapered', table_on(pts, False, rng))]
    if len(pts) >= 3:
        v.append(('tapered', table_on(pts, True, rng)))
    return v


def source_variants(rng, pts):
    v = [('table', {'prim': 'source', 'leaf': table_on(pts, False, rng)})]
    v.append(('faint_table', {'prim': 'source', 'leaf': table_on(pts, False, rng, scale=F(2) ** rng.choice([-28, -34, -50, -90]))}))
    if len(pts) >= 3:
        v.append(('table_tapered', {'prim': 'source', 'leaf': table_on(pts, True, rng)}))
        for end in (0, -1):         # zero at exactly one end: tapering must still add a point beyond the other
            lf = table_on(pts, False, rng)
            lf['vals'][end] = '0'
            v.append(('table_zero_%s_end' % ('blue' if end == 0 else 'red'), {'prim': 'source', 'leaf': lf}))
    w = pts[-1] - pts[0]
    v.append(('box', {'prim': 'source', 'leaf': {'leaf': 'box', 'amp': '2', 'x0': q((pts[0] + pts[-1]) / 2), 'width': q(w),
                                                 'step': q(w / 4)}}))
    v.append(('unbounded', {'prim': 'source', 'leaf': {'leaf': 'constflux', 'amp': '3/2', 'unit_name': 'photlam'}}))
    v.append(('redshifted', {'prim': 'source', 'leaf': table_on([p / 2 for p in pts], rng.random() < 0.5 and len(pts) >= 3, rng), 'z': '1'}))
    return v


def probe_points(rng):
    xs = {F(500), F(250), F(900), F(1500), F(2500), F(3500), F(4500), F(5500), F(6500), F(9000), F(20000)}
    xs.update(LATT)
    return qs(sorted(xs))


def gen_exhaustive(rng, K, thorough):
    subs = sub_lattices()
    cases = []
    for bp_pts in subs:
        for sp_pts in subs:
            for bname, bleaf in band_variants(rng, bp_pts):
                band = {'prim': 'bandpass', 'leaf': bleaf}
                for sname, src in source_variants(rng, sp_pts):
                    c = {'op': 'check_overlap', 'const': K, 'band': band, 'other': O.fill_ss(dict(src))}
                    if rng.random() < 0.15:
                        c['ovthr'] = q(rng.choice([0.001, 0.05, 0.2, 0.5]))
                    cases.append(c)
                    if not thorough and rng.random() < 0.5:
                        continue
                    force = rng.choice(FORCES)
                    cases.append({'op': 'obs', 'const': K, 'src': O.fill_ss(dict(src)), 'band': band, 'binset': None,
                                  'force': force, 'force_given': force is not None or rng.random() < 0.5,
                                  'queries': [{'q': 'sample', 'xs': probe_points(rng)},
                                              {'q': 'src_sample', 'xs': probe_points(rng)}]})
    return cases


def gen_grading(rng, K, n):
    """bandpass support strictly containing, or sticking out on one side of, an untapered source range, with the
    excess on each side anywhere from a sliver to most of the band, against the default and other thresholds"""
    cases = []
    for _ in range(n):
        a1 = O.dy(rng, 2000, 4000, 0)
        width = O.dy(rng, 1000, 4000, 0)
        nb = rng.randint(2, 7)
        bpts = sorted({a1, a1 + width} | {a1 + width * F(rng.randint(1, 63), 64) for _ in range(nb - 2)})
        sliver = lambda: width * F(rng.choice([1, 2, 3, 5, 8]), rng.choice([1024, 512, 256]))
        chunk = lambda: width * F(rng.randint(4, 28), 64)
        kind = rng.choice(['both_small_blue', 'both_small_red', 'both_small', 'both_large', 'blue_only', 'red_only'])
        lo = {'both_small_blue': sliver, 'both_small_red': chunk, 'both_small': sliver, 'both_large': chunk,
              'blue_only': rng.choice([sliver, chunk]), 'red_only': lambda: -chunk()}[kind]()
        hi = {'both_small_blue': chunk, 'both_small_red': sliver, 'both_small': sliver, 'both_large': chunk,
              'blue_only': lambda: -chunk(), 'red_only': rng.choice([sliver, chunk])}[kind]()
        b1, b2 = a1 + lo, a1 + width - hi
        spts = sorted({b1, b2} | {b1 + (b2 - b1) * F(rng.randint(1, 15), 16) for _ in range(rng.randint(0, 3))})
        band = {'prim': 'bandpass', 'leaf': table_on(bpts, False, rng)}
        if rng.random() < 0.25:
            # a bandpass with an analytic integral of its own (the grading is defined with the trapezoid rule on the
            # band's sampling set whatever the configured default integrator)
            band = O.fill_ss({'prim': 'bandpass', 'leaf': {'leaf': 'box', 'amp': q(F(rng.randint(1, 16), 16)), 'x0': q(a1 + width / 2),
                                                           'width': q(width), 'step': q(width / rng.choice([4, 8, 32]))}})
        src = {'prim': 'source', 'leaf': table_on(spts, False, rng, scale=F(2) ** rng.choice([0, 0, -20, -30, -40, -60, 30]))}
        c = {'op': 'check_overlap', 'const': K, 'band': band, 'other': O.fill_ss(src), '_kind': kind}
        if band['leaf']['leaf'] == 'box' and rng.random() < 0.5:
            c['_conf'] = {'default_integrator': 'analytical'}
        if rng.random() < 0.5:
            c['ovthr'] = q(rng.choice([F(1, 1000), F(1, 200), F(1, 20), F(1, 5), F(1, 2)]))
        cases.append(c)
    return cases


def ulp_neighbour_cases(rng, K, n):
    """end points that almost coincide: the bandpass's non-zero range sticks out of the source range by 1..4 float steps
    (or stays inside by as much) at one end"""
    import numpy as np
    out = []
    for _ in range(n):
        b1, b2 = sorted(rng.sample(LATT, 2))
        a1, a2 = b1, b2
        steps = rng.randint(1, 4) * rng.choice([1, -1])
        which = rng.choice(['lo', 'hi'])

        def step(x, k):
            v = float(x)
            for _ in range(abs(k)):
                v = float(np.nextafter(v, np.inf if k > 0 else -np.inf))
            return F(v)
        if which == 'hi':
            a2 = step(b2, steps)
        else:
            a1 = step(b1, -steps)
        mid = (b1 + b2) / 2
        band = {'prim': 'bandpass', 'leaf': table_on([a1, mid, a2], False, rng)}
        src = {'prim': 'source', 'leaf': table_on([b1, mid + 1, b2], False, rng)}
        out.append({'op': 'check_overlap', 'const': K, 'band': band, 'other': O.fill_ss(src)})
        out.append({'op': 'overlap_status', 'a': qs([a1, a2]), 'b': qs([b1, b2])})
        force = rng.choice(FORCES)
        out.append({'op': 'obs', 'const': K, 'src': O.fill_ss(dict(src)), 'band': band, 'binset': None, 'force': force,
                    'force_given': force is not None, 'queries': [{'q': 'sample', 'xs': probe_points(rng)},
                                                                  {'q': 'src_sample', 'xs': probe_points(rng)}]})
    return out


def gen_status(rng, n):
    out = []
    for _ in range(n):
        a = sorted(rng.sample(LATT, 2))
        b = sorted(rng.sample(LATT, 2))
        if rng.random() < 0.3:
            a = a[::-1]
        out.append({'op': 'overlap_status', 'a': qs(a + [a[0]]), 'b': qs(b)})
    for a in itertools.combinations(LATT[:4], 2):
        for b in itertools.combinations(LATT[:4], 2):
            out.append({'op': 'overlap_status', 'a': qs(a), 'b': qs(b)})
    return out


def gen_random(rng, K, n):
    cases = []
    for _ in range(n):
        src = O.gen_prim(rng, 'source', transcendental=False)
        band = O.gen_prim(rng, 'bandpass', transcendental=False)
        O.fill_ss(src); O.fill_ss(band)
        if rng.random() < 0.5:
            c = {'op': 'check_overlap', 'const': K, 'band': band, 'other': src}
            if rng.random() < 0.2:
                c['wl'] = qs(O.sample_grid(rng, rng.randint(2, 8), 900, 9500))
            cases.append(c)
        else:
            force = rng.choice(FORCES)
            cases.append({'op': 'obs', 'const': K, 'src': src, 'band': band, 'binset': None, 'force': force,
                          'force_given': force is not None,
                          'queries': [{'q': 'sample', 'xs': probe_points(rng)}, {'q': 'src_sample', 'xs': probe_points(rng)}]})
    return cases


def run(rep):
    thorough = rep.tier == 'thorough'
    rng = rep.rng('c06')
    K = O.consts()
    cases = core.load_corpus('C06')
    for c in cases:
        c['const'] = K
    cases += gen_status(rng, 200)
    cases += gen_exhaustive(rng, K, thorough)
    cases += gen_grading(rng, K, 6000 if thorough else 600)
    cases += ulp_neighbour_cases(rng, K, 1000 if thorough else 100)
    cases += gen_random(rng, K, 40000 if thorough else 1500)
    from . import c10
    placed = []
    while len(placed) < (3000 if thorough else 300):
        c = c10.gen_case(rng, K, thorough)
        if c.get('_placed'):
            placed.append(c)
    cases += placed
    rep.rule = ('all pairs of sub-intervals of a 6-point lattice (every interval relation incl. shared end points) x '
                '{untapered, tapered} bandpass x {table, faint table (values 2^-28 .. 2^-90), tapered table, tables zero at one end only, box with waveset, unbounded constant, redshifted table} source: '
                'check_overlap verdicts (some with other thresholds) and Observation construction with force in '
                '{None, none, taper, extrap, extrapolate, TAPER, Extrap, bogus}, sampled inside, outside and far outside both ranges; '
                'end points 1-4 float steps apart; normalize() on graded and disjoint placements x force (the same verdict must raise DisjointError / PartialOverlap or proceed); plus graded placements (bandpass sticking out of an untapered source range by a sliver or a large part, on either or both sides, x 6 thresholds), random source/bandpass pairs off the lattice and overlap_status on arrays. Non-trivial: a verdict or an admission decision was produced.')

    def tags(c, o):
        t = [c['op'], 'outcome:' + (o.get('err') or (o['ok'] if isinstance(o.get('ok'), str) else 'ok'))]
        if c['op'] == 'obs':
            t.append('force:' + force_class(c['force']))
        return t
    core.run_cases(rep, cases, impl_call, model_case, oracle, tags_fn=tags, compare_fn=compare)
    rep.samples = [s if not isinstance(s, dict) else {k: v for k, v in s.items() if k != 'const'} for s in rep.samples]


def search(rep, mismatches):
    sub = core.Report(rep.pid, 'thorough', rep.seed + 1)
    rng = sub.rng('c06-search')
    K = O.consts()
    cases = gen_exhaustive(rng, K, True) + gen_grading(rng, K, 2000) + gen_random(rng, K, 2000)
    impl = core.pmap(impl_call, cases)
    for c, o in zip(cases, impl):
        oracle(sub, c, o)
    rep.notes.append('directed search after mismatch: %d cases, %d oracle failures' % (len(cases), len(sub.oracle_failures)))
    return sub.oracle_failures


def replay(rep, payload):
    c = payload['case']
    c['const'] = O.consts()
    core.run_cases(rep, [c], impl_call, model_case, oracle, compare_fn=compare)
