/-
  C13 — Sampling sets are valid and a composite samples every component.
-/
import Synphot.Lemmas.Merge
import Synphot.Lemmas.GenWave
import Synphot.Core.Tree

set_option linter.unusedSectionVars false
set_option linter.unusedVariables false
set_option linter.unusedSimpArgs false

namespace Synphot.C13
open Synphot
variable {K : Type} [Field K] [LinearOrder K] [IsStrictOrderedRing K]

/-! ### merging two wavelength sets -/

/-- the merged set is strictly increasing -/
theorem merge_sorted (thr : K) (a b m : List K) (h : mergeWavelengths thr (some a) (some b) = some m) :
    StrictAsc m := by
  simp only [mergeWavelengths, Option.some.injEq] at h; subst h
  exact filterClose_strictAsc thr _ (union1d_strictAsc a b)

/-- neighbours in the merged set are farther apart than the threshold -/
theorem merge_gaps (thr : K) (a b m : List K) (h : mergeWavelengths thr (some a) (some b) = some m) :
    Gaps thr m := by
  simp only [mergeWavelengths, Option.some.injEq] at h; subst h
  exact filterClose_gaps thr _ (union1d_strictAsc a b)

/-- every point of the merged set is a point of one of the inputs -/
theorem merge_subset (thr : K) (a b m : List K) (h : mergeWavelengths thr (some a) (some b) = some m)
    (x : K) (hx : x ∈ m) : x ∈ a ∨ x ∈ b := by
  simp only [mergeWavelengths, Option.some.injEq] at h; subst h
  exact (mem_union1d a b x).mp ((filterClose_sublist thr _).subset hx)

/-- every input point is kept, except the smaller of two points closer than the threshold -/
theorem merge_keeps (thr : K) (a b m : List K) (h : mergeWavelengths thr (some a) (some b) = some m)
    (x : K) (hx : x ∈ a ∨ x ∈ b) :
    x ∈ m ∨ ∃ y, (y ∈ a ∨ y ∈ b) ∧ x < y ∧ y - x ≤ thr := by
  simp only [mergeWavelengths, Option.some.injEq] at h; subst h
  by_cases hm : x ∈ filterClose thr (union1d a b)
  · exact Or.inl hm
  · obtain ⟨y, hy, h1, h2⟩ := filterClose_dropped thr _ (union1d_strictAsc a b) x
      ((mem_union1d a b x).mpr hx) hm
    exact Or.inr ⟨y, (mem_union1d a b y).mp hy, h1, h2⟩

/-- the result does not depend on the order of the arguments -/
theorem merge_comm (thr : K) (a b : Option (List K)) :
    mergeWavelengths thr a b = mergeWavelengths thr b a := by
  cases a <;> cases b <;> simp [mergeWavelengths, union1d_comm]

/-- merging a merged set with itself changes nothing -/
theorem merge_idem (thr : K) (a b m : List K) (h : mergeWavelengths thr (some a) (some b) = some m) :
    mergeWavelengths thr (some m) (some m) = some m := by
  have hs := merge_sorted thr a b m h
  have hg := merge_gaps thr a b m h
  simp only [mergeWavelengths, Option.some.injEq]
  rw [union1d_self m hs, filterClose_of_gaps thr m hg]

/-- an undefined set merges to the other argument -/
theorem merge_none (thr : K) (a : Option (List K)) :
    mergeWavelengths thr a none = a ∧ mergeWavelengths thr none a = a := by
  cases a <;> simp [mergeWavelengths]

/-! ### sampling sets of composites -/

/-- unchanged by scalar multiplication -/
theorem sampleset_scale (thr k : K) (m : Tree K) : (Tree.scale m k).sampleset thr = m.sampleset thr := rfl

/-- multiplied by `1+z` under redshift -/
theorem sampleset_redshift (thr z : K) (m : Tree K) :
    (Tree.redshift z m).sampleset thr = (m.sampleset thr).map (fun w => w.map (· * (1 + z))) := rfl

/-- an extinction curve hides its sampling set from composites, by design -/
theorem sampleset_extinction (thr : K) (t : Table K) : (Tree.leaf (.extinction t)).sampleset thr = none := rfl

/-- a composite keeps every sampling point of both components (up to the merge rule); when one
component has no sampling set, the other's is taken as it is -/
theorem sampleset_bin_keeps (thr : K) (op : BinOp) (l r : Tree K) (wl wr m : List K)
    (hl : l.sampleset thr = some wl) (hr : r.sampleset thr = some wr)
    (hm : (Tree.bin op l r).sampleset thr = some m) (x : K) (hx : x ∈ wl ∨ x ∈ wr) :
    x ∈ m ∨ ∃ y, (y ∈ wl ∨ y ∈ wr) ∧ x < y ∧ y - x ≤ thr := by
  simp only [Tree.sampleset, hl, hr] at hm
  exact merge_keeps thr wl wr m hm x hx

theorem sampleset_bin_one_sided (thr : K) (op : BinOp) (l r : Tree K) (h : r.sampleset thr = none) :
    (Tree.bin op l r).sampleset thr = l.sampleset thr := by
  simp only [Tree.sampleset, h]; exact (merge_none thr _).1

/-- `waveset` is either undefined, an error, or a strictly monotone array of positive wavelengths -/
theorem waveset_valid (thr : K) (m : Tree K) (w : List K) (h : m.waveset thr = .ok (some w)) :
    (∀ x ∈ w, 0 < x) ∧ (StrictAsc w ∨ StrictDesc w) := by
  unfold Tree.waveset at h
  cases hs : m.sampleset thr with
  | none => rw [hs] at h; cases h
  | some w' =>
    rw [hs] at h
    cases hv : validateWavelengths w' with
    | error e => simp [hv, bind, Except.bind] at h
    | ok u =>
      simp [hv, bind, Except.bind, pure, Except.pure] at h; subst h
      cases u
      exact (validate_ok_iff w').mp hv

/-- a sampling set containing a non-positive wavelength is refused, not returned -/
theorem waveset_refuses_nonpositive (thr : K) (m : Tree K) (w : List K)
    (hs : m.sampleset thr = some w) (x : K) (hx : x ∈ w) (h0 : x ≤ 0) :
    m.waveset thr = .error .zeroWavelength := by
  unfold Tree.waveset
  rw [hs]
  have := (validate_zero_iff w).mpr ⟨x, hx, h0⟩
  simp [this, bind, Except.bind]

/-! ### generated grids -/

/-- linear grid with a count: exactly `num` points, all in `[min, max)`, uniformly spaced -/
theorem linspace_spec (a b : K) (num : Nat) (hab : a < b) :
    (linspaceOpen a b num).length = num ∧
    (∀ x ∈ linspaceOpen a b num, a ≤ x ∧ x < b) ∧
    (linspaceOpen a b num = affineGrid a ((b - a) / num) num) := by
  refine ⟨affineGrid_length _ _ _, ?_, rfl⟩
  intro x hx
  obtain ⟨i, hi, rfl⟩ := mem_affineGrid hx
  have hn : (0 : K) < num := by
    have : 0 < num := Nat.lt_of_le_of_lt (Nat.zero_le i) hi
    exact_mod_cast this
  have hd : 0 < b - a := sub_pos.mpr hab
  have hi' : (i : K) < num := by exact_mod_cast hi
  have hi0 : (0 : K) ≤ i := by exact_mod_cast Nat.zero_le i
  constructor
  · have : 0 ≤ (i : K) * ((b - a) / num) := mul_nonneg hi0 (le_of_lt (div_pos hd hn))
    linarith
  · have h1 : (i : K) * ((b - a) / num) < (num : K) * ((b - a) / num) :=
      mul_lt_mul_of_pos_right hi' (div_pos hd hn)
    have h2 : (num : K) * ((b - a) / num) = b - a := by field_simp
    linarith

/-- linear grid with a step: points `min + i·δ`, all in `[min, max)` -/
theorem arange_spec [FloorRing K] (a b d : K) (hd : 0 < d) :
    ∀ x ∈ arange a b d, (∃ i : Nat, x = a + (i : K) * d) ∧ a ≤ x ∧ x < b := by
  intro x hx
  obtain ⟨i, hi, rfl⟩ := mem_affineGrid hx
  refine ⟨⟨i, rfl⟩, ?_, ?_⟩
  · have : 0 ≤ (i : K) * d := mul_nonneg (by exact_mod_cast Nat.zero_le i) (le_of_lt hd)
    linarith
  · have h1 : (i : K) < (b - a) / d := Nat.lt_ceil.mp hi
    have h2 : (i : K) * d < b - a := by
      have := mul_lt_mul_of_pos_right h1 hd
      rwa [div_mul_cancel₀ _ (ne_of_gt hd)] at this
    linarith

/-- log-spaced grids are the images under `10^·` of a uniform grid in `[log₁₀ min, log₁₀ max)` -/
theorem log_grid_spec [FloorRing K] (T : Transc K) (minw maxw : K) (num : Nat)
    (h : T.log10 minw < T.log10 maxw) :
    ∀ x ∈ generateWavelengths T minw maxw num none true,
      ∃ u, x = T.pow10 u ∧ T.log10 minw ≤ u ∧ u < T.log10 maxw := by
  intro x hx
  simp only [generateWavelengths, if_true, List.mem_map] at hx
  obtain ⟨u, hu, rfl⟩ := hx
  exact ⟨u, rfl, ((linspace_spec _ _ num h).2.1 u hu)⟩

/-! ### the default sampling sets resolve their profiles independently of centre, width, amplitude -/

/-- trapezoid integration of `a·f((x−m)/s)` over the grid `m + s·u` is `a·s·T₀` with `T₀` the
trapezoid sum of the canonical profile `f` over the canonical grid `u` — whatever `m`, `s ≠ 0`, `a`.
(Gaussian: `f u = exp(−u²/2)`, `u = −5 + i/10`; Ricker, Lorentz, box likewise.)  Hence the
*relative* quadrature error of a default sampling set is one number per profile shape; its value
(2e-6 for a Gaussian, …) is measured by the correspondence check, not proved. -/
theorem default_sampling_affine_invariant (f : K → K) (a m s : K) (hs : s ≠ 0) (grid : List K) :
    trapz ((grid.map fun u => m + s * u).map fun x => (x, a * f ((x - m) / s))) =
      a * s * trapz (grid.map fun u => (u, f u)) :=
  trapz_affine f a m s hs grid

/-- the Gaussian's default grid `arange(m − 5σ, m + 5σ, 0.1σ)` is the canonical grid mapped by
`u ↦ m + σu` (exactly 100 points in exact arithmetic) -/
theorem gaussianGrid_affine [FloorRing K] (m s : K) (hs : 0 < s) :
    gaussianGrid m s = (gaussianGrid (0 : K) 1).map fun u => m + s * u := by
  have hc1 : (m + 5 * s - (m - 5 * s)) / (s / 10) = 100 := by field_simp; ring
  have hc2 : ((0 : K) + 5 * 1 - (0 - 5 * 1)) / (1 / 10) = 100 := by norm_num
  have h100 : Nat.ceil (100 : K) = 100 := by
    have : (100 : K) = ((100 : Nat) : K) := by norm_num
    rw [this, Nat.ceil_natCast]
  simp only [gaussianGrid, arange, hc1, hc2, h100, affineGrid, List.map_map]
  apply List.map_congr_left
  intro i _
  simp only [Function.comp]
  ring

/-- non-vacuity: three near-coincident points, the two smaller ones are dropped -/
example : filterClose (1 / 10 : ℚ) [1, 2, 3, 61 / 20, 31 / 10, 5] = [1, 2, 31 / 10, 5] := by
  decide +kernel

end Synphot.C13
