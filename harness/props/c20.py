"""C20  Filter FFT parameterisation reconstructs the filter it was computed from.

One case = one bandpass table + how its wavelengths are handed over + a term count.  The implementation
runs filter_to_fft -> filter_from_fft -> analytical_model_from_fft on it (filters_to_fft_table for the
multi-filter cases).  The model (lean/Synphot/Core/FFT.lean at K = Q, Float-backed sin/cos) is asked twice:
`fft_to` on the same table, and `fft_from` on exactly the values the implementation reported, so that each
comparison measures the implementation's own rounding only.  The number of points np.arange produced for the
simplified grid (n+1, or n+2 by binary64 rounding of its end point) is an input of the model (DESIGN 1.2a).
"""
import json
import math

import numpy as np

from .. import core
from ..core import q, qs, guarded, same, unq

MODEL_NMAX = 64          # the model's DFT at Q is O(n^2): model comparison for n <= 64, oracle alone above
ANALYTIC_MANY = 100      # the analytic model costs ~n_terms*n: above this many terms it is evaluated on a sample
TOL = 1e-7               # model comparison, relative to the natural scale (sum |tr| for coefficients, peak for curves)
OTOL = 1e-8              # oracle: relative to the peak

SIG_FROM_CONST = 'filter_from_fft:constant-reconstruction:NaN'
SIG_ANA_CONST = 'analytical_model_from_fft:constant-reconstruction:NaN'


def fl(xs):
    return [float(unq(x)) for x in xs]


def samp_of(f):
    """the wavelengths (Angstrom) the filter is sampled at: the explicit `wavelengths` of the case, else the
    table's own points"""
    return fl(f['samp']) if 'samp' in f else fl(f['pts'])


def svals_of(f):
    """the curve actually sampled: the bandpass table interpolated at samp_of(f) (the table's values when the
    samples are its own points)"""
    return fl(f['svals']) if 'svals' in f else fl(f['vals'])


def ngrid(f):
    return len(f['samp']) if 'samp' in f else len(f['pts'])


# ------------------------------------------------------------------ implementation side
def make_bp(f):
    from synphot import SpectralElement
    from synphot.models import Empirical1D
    return SpectralElement(Empirical1D, points=np.array(fl(f['pts'])), lookup_table=np.array(fl(f['vals'])))


def wave_arg(f):
    """the `wavelengths` argument in the form the case asks for"""
    import astropy.units as u
    form = f['wform']
    if form == 'none':
        return None
    vals = np.array(fl(f['wvals'])) if 'wvals' in f else np.array(samp_of(f))
    if form == 'array':
        return vals
    if form == 'list':
        return vals.tolist()
    return vals * u.Unit({'AA': 'AA', 'nm': 'nm', 'micron': 'micron'}[form])


def to_dict(r):
    n, lam0, delta, trmax, pars = r
    return {'n': int(n), 'lam0': float(lam0.value), 'delta': float(delta.value), 'tr_max': float(trmax.value),
            're': [float(complex(p).real) for p in pars], 'im': [float(complex(p).imag) for p in pars]}


def decoy_bp(case):
    """a different bandpass derived from the case (shifted half grid, reversed and rescaled curve): whatever a
    call on it leaves behind (module-level or closure state) must not leak into the measured calls"""
    f = case['filters'][0] if case['op'] == 'fft_table' else case
    pts, vals = fl(f['pts']), fl(f['vals'])
    k = max(8, len(pts) // 2)
    from synphot import SpectralElement
    from synphot.models import Empirical1D
    v = [0.5 * x + 0.1 * (i % 3) for i, x in enumerate(reversed(vals))][:k]
    return SpectralElement(Empirical1D, points=np.array([x + 3.5 for x in pts[:k]]), lookup_table=np.array(v))


def pre_call(ff, step, case, bp, w):
    """one call of the history that precedes the measured calls; its result and errors are irrelevant"""
    import astropy.units as u
    try:
        with core.warnings.catch_warnings():
            core.warnings.simplefilter('ignore')
            if step == 'to_decoy':
                ff.filter_to_fft(decoy_bp(case), n_terms=3)
            elif step == 'from_decoy':
                ff.filter_from_fft(*ff.filter_to_fft(decoy_bp(case), n_terms=4))
            elif step == 'ana_decoy':
                r = ff.filter_to_fft(decoy_bp(case), n_terms=3)
                ff.analytical_model_from_fft(*r)(ff._simplified_wavelength(r[0], r[1], r[2]))
            elif step == 'table_decoy':
                ff.filters_to_fft_table({'decoy': (decoy_bp(case), None)}, n_terms=2)
            elif step == 'to_other_terms':
                ff.filter_to_fft(bp, wavelengths=w, n_terms=case['n_terms'] + 2)
            elif step == 'from_other_terms':
                ff.filter_from_fft(*ff.filter_to_fft(bp, wavelengths=w, n_terms=max(2, case['n_terms'] // 2)))
    except Exception:  # noqa
        pass


def pre_eval(m, grid, step, quantity):
    """one earlier evaluation of the analytic model object in the history (a sub-range, scattered points, the
    reversed grid, the grid in another unit / without units, points between the grid points)"""
    import astropy.units as u
    N = len(grid)
    kind = step['kind']
    if kind == 'sub':
        lo = min(N - 2, int(step['lo'] * N))
        hi = max(lo + 2, int(step['hi'] * N))
        x = grid[lo:hi]
    elif kind == 'points':
        x = grid[sorted({min(N - 1, int(f * N)) for f in step['fr']})]
    elif kind == 'reversed':
        x = grid[::-1]
    elif kind == 'offgrid':
        x = (grid[:-1] + grid[1:]) / 2
    elif kind == 'unit':
        x = grid.to(u.Unit(step['unit']))
        quantity = True
    else:                       # 'flip_units': the other of Quantity / plain numbers
        x = grid
        quantity = not quantity
    try:
        with core.warnings.catch_warnings():
            core.warnings.simplefilter('ignore')
            m(x if quantity else x.value)
    except Exception:  # noqa
        pass


def same_arrays(a, b):
    return a.shape == b.shape and bool(np.array_equal(a, b, equal_nan=True))


def impl_call(case):
    """the history of one case: optional earlier calls on a decoy filter / with other term counts, then
    filter_to_fft (optionally twice), then filter_from_fft (optionally twice) and the analytic model in either
    order; ONE analytic model object is evaluated on the history's earlier samplings first, then on the full grid
    (the measured evaluation) and once more on the full grid.  The measured call of each function is its last."""
    if case['op'] == 'fft_table':
        return impl_table(case)
    from synphot.filter_parameterization import filter_fft as ff
    hist = case.get('history') or {}
    out = {'repeat': []}
    bp = make_bp(case)
    w = wave_arg(case)
    seen = guarded(lambda: bp._validate_wavelengths(w).value)
    out['wl_exact'] = seen.get('ok') == samp_of(case)         # the model is given these wavelengths in Angstrom
    for step in hist.get('pre', []):
        pre_call(ff, step, case, bp, w)
    raw = {}

    def run_to():
        if hist.get('to_twice'):
            raw['r0'] = ff.filter_to_fft(bp, wavelengths=w, n_terms=case['n_terms'])
        raw['r'] = ff.filter_to_fft(bp, wavelengths=w, n_terms=case['n_terms'])
        return to_dict(raw['r'])
    out['to'] = guarded(run_to)
    if 'ok' not in out['to']:
        return out
    r = raw['r']
    if 'r0' in raw and to_dict(raw['r0']) != out['to']['ok']:
        out['repeat'].append('filter_to_fft')
    out['N'] = len(ff._simplified_wavelength(r[0], r[1], r[2]))
    args = r if case['from_form'] == 'quantity' else (r[0], r[1].value, r[2].value, r[3].value, r[4])

    def table_of(b):
        return {'pts': b.waveset.value, 'vals': np.array(b.model.lookup_table, dtype=float)}

    def run_from():
        if hist.get('from_twice'):
            raw['f0'] = table_of(ff.filter_from_fft(*args))
        b = ff.filter_from_fft(*args)
        # the table as stored (pts, vals) and the reconstructed bandpass sampled at the original grid
        res = table_of(b)
        raw['f'] = dict(res)
        res['at_wl'] = b(np.array(samp_of(case))).value
        return res

    def do_from():
        out['from'] = guarded(run_from)
        if 'f0' in raw and 'f' in raw and not all(same_arrays(raw['f0'][k], raw['f'][k]) for k in ('pts', 'vals')):
            out['repeat'].append('filter_from_fft')

    def run_ana():
        m = ff.analytical_model_from_fft(*args)
        grid = ff._simplified_wavelength(r[0], r[1], r[2])
        quantity = case['from_form'] == 'quantity'
        for step in hist.get('ana', []):
            pre_eval(m, grid, step, quantity)
        a1 = m(grid if quantity else grid.value)
        a2 = m(grid if quantity else grid.value)
        raw['a_same'] = same_arrays(np.asarray(getattr(a1, 'value', a1), dtype=float),
                                    np.asarray(getattr(a2, 'value', a2), dtype=float))
        return a1

    def do_ana():
        if not case.get('ana', True):
            return
        try:
            out['analytic'] = guarded(run_ana)
        except RecursionError:          # raised while guarded() itself was unwinding
            out['analytic'] = {'err': 'RecursionError'}
        if raw.get('a_same') is False:
            out['repeat'].append('analytical_model_from_fft')

    if hist.get('ana_first'):
        do_ana()
        do_from()
    else:
        do_from()
        do_ana()
    return out


def impl_table(case):
    from synphot.filter_parameterization import filter_fft as ff
    hist = case.get('history') or {}
    mapping, singles, Ns = {}, [], []
    for f in case['filters']:
        bp = make_bp(f)
        w = wave_arg(f)
        mapping[f['name']] = (bp, w)
        s = guarded(lambda: to_dict(ff.filter_to_fft(bp, wavelengths=w, n_terms=case['n_terms'])))
        singles.append(s)
        Ns.append(len(ff._simplified_wavelength(s['ok']['n'], s['ok']['lam0'], s['ok']['delta'])) if 'ok' in s else None)

    def rows_of(t, n_terms):
        rows = []
        for row in t:
            pars = [complex(row['fft_%d' % i]) for i in range(n_terms)]
            rows.append({'name': str(row['filter']),
                         'row': {'n': int(row['n_lambda']), 'lam0': float(row['lambda_0']),
                                 'delta': float(row['delta_lambda']), 'tr_max': float(row['tr_max']),
                                 're': [p.real for p in pars], 'im': [p.imag for p in pars]}})
        return {'rows': rows, 'colnames': list(t.colnames),
                'units': [str(t['lambda_0'].unit), str(t['delta_lambda'].unit)]}

    first = {}
    for step in hist.get('pre', []):        # earlier table builds: their result is irrelevant (except 'same')
        try:
            with core.warnings.catch_warnings():
                core.warnings.simplefilter('ignore')
                if step == 'reversed':
                    ff.filters_to_fft_table(dict(reversed(list(mapping.items()))), n_terms=case['n_terms'])
                elif step == 'decoy':
                    ff.filters_to_fft_table({'decoy': (decoy_bp(case), None)}, n_terms=2)
                elif step == 'other_terms':
                    ff.filters_to_fft_table(mapping, n_terms=max(1, case['n_terms'] - 1))
                elif step == 'same':
                    first['t'] = rows_of(ff.filters_to_fft_table(mapping, n_terms=case['n_terms']), case['n_terms'])
                else:
                    pre_call(ff, step, case, *mapping[case['filters'][0]['name']])
        except Exception:  # noqa
            pass
    out = {'table': guarded(lambda: rows_of(ff.filters_to_fft_table(mapping, n_terms=case['n_terms']), case['n_terms'])),
           'singles': singles, 'Ns': Ns, 'repeat': []}
    if 't' in first and 'ok' in out['table'] and core.plain(first['t']) != out['table']['ok']:
        out['repeat'].append('filters_to_fft_table')
    return out


# ------------------------------------------------------------------ model side
def model_to(f, N, n_terms):
    return {'op': 'fft_to', 'pts': f['pts'], 'vals': f['vals'], 'wl': f.get('samp', f['pts']), 'N': N, 'n_terms': n_terms}


def model_from(to, N):
    return {'op': 'fft_from', 'N': N, 'lam0': q(to['lam0']), 'delta': q(to['delta']), 'tr_max': q(to['tr_max']),
            're': qs(to['re']), 'im': qs(to['im'])}


def cmp_params(impl, model, scale):
    """reported parameters and Fourier coefficients; coefficients against the scale sum|tr| (individual ones
    cancel to ~0 legitimately)"""
    if 'err' in impl or 'err' in model:
        return same(impl, model)
    a, b = impl['ok'], model['ok']
    if a['n'] != b['n']:
        return 'n: impl %r vs model %r' % (a['n'], b['n'])
    for k in ('lam0', 'delta', 'tr_max'):
        r = same(a[k], b[k], rtol=1e-9, path=k)
        if r:
            return r
    for k in ('re', 'im'):
        r = same(a[k], b[k], rtol=0.0, atol=TOL * scale, path=k)
        if r:
            return r
    return None


def cmp_curve(impl, model, peak, path):
    if 'err' in impl or 'err' in model:
        return same({'err': impl.get('err')} if 'err' in impl else {'ok': 0},
                    {'err': model.get('err')} if 'err' in model else {'ok': '0'}, path=path)
    return same(impl['ok'], model['ok'], rtol=0.0, atol=TOL * peak, path=path)


# ------------------------------------------------------------------ oracle (implementation alone)
def is_constant(case):
    if 'curve' in case:
        return case['curve'] == 'constant'
    v = fl(case['vals'])
    return max(v) == min(v)


def median_step(pts):
    d = sorted(b - a for a, b in zip(pts, pts[1:]) if b - a != 0)
    m = len(d)
    return d[m // 2] if m % 2 else (d[m // 2 - 1] + d[m // 2]) / 2


class Collector:
    """worker-side stand-in for the report: the oracle runs where the implementation ran (in parallel)"""

    def __init__(self):
        self.fails = []


def fail(rep, sig, msg, case, out):
    """record an oracle failure; the (possibly large) case and outcome are kept for the first occurrences of a
    signature only (the report uses the first one)"""
    if isinstance(rep, Collector):
        rep.fails.append((sig, msg))
        return
    seen = rep.extra.setdefault('oracle_failure_counts', {})
    seen[sig] = seen.get(sig, 0) + 1
    if seen[sig] <= 3:
        rep.oracle_fail(sig, msg, case, out)
    else:
        rep.oracle_fail(sig, msg, None, None)


def hist_text(case):
    h = case.get('history') or {}
    if not h:
        return ''
    return ' [history: %s]' % json.dumps(h, sort_keys=True)


def reported(rep, op, f, t, case, out):
    """the reported (n, lambda_0, median step, peak) of one filter against the wavelengths it was sampled at and
    the curve sampled there (not the bandpass's own table when explicit wavelengths were given)"""
    pts, vals = samp_of(f), svals_of(f)
    n, peak = len(pts), max(vals)
    how = ' [explicit wavelengths: %s of a table of %d points]' % (f['skind'], len(f['pts'])) if 'samp' in f else ''
    if t['n'] != n:
        fail(rep, op + ':reported:n_lambda', 'n_lambda %r for %d sampled wavelengths%s' % (t['n'], n, how), case, out)
    if t['lam0'] != min(pts):
        fail(rep, op + ':reported:lambda_0', 'lambda_0 %r, smallest sampled wavelength %r%s' % (t['lam0'], min(pts), how), case, out)
    ms = median_step(pts)
    if not abs(t['delta'] - ms) <= 1e-12 * abs(ms):
        fail(rep, op + ':reported:delta_lambda', 'delta_lambda %r, median step %r%s' % (t['delta'], ms, how), case, out)
    if f['grid'] == 'lattice' and t['delta'] != unq(f['step']):
        fail(rep, op + ':reported:delta_lambda', 'delta_lambda %r on a regular grid of step %s%s' % (t['delta'], f['step'], how), case, out)
    # exact when the samples are knots of the table; interpolated samples: rounding of the interpolation only
    if not abs(t['tr_max'] - peak) <= (1e-12 * peak if f.get('skind') == 'between' else 0.0):
        fail(rep, op + ':reported:tr_max', 'tr_max %r, peak of the sampled curve %r (peak of the bandpass table %r)%s'
             % (t['tr_max'], peak, max(fl(f['vals'])), how), case, out)


def oracle(rep, case, out):
    for name in out.get('repeat', []):
        fail(rep, '%s:repeat:differs' % name, 'two identical calls of %s within one history gave different results%s'
             % (name, hist_text(case)), case, out)
    if case['op'] == 'fft_table':
        return oracle_table(rep, case, out)
    pts, vals = samp_of(case), svals_of(case)          # the sampled wavelengths and the curve sampled there
    n, peak = len(pts), max(vals)
    to = out['to']
    if 'err' in to:
        fail(rep, 'filter_to_fft:valid-input:%s' % to['err'], 'filter_to_fft failed on a valid bandpass: %s' % to, case, out)
        return
    t = to['ok']
    reported(rep, 'filter_to_fft', case, t, case, out)
    N = out['N']
    if N not in (n + 1, n + 2):
        fail(rep, '_simplified_wavelength:count', 'simplified grid has %d points for n_lambda=%d' % (N, n), case, out)
    want = min(case['n_terms'], N)
    if len(t['re']) != want:
        fail(rep, 'filter_to_fft:term-count', '%d parameters kept, asked for %d of %d' % (len(t['re']), case['n_terms'], N), case, out)
    const = is_constant(case) or len(t['re']) <= 1
    # -- reconstruction
    frm = out['from']
    if 'err' in frm:
        if frm['err'] == 'NaN' and const:
            fail(rep, SIG_FROM_CONST, 'the reconstruction does not span [0, peak]: all-NaN table '
                            '(one retained term / constant curve: 0/0 in the rescaling)', case, out)
        else:
            fail(rep, 'filter_from_fft:span:%s' % frm['err'], 'filter_from_fft failed / produced NaN: %s' % frm, case, out)
    elif not is_constant(case):
        f = frm['ok']
        lo, hi = min(f['vals']), max(f['vals'])
        if not (abs(lo) <= 1e-9 * peak and abs(hi - peak) <= 1e-9 * peak):
            fail(rep, 'filter_from_fft:span:value', 'reconstruction spans [%r, %r], peak is %r' % (lo, hi, peak), case, out)
        if len(f['pts']) != N or any(abs(a - (t['lam0'] + k * t['delta'])) > 1e-9 * abs(a) for k, a in enumerate(f['pts'])):
            fail(rep, 'filter_from_fft:grid', 'reconstruction is not tabulated on lambda_0 + k*delta_lambda', case, out)
        if case['regular'] and case['zero_min'] and len(t['re']) >= N:
            err = max(abs(a - b) for a, b in zip(f['at_wl'], vals))
            if not err <= OTOL * peak:
                fail(rep, 'filter_from_fft:exact-inverse:value',
                                'all %d terms kept, regular grid, zero minimum: reconstruction differs from the '
                                'input by %.3g at a grid point (peak %r)' % (N, err, peak), case, out)
            if not abs(max(f['at_wl']) - peak) <= OTOL * peak:
                fail(rep, 'filter_from_fft:exact-inverse:peak', 'peak of the reconstruction %r, reported %r'
                                % (max(f['at_wl']), peak), case, out)
    # -- analytic model on the full grid
    ana = out.get('analytic')
    if ana is None:
        return
    if 'err' in ana:
        if ana['err'] == 'NaN' and const:
            fail(rep, SIG_ANA_CONST, 'the analytic model is all-NaN on the full grid (one retained term / '
                            'constant curve: 0/0 in the rescaling)', case, out)
        else:
            fail(rep, 'analytical_model_from_fft:full-grid:%s' % ana['err'], 'analytic model failed: %s' % ana, case, out)
    elif 'ok' in frm and not is_constant(case):
        a, b = ana['ok'], frm['ok']['vals']
        err = max(abs(x - y) for x, y in zip(a, b)) if len(a) == len(b) else math.inf
        if not err <= OTOL * peak:
            fail(rep, 'analytical_model_from_fft:vs-tabulated:value',
                            'analytic model differs from the tabulated reconstruction by %.3g on the full grid (peak %r; '
                            'analytic spans [%r, %r])%s' % (err, peak, min(a), max(a), hist_text(case)), case, out)


def oracle_table(rep, case, out):
    t = out['table']
    singles = out['singles']
    ragged = any('ok' in s and len(s['ok']['re']) != case['n_terms'] for s in singles)
    if 'err' in t:
        if not ragged:
            fail(rep, 'filters_to_fft_table:valid-input:%s' % t['err'], 'table construction failed: %s' % t, case, out)
        return
    tt = t['ok']
    names = [f['name'] for f in case['filters']]
    if [r['name'] for r in tt['rows']] != names:
        fail(rep, 'filters_to_fft_table:rows:names', 'rows %r for filters %r' % ([r['name'] for r in tt['rows']], names), case, out)
        return
    want_cols = ['filter', 'n_lambda', 'lambda_0', 'delta_lambda', 'tr_max'] + ['fft_%d' % i for i in range(case['n_terms'])]
    if tt['colnames'] != want_cols or tt['units'] != ['Angstrom', 'Angstrom']:
        fail(rep, 'filters_to_fft_table:rows:columns', 'columns %r units %r' % (tt['colnames'], tt['units']), case, out)
    for r, s, f in zip(tt['rows'], singles, case['filters']):
        if 'ok' not in s or r['row'] != s['ok']:
            fail(rep, 'filters_to_fft_table:rows:values', 'row of %s is %r, filter_to_fft gives %r' % (r['name'], r['row'], s), case, out)
            return
        reported(rep, 'filters_to_fft_table', f, r['row'], case, out)


# ------------------------------------------------------------------ generators
def lattice(rng, lo, hi, bits):
    return round(rng.uniform(lo, hi) * 2 ** bits) / 2 ** bits


def gen_curve(rng, n, kind):
    """non-negative throughput on n points"""
    if kind == 'constant':
        return [rng.choice([0.25, 0.5, 1.0, 0.3, 0.7])] * n
    k = np.arange(n)
    v = np.zeros(n)
    for _ in range(rng.randint(1, 3)):
        c, wd, a = rng.uniform(0.15, 0.85) * n, rng.uniform(0.04, 0.3) * n, rng.uniform(0.2, 1.0)
        shape = rng.choice(['gauss', 'box', 'tri'])
        if shape == 'gauss':
            v += a * np.exp(-0.5 * ((k - c) / wd) ** 2)
        elif shape == 'box':
            v += a * (np.abs(k - c) <= wd)
        else:
            v += a * np.clip(1 - np.abs(k - c) / (2 * wd), 0, None)
    v += rng.uniform(0, 0.08) * np.array([rng.random() for _ in range(n)])
    v *= rng.choice([1.0, 1.0, 0.37, 0.9])
    if kind == 'zero_min':
        v = v - v.min()
        for i in rng.sample(range(n), rng.randint(0, 3)):
            v[i] = 0.0
        if rng.random() < 0.5:
            v[0] = v[-1] = 0.0
    else:                                   # strictly positive floor
        v = v - v.min() + rng.uniform(0.01, 0.2)
    return [float(x) for x in v]


UNIT_FORMS = {'nm': 'nm', 'micron': 'micron'}


def gen_filter(rng, n, grid=None, curve=None, wform=None, samp=None):
    import astropy.units as u
    grid = grid or rng.choice(['lattice', 'lattice', 'float', 'float', 'irregular', 'irregular', 'irregular'])
    curve = curve or rng.choices(['zero_min', 'positive', 'constant'], [70, 25, 5])[0]
    lam0 = rng.uniform(1000, 30000)
    step = rng.uniform(0.05, 1.0) * lam0 / n
    f = {'grid': grid, 'curve': curve}
    if grid == 'lattice':
        # multiples of 2^-6 below 2^17: lambda_0 + k*step, their differences and (n+1)*step are exact in binary64
        bits = 6
        lam0 = lattice(rng, 1000, 30000, bits)
        step = max(2.0 ** -bits, lattice(rng, step * 0.5, step * 1.5, bits))
        wvals = [lam0 + k * step for k in range(n)]
        wform = wform or rng.choice(['none', 'array', 'list', 'AA'])
        f['step'] = q(step)
    else:
        if grid == 'float':
            wvals = [lam0 + k * step for k in range(n)]
        else:
            jit = rng.uniform(0.02, 0.3)
            wvals = [lam0 + (k + (rng.uniform(-jit, jit) if 0 < k else 0.0)) * step for k in range(n)]
            if rng.random() < 0.5:          # jitter on a dyadic lattice: exact differences
                wvals = [round(x * 64) / 64 for x in wvals]
        wform = wform or rng.choice(['none', 'array', 'list', 'AA', 'nm', 'micron'])
    if wform in UNIT_FORMS:
        unit = u.Unit(UNIT_FORMS[wform])
        wvals = [float(x) for x in (np.array(wvals) * u.AA).to_value(unit)]
        pts = [float(x) for x in (np.array(wvals) * unit).to_value(u.AA)]    # astropy's own conversion (library)
    else:
        pts = wvals
    f.update({'pts': qs(pts), 'vals': qs(gen_curve(rng, n, curve)), 'wform': wform,
              'regular': grid in ('lattice', 'float'), 'zero_min': curve == 'zero_min'})
    if wform in UNIT_FORMS:
        f['wvals'] = qs(wvals)          # values in the unit; otherwise the wavelengths are pts themselves
    if samp is None:
        samp = n <= 400 and rng.random() < 0.4
    return add_sampling(rng, f) if samp else f


def add_sampling(rng, f, kind=None):
    """turn a filter whose table IS the sampled grid into one with explicit `wavelengths`: the grid G generated so
    far stays the sampled grid, the bandpass gets a richer table of its own --
    coarse:  k-1 extra knots inside every interval of G, 1-3 of them carrying a narrow peak above everything G sees;
    partial: the table continues beyond G (one or both sides) with a higher bump there;
    between: the table's knots are the midpoints of G (and one beyond each end), so every sample is interpolated.
    The curve the code samples is the table interpolated at G (`svals`); flags are those of the sampled curve."""
    G, V = fl(f['pts']), fl(f['vals'])
    n, peak = len(G), max(V)
    kind = kind or rng.choices(['coarse', 'partial', 'between'], [45, 30, 25])[0]
    if kind == 'coarse':
        k = rng.choice([2, 2, 3, 4])
        P, W = [], []
        for i in range(n - 1):
            for j in range(k):
                fr = j / k
                P.append(G[i] + (G[i + 1] - G[i]) * fr if j else G[i])
                W.append(V[i] + (V[i + 1] - V[i]) * fr if j else V[i])
        P.append(G[-1])
        W.append(V[-1])
        inner = [i for i in range(len(P)) if i % k]
        for i in rng.sample(inner, min(len(inner), rng.randint(1, 3))):
            W[i] = peak * rng.uniform(1.2, 2.5) + 0.05
    elif kind == 'partial':
        h0, h1 = G[1] - G[0], G[-1] - G[-2]
        lo = min(rng.choice([0, 0, rng.randint(2, max(2, n // 2))]), int(0.5 * G[0] / h0))   # wavelengths stay positive
        hi = rng.randint(2, max(2, n // 2)) if lo == 0 or rng.random() < 0.5 else 0
        top = peak * rng.uniform(1.3, 2.0) + 0.05
        P = [G[0] - h0 * j for j in range(lo, 0, -1)] + G + [G[-1] + h1 * j for j in range(1, hi + 1)]
        W = ([V[0] + (top - V[0]) * math.sin(math.pi * (lo - j + 1) / (lo + 1)) for j in range(lo, 0, -1)] + V +
             [V[-1] + (top - V[-1]) * math.sin(math.pi * j / (hi + 1)) for j in range(1, hi + 1)])
        if lo:
            W[0] = 0.0
        if hi:
            W[-1] = 0.0
    else:
        P = [G[0] - (G[1] - G[0]) / 2] + [(a + b) / 2 for a, b in zip(G, G[1:])] + [G[-1] + (G[-1] - G[-2]) / 2]
        W = [V[0]] + [max(a, b) * rng.choice([1.0, 1.0, 1.0, 1.6]) for a, b in zip(V, V[1:])] + [V[-1]]
    sv = [float(x) for x in np.interp(np.array(G), np.array(P), np.array(W))] if kind == 'between' else V
    if f['curve'] != 'constant' and max(sv) == min(sv):
        return f                            # nothing left to reconstruct: keep the table as the sampled grid
    f = dict(f)
    f.update({'samp': f['pts'], 'svals': qs(sv), 'pts': qs(P), 'vals': qs(W), 'skind': kind,
              'zero_min': min(sv) == 0.0, 'curve': 'constant' if max(sv) == min(sv) else f['curve']})
    if f['wform'] == 'none':                # explicit wavelengths: with or without units
        f['wform'] = rng.choice(['array', 'list', 'AA'])
    return f


PRE_CALLS = ['to_decoy', 'from_decoy', 'ana_decoy', 'table_decoy', 'to_other_terms', 'from_other_terms']
PRE_EVALS = ['sub', 'sub', 'sub', 'points', 'points', 'reversed', 'offgrid', 'unit', 'flip_units']


def gen_history(rng, eff):
    """what happens to the module / the analytic model object before the measured calls (eff: number of terms of
    the analytic model, None when it is not evaluated)"""
    h = {'pre': [rng.choice(PRE_CALLS) for _ in range(rng.choice([0, 0, 1, 1, 2, 3]))],
         'to_twice': rng.random() < 0.4, 'from_twice': rng.random() < 0.4, 'ana_first': rng.random() < 0.4,
         'ana': []}
    if eff is not None:
        k = rng.choice([0, 1, 1, 2, 2, 3]) if eff <= ANALYTIC_MANY else rng.choice([1, 1, 2])
        for _ in range(k):
            kind = rng.choice(PRE_EVALS)
            st = {'kind': kind}
            if kind == 'sub':
                lo = rng.uniform(0, 0.8)
                st.update(lo=lo, hi=rng.uniform(lo + 0.05, 1.0))
            elif kind == 'points':
                st['fr'] = [rng.random() for _ in range(rng.randint(2, 6))]
            elif kind == 'unit':
                st['unit'] = rng.choice(['nm', 'micron'])
            h['ana'].append(st)
    return h


def pick_n(rng, thorough):
    if not thorough or rng.random() < 0.5:
        return rng.randint(8, 64)
    return int(round(math.exp(rng.uniform(math.log(65), math.log(2000)))))


def gen_case(rng, thorough, n=None, terms=None, many=False, **kw):
    n = n or pick_n(rng, thorough)
    c = gen_filter(rng, n, **kw)
    c['op'] = 'fft_case'
    tclass = terms or rng.choices(['one', 'full', 'partial', 'few'], [7, 28, 45, 20])[0]
    if tclass == 'one':
        nt = 1
    elif tclass == 'full':
        nt = n + rng.choice([2, 2, 3, 10])          # >= the simplified grid's length (n+1 or n+2): every term kept
    elif tclass == 'few':
        nt = rng.randint(2, min(n + 1, 12))
    else:
        nt = rng.randint(2, n + 1)
    c['n_terms'] = nt
    c['tclass'] = tclass
    c['from_form'] = rng.choice(['quantity', 'float'])
    # the analytic model costs ~n_terms*n to evaluate: always on small grids and for few terms, sampled on large
    # grids (30% up to ANALYTIC_MANY terms, 6% above), always in the dedicated many-term cases (many=True)
    eff = min(nt, n + 1)
    c['ana'] = bool(many) or n <= MODEL_NMAX or eff <= 24 or rng.random() < (0.3 if eff <= ANALYTIC_MANY else 0.06)
    # thorough: the model (O(n^2) at Q) is compared on a little over half of the small grids
    c['model'] = n <= MODEL_NMAX and (not thorough or rng.random() < 0.55)
    c['history'] = gen_history(rng, eff if c['ana'] else None)
    return c


def gen_table_case(rng, thorough):
    nt = rng.randint(1, 12)
    fs = []
    for i in range(rng.randint(1, 4)):
        n = max(rng.randint(8, 64 if not thorough else 200), nt)       # every row has n_terms entries ...
        f = gen_filter(rng, n)
        f['name'] = rng.choice(['JOHNSON/V', 'Flat', 'sdss_r', 'F555W', 'x']) + '#%d' % i
        fs.append(f)
    if rng.random() < 0.1:                  # ... except in the ragged cases (Table raises ValueError)
        nt = max(ngrid(f) for f in fs) + rng.randint(3, 6)
    pre = [rng.choice(['reversed', 'decoy', 'other_terms', 'same', 'same', 'to_decoy', 'ana_decoy', 'from_decoy'])
           for _ in range(rng.choice([0, 1, 1, 2, 3]))]
    return {'op': 'fft_table', 'filters': fs, 'n_terms': nt, 'history': {'pre': pre}}


def gen_cases(rng, thorough):
    """generator: the dedicated cases first, then the random bulk"""
    # several hundred up to grid-length terms with the analytic model evaluated (first: the slowest calls);
    # before /repo f0f91fa these raised RecursionError from ~250 terms
    for i in range(40 if thorough else 4):
        n = rng.randint(260, 2000 if thorough else 700)
        c = gen_case(rng, thorough, n=n, terms='full' if i % 2 == 0 else 'partial', many=True)
        if c['tclass'] == 'partial':
            c['n_terms'] = rng.randint(250, n + 1)
        yield c
    # every term count 1..n+2 of one small grid per grid kind (complete enumeration of the term counts)
    for grid in ('lattice', 'float', 'irregular'):
        n = rng.randint(8, 16)
        base = gen_case(rng, thorough, n=n, grid=grid, curve='zero_min')
        for nt in range(1, n + 3):
            c = dict(base)
            c['n_terms'] = nt
            c['tclass'] = 'one' if nt == 1 else 'full' if nt >= n + 2 else 'partial'
            c['ana'] = True
            c['model'] = True
            c['history'] = gen_history(rng, min(nt, n + 1))
            yield c
    for _ in range(800 if thorough else 40):
        yield gen_table_case(rng, thorough)
    for _ in range(19000 if thorough else 540):
        yield ('gen', rng.getrandbits(64), thorough)        # generated in the pool process from its own seed


# ------------------------------------------------------------------ the loop
def work(item):
    """one unit of work in a pool process: a case, or a descriptor ('gen', seed, thorough) from which the case
    is generated here (deterministic in the seed); implementation, then the oracle on its outcome"""
    if isinstance(item, tuple):
        import random
        _, seed, thorough = item
        case = gen_case(random.Random(seed), thorough)
    else:
        case = item
    out = impl_call(case)
    col = Collector()
    oracle(col, case, out)
    out['_oracle'] = col.fails
    if case['op'] == 'fft_case':
        vals = svals_of(case)
        out['_peak'], out['_sum'] = max(vals), sum(vals)
    return case, out


def process(rep, items, with_model=True):
    done = core.pmap(work, items)
    cases = [c for c, _ in done]
    impl = [o for _, o in done]
    # model lines: phase A on the case, phase B on what the implementation reported
    mlines, slots = [], []
    for i, (c, o) in enumerate(zip(cases, impl)):
        if not with_model:
            break
        if c['op'] == 'fft_table':
            if all(N is not None for N in o['Ns']) and all(ngrid(f) <= MODEL_NMAX for f in c['filters']):
                mlines.append({'op': 'fft_table', 'n_terms': c['n_terms'],
                               'filters': [{'name': f['name'], 'pts': f['pts'], 'vals': f['vals'], 'wl': f.get('samp', f['pts']), 'N': N}
                                           for f, N in zip(c['filters'], o['Ns'])]})
                slots.append((i, 'table'))
            continue
        if ngrid(c) > MODEL_NMAX or not c.get('model', True) or 'ok' not in o['to'] or not o.get('wl_exact'):
            continue
        mlines.append(model_to(c, o['N'], c['n_terms']))
        slots.append((i, 'to'))
        if not is_constant(c):              # constant curve: 0/0 vs rounding noise is decided by binary64 rounding
            mlines.append(model_from(o['to']['ok'], o['N']))
            slots.append((i, 'from'))
    mout = core.run_model(mlines)
    model = [dict() for _ in cases]
    for (i, k), m in zip(slots, mout):
        model[i][k] = m
    for c, o, m in zip(cases, impl, model):
        if c['op'] == 'fft_table':
            tags = ['op:table', 'table:' + (o['table'].get('err') or 'ok')]
            rep.count(c, tags=tags)
            if 'table' in m:
                r = cmp_table(o, m['table'], c)
                if r:
                    rep.mismatch('fft_table', r, c, o, m)
            for sig, msg in o['_oracle']:
                fail(rep, sig, msg, c, o)
            continue
        n = ngrid(c)
        tags = ['op:roundtrip', 'grid:' + c['grid'], 'curve:' + c['curve'], 'terms:' + c['tclass'], 'wform:' + c['wform'],
                'size:' + ('8-64' if n <= 64 else '65-400' if n <= 400 else '401-2000'),
                'model:' + ('compared' if m else 'oracle-only'), 'wavelengths:' + c.get('skind', 'table-points')]
        h = c.get('history') or {}
        tags.append('history:pre-calls=%d,pre-evals=%d' % (len(h.get('pre', [])), len(h.get('ana', []))))
        if 'ok' in o['to']:
            tags.append('arange-count:n+%d' % (o['N'] - n))
            tags.append('from:' + (o['from'].get('err') or 'ok'))
            tags.append('analytic:' + ((o['analytic'].get('err') or 'ok') if 'analytic' in o else 'not-evaluated'))
            if not o.get('wl_exact'):
                tags.append('wl-conversion-inexact')
        rep.count(c, nontrivial=not is_constant(c) and c['n_terms'] > 1, tags=tags)
        peak = o['_peak']
        if 'to' in m:
            r = cmp_params(o['to'], m['to'], max(o['_sum'], peak))
            if r:
                rep.mismatch('fft_to', r, c, o, m)
        if 'from' in m:
            mf = m['from']
            io, mo = o['from'], mf['from']
            r = None
            if 'err' in io or 'err' in mo:
                if io.get('err') != mo.get('err'):
                    r = 'from: impl %s vs model %s' % (io.get('err', 'ok'), mo.get('err', 'ok'))
            else:
                r = same(io['ok']['pts'], mo['ok']['pts'], rtol=1e-9, path='from.pts') or \
                    same(io['ok']['vals'], mo['ok']['vals'], rtol=0.0, atol=TOL * peak, path='from.vals')
            if not r and 'analytic' in o:
                r = cmp_curve(o['analytic'], mf['analytic'], peak, 'analytic')
            if r:
                rep.mismatch('fft_from', r, c, o, m)
        for sig, msg in o['_oracle']:
            fail(rep, sig, msg, c, o)
    return impl


def cmp_table(o, m, c):
    t = o['table']
    if 'err' in t or 'err' in m:
        return None if t.get('err') == m.get('err') else 'table: impl %s vs model %s' % (t.get('err', 'ok'), m.get('err', 'ok'))
    rows, mrows = t['ok']['rows'], m['ok']
    if [r['name'] for r in rows] != [r['name'] for r in mrows]:
        return 'table rows: impl %r vs model %r' % ([r['name'] for r in rows], [r['name'] for r in mrows])
    for r, mr, f in zip(rows, mrows, c['filters']):
        vals = svals_of(f)
        d = cmp_params({'ok': r['row']}, {'ok': mr['row']}, max(sum(vals), max(vals)))
        if d:
            return 'row %s: %s' % (r['name'], d)
    return None


RULE = ('bandpass tables (Empirical1D) of n points, n uniform in 8..64 (quick; thorough: half of the cases log-uniform in '
        '65..2000), lambda_0 in 1e3..3e4 A, total span 5%%..100%% of lambda_0; grids: exactly regular on a dyadic lattice '
        '(2^-6 A; sums/differences exact, arange count n+1), regular in binary64 (random lambda_0 and step; arange count '
        'n+1 or n+2), mildly irregular (jitter 2%%..30%% of the step, half of them on the lattice); curves: 1-3 '
        'gaussian/box/triangle bumps + noise, shifted to zero minimum (70%%), positive floor (25%%), constant (5%%); '
        'wavelengths handed over as None (waveset) / ndarray / list / Quantity in Angstrom, nm, micron; 40%% of the filters (grids <= 400 points) are sampled on explicit wavelengths that are NOT the bandpass table: the table has k-1 extra knots in every interval with 1-3 narrow peaks the samples skip (coarse), continues beyond the sampled range with a higher bump (partial), or has its knots at the midpoints (between: every sample interpolated); reported parameters, span and exact inverse are judged on the sampled curve; n_terms: 1 (7%%), '
        '>= grid length i.e. every term (28%%), uniform 2..n+1 (45%%), 2..12 (20%%), plus every term count 1..n+2 of one '
        'small grid per grid kind; filter_from_fft / analytical_model_from_fft called with Quantities or plain floats; '
        'every case is a history: 0-3 earlier calls (filter_to_fft / filter_from_fft / analytic model / table on a decoy '
        'filter, or on the same filter with other term counts), filter_to_fft and filter_from_fft optionally called twice '
        '(results must be identical), filter_from_fft and the analytic model in either order; ONE analytic model object '
        'is first evaluated 0-3 times on a sub-range / 2-6 scattered points / the reversed grid / midpoints / the grid in '
        'nm or micron / with-without units, then on the full grid (measured) and again on the full grid (must be '
        'identical); tables are preceded by 0-3 builds (reversed mapping, decoy, other n_terms, same); the model side is '
        'a function of the measured request only; analytic model evaluated on every grid <= 64 points and for <= 24 terms, on 30%% of the larger cases up to %d '
        'terms and 6%% above, plus dedicated cases of 250..grid-length terms on grids of 260..700 (thorough ..2000) '
        'points; filters_to_fft_table on 1-4 such filters incl. ragged n_terms > grid length. Model '
        'comparison (K = Q, Float sin/cos) for n <= %d (thorough: 55%% of those), tolerance %g of the scale; oracle alone otherwise. Non-trivial: '
        'non-constant curve and more than one retained term.' % (ANALYTIC_MANY, MODEL_NMAX, TOL))


def run(rep):
    thorough = rep.tier == 'thorough'
    rng = rep.rng('c20')
    rep.rule = RULE
    batch = core.load_corpus('C20')
    for c in gen_cases(rng, thorough):          # in batches: bounded memory (a 2000-point case is ~0.3 MB)
        batch.append(c)
        if len(batch) >= 2000:
            process(rep, batch)
            batch = []
    if batch:
        process(rep, batch)
    rep.samples = [{k: (v if not isinstance(v, list) or len(v) <= 12 else v[:12] + ['...']) for k, v in s.items()}
                   if isinstance(s, dict) else s for s in rep.samples]


def search(rep, mismatches):
    """directed search after a model/implementation disagreement: the oracles alone, thorough budget, sizes and
    term counts around the disagreeing cases first"""
    sub = core.Report(rep.pid, 'thorough', rep.seed + 1)
    rng = sub.rng('c20-search')
    cases = []
    for op, msg, c, o, m in mismatches[:40]:
        if c.get('op') == 'fft_case':
            n = ngrid(c)
            for _ in range(20):
                cases.append(gen_case(rng, False, n=max(8, n + rng.randint(-2, 2)), grid=c['grid'], curve=c['curve']))
        else:
            for _ in range(20):
                cases.append(gen_table_case(rng, False))
    for _ in range(1500):
        cases.append(gen_case(rng, False))
    for _ in range(100):
        cases.append(gen_table_case(rng, False))
    process(sub, cases, with_model=False)
    rep.notes.append('directed search after mismatch: %d cases, %d oracle failures' % (len(cases), len(sub.oracle_failures)))
    return sub.oracle_failures


def replay(rep, payload):
    case = payload['case']
    process(rep, [case] if isinstance(case, dict) else case)
