/-
  C08 — Count rate equals area × sum of binned photons and behaves linearly.
-/
import Synphot.Lemmas.ObsPhot
import Synphot.Props.C07
import Synphot.Props.C01
import Synphot.Props.C06

set_option linter.unusedSectionVars false
set_option linter.unusedVariables false
set_option linter.unusedSimpArgs false

namespace Synphot.C08
open Synphot
variable {K : Type} [Field K] [LinearOrder K] [IsStrictOrderedRing K]

/-- the count rate over the full range, from the PHOTLAM samples `yp` at wavelengths `x` -/
def fullCount (E : Env K) (x yp : List K) (area : Option K) : Except Err K := do
  let y ← convertFlux E.P E.T x yp .photlam .count area none
  let val := y.sum
  validateTotalflux val
  pure val

/-- binned, no sub-range, default wavelengths: `countrate` is `fullCount` of the binned fluxes at the
bin centres -/
theorem countrate_binned_full (E : Env K) (thr atol rtol : K) (o : Obs K) (area : Option K) (bf : List K)
    (hs : sampleBinned atol rtol o.bins o.bins.binset = .ok bf) :
    countrate E thr atol rtol o area true none none false = fullCount E o.bins.binset bf area := by
  unfold countrate fullCount
  simp only [if_true, hs, bind, Except.bind, pure, Except.pure]

/-- **closed form**: the binned count rate is `area × Σ binflux_i × width_i` (a positive total is
returned, a non-positive one is an error) -/
theorem fullCount_closed_form (E : Env K) (x yp e bw : List K) (a : K)
    (hv : validateWavelengths x = .ok ()) (he : binEdges x = .ok e) (hw : binWidths e = .ok bw) (hbw : bw.length = x.length)
    (hlen : x.length = yp.length) :
    fullCount E x yp (some a) =
      if a * (mulFactors yp bw).sum ≤ 0 then .error .synphotError else .ok (a * (mulFactors yp bw).sum) := by
  unfold fullCount
  rw [convertFlux_count E.P E.T x yp e bw a hv he hw hbw hlen]
  simp only [bind, Except.bind, mulFactors_sum_scale, validateTotalflux]
  split_ifs <;> rfl

/-- without an area a count rate is refused -/
theorem fullCount_needs_area (E : Env K) (x0 y0 : K) (xs ys : List K) :
    ∃ err, fullCount E (x0 :: xs) (y0 :: ys) none = .error err := by
  obtain ⟨err, he⟩ := C01.convertFlux_no_area (P := E.P) (T := E.T) (.photlam : FluxUnit K) .count
    (by intro h; cases h) none (Or.inr rfl) x0 y0 xs ys
  exact ⟨err, by simp [fullCount, he, bind, Except.bind]⟩

/-- proportional to the collecting area -/
theorem count_area_linear (E : Env K) (x yp e bw : List K) (a k : K) (hk : 0 < k)
    (hv : validateWavelengths x = .ok ()) (he : binEdges x = .ok e) (hw : binWidths e = .ok bw) (hbw : bw.length = x.length)
    (hlen : x.length = yp.length) (v : K) (h : fullCount E x yp (some a) = .ok v) :
    fullCount E x yp (some (k * a)) = .ok (k * v) := by
  rw [fullCount_closed_form E x yp e bw a hv he hw hbw hlen] at h
  rw [fullCount_closed_form E x yp e bw (k * a) hv he hw hbw hlen]
  split_ifs at h with h0
  injection h with h; subst h
  have hpos : 0 < a * (mulFactors yp bw).sum := not_le.mp h0
  have : ¬ (k * a * (mulFactors yp bw).sum ≤ 0) := by
    rw [mul_assoc]; exact not_le.mpr (mul_pos hk hpos)
  rw [if_neg this]; congr 1; ring

/-- proportional to a scalar multiplying the flux -/
theorem count_flux_linear (E : Env K) (x yp e bw : List K) (a k : K) (hk : 0 < k)
    (hv : validateWavelengths x = .ok ()) (he : binEdges x = .ok e) (hw : binWidths e = .ok bw) (hbw : bw.length = x.length)
    (hlen : x.length = yp.length) (v : K) (h : fullCount E x yp (some a) = .ok v) :
    fullCount E x (yp.map (k * ·)) (some a) = .ok (k * v) := by
  rw [fullCount_closed_form E x yp e bw a hv he hw hbw hlen] at h
  rw [fullCount_closed_form E x (yp.map (k * ·)) e bw a hv he hw hbw (by simpa using hlen)]
  split_ifs at h with h0
  injection h with h; subst h
  have hpos : 0 < a * (mulFactors yp bw).sum := not_le.mp h0
  rw [mulFactors_smul, sum_map_mul_left]
  have e1 : a * (k * (mulFactors yp bw).sum) = k * (a * (mulFactors yp bw).sum) := by ring
  rw [e1, if_neg (not_le.mpr (mul_pos hk hpos))]

/-- the effective stimulus in counts is the unbinned count rate; in OBMAG it is −2.5 log₁₀ of it -/
theorem effstim_count_is_countrate (E : Env K) (thr atol rtol : K) (o : Obs K) (wl : Option (List K))
    (area : Option K) (vega : Option (Tree K)) :
    effstim E thr atol rtol o .count wl area vega = countrate E thr atol rtol o area false wl none false := rfl

theorem effstim_obmag_is_mag_of_countrate (E : Env K) (thr atol rtol : K) (o : Obs K)
    (wl : Option (List K)) (area : Option K) (vega : Option (Tree K)) (v : K)
    (h : countrate E thr atol rtol o area false wl none false = .ok v) :
    effstim E thr atol rtol o .obmag wl area vega = toMag E.T v := by
  simp [effstim, h, bind, Except.bind]

/-! ### restriction to a wavelength range -/

/-- the bins selected for a range `[w1, w2]` form the contiguous index run `[i1, i2)` with
`i1 = searchsorted(edges, w1) − 1`, `i2 = searchsorted(edges, w2)`: it contains every bin whose
interior meets the range and no bin at positive distance from it -/
theorem range_slice_spec (edges : List K) (hs : StrictAsc edges) (w1 w2 d : K) (j : Nat)
    (hj : j + 1 < edges.length) :
    (edges.getD j d < w2 ∧ w1 < edges.getD (j + 1) d →
        (searchLeft edges w1 : Int) - 1 ≤ j ∧ j < searchLeft edges w2) ∧
    ((searchLeft edges w1 : Int) - 1 ≤ j ∧ j < searchLeft edges w2 → 1 ≤ searchLeft edges w1 →
        w1 ≤ edges.getD (j + 1) d ∧ edges.getD j d < w2) := by
  have hp : edges.Pairwise (· < ·) := by
    rw [← List.sortedLT_iff_pairwise, List.sortedLT_iff_isChain, ← strictAsc_iff_chain]; exact hs
  have mono : ∀ a b, a < b → b < edges.length → edges.getD a d < edges.getD b d := by
    intro a b hab hb
    have ha : a < edges.length := lt_trans hab hb
    simp only [List.getD_eq_getElem?_getD, List.getElem?_eq_getElem ha, List.getElem?_eq_getElem hb,
      Option.getD_some]
    exact List.pairwise_iff_getElem.mp hp a b ha hb hab
  constructor
  · rintro ⟨h1, h2⟩
    constructor
    · -- edges[j+1] > w1 ⇒ j+1 ≥ searchLeft w1
      by_contra hc
      have hc' : j + 1 < searchLeft edges w1 := by omega
      have := searchLeft_lt edges w1 d (j + 1) hc'
      exact absurd h2 (not_lt.mpr (le_of_lt this))
    · -- edges[j] < w2 ⇒ j < searchLeft w2
      by_contra hc
      have hc' : searchLeft edges w2 ≤ j := by omega
      have hlt : searchLeft edges w2 < edges.length := by omega
      have hge := searchLeft_ge edges w2 d hlt
      rcases Nat.lt_or_ge (searchLeft edges w2) j with hlt' | hge'
      · have := mono _ _ hlt' (by omega)
        exact absurd h1 (not_lt.mpr (le_trans hge (le_of_lt this)))
      · have : searchLeft edges w2 = j := by omega
        rw [this] at hge
        exact absurd h1 (not_lt.mpr hge)
  · rintro ⟨h1, h2⟩ hpos
    constructor
    · -- j+1 ≥ searchLeft w1 ⇒ edges[j+1] ≥ w1
      have hle : searchLeft edges w1 ≤ j + 1 := by omega
      have hlt : searchLeft edges w1 < edges.length := by omega
      have hge := searchLeft_ge edges w1 d hlt
      rcases Nat.lt_or_ge (searchLeft edges w1) (j + 1) with hlt' | hge'
      · exact le_trans hge (le_of_lt (mono _ _ hlt' hj))
      · have : searchLeft edges w1 = j + 1 := by omega
        rw [this] at hge; exact hge
    · exact searchLeft_lt edges w2 d j h2

/-- for non-negative counts a sum over part of the bins never exceeds the total -/
theorem slice_le_total (y : List K) (hy : ∀ v ∈ y, 0 ≤ v) (a b : Int) : (pySlice y a b).sum ≤ y.sum := by
  unfold pySlice
  have h1 : ∀ (l : List K) (n : Nat), (∀ v ∈ l, 0 ≤ v) → (l.take n).sum ≤ l.sum := by
    intro l n hl
    have := List.sum_take_add_sum_drop l n
    have h0 : 0 ≤ (l.drop n).sum := List.sum_nonneg (fun v hv => hl v (List.mem_of_mem_drop hv))
    linarith
  have h2 : ∀ (l : List K) (n : Nat), (∀ v ∈ l, 0 ≤ v) → (l.drop n).sum ≤ l.sum := by
    intro l n hl
    have := List.sum_take_add_sum_drop l n
    have h0 : 0 ≤ (l.take n).sum := List.sum_nonneg (fun v hv => hl v (List.mem_of_mem_take hv))
    linarith
  exact le_trans (h1 _ _ (fun v hv => hy v (List.mem_of_mem_drop hv))) (h2 _ _ hy)

/-- what a range outside / sticking out of the observation does -/
theorem range_errors (a1 a2 b1 b2 : K) :
    (overlapStatus a1 a2 b1 b2 = .none → (a1 ≤ a2 → b1 ≤ b2 → (a2 < b1 ∨ b2 < a1))) := by
  intro h ha hb
  exact (C06.status_none_iff a1 a2 b1 b2 ha hb).mp h

/-- a non-positive total is reported as an error, not returned -/
theorem nonpositive_total_is_error (v : K) (h : v ≤ 0) : validateTotalflux v = .error .synphotError := by
  simp [validateTotalflux, h]

end Synphot.C08
