/-
  Synphot.Lemmas.TranscReal — the laws of `Transc.Lawful` (Core/Transc.lean) are
  satisfiable: the real transcendental functions of Mathlib form a lawful `Transc ℝ`.
  Theorems stated for every lawful `T` therefore apply to `Transc.real`, and the
  real-analysis theorems (C12, C16, …) are about the generic model definitions
  instantiated at `ℝ` with `Transc.real`.
-/
import Mathlib.Analysis.SpecialFunctions.Log.Base
import Mathlib.Analysis.SpecialFunctions.Pow.Real
import Mathlib.Analysis.SpecialFunctions.Trigonometric.Arctan
import Mathlib.Analysis.Real.Sqrt
import Synphot.Core.Transc

namespace Synphot

/-- the real functions behind the `Transc` record -/
noncomputable def Transc.real : Transc ℝ where
  log10 := Real.logb 10
  pow10 := fun x => (10 : ℝ) ^ x
  ln := Real.log
  exp := Real.exp
  expm1 := fun x => Real.exp x - 1
  sqrt := Real.sqrt
  atan := Real.arctan
  rpow := fun x y => x ^ y
  pi := Real.pi
  sin := Real.sin
  cos := Real.cos

theorem Transc.real_lawful : Transc.real.Lawful where
  pow10_log10 := fun x hx => Real.rpow_logb (by norm_num) (by norm_num) hx
  log10_pow10 := fun x => Real.logb_rpow (by norm_num) (by norm_num)
  pow10_pos := fun x => Real.rpow_pos_of_pos (by norm_num) x
  pow10_add := fun x y => Real.rpow_add (by norm_num) x y
  pow10_zero := Real.rpow_zero 10
  pow10_strictMono := fun x y h => Real.rpow_lt_rpow_of_exponent_lt (by norm_num) h
  log10_mul := fun x y hx hy => Real.logb_mul hx.ne' hy.ne'
  log10_one := Real.logb_one
  exp_ln := fun x hx => Real.exp_log hx
  exp_pos := Real.exp_pos
  exp_strictMono := fun x y h => Real.exp_lt_exp.mpr h
  exp_zero := Real.exp_zero
  expm1_eq := fun x => rfl
  sqrt_mul_self := fun x hx => Real.mul_self_sqrt hx
  sqrt_nonneg := Real.sqrt_nonneg
  sqrt_mono := fun x y _ h => Real.sqrt_le_sqrt h
  pi_pos := Real.pi_pos
  rpow_nonneg := fun x y hx => Real.rpow_nonneg hx y
  rpow_one_left := fun y => Real.one_rpow y
  rpow_le_self := fun x y hx hx1 hy => by
    have h := Real.rpow_le_rpow_of_exponent_ge' hx hx1 (zero_le_one) hy
    rw [Real.rpow_one] at h
    exact h

/-! unfolding lemmas (so that proofs at `ℝ` can rewrite the record fields away) -/
@[simp] theorem Transc.real_log10 (x : ℝ) : Transc.real.log10 x = Real.logb 10 x := rfl
@[simp] theorem Transc.real_pow10 (x : ℝ) : Transc.real.pow10 x = (10 : ℝ) ^ x := rfl
@[simp] theorem Transc.real_ln (x : ℝ) : Transc.real.ln x = Real.log x := rfl
@[simp] theorem Transc.real_exp (x : ℝ) : Transc.real.exp x = Real.exp x := rfl
@[simp] theorem Transc.real_expm1 (x : ℝ) : Transc.real.expm1 x = Real.exp x - 1 := rfl
@[simp] theorem Transc.real_sqrt (x : ℝ) : Transc.real.sqrt x = Real.sqrt x := rfl
@[simp] theorem Transc.real_atan (x : ℝ) : Transc.real.atan x = Real.arctan x := rfl
@[simp] theorem Transc.real_rpow (x y : ℝ) : Transc.real.rpow x y = x ^ y := rfl
@[simp] theorem Transc.real_pi : Transc.real.pi = Real.pi := rfl
@[simp] theorem Transc.real_sin (x : ℝ) : Transc.real.sin x = Real.sin x := rfl
@[simp] theorem Transc.real_cos (x : ℝ) : Transc.real.cos x = Real.cos x := rfl

end Synphot
