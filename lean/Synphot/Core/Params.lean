/-
  Synphot.Core.Params — how `BaseSpectrum.__init__` turns keyword arguments (plain numbers or
  Quantities) into the parameters of a model class, and what the model classes that keep a unit
  of their own do with it:

  * `BaseSpectrum.__init__`, `_process_generic_param`, `_process_wave_param`
    (synphot/spectrum.py:128-196, 247-259);
  * `SourceSpectrum._process_flux_param` (spectrum.py:1148-1162: flux-density check, refusal of a unit
    other than PHOTLAM when the class has no reference wavelength, then `convert_flux` at
    `self._redshift_model(wave)`, i.e. at the reference wavelength × (1+z));
  * `BaseUnitlessSpectrum._process_flux_param` (spectrum.py:1403-1405);
  * `models.ConstFlux1D.__init__`, `models.PowerLawFlux1D.__init__`,
    `models.GaussianFlux1D.__init__` (synphot/models.py:264-281, 718-736, 552-581).

  The two dictionaries `_model_param_dict` / `_model_fconv_wav` are *arguments* of the functions
  below (`ParamTable`, `FconvTable`); the driver and the theorems instantiate them with the tables
  regenerated from the source (`Generated/ParamTable.lean`).

  A keyword value is a list of numbers (a scalar is a singleton) with an optional unit.  Units are
  the classes the code distinguishes (`QUnit`); the numeric content of an astropy unit is its
  scale to the reference unit of its class.
-/
import Synphot.Core.Tree
import Synphot.Core.WaveUnit
import Synphot.Core.BlackBody

namespace Synphot.Params
open Synphot
variable {K : Type} [Field K] [LinearOrder K] [IsStrictOrderedRing K]

/-- the unit of a Quantity, as far as parameter processing can tell units apart -/
inductive QUnit (K : Type)
  | length (toAA : K)          -- Angstrom per unit
  | freq (toHz : K)            -- Hz per unit
  | wavenumber (toInvAA : K)   -- Angstrom⁻¹ per unit
  | energy (toErg : K)         -- photon energy, erg per unit (passes `u.spectral()`)
  | flux (u : FluxUnit K)      -- the flux units of `Core/Units.lean` (count, mag(OB), mag(VEGA) included)
  | dimensionless (scale : K)  -- `u.dimensionless_unscaled` ↦ 1, `u.percent` ↦ 1/100
  | temperature (toK : K)      -- multiples of the Kelvin
  | irradiance (toCgs : K)     -- erg s⁻¹ cm⁻² per unit (W m⁻² ↦ 1000)
  | other                      -- anything else
  deriving Repr

/-- one keyword value: numbers, and the unit when it was given as a Quantity -/
structure Arg (K : Type) where
  vals : List K
  unit : Option (QUnit K)
  deriving Repr

def Arg.num (v : List K) : Arg K := { vals := v, unit := none }

abbrev Args (K : Type) := List (String × Arg K)
abbrev ParamTable := List (String × List (String × String))
abbrev FconvTable := List (String × String)

/-- which public class is being constructed: `SourceSpectrum`, or a subclass of
`BaseUnitlessSpectrum` (`SpectralElement`, …) -/
inductive SpecClass | source | unitless
  deriving DecidableEq, Repr

/-! ### single parameters -/

/-- NumPy divides by zero silently (astropy's converters are plain ufunc expressions): `inf` -/
def nanOnZeroDiv : Except Err K → Except Err K
  | .error .zeroDivision => .error .nan
  | r => r

/-- one value of a wave-like Quantity to Angstrom through `u.spectral()` -/
def waveToAA (P : PhysConst K) (u : QUnit K) (v : K) : Except Err K :=
  match u with
  | .length k => (WaveUnit.length k).toAngstrom P.c v
  | .freq k => nanOnZeroDiv ((WaveUnit.freq k).toAngstrom P.c v)
  | .wavenumber k => nanOnZeroDiv ((WaveUnit.wavenumber k).toAngstrom P.c v)
  | .energy k => if v = 0 then .error .nan else .ok (P.h * P.c / (v * k))
  | _ => .error .unitError

/-- `_process_wave_param`: a Quantity is converted to Angstrom, a number is taken as Angstrom -/
def processWave (P : PhysConst K) (a : Arg K) : Except Err (List K) :=
  match a.unit with
  | none => .ok a.vals
  | some u => a.vals.mapM (waveToAA P u)

/-- `_process_generic_param(pval, def_unit)` for the two fixed units that occur in the table -/
def processGeneric (kind : String) (a : Arg K) : Except Err (List K) :=
  match a.unit with
  | none => .ok a.vals
  | some u =>
    if kind = "unit:K" then
      match u with
      | .temperature k => .ok (a.vals.map (BlackBody.tempKelvin · k))
      | _ => .error .unitError
    else if kind = "unit:dimensionless_unscaled" then
      match u with
      | .dimensionless k => .ok (a.vals.map (· * k))
      | _ => .error .unitError
    else .error .unitError      -- a unit this model does not know (the table theorem excludes it)

/-- `physical_type in acceptable_types` of `BaseSourceSpectrum._validate_flux_unit`: flux densities
per wavelength or per frequency, in energy or photons; astropy reports the physical type of a
magnitude unit as that of its zero point, so STmag and ABmag pass, count / mag(OB) / mag(VEGA) are
`unknown` -/
def isFluxDensity : FluxUnit K → Bool
  | .count | .obmag | .vegamag => false
  | _ => true

/-- `convert_flux(self._redshift_model(wave), pval, PHOTLAM)`: conversion of every element at its own
reference wavelength × (1+z).  `wave = none`: the class has no entry in `_model_fconv_wav` (`Const1D`):
there is no wavelength to convert at, so only the internal unit is accepted (returned untouched) and any
other flux unit is refused with `SynphotError` (spectrum.py, as repaired by 0d4a51b). -/
def convertAtRef (P : PhysConst K) (T : Transc K) (z : K) (wave : Option (List K)) (u : FluxUnit K)
    (f : List K) : Except Err (List K) :=
  match wave with
  | some w => convertFlux P T (w.map (· * (1 + z))) f u .photlam none none
  | none => if u = .photlam then .ok f else .error .synphotError

/-- units whose conversion to PHOTLAM divides by the wavelength (per-frequency densities: `c/λ²`) -/
def needsInvLam : FluxUnit K → Bool
  | .photnu | .fnu | .jy _ | .abmag => true
  | _ => false

/-- is one of the (redshifted) reference wavelengths exactly zero?  NumPy then produces `inf`/`nan` for the
per-frequency units instead of raising (never Lean's `x / 0 = 0`) -/
def zeroRef (z : K) : Option (List K) → Bool
  | some w => w.any fun x => decide (x * (1 + z) = 0)
  | none => false

/-- `_process_flux_param` of the two families of public classes -/
def processFlux (P : PhysConst K) (T : Transc K) (cls : SpecClass) (z : K) (wave : Option (List K))
    (a : Arg K) : Except Err (List K) :=
  match a.unit with
  | none => .ok a.vals
  | some u =>
    match cls with
    | .source =>
      match u with
      | .flux fu =>
          if isFluxDensity fu then
            (if zeroRef z wave && needsInvLam fu then .error .nan else convertAtRef P T z wave fu a.vals)
          else .error .synphotError
      | _ => .error .synphotError
    | .unitless =>
      match u with
      | .dimensionless k => .ok (a.vals.map (· * k))
      | _ => .error .unitError

/-- the `if ptype == …` chain of the constructor's loop for one keyword -/
def processOne (P : PhysConst K) (T : Transc K) (cls : SpecClass) (z : K) (wave : Option (List K))
    (kinds : List (String × String)) (p : String × Arg K) : Except Err (String × Arg K) :=
  match kinds.lookup p.1 with
  | none => .ok p                                        -- not a model parameter: passed on as is
  | some kind =>
    if kind = "wave" then (processWave P p.2).map fun v => (p.1, Arg.num v)
    else if kind = "flux" then (processFlux P T cls z wave p.2).map fun v => (p.1, Arg.num v)
    else if kind = "noconv" then .ok p
    else (processGeneric kind p.2).map fun v => (p.1, Arg.num v)

/-! ### the constructor's parameter handling -/

/-- what the constructor is called with -/
structure Request (K : Type) where
  cls : SpecClass
  z : K                    -- redshift of a `SourceSpectrum` (0 for the unitless classes)
  isModelClass : Bool      -- `issubclass(modelclass, Model)`
  model : String           -- `modelclass.__name__`
  nModels : Int            -- keyword `n_models` (default 1)
  args : Args K            -- the remaining keywords, in call order

/-- remove the first binding of a key (`kwargs.pop`) -/
def popKey (k : String) : Args K → Args K
  | [] => []
  | p :: t => if p.1 = k then t else p :: popKey k t

/-- `BaseSpectrum.__init__` up to `modelclass(**modargs)`: the keyword arguments the model class
receives.  The reference-wavelength parameter is processed first and comes first. -/
def processArgs (P : PhysConst K) (T : Transc K) (tbl : ParamTable) (fconv : FconvTable)
    (r : Request K) : Except Err (Args K) :=
  if r.nModels ≠ 1 then .error .synphotError
  else if !r.isModelClass then .error .synphotError
  else match tbl.lookup r.model with
    | none => .error .synphotError
    | some kinds =>
      match fconv.lookup r.model with
      | some pw =>
        match r.args.lookup pw with
        | none => .error .lookupError                 -- `kwargs.pop(pname_wav)`: KeyError
        | some aw => do
            let w ← processWave P aw
            let rest ← (popKey pw r.args).mapM (processOne P T r.cls r.z (some w) kinds)
            pure ((pw, Arg.num w) :: rest)
      | none => r.args.mapM (processOne P T r.cls r.z none kinds)

/-! ### the model classes -/

/-- a scalar keyword: absent → the class's default -/
def scalarD (args : Args K) (name : String) (dflt : K) : Except Err K :=
  match args.lookup name with
  | none => .ok dflt
  | some a => match a.vals, a.unit with
    | [v], none => .ok v
    | _, _ => .error .valueError      -- an array or a leftover Quantity where a number is needed

/-- `gaussian_fwhm_to_sigma = 1 / (2 √(2 ln 2))` -/
def fwhmToSigma (T : Transc K) : K := 1 / (2 * T.sqrt (2 * T.ln 2))

/-- `GaussianFlux1D._sqrt_2_pi` -/
def sqrt2pi (T : Transc K) : K := T.sqrt (2 * T.pi)

/-- `total_flux.to(erg / (cm² s))` / `total_flux * erg / (cm² s)` -/
def totalFluxCgs (a : Arg K) : Except Err K :=
  match a.vals, a.unit with
  | [v], none => .ok v
  | [v], some (.irradiance k) => .ok (v * k)
  | [_], some _ => .error .unitError
  | _, _ => .error .typeError           -- an array cannot be formatted into `meta['expr']`

/-- `GaussianFlux1D(**modargs)`: amplitude / mean / stddev of the resulting Gaussian.
`fwhm` overrides `stddev`; `total_flux` (erg s⁻¹ cm⁻²) overrides `amplitude`: the peak
`F / (σ √(2π))` is a FLAM value, converted to PHOTLAM at the mean. -/
def gaussFluxParams (P : PhysConst K) (T : Transc K) (args : Args K) : Except Err (K × K × K) := do
  let amp0 ← scalarD args "amplitude" 1
  let mean ← scalarD args "mean" 0
  let sd0 ← scalarD args "stddev" 1
  let sd ← match args.lookup "fwhm" with
    | none => pure sd0
    | some _ => do
        let w ← scalarD args "fwhm" 0
        pure (w * fwhmToSigma T)
  match args.lookup "total_flux" with
  | none => pure (amp0, mean, sd)
  | some a => do
      let tf ← totalFluxCgs a
      if sqrt2pi T * sd = 0 then .error .nan
      else do
        let amp ← toPhotlam P T (plainSamp mean) .flam (tf / (sqrt2pi T * sd))
        pure (amp, mean, sd)

/-- `ConstFlux1D(amplitude=…)`: a number is PHOTLAM; STmag / ABmag are converted once to FLAM / FNU
(`convert_flux(1, amplitude, …)`, the wavelength is immaterial); other flux densities keep their
unit; anything else is `NotImplementedError` -/
def mkConstFlux (P : PhysConst K) (T : Transc K) (a : Arg K) : Except Err (Leaf K) :=
  match a.vals, a.unit with
  | [v], none => .ok (.constFlux v .photlam)
  | [v], some (.flux .stmag) => do
      let f ← convertOne P T (plainSamp 1) .stmag .flam v
      pure (.constFlux f .flam)
  | [v], some (.flux .abmag) => do
      let f ← convertOne P T (plainSamp 1) .abmag .fnu v
      pure (.constFlux f .fnu)
  | [v], some (.flux u) => if isFluxDensity u then .ok (.constFlux v u) else .error .notImplemented
  | [_], some _ => .error .notImplemented
  | _, _ => .error .valueError

/-- `PowerLawFlux1D(amplitude, x_0, alpha)`: the amplitude keeps any flux-density unit (magnitudes
included), the class converts `x_0` itself through `u.spectral()` -/
def mkPowerLawFlux (P : PhysConst K) (args : Args K) : Except Err (Leaf K) :=
  match args.lookup "amplitude", args.lookup "x_0" with
  | some a, some ax => do
      let alpha ← scalarD args "alpha" 0
      let u ← match a.unit with
        | none => pure FluxUnit.photlam
        | some (.flux u) => if isFluxDensity u then pure u else .error .notImplemented
        | some _ => .error .notImplemented
      let x0 ← processWave P ax
      match a.vals, x0 with
      | [v], [x] => pure (.powerLaw v x alpha u)
      | _, _ => .error .valueError
  | _, _ => .error .typeError                 -- missing positional argument

/-- the object `modelclass(**modargs)` returns, for the classes of `_model_param_dict` -/
inductive Built (K : Type)
  | leaf (l : Leaf K)
  | const1Q (amp : K) (u : QUnit K)          -- astropy `Const1D` handed a Quantity (not reachable through
                                             -- `processArgs` with the source's dictionaries: its amplitude is 'flux')
  | gaussAbs (amp mean sd : K)               -- GaussianAbsorption1D
  | powerLaw1 (amp x0 alpha : K)             -- astropy PowerLaw1D
  | brokenPowerLaw (amp xb a1 a2 : K)        -- astropy BrokenPowerLaw1D
  | expCutoff (amp x0 alpha xc : K)          -- astropy ExponentialCutoffPowerLaw1D
  | logParabola (amp x0 alpha beta : K)      -- astropy LogParabola1D
  | blackBody (k : BlackBody.BBKind) (temp : K)

/-- `modelclass(**modargs)`.  `keepNeg`: the `keep_neg` keyword of the table models (it is not a
model parameter and reaches the class untouched). -/
def build (P : PhysConst K) (T : Transc K) (model : String) (keepNeg : Bool) (args : Args K) :
    Except Err (Built K) :=
  if model = "Box1D" then do
    pure (.leaf (.box (← scalarD args "amplitude" 1) (← scalarD args "x_0" 0) (← scalarD args "width" 1) none))
  else if model = "Trapezoid1D" then do
    pure (.leaf (.trapezoid (← scalarD args "amplitude" 1) (← scalarD args "x_0" 0) (← scalarD args "width" 1)
      (← scalarD args "slope" 1) none))
  else if model = "Gaussian1D" then do
    pure (.leaf (.gaussian (← scalarD args "amplitude" 1) (← scalarD args "mean" 0) (← scalarD args "stddev" 1) none))
  else if model = "GaussianAbsorption1D" then do
    pure (.gaussAbs (← scalarD args "amplitude" 1) (← scalarD args "mean" 0) (← scalarD args "stddev" 1))
  else if model = "GaussianFlux1D" then do
    let (a, m, s) ← gaussFluxParams P T args
    pure (.leaf (.gaussian a m s none))
  else if model = "Lorentz1D" then do
    pure (.leaf (.lorentz (← scalarD args "amplitude" 1) (← scalarD args "x_0" 0) (← scalarD args "fwhm" 1) none))
  else if model = "RickerWavelet1D" ∨ model = "MexicanHat1D" then do
    pure (.leaf (.ricker (← scalarD args "amplitude" 1) (← scalarD args "x_0" 0) (← scalarD args "sigma" 1) none))
  else if model = "Const1D" then
    match args.lookup "amplitude" with
    | none => .ok (.leaf (.const1 1))
    | some a => match a.vals, a.unit with
      | [v], none => .ok (.leaf (.const1 v))
      | [v], some u => .ok (.const1Q v u)
      | _, _ => .error .valueError
  else if model = "ConstFlux1D" then
    match args.lookup "amplitude" with
    | none => .error .typeError
    | some a => (mkConstFlux P T a).map .leaf
  else if model = "PowerLawFlux1D" then (mkPowerLawFlux P args).map .leaf
  else if model = "PowerLaw1D" then do
    pure (.powerLaw1 (← scalarD args "amplitude" 1) (← scalarD args "x_0" 1) (← scalarD args "alpha" 1))
  else if model = "BrokenPowerLaw1D" then do
    pure (.brokenPowerLaw (← scalarD args "amplitude" 1) (← scalarD args "x_break" 1) (← scalarD args "alpha_1" 1)
      (← scalarD args "alpha_2" 1))
  else if model = "ExponentialCutoffPowerLaw1D" then do
    pure (.expCutoff (← scalarD args "amplitude" 1) (← scalarD args "x_0" 1) (← scalarD args "alpha" 1)
      (← scalarD args "x_cutoff" 1))
  else if model = "LogParabola1D" then do
    pure (.logParabola (← scalarD args "amplitude" 1) (← scalarD args "x_0" 1) (← scalarD args "alpha" 1)
      (← scalarD args "beta" 1))
  else if model = "BlackBody1D" then do
    pure (.blackBody .plain (← scalarD args "temperature" 5000))
  else if model = "BlackBodyNorm1D" then do
    pure (.blackBody .norm (← scalarD args "temperature" 5000))
  else if model = "Empirical1D" ∨ model = "ExtinctionModel1D" then
    match args.lookup "points", args.lookup "lookup_table" with
    | some px, some py =>
      match px.unit, py.unit with
      | none, none =>
        let t := (mkTable px.vals py.vals keepNeg).1
        .ok (.leaf (if model = "Empirical1D" then .table t else .extinction t))
      | _, _ => .error .valueError
    | _, _ => .error .lookupError
  else .error .synphotError

/-- the whole constructor: parameter processing, then the model class -/
def construct (P : PhysConst K) (T : Transc K) (tbl : ParamTable) (fconv : FconvTable) (keepNeg : Bool)
    (r : Request K) : Except Err (Built K) := do
  let modargs ← processArgs P T tbl fconv r
  build P T r.model keepNeg modargs

/-! ### sampling -/

/-- the model evaluated at a rest-frame wavelength, expressed in the internal unit of the class
(PHOTLAM for a source, dimensionless throughput otherwise).  A `Const1D` that holds a Quantity
returns that unit (times PHOTLAM for a source): expressible in the internal unit only when the
amplitude's own unit is dimensionless. -/
def Built.eval (E : Env K) (C : BlackBody.BBConst K) : Built K → K → Except Err K
  | .leaf l, x => l.eval E x
  | .const1Q amp u, _ => match u with
      | .dimensionless k => .ok (amp * k)
      | _ => .error .unitError
  | .gaussAbs amp mean sd, x => .ok (1 - amp * E.T.exp (-(x - mean) ^ 2 / (2 * sd ^ 2)))
  | .powerLaw1 amp x0 alpha, x => .ok (amp * E.T.rpow (x / x0) (-alpha))
  | .brokenPowerLaw amp xb a1 a2, x => .ok (amp * E.T.rpow (x / xb) (-(if x < xb then a1 else a2)))
  | .expCutoff amp x0 alpha xc, x => .ok (amp * E.T.rpow (x / x0) (-alpha) * E.T.exp (-x / xc))
  | .logParabola amp x0 alpha beta, x => .ok (amp * E.T.rpow (x / x0) (-alpha - beta * E.T.ln (x / x0)))
  | .blackBody k temp, x => BlackBody.bbEval C E.T k x temp

/-- `sp(x)` for a spectrum constructed with redshift `z` (`z_type = 'wavelength_only'`; the unitless
classes have `z = 0`): the model at `x / (1+z)` -/
def sampleAt (E : Env K) (C : BlackBody.BBConst K) (z : K) (b : Built K) (x : K) : Except Err K :=
  b.eval E C (x / (1 + z))

/-- `sp(x)` for either redshift type: `'conserve_flux'` appends `Scale(1 / (1+z))` to the compound model
(`SourceSpectrum.model`; for `z = 0` the bare model is used, where the factor is 1 anyway) -/
def sampleAtType (E : Env K) (C : BlackBody.BBConst K) (conserve : Bool) (z : K) (b : Built K) (x : K) :
    Except Err K :=
  if conserve ∧ z ≠ 0 then (sampleAt E C z b x).map (· * (1 / (1 + z))) else sampleAt E C z b x

end Synphot.Params
