/-
  Synphot.Core.Spectrum — spectrum objects: kinds, the redshift state machine of
  `SourceSpectrum` (spectrum.py:1135-1202), operand admission and the four operators
  (`_validate_other_mul_div`, `SourceSpectrum.__add__/__sub__/__mul__/__truediv__`,
  `BaseUnitlessSpectrum.__mul__/__truediv__`, `BaseSpectrum.__rmul__`; spectrum.py:380-404,
  1209-1256, 1407-1438; `Observation.__mul__`, observation.py:229-234).
-/
import Synphot.Core.Tree

namespace Synphot
variable {K : Type} [Field K] [LinearOrder K] [IsStrictOrderedRing K]

/-- Python classes of spectrum objects -/
inductive Kind
  | source        -- SourceSpectrum
  | unitless      -- BaseUnitlessSpectrum (result of source / source)
  | bandpass      -- SpectralElement
  | reddening     -- ReddeningLaw
  | extcurve      -- ExtinctionCurve
  | thermal       -- ThermalSpectralElement
  | observation   -- Observation (a BaseSourceSpectrum, not a SourceSpectrum)
  deriving DecidableEq, Repr

/-- `isinstance(x, BaseUnitlessSpectrum)` -/
def Kind.isUnitless : Kind → Bool
  | .unitless | .bandpass | .reddening | .extcurve | .thermal => true
  | _ => false

inductive ZType | wavelengthOnly | conserveFlux
  deriving DecidableEq, Repr

/-- a `SourceSpectrum`'s redshift state: what the two setters store -/
structure ZState (K : Type) where
  z : K
  zType : ZType
  /-- `_redshift_flux_model`: `none` or `Scale(1/(1+z))` built by the **z** setter -/
  fluxScale : Option K

/-- constructor order: `self.z_type = z_type; self.z = z` -/
def ZState.init (z : K) (t : ZType) : ZState K :=
  { z := z, zType := t, fluxScale := match t with | .wavelengthOnly => none | .conserveFlux => some (1 / (1 + z)) }

/-- `sp.z = what` for a real scalar `what` -/
def ZState.setZ (s : ZState K) (z : K) : ZState K :=
  { s with z := z, fluxScale := match s.zType with | .wavelengthOnly => none | .conserveFlux => some (1 / (1 + z)) }

/-- `sp.z_type = what` for a valid `what`: stores the flag and re-assigns `z`, which rebuilds
the flux-scale model -/
def ZState.setZType (s : ZState K) (t : ZType) : ZState K :=
  ({ s with zType := t } : ZState K).setZ s.z

/-- the `model` property of a `SourceSpectrum` (`TypeError` if the flux-scale model were `None`
under `conserve_flux`; `C05.model_never_typeError` shows no history reaches that state) -/
def ZState.model (s : ZState K) (m : Tree K) : Except Err (Tree K) :=
  if s.z = 0 then .ok m
  else match s.zType with
    | .wavelengthOnly => .ok (.redshift s.z m)
    | .conserveFlux => match s.fluxScale with
        | some k => .ok (.scale (.redshift s.z m) k)
        | none => .error .typeError

/-- a spectrum object as far as arithmetic is concerned -/
structure Spec (K : Type) where
  kind : Kind
  /-- `_model` -/
  tree : Tree K
  /-- redshift state (sources only; `z = 0` otherwise) -/
  zs : ZState K

def Spec.model (s : Spec K) : Except Err (Tree K) :=
  match s.kind with
  | .source => s.zs.model s.tree
  | _ => .ok s.tree

def Spec.ofTree (k : Kind) (t : Tree K) : Spec K :=
  { kind := k, tree := t, zs := ZState.init 0 .wavelengthOnly }

/-- classes of right-hand operands -/
inductive Operand (K : Type)
  | spec (s : Spec K)
  | real (v : K)          -- int, float, bool, NumPy real scalar
  | quantity (v : K)      -- real scalar dimensionless Quantity
  | badQuantity           -- dimensioned / percent / array-valued / complex Quantity
  | complex               -- complex number
  | other                 -- str, None, list, ndarray, …

/-- operand classes, values forgotten -/
inductive OTag
  | spec (k : Kind) | real | quantity | badQuantity | complex | other
  deriving DecidableEq, Repr

def Operand.tag : Operand K → OTag
  | .spec s => .spec s.kind
  | .real _ => .real
  | .quantity _ => .quantity
  | .badQuantity => .badQuantity
  | .complex => .complex
  | .other => .other

def OTag.isScalar : OTag → Bool
  | .real | .quantity => true
  | _ => false

/-- the class of the result as the operator code decides it (values and model usability aside):
the *typing* of `left <op> right` with a spectrum of kind `left` on the left -/
def typing (op : BinOp) (left : Kind) (o : OTag) : Except Err Kind :=
  match left with
  | .source =>
      match op, o with
      | .add, .spec .source | .sub, .spec .source => .ok .source
      | .add, _ | .sub, _ => .error .incompatibleSources
      | .mul, .real | .mul, .quantity => .ok .source
      | .mul, .spec k => if k.isUnitless then .ok .source else .error .incompatibleSources
      | .div, .real | .div, .quantity => .ok .source
      | .div, .spec k =>
          if k.isUnitless then .ok .source
          else if k = .source then .ok .unitless else .error .incompatibleSources
      | _, _ => .error .incompatibleSources
  | .observation =>
      match op, o with
      | .mul, .real | .mul, .quantity => .ok .observation
      | .mul, .spec k => if k.isUnitless then .ok .observation else .error .incompatibleSources
      | .mul, _ => .error .incompatibleSources
      | _, _ => .error .notImplemented
  | k =>  -- the unitless classes
      match op, o with
      | .add, _ | .sub, _ => .error .notImplemented
      | .mul, .real | .mul, .quantity | .div, .real | .div, .quantity =>
          if k = .thermal then .error .typeError else .ok k
      | .mul, .spec k' =>
          if k'.isUnitless then (if k = .thermal then .error .typeError else .ok k)
          else if k' = .source then .ok .source else .error .incompatibleSources
      | .div, .spec k' =>
          if k'.isUnitless then (if k = .thermal then .error .typeError else .ok k)
          else .error .incompatibleSources
      | _, _ => .error .incompatibleSources

/-- the compound model the operator builds once the combination is admitted:
`self.model | Scale(k)`, `self.model | Scale(1/k)`, `self.model <op> other.model`
(`unitless * source` is delegated to `source.__mul__(unitless)`, so the source's model stands
on the left there; an observation multiplies its *source* and keeps its bandpass). -/
def resultTree (op : BinOp) (self : Spec K) (o : Operand K) : Except Err (Tree K) :=
  match self.kind, self.tree with
  | .observation, .bin .mul srcModel bandModel =>
      match o with
      | .real v | .quantity v => .ok (.bin .mul (.scale srcModel v) bandModel)
      | .spec s => do
          let b ← s.model
          pure (.bin .mul (.bin .mul srcModel b) bandModel)
      | _ => .error .incompatibleSources
  | .observation, _ => .error .typeError
  | _, _ =>
      match o with
      | .real v | .quantity v =>
          match op with
          | .mul => do
              let a ← self.model
              pure (.scale a v)
          | .div => do
              let a ← self.model
              if v = 0 then .error .zeroDivision else pure (.scale a (1 / v))
          | _ => .error .incompatibleSources
      | .spec s => do
          if self.kind.isUnitless ∧ s.kind = .source then do
            let b ← s.model
            let a ← self.model
            pure (.bin op b a)
          else do
            let a ← self.model
            let b ← s.model
            pure (.bin op a b)
      | _ => .error .incompatibleSources

/-- `left <op> right` with a spectrum on the left: the class of the result is decided by `typing`
(the `isinstance` chains of `_validate_other_mul_div`, `_validate_other_add_sub` and of the four
operator methods), its model by `resultTree`; a result is a fresh object with `z = 0`. -/
def specOp (op : BinOp) (self : Spec K) (o : Operand K) : Except Err (Spec K) := do
  let k ← typing op self.kind o.tag
  let t ← resultTree op self o
  pure (Spec.ofTree k t)

/-- `k * spec` for a plain real number on the left: `__rmul__` delegates to `__mul__` -/
def rmul (v : K) (self : Spec K) : Except Err (Spec K) := specOp .mul self (.real v)

end Synphot

namespace Synphot
variable {K : Type} [Field K] [LinearOrder K] [IsStrictOrderedRing K]

/-- expression programs over spectra and scalar operands -/
inductive Expr (K : Type)
  | operand (o : Operand K)
  | bin (op : BinOp) (l r : Expr K)

/-- what Python does with an expression: evaluate both sides, then apply the operator of the
left operand (a plain real number on the left of `*` defers to the spectrum's `__rmul__`) -/
def Expr.run : Expr K → Except Err (Operand K)
  | .operand o => .ok o
  | .bin op l r => do
      let a ← l.run
      let b ← r.run
      match a, b with
      | .spec s, o => (specOp op s o).map .spec
      | .real v, .spec s =>
          match op with
          | .mul => (rmul v s).map .spec
          | _ => .error .typeError
      | _, _ => .error .typeError

/-- sampling a spectrum object at one wavelength -/
def Spec.evalAt (E : Env K) (s : Spec K) (x : K) : Except Err K := do
  let m ← s.model
  m.eval E x

/-- the value of an operand at a wavelength (scalars are constant functions) -/
def Operand.valueAt (E : Env K) (x : K) : Operand K → Except Err K
  | .spec s => s.evalAt E x
  | .real v => .ok v
  | .quantity v => .ok v
  | _ => .error .typeError

/-- the expression applied to the operands' values at a wavelength -/
def Expr.denote (E : Env K) (x : K) : Expr K → Except Err K
  | .operand o => o.valueAt E x
  | .bin op l r => do
      let a ← l.denote E x
      let b ← r.denote E x
      op.apply a b

end Synphot
