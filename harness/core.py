"""Shared machinery of the correspondence harness.

* exact transport of binary64 values as rationals ("n/d")
* the Lean driver (one process per batch, batches in parallel)
* canonical outcomes of implementation calls (exception class -> Err name)
* comparison implementation <-> model, oracle bookkeeping
* evidence, VIOLATION / KNOWN-FINDING lines, replay files
"""
import collections
import concurrent.futures as cf
import fractions
import hashlib
import json
import math
import multiprocessing as mp
import os
import random
import subprocess
import sys
import time
import warnings

VERIF = os.path.dirname(os.path.dirname(os.path.abspath(__file__)))
LEAN = os.path.join(VERIF, 'lean')
REPO = os.environ.get('SYNPHOT_REPO', '/repo')
NCPU = int(os.environ.get('VERIF_JOBS', str(os.cpu_count() or 4)))
F = fractions.Fraction
sys.set_int_max_str_digits(0)


def _use_repo():
    """the implementation under test is the working tree at REPO (default /repo, where /venv has synphot
    installed in editable mode); SYNPHOT_REPO=<dir> points the harness at a scratch worktree instead"""
    if os.path.realpath(REPO) != '/repo':
        sys.meta_path[:] = [f for f in sys.meta_path if 'editable' not in getattr(f, '__module__', '')
                            and 'editable' not in type(f).__name__.lower()
                            and 'editable' not in getattr(f, '__name__', '').lower()]
        sys.path.insert(0, os.path.realpath(REPO))
        for m in [m for m in sys.modules if m == 'synphot' or m.startswith('synphot.')]:
            del sys.modules[m]


_use_repo()


def quiet():
    """warnings raised by the implementation are not observables of any property (recorded warnings are read
    from the objects' metadata); keep them off the console"""
    warnings.simplefilter('ignore')
    try:
        from astropy import log
        log.setLevel('ERROR')
        log.disable_warnings_logging()
    except Exception:
        pass


# ---------------------------------------------------------------- rationals
def q(x):
    """exact rational string of a float / int / Fraction / numpy scalar"""
    if isinstance(x, str):
        return x
    if isinstance(x, bool):
        raise TypeError('bool is not a number here')
    if isinstance(x, int):
        return str(x)
    if isinstance(x, F):
        return str(x.numerator) if x.denominator == 1 else '%d/%d' % (x.numerator, x.denominator)
    x = float(x)
    if math.isnan(x) or math.isinf(x):
        raise ValueError('non-finite value cannot be sent to the model: %r' % x)
    n, d = x.as_integer_ratio()
    return str(n) if d == 1 else '%d/%d' % (n, d)


def qs(xs):
    return [q(x) for x in xs]


def unq(s):
    if isinstance(s, (int, float)):
        return F(s)
    return F(s)


def unqf(s):
    """model rational -> nearest float (via exact Fraction)"""
    fr = unq(s)
    try:
        return float(fr)
    except OverflowError:
        return math.inf if fr > 0 else -math.inf


# ---------------------------------------------------------------- Lean driver
def lean_env():
    env = dict(os.environ)
    env['LEAN_PATH'] = os.path.join(LEAN, '.lake', 'build', 'lib', 'lean')
    return env


def _run_driver(lines, attempt=0):
    if not lines:
        return []
    p = subprocess.run(['lean', '--run', 'Driver.lean'], cwd=LEAN, env=lean_env(),
                       input='\n'.join(lines) + '\n', capture_output=True, text=True)
    out = [l for l in p.stdout.split('\n') if l.strip()]
    if (p.returncode != 0 or len(out) != len(lines)) and attempt < 3 and 'does not exist' in (p.stderr + p.stdout):
        # a concurrent `lake build` replaced object files under us: rebuild under the lock and retry
        subprocess.run(['flock', os.path.join(LEAN, '.lake', 'verif.lock'), 'lake', 'build', 'Synphot.Driver.Main'],
                       cwd=LEAN, capture_output=True, text=True)
        return _run_driver(lines, attempt + 1)
    if p.returncode != 0 or len(out) != len(lines):
        raise RuntimeError('Lean driver failed (rc=%s, %d lines for %d cases): %s' % (
            p.returncode, len(out), len(lines), (p.stderr or p.stdout)[-2000:]))
    return out


def run_model(cases, jobs=None):
    """send every case (a JSON-able dict with an "op") to the Lean model, in order"""
    jobs = jobs or NCPU
    lines = [json.dumps(c, separators=(',', ':')) for c in cases]
    if not lines:
        return []
    nchunk = max(1, min(jobs, (len(lines) + 49) // 50))
    size = (len(lines) + nchunk - 1) // nchunk
    chunks = [lines[i:i + size] for i in range(0, len(lines), size)]
    with cf.ThreadPoolExecutor(max_workers=len(chunks)) as ex:
        outs = list(ex.map(_run_driver, chunks))
    res = []
    for o in outs:
        res.extend(json.loads(l) for l in o)
    for c, r in zip(cases, res):
        if 'proto_error' in r:
            raise RuntimeError('protocol error from the model on %s: %s' % (json.dumps(c)[:400], r))
    return res


# ---------------------------------------------------------------- implementation side
def exc_name(e):
    """canonical error class of a Python exception (mirrors Synphot.Err.name)"""
    import astropy.units as u
    from synphot import exceptions as ex
    for cls, name in ((ex.ZeroWavelength, 'ZeroWavelength'),
                      (ex.UnsortedWavelength, 'UnsortedWavelength'),
                      (ex.DuplicateWavelength, 'DuplicateWavelength'),
                      (ex.PartialOverlap, 'PartialOverlap'),
                      (ex.DisjointError, 'DisjointError'),
                      (ex.OverlapError, 'OverlapError'),
                      (ex.IncompatibleSources, 'IncompatibleSources'),
                      (ex.InterpolationNotAllowed, 'InterpolationNotAllowed'),
                      (ex.UndefinedBinset, 'UndefinedBinset'),
                      (ex.SynphotError, 'SynphotError'),
                      (u.UnitsError, 'UnitError'),
                      (NotImplementedError, 'NotImplementedError'),
                      (UnboundLocalError, 'UnboundLocalError'),
                      (IndexError, 'IndexError'),
                      (LookupError, 'LookupError'),
                      (ZeroDivisionError, 'ZeroDivisionError'),
                      (OSError, 'OSError'),
                      (TypeError, 'TypeError'),
                      (ValueError, 'ValueError')):
        if isinstance(e, cls):
            return name
    return type(e).__name__


def guarded(fn):
    """run fn(); canonical outcome {'ok': value} | {'err': name}; NaN anywhere in a
    numeric result is reported as {'err': 'NaN'} (the model raises Err.nan where NumPy
    would have produced it)."""
    try:
        with warnings.catch_warnings():
            warnings.simplefilter('ignore')
            v = fn()
    except Exception as e:  # noqa
        return {'err': exc_name(e), 'msg': str(e)[:200]}
    v = plain(v)
    if has_nan(v):
        return {'err': 'NaN'}
    return {'ok': v}


def plain(v):
    """numpy / Quantity -> plain Python"""
    import numpy as np
    import astropy.units as u
    if isinstance(v, u.Quantity):
        v = v.value
    if isinstance(v, np.ndarray):
        return [plain(x) for x in v.tolist()]
    if isinstance(v, np.generic):
        return v.item()
    if isinstance(v, (list, tuple)):
        return [plain(x) for x in v]
    if isinstance(v, dict):
        return {k: plain(x) for k, x in v.items()}
    return v


def has_nan(v):
    if isinstance(v, float):
        return not math.isfinite(v)     # NaN or +-inf: "a non-finite number was produced"
    if isinstance(v, list):
        return any(has_nan(x) for x in v)
    if isinstance(v, dict):
        return any(has_nan(x) for x in v.values())
    return False


_POOL_FN = None


def _pool_call(args):
    return _POOL_FN(args)


def pmap(fn, items, jobs=None, chunksize=None):
    """map over a fork pool (synphot is imported before the fork)"""
    global _POOL_FN
    items = list(items)
    jobs = min(jobs or NCPU, max(1, len(items) // 8))
    if jobs <= 1 or os.environ.get('VERIF_NOFORK'):
        return [fn(x) for x in items]
    _POOL_FN = fn
    ctx = mp.get_context('fork')
    with ctx.Pool(jobs) as pool:
        return pool.map(_pool_call, items, chunksize or max(1, len(items) // (jobs * 4)))


# ---------------------------------------------------------------- comparison
SUBNORMAL_ATOL = F(1, 2 ** 1063)


def close(impl, model, rtol=1e-9, atol=0.0):
    """impl: float; model: exact Fraction.  |impl - model| <= atol + rtol*|model|"""
    if isinstance(impl, bool) or impl is None:
        return False
    if isinstance(impl, float) and (math.isnan(impl) or math.isinf(impl)):
        return False
    d = abs(F(impl) - model)
    # binary64 below 2^-1022 is subnormal: its spacing is the absolute 2^-1074, so a relative tolerance means
    # nothing there; SUBNORMAL_ATOL is about 2000 such steps
    return d <= F(atol) + F(rtol) * abs(model) + SUBNORMAL_ATOL


def same(impl, model, rtol=1e-9, atol=0.0, path=''):
    """structural comparison of canonical outcomes; returns None or a description"""
    if isinstance(model, dict):
        if not isinstance(impl, dict):
            return '%s: impl %r vs model %r' % (path, impl, model)
        if 'err' in model or 'err' in impl:
            if impl.get('err') != model.get('err'):
                return '%s: impl %s vs model %s' % (path, _short(impl), _short(model))
            return None
        for k in model:
            if k not in impl:
                return '%s.%s missing on impl' % (path, k)
            r = same(impl[k], model[k], rtol, atol, path + '.' + k)
            if r:
                return r
        return None
    if isinstance(model, list):
        if not isinstance(impl, list) or len(impl) != len(model):
            return '%s: length impl %s vs model %s' % (
                path, len(impl) if isinstance(impl, list) else impl, len(model))
        for i, (a, b) in enumerate(zip(impl, model)):
            r = same(a, b, rtol, atol, '%s[%d]' % (path, i))
            if r:
                return r
        return None
    if isinstance(model, bool) or model is None:
        return None if impl is model or impl == model and isinstance(impl, bool) else \
            '%s: impl %r vs model %r' % (path, impl, model)
    if isinstance(impl, str):
        return None if impl == model else '%s: impl %r vs model %r' % (path, impl, model)
    if isinstance(model, (str, int)) and isinstance(impl, (int, float)) and not isinstance(impl, bool):
        try:
            m = unq(model)
        except Exception:
            return '%s: impl %r vs model %r' % (path, impl, model)
        if isinstance(impl, int) and m.denominator == 1 and rtol == 0:
            return None if impl == m else '%s: impl %r vs model %s' % (path, impl, model)
        return None if close(impl, m, rtol, atol) else \
            '%s: impl %r vs model %r (=%r)' % (path, impl, model, unqf(model))
    return '%s: impl %r vs model %r' % (path, impl, model)


def _short(o):
    s = json.dumps(o, default=str)
    return s if len(s) < 300 else s[:300] + '...'


# ---------------------------------------------------------------- bookkeeping
class Report:
    """collects what a run covered and found for one property"""

    def __init__(self, pid, tier, seed):
        self.pid, self.tier, self.seed = pid, tier, seed
        self.t0 = time.time()
        self.evaluations = 0
        self.distinct = set()
        self.dist = collections.Counter()
        self.samples = []
        self.oracle_failures = []      # (sig, msg, case, impl)
        self.mismatches = []           # (op, msg, case, impl, model)
        self.notes = []
        self.rule = ''
        self.exhaustive = False
        self.extra = {}

    def rng(self, stream=''):
        h = hashlib.sha256(('%s/%s/%s' % (self.pid, self.seed, stream)).encode()).digest()
        return random.Random(int.from_bytes(h[:8], 'big'))

    def count(self, case, nontrivial=True, tags=()):
        self.evaluations += 1
        if nontrivial:
            self.distinct.add(hashlib.md5(json.dumps(case, sort_keys=True, default=str).encode()).digest())
        for t in tags:
            self.dist[t] += 1
        if len(self.samples) < 6 and nontrivial and (self.evaluations % 97 == 1 or len(self.samples) < 2):
            self.samples.append(_trim(case))

    def oracle_fail(self, sig, msg, case, impl=None):
        self.oracle_failures.append((sig, msg, case, impl))

    def mismatch(self, op, msg, case, impl, model):
        self.mismatches.append((op, msg, case, impl, model))


def _trim(case, n=1200):
    s = json.dumps(case, default=str)
    if len(s) <= n:
        return case
    return {'truncated_case': s[:n] + '...'}


def load_corpus(pid):
    """minimised past failures; they run first"""
    d = os.path.join(VERIF, 'corpus', pid)
    out = []
    if os.path.isdir(d):
        for fn in sorted(os.listdir(d)):
            if fn.endswith('.jsonl'):
                with open(os.path.join(d, fn)) as f:
                    out.extend(json.loads(l) for l in f if l.strip())
    return out


# ---------------------------------------------------------------- spellings of one array
# The harness modules build the arrays they hand to the library with ``np.array([...floats...])``.  For a
# "spelling twin" the very same request is evaluated with those arrays in another in-memory form that holds the
# same numbers: big-endian, non-contiguous, read-only, (unsigned) integer dtype when every value is a whole
# number.  The model sees the numbers only, so a library path that depends on the form (a dtype table, a
# difference that wraps around, a write into the caller's buffer, a fast path for contiguous data) shows up as
# a mismatch whose replay carries ``_spell``.  The harness modules get ``NP`` as their ``np``.
# "configuration twins": the operations of these properties are defined with the trapezoid rule (or do not
# integrate at all), whatever synphot.conf.default_integrator says; 6 % of their cases are evaluated once more with
# that configuration item at its other value, and must come out the same
CONF_TWIN_PIDS = {'C01', 'C02', 'C03', 'C05', 'C06', 'C07', 'C08', 'C10', 'C11', 'C13', 'C17'}
SPELL = None
SPELLS = ['be', 'strided', 'readonly', 'int', 'uint']


def _respell(r, how):
    import numpy as _np
    whole = bool(_np.all(_np.isfinite(r)) and _np.all(r == _np.round(r)) and _np.all(_np.abs(r) < 2.0 ** 52))
    if how == 'int' and whole:
        return r.astype(_np.int64)
    if how == 'uint' and whole and bool(_np.all(r >= 0)):
        return r.astype(_np.uint64)
    if how == 'readonly':
        r = r.copy()
        r.setflags(write=False)
        return r
    if how == 'be':
        return r.astype('>f8')
    big = _np.empty(2 * r.size + 1)
    big[:] = _np.nan
    big[1::2] = r
    return big[1::2]


class _NPProxy:
    def __getattr__(self, k):
        import numpy as _np
        return getattr(_np, k)

    def array(self, obj, *a, **kw):
        import numpy as _np
        r = _np.array(obj, *a, **kw)
        if SPELL and not a and not kw and isinstance(obj, list) and r.ndim == 1 and r.dtype == _np.float64 and r.size > 1:
            return _respell(r, SPELL)
        return r


NP = _NPProxy()


def _as_rat(x):
    if isinstance(x, str):
        try:
            return F(x)
        except (ValueError, ZeroDivisionError):
            return None
    return None


def related_request(case, rng):
    """a copy of the request in which every strictly monotone array of >= 3 rationals keeps its length and its two end
    points and gets other interior points; None when the request has no such array"""
    import copy
    changed = [False]

    def walk(v, key=None):
        if isinstance(v, dict):
            return {k: (x if (k == 'const' or str(k).startswith('_')) else walk(x, k)) for k, x in v.items()}
        if isinstance(v, list):
            r = [_as_rat(x) for x in v]
            if len(v) >= 3 and all(x is not None for x in r):
                up = all(r[i] < r[i + 1] for i in range(len(r) - 1))
                dn = all(r[i] > r[i + 1] for i in range(len(r) - 1))
                if up or dn:
                    lo, hi, n = r[0], r[-1], len(r)
                    k = rng.choice([2, 3])
                    new = [lo + (hi - lo) * F(i ** k, (n - 1) ** k) for i in range(n)]
                    if new == r:
                        new = [lo + (hi - lo) * F(i, n - 1) for i in range(n)]
                    if new != r:
                        changed[0] = True
                        return [q(x) for x in new]
                return v
            return [walk(x) for x in v]
        return v
    out = walk(copy.deepcopy(case))
    return out if changed[0] else None


def run_cases(rep, cases, impl_fn, model_fn=None, oracle_fn=None, rtol=1e-9, atol_fn=None,
              tags_fn=None, nontrivial_fn=None, compare_fn=None):
    """the common loop: implementation (fork pool) and model (Lean driver) on every case,
    structural comparison, property oracle on the implementation's outcome.

    model_fn(case) -> the JSON line for the driver (None: case has no model counterpart)
    oracle_fn(rep, case, impl_outcome) -> records oracle failures on rep
    """
    # "decoy" twins: a tenth of the cases is evaluated once more, in one process, right after a RELATED request (same
    # shape: every strictly monotone numeric array keeps its length and end points and gets other interior points).
    # The model is a pure function of the measured request, so an implementation that keeps state between calls
    # (a memo keyed by size and end points, a module-level table) shows up as a mismatch / oracle failure whose
    # replay carries the decoy.  VERIF_NODECOY=1 switches this off.
    cases = list(cases)
    extra = []
    if len(cases) > 8 and not os.environ.get('VERIF_NODECOY'):
        rng = rep.rng('decoy')
        for c in cases:
            if isinstance(c, dict) and '_decoy' not in c and not ({'fname', 'path', 'file', '_nodecoy'} & set(c)) and rng.random() < 0.1:
                d = related_request(c, rng)
                if d is not None:
                    extra.append(dict(c, _decoy=d))
    if len(cases) > 8 and not os.environ.get('VERIF_NOSPELL'):
        rng2 = rep.rng('spell')
        for c in cases:
            if isinstance(c, dict) and '_decoy' not in c and '_spell' not in c and not ({'fname', 'path', 'file', '_nospell'} & set(c)) and rng2.random() < 0.06:
                extra.append(dict(c, _spell=rng2.choice(SPELLS)))
    if len(cases) > 8 and rep.pid in CONF_TWIN_PIDS and not os.environ.get('VERIF_NOCONF'):
        rng3 = rep.rng('conf')
        for c in cases:
            if isinstance(c, dict) and not ({'_decoy', '_spell', '_conf', '_noconf', 'fname', 'path', 'file'} & set(c)) and rng3.random() < 0.06:
                extra.append(dict(c, _conf={'default_integrator': 'analytical'}))
    cases += extra
    inner = impl_fn

    def impl_fn(c, inner=inner):        # noqa: F811
        global SPELL
        if isinstance(c, dict) and '_conf' in c:
            from synphot import conf
            import contextlib
            with contextlib.ExitStack() as st:
                for k, v in c['_conf'].items():
                    st.enter_context(conf.set_temp(k, v))
                return inner({k: v for k, v in c.items() if k != '_conf'})
        if isinstance(c, dict) and '_spell' in c:
            SPELL = c['_spell']
            try:
                return inner({k: v for k, v in c.items() if k != '_spell'})
            finally:
                SPELL = None
        if isinstance(c, dict) and '_decoy' in c:
            try:
                inner(c['_decoy'])
            except Exception:   # noqa
                pass
            return inner({k: v for k, v in c.items() if k != '_decoy'})
        return inner(c)
    impl = pmap(impl_fn, cases)
    mcases, midx = [], []
    for i, c in enumerate(cases):
        cm = {k: v for k, v in c.items() if k not in ('_decoy', '_spell', '_conf')} if isinstance(c, dict) else c
        mc = model_fn(cm) if model_fn else cm
        if mc is not None:
            mcases.append(mc)
            midx.append(i)
    mout = run_model(mcases)
    model = [None] * len(cases)
    for i, m in zip(midx, mout):
        model[i] = m
    for c, o, m in zip(cases, impl, model):
        tags = list(tags_fn(c, o)) if tags_fn else [c.get('op', '?'), 'outcome:' + (o.get('err') or 'ok')]
        rep.count(c, nontrivial=nontrivial_fn(c, o) if nontrivial_fn else True, tags=tags)
        if m is not None:
            if compare_fn:
                r = compare_fn(c, o, m)
            else:
                r = same(o, m, rtol=rtol, atol=atol_fn(c) if atol_fn else 0.0)
            if r:
                rep.mismatch(c.get('op', '?'), r, c, o, m)
        if oracle_fn:
            oracle_fn(rep, c, o)
    return impl, model
