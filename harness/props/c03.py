"""C03  Tabulated spectra interpolate linearly and extrapolate only by the stated rule."""
import math
from fractions import Fraction as F

from ..core import NP as np

from .. import core
from ..core import q, qs, guarded, same, unq

TAPER_KEEPS_FLAG = True      # the model follows /repo: taper() propagates keep_neg (after the F12 fix)


def build(case):
    from synphot import SourceSpectrum, SpectralElement
    from synphot.models import Empirical1D
    cls = SourceSpectrum if case['cls'] == 'source' else SpectralElement
    pts = np.array([float(unq(x)) for x in case['pts']])
    vals = np.array([float(unq(x)) for x in case['vals']])
    kw = {}
    if case['cls'] == 'source' and case.get('z'):
        kw['z'] = float(unq(case['z']))
    sp = cls(Empirical1D, points=pts, lookup_table=vals, keep_neg=case['keep_neg'], **kw)
    if case.get('force_extrap'):
        sp.force_extrapolation()
    if case.get('scale') is not None:
        sp = sp * float(unq(case['scale']))      # a composite: no longer itself a table
    return sp


def impl_call(case):
    op = case['op']
    xs = np.array([float(unq(x)) for x in case['xs']])

    def ev():
        sp = build(case)
        return {'vals': sp(xs).value, 'warn': 'NegativeFlux' in sp.meta.get('warnings', {}),
                'tapered': bool(sp.model.is_tapered())}

    def tp():
        sp = build(case)
        wl = None if case.get('wl') is None else np.array([float(unq(x)) for x in case['wl']])
        before = sp(xs).value.copy()
        t = sp.taper(wavelengths=wl)
        rev = None
        if wl is not None:
            # the same sampling wavelengths in the other order must give the same tapered spectrum
            t2 = build(case).taper(wavelengths=wl[::-1])
            rev = bool(np.array_equal(t2(xs).value, t(xs).value, equal_nan=True))
        if t is sp:
            return {'same': True, 'vals': sp(xs).value, '_rev_same': rev}
        return {'same': False, 'pts': t.model.points[0], 'tvals': t.model.lookup_table,
                'vals': t(xs).value, 'tapered': bool(t.model.is_tapered()), '_before': before, '_rev_same': rev}
    return guarded(ev if op == 'table_eval' else tp)


def model_case(case):
    c = {k: v for k, v in case.items() if k not in ('cls',)}
    c['taper_keeps_flag'] = TAPER_KEEPS_FLAG
    return c


def atol(case):
    return 1e-12 * max([abs(float(unq(v))) for v in case['vals']] + [0.0])


def ramp_free(case, o, m):
    """taper(): the added end point x0^2/x1 is computed in binary64; when the last spacing is tiny compared with
    the wavelength, the *position* error of that knot (1 ulp) is a large fraction of the ramp's width, so values
    sampled on the ramp are ill-conditioned.  They are checked by the oracle against the implementation's own
    knots; the model comparison covers knots, table and every query outside the two ramps."""
    if case['op'] != 'table_taper' or 'ok' not in o or o['ok'].get('same') or 'ok' not in m or m['ok'].get('same'):
        return o, m
    grid = sorted(float(unq(x)) for x in (case['wl'] if case.get('wl') is not None else case['pts']))
    lo, hi = grid[0], grid[-1]
    p0, p1 = o['ok']['pts'][0], o['ok']['pts'][-1]
    keep = [i for i, x in enumerate(case['xs']) if not (p0 * (1 - 1e-12) <= float(unq(x)) < lo or hi < float(unq(x)) <= p1 * (1 + 1e-12))]
    o2 = {'ok': dict(o['ok'])}
    m2 = {'ok': dict(m['ok'])}
    if len(o2['ok']['vals']) == len(m2['ok']['vals']) == len(case['xs']):
        o2['ok']['vals'] = [o['ok']['vals'][i] for i in keep]
        m2['ok']['vals'] = [m['ok']['vals'][i] for i in keep]
    return o2, m2


def compare(case, o, m):
    if 'ok' in o:
        o = {'ok': {k: v for k, v in o['ok'].items() if not k.startswith('_')}}
    o, m = ramp_free(case, o, m)
    return same(o, m, rtol=1e-9, atol=atol(case))


# ------------------------------------------------------------------ oracle
def ascending(case):
    p = [unq(x) for x in case['pts']]
    v = [unq(x) for x in case['vals']]
    if p[0] > p[-1]:
        p, v = p[::-1], v[::-1]
    return p, v


def expected(case, x):
    """the statement, literally: tabulated value at knots, straight line between neighbours, nearest end
    value outside unless both ends are zero; negatives -> 0 unless kept"""
    p, v = ascending(case)
    if not case['keep_neg']:
        v = [max(y, 0) for y in v]
    zero_ended = v[0] == 0 and v[-1] == 0
    extrap = not zero_ended or case.get('force_extrap')
    if x < p[0]:
        r = v[0] if extrap else F(0)
    elif x > p[-1]:
        r = v[-1] if extrap else F(0)
    else:
        r = None
        for i in range(len(p) - 1):
            if p[i] <= x <= p[i + 1]:
                t = (x - p[i]) / (p[i + 1] - p[i])
                r = v[i] + t * (v[i + 1] - v[i])
                lo, hi = min(v[i], v[i + 1]), max(v[i], v[i + 1])
                assert lo <= r <= hi
                break
    if not case['keep_neg']:
        r = max(r, 0)
    return r


def oracle(rep, case, out):
    op = case['op']
    if 'err' in out:
        rep.oracle_fail('%s:valid_table:%s' % (op, out['err']), 'valid table raised %s' % out['err'], case, out)
        return
    o = out['ok']
    xs = [unq(x) for x in case['xs']]
    tol = atol(case)
    if op == 'table_eval':
        for x, got in zip(xs, o['vals']):
            e = expected(case, x)
            if abs(F(got) - e) > F(tol) + abs(e) * F(1, 10 ** 9):
                where = 'outside' if (x < min(ascending(case)[0]) or x > max(ascending(case)[0])) else 'inside'
                rep.oracle_fail('table_eval:%s:value' % where, 'at %s got %r, rule gives %s' % (float(x), got, float(e)), case, out)
                break
            if not case['keep_neg'] and got < 0:
                rep.oracle_fail('table_eval:negative', 'negative sample although keep_neg=False', case, out)
                break
        had_neg = any(unq(v) < 0 for v in case['vals'])
        if (not case['keep_neg']) and o['warn'] != had_neg:
            rep.oracle_fail('table_eval:warning', 'NegativeFlux warning recorded=%s, negative entries=%s' % (o['warn'], had_neg), case, out)
        return
    # taper
    p, v = ascending(case)
    if not case['keep_neg']:
        v = [max(y, 0) for y in v]
    if o.get('_rev_same') is False:
        rep.oracle_fail('taper:order_of_wavelengths', 'taper(wavelengths=w) and taper(wavelengths=w[::-1]) sample differently', case, out)
    if case.get('scale') is not None and case.get('wl') is not None:
        return      # a composite on caller-given wavelengths is judged by its samples at the would-be end points: model comparison only
    if o['same']:
        if not (v[0] == 0 and v[-1] == 0):
            rep.oracle_fail('taper:returned_self_with_nonzero_end', 'taper returned the spectrum itself', case, out)
        return
    if case.get('wl') is not None:
        # with caller-given wavelengths the code keeps the table's own end values as the criterion (legacy
        # behaviour); the statement speaks about tapering the tabulated spectrum itself: model comparison only
        return
    grid = p
    npts = len(o['pts'])
    added_lo = v[0] != 0
    added_hi = v[-1] != 0
    if npts != len(grid) + int(added_lo) + int(added_hi):
        rep.oracle_fail('taper:point_count', 'expected %d points, got %d' % (len(grid) + added_lo + added_hi, npts), case, out)
        return
    tv = o['tvals']
    if added_lo and not (tv[0] == 0 and o['pts'][0] < float(grid[0])):
        rep.oracle_fail('taper:low_point', 'no zero point below the first wavelength', case, out)
    if added_hi and not (tv[-1] == 0 and o['pts'][-1] > float(grid[-1])):
        rep.oracle_fail('taper:high_point', 'no zero point above the last wavelength', case, out)
    if not o['tapered']:
        rep.oracle_fail('taper:not_tapered', 'result is not zero-ended', case, out)
    # the ramps: straight lines from the end values to the added zero points (implementation's own knots)
    P, V = o['pts'], o['tvals']
    for x, a in zip(xs, o['vals']):
        xf = float(x)
        for (xa, ya, xb, yb) in ((P[0], V[0], P[1], V[1]), (P[-2], V[-2], P[-1], V[-1])):
            if xa < xf < xb and (added_lo if xa == P[0] else added_hi):
                e = ya + (xf - xa) / (xb - xa) * (yb - ya)
                if abs(a - e) > 1e-6 * max(abs(ya), abs(yb)) + tol:
                    rep.oracle_fail('taper:ramp', 'ramp value %r, chord of the reported knots gives %r' % (a, e), case, out)
        if xf < P[0] or xf > P[-1]:
            if a != 0:
                rep.oracle_fail('taper:beyond', 'non-zero value %r beyond the added point' % a, case, out)
    # every value inside the original range unchanged (sampled on the original grid: knots)
    if case.get('wl') is None:
        before = o.get('_before')
        for x, b, a in zip(xs, before, o['vals']):
            if p[0] <= x <= p[-1] and abs(a - b) > tol + 1e-9 * abs(b):
                rep.oracle_fail('taper:inside_changed:keep_neg=%s' % case['keep_neg'],
                                'value inside the original range changed from %r to %r at %s' % (b, a, float(x)), case, out)
                break


# ------------------------------------------------------------------ generators
def gen_table(rng, nmax):
    n = rng.randint(2, nmax)
    x = 10 ** rng.uniform(1, 6)
    pts = []
    for _ in range(n):
        pts.append(x)
        x += 10 ** rng.uniform(-6, 5)
    scale = 10 ** rng.uniform(-20, 20)
    vals = []
    for _ in range(n):
        r = rng.random()
        vals.append(0.0 if r < 0.15 else (-scale * rng.random() if r < 0.35 else scale * rng.random()))
    r = rng.random()
    if r < 0.2:
        vals[0] = vals[-1] = 0.0
    elif r < 0.3:
        vals[0] = 0.0
    elif r < 0.4:
        vals[-1] = 0.0
    if rng.random() < 0.3:
        pts, vals = pts[::-1], vals[::-1]
    return pts, vals


def queries(rng, pts):
    s = sorted(pts)
    xs = set()
    for k in rng.sample(range(len(s)), min(len(s), 6)):
        xs.add(s[k])
        xs.add(float(np.nextafter(s[k], np.inf)))
        if float(np.nextafter(s[k], -np.inf)) > 0:
            xs.add(float(np.nextafter(s[k], -np.inf)))
    xs.add(s[0]); xs.add(s[-1])
    for k in rng.sample(range(len(s) - 1), min(len(s) - 1, 4)):
        xs.add((s[k] + s[k + 1]) / 2)
        xs.add(s[k] + (s[k + 1] - s[k]) * rng.random())
    xs.update([s[0] * 0.5, s[0] * (1 - 1e-9), s[-1] * (1 + 1e-9), s[-1] * 3, s[-1] * 1e3, s[0] * 1e-3])
    xs = [x for x in xs if x > 0]
    rng.shuffle(xs)
    # sampling wavelengths must be strictly monotone for the spectrum API: sort them
    return sorted(set(xs))


def gen_cases(rng, count, nmax):
    for _ in range(count):
        pts, vals = gen_table(rng, nmax)
        case = {'op': 'table_eval', 'cls': rng.choice(['source', 'bandpass']), 'pts': qs(pts), 'vals': qs(vals),
                'keep_neg': rng.random() < 0.5, 'xs': qs(queries(rng, pts))}
        if rng.random() < 0.2:
            case['force_extrap'] = True
        if len(pts) >= 3 and rng.random() < 0.15:
            # a query shaped like the table itself: as many wavelengths, the same two end points, other interior points
            sp_ = sorted(pts)
            inner = set()
            while len(inner) < len(sp_) - 2:
                k = rng.randrange(len(sp_) - 1)
                inner.add(sp_[k] + (sp_[k + 1] - sp_[k]) * rng.choice([0.5, 0.25, 0.75, 0.125]))
            case['xs'] = qs([sp_[0]] + sorted(inner) + [sp_[-1]])
        yield case
        if rng.random() < 0.5:
            c2 = dict(case)
            c2['op'] = 'table_taper'
            c2.pop('force_extrap', None)
            c2['xs'] = qs(sorted(set([float(unq(x)) for x in case['xs']] + sorted(pts))))
            if rng.random() < 0.3:
                c2['scale'] = q(rng.choice([F(3), F(1, 2), F(-2), F(5, 4)]))
            if rng.random() < 0.25:
                lo, hi = min(pts), max(pts)
                wl = sorted({lo * (1 + (hi / lo - 1) * rng.random()) for _ in range(rng.randint(2, 6))})
                if len(wl) >= 2:
                    c2['wl'] = qs(wl[::-1] if rng.random() < 0.4 else wl)      # either order
            yield c2


def run(rep):
    thorough = rep.tier == 'thorough'
    rng = rep.rng('c03')
    cases = core.load_corpus('C03') + list(gen_cases(rng, 24000 if thorough else 2500, 80 if thorough else 12))
    rep.rule = ('random tables of 2..N strictly monotone positive wavelengths (both orders, spacing 1e-6..1e5 A), values with zeros, '
                'negatives and zero ends, keep_neg both, SourceSpectrum and SpectralElement; queries: knots, their binary64 '
                'neighbours, midpoints, random interior points, points just and far outside; taper() of the table and of the composite table x k, with and without '
                'explicit wavelengths; force_extrapolation. Non-trivial: every case (each has >= 2 knots and >= 8 queries).')

    def tags(c, o):
        return [c['op'], 'keep_neg:%s' % c['keep_neg'], 'order:' + ('desc' if unq(c['pts'][0]) > unq(c['pts'][-1]) else 'asc'),
                'outcome:' + (o.get('err') or 'ok')]
    core.run_cases(rep, cases, impl_call, model_case, oracle, tags_fn=tags, compare_fn=compare)


def search(rep, mismatches):
    sub = core.Report(rep.pid, 'thorough', rep.seed + 1)
    rng = sub.rng('c03-search')
    cases = list(gen_cases(rng, 8000, 20))
    impl = core.pmap(impl_call, cases)
    for c, o in zip(cases, impl):
        oracle(sub, c, o)
    rep.notes.append('directed search after mismatch: %d cases, %d oracle failures' % (len(cases), len(sub.oracle_failures)))
    return sub.oracle_failures


def replay(rep, payload):
    core.run_cases(rep, [payload['case']], impl_call, model_case, oracle, compare_fn=compare)
