/-
  Synphot.Lemmas.C08x — helper lemmas for the deepened C08 theorems: `countrate` as a pipeline of its stages
  (wavelengths, samples, conversion to counts, range selection, validation) with its inversion, the count
  conversion in closed form, selection commuting with maps of the counts, the overlap test on a range as a
  case analysis, Python slices with natural bounds, sums over index ranges of non-negative arrays, well-formed
  bins, which bins a range selects, and a concrete observation for the examples.
-/
import Synphot.Lemmas.C07x
import Synphot.Lemmas.ObsPhot
import Synphot.Core.Bandpar
import Synphot.Props.C07

set_option linter.unusedSectionVars false
set_option linter.unusedVariables false
set_option linter.unusedSimpArgs false

namespace Synphot
variable {K : Type} [Field K] [LinearOrder K] [IsStrictOrderedRing K]

/-! ### `countrate` as a pipeline of its stages -/

/-- the wavelengths a count-rate call samples at -/
def crWaves (thr : K) (o : Obs K) (binned : Bool) (wl : Option (List K)) : Except Err (List K) :=
  if binned then (match wl with
      | some w => do validateWavelengths w; pure w
      | none => pure o.bins.binset)
    else wavelengthsOr thr o.model wl

/-- the PHOTLAM samples there -/
def crSamples (E : Env K) (atol rtol : K) (o : Obs K) (binned : Bool) (x : List K) : Except Err (List K) :=
  if binned then sampleBinned atol rtol o.bins x else sampleTree E o.model x

/-- the (ascending) bin edges a binned range is cut on, with the counts in the same order: the observation's
own edges by default; for explicit wavelengths their own bin edges, both arrays reversed when the edges
descend (052fdd8) -/
def crEdgesY (o : Obs K) (wl : Option (List K)) (x y : List K) : Except Err (List K × List K) :=
  match wl with
  | none => pure (o.bins.edges, y)
  | some _ => do
      let e ← binEdges x
      pure (if isDesc e then (e.reverse, y.reverse) else (e, y))

/-- the counts that enter the sum: everything, or the part selected by the wavelength range -/
def rangeSel (o : Obs K) (x y : List K) (binned : Bool) (wl : Option (List K)) (waverange : Option (K × K))
    (force : Bool) : Except Err (List K) :=
  match waverange with
  | none => pure y
  | some (wa, wb) => do
      let stat ← overlapArrays [wa, wb] x
      let w1 := min wa wb
      let w2 := max wa wb
      let (w1, w2) ← match stat with
        | .none => throw .disjointError
        | .part =>
            if force then
              match listMin x, listMax x with
              | some xm, some xM => pure (max w1 xm, min w2 xM)
              | _, _ => throw .valueError
            else throw .partialOverlap
        | .full => pure (w1, w2)
      if binned then do
        let (edges, y) ← crEdgesY o wl x y
        let i1 : Int := (searchLeft edges w1 : Int) - 1
        let i2 : Int := searchLeft edges w2
        pure (pySlice y i1 i2)
      else pure (((x.zip y).filter fun p => decide (p.1 ≥ w1 ∧ p.1 ≤ w2)).map Prod.snd)

/-- the last stage: sum, validate -/
def rateOf (sel : Except Err (List K)) : Except Err K :=
  match sel with
  | .error e => .error e
  | .ok influx => if influx.sum ≤ 0 then .error .synphotError else .ok influx.sum

theorem crWaves_binned_none (thr : K) (o : Obs K) (x : List K) (h : crWaves thr o true none = .ok x) :
    o.bins.binset = x := by
  simp only [crWaves, if_true, pure, Except.pure] at h
  injection h

theorem crWaves_binned_some (thr : K) (o : Obs K) (w x : List K) (h : crWaves thr o true (some w) = .ok x) :
    validateWavelengths w = .ok () ∧ w = x := by
  simp only [crWaves, if_true, bind, Except.bind, pure, Except.pure] at h
  cases hv : validateWavelengths w with
  | error e => rw [hv] at h; cases h
  | ok u => rw [hv] at h; injection h with h; exact ⟨rfl, h⟩

theorem countrate_of_stages (E : Env K) (thr atol rtol : K) (o : Obs K) (area : Option K) (binned : Bool)
    (wl : Option (List K)) (waverange : Option (K × K)) (force : Bool) (x yp y : List K)
    (hx : crWaves thr o binned wl = .ok x) (hyp : crSamples E atol rtol o binned x = .ok yp)
    (hy : convertFlux E.P E.T x yp .photlam .count area none = .ok y) :
    countrate E thr atol rtol o area binned wl waverange force =
      rateOf (rangeSel o x y binned wl waverange force) := by
  unfold countrate rateOf rangeSel crEdgesY validateTotalflux
  rcases waverange with _ | ⟨wa, wb⟩ <;> cases binned <;> cases wl
  case none.false.none =>
    simp only [crWaves, crSamples, if_false, Bool.false_eq_true] at hx hyp
    simp only [bind, Except.bind, pure, Except.pure, if_false, Bool.false_eq_true, hx, hyp, hy]
    split_ifs <;> rfl
  case none.false.some w =>
    simp only [crWaves, crSamples, if_false, Bool.false_eq_true] at hx hyp
    simp only [bind, Except.bind, pure, Except.pure, if_false, Bool.false_eq_true, hx, hyp, hy]
    split_ifs <;> rfl
  case none.true.none =>
    have hx' := crWaves_binned_none thr o x hx
    simp only [crSamples, if_true] at hyp
    simp only [bind, Except.bind, pure, Except.pure, if_true, hx', hyp, hy]
    split_ifs <;> rfl
  case none.true.some w =>
    obtain ⟨hv, rfl⟩ := crWaves_binned_some thr o w _ hx
    simp only [crSamples, if_true] at hyp
    simp only [bind, Except.bind, pure, Except.pure, if_true, hv, hyp, hy]
    split_ifs <;> rfl
  case some.false.none =>
    simp only [crWaves, crSamples, if_false, Bool.false_eq_true] at hx hyp
    simp only [bind, Except.bind, pure, Except.pure, if_false, Bool.false_eq_true, throw, throwThe,
      MonadExceptOf.throw, hx, hyp, hy]
    cases overlapArrays [wa, wb] x with
    | error e => rfl
    | ok stat =>
      cases stat <;> cases force <;> simp only [if_true, if_false, Bool.false_eq_true] <;>
        cases listMin x <;> cases listMax x <;> (try simp only []) <;>
        first | rfl | (split_ifs <;> rfl)
  case some.false.some w =>
    simp only [crWaves, crSamples, if_false, Bool.false_eq_true] at hx hyp
    simp only [bind, Except.bind, pure, Except.pure, if_false, Bool.false_eq_true, throw, throwThe,
      MonadExceptOf.throw, hx, hyp, hy]
    cases overlapArrays [wa, wb] x with
    | error e => rfl
    | ok stat =>
      cases stat <;> cases force <;> simp only [if_true, if_false, Bool.false_eq_true] <;>
        cases listMin x <;> cases listMax x <;> (try simp only []) <;>
        first | rfl | (split_ifs <;> rfl)
  case some.true.none =>
    have hx' := crWaves_binned_none thr o x hx
    simp only [crSamples, if_true] at hyp
    simp only [bind, Except.bind, pure, Except.pure, if_true, throw, throwThe,
      MonadExceptOf.throw, hx', hyp, hy]
    cases overlapArrays [wa, wb] x with
    | error e => rfl
    | ok stat =>
      cases stat <;> cases force <;> simp only [if_true, if_false, Bool.false_eq_true] <;>
        cases listMin x <;> cases listMax x <;> (try simp only []) <;>
        first | rfl | (split_ifs <;> rfl)
  case some.true.some w =>
    obtain ⟨hv, rfl⟩ := crWaves_binned_some thr o w _ hx
    simp only [crSamples, if_true] at hyp
    simp only [bind, Except.bind, pure, Except.pure, if_true, throw, throwThe,
      MonadExceptOf.throw, hv, hyp, hy]
    cases overlapArrays [wa, wb] w with
    | error e => rfl
    | ok stat =>
      cases stat <;> cases force <;> simp only [if_true, if_false, Bool.false_eq_true] <;>
        cases listMin w <;> cases listMax w <;> cases binEdges w <;> (try simp only []) <;>
        first | rfl | (split_ifs <;> rfl)

theorem countrate_err_waves (E : Env K) (thr atol rtol : K) (o : Obs K) (area : Option K) (binned : Bool)
    (wl : Option (List K)) (waverange : Option (K × K)) (force : Bool) (e : Err)
    (hx : crWaves thr o binned wl = .error e) :
    countrate E thr atol rtol o area binned wl waverange force = .error e := by
  unfold countrate
  cases binned <;> cases wl
  case false.none =>
    simp only [crWaves, if_false, Bool.false_eq_true] at hx
    simp only [bind, Except.bind, if_false, Bool.false_eq_true, hx]
  case false.some w =>
    simp only [crWaves, if_false, Bool.false_eq_true] at hx
    simp only [bind, Except.bind, if_false, Bool.false_eq_true, hx]
  case true.none =>
    simp only [crWaves, if_true, pure, Except.pure] at hx
    cases hx
  case true.some w =>
    simp only [crWaves, if_true, bind, Except.bind, pure, Except.pure] at hx
    cases hv : validateWavelengths w with
    | error e' =>
      rw [hv] at hx; injection hx with hx; subst hx
      simp only [bind, Except.bind, if_true, hv]
    | ok u => rw [hv] at hx; cases hx

theorem countrate_err_samples (E : Env K) (thr atol rtol : K) (o : Obs K) (area : Option K) (binned : Bool)
    (wl : Option (List K)) (waverange : Option (K × K)) (force : Bool) (x : List K) (e : Err)
    (hx : crWaves thr o binned wl = .ok x) (hyp : crSamples E atol rtol o binned x = .error e) :
    countrate E thr atol rtol o area binned wl waverange force = .error e := by
  unfold countrate
  cases binned <;> cases wl
  case false.none =>
    simp only [crWaves, crSamples, if_false, Bool.false_eq_true] at hx hyp
    simp only [bind, Except.bind, if_false, Bool.false_eq_true, hx, hyp]
  case false.some w =>
    simp only [crWaves, crSamples, if_false, Bool.false_eq_true] at hx hyp
    simp only [bind, Except.bind, if_false, Bool.false_eq_true, hx, hyp]
  case true.none =>
    have hx' := crWaves_binned_none thr o x hx
    simp only [crSamples, if_true] at hyp
    simp only [bind, Except.bind, pure, Except.pure, if_true, hx', hyp]
  case true.some w =>
    obtain ⟨hv, rfl⟩ := crWaves_binned_some thr o w _ hx
    simp only [crSamples, if_true] at hyp
    simp only [bind, Except.bind, pure, Except.pure, if_true, hv, hyp]

theorem countrate_err_convert (E : Env K) (thr atol rtol : K) (o : Obs K) (area : Option K) (binned : Bool)
    (wl : Option (List K)) (waverange : Option (K × K)) (force : Bool) (x yp : List K) (e : Err)
    (hx : crWaves thr o binned wl = .ok x) (hyp : crSamples E atol rtol o binned x = .ok yp)
    (hy : convertFlux E.P E.T x yp .photlam .count area none = .error e) :
    countrate E thr atol rtol o area binned wl waverange force = .error e := by
  unfold countrate
  cases binned <;> cases wl
  case false.none =>
    simp only [crWaves, crSamples, if_false, Bool.false_eq_true] at hx hyp
    simp only [bind, Except.bind, if_false, Bool.false_eq_true, hx, hyp, hy]
  case false.some w =>
    simp only [crWaves, crSamples, if_false, Bool.false_eq_true] at hx hyp
    simp only [bind, Except.bind, if_false, Bool.false_eq_true, hx, hyp, hy]
  case true.none =>
    have hx' := crWaves_binned_none thr o x hx
    simp only [crSamples, if_true] at hyp
    simp only [bind, Except.bind, pure, Except.pure, if_true, hx', hyp, hy]
  case true.some w =>
    obtain ⟨hv, rfl⟩ := crWaves_binned_some thr o w _ hx
    simp only [crSamples, if_true] at hyp
    simp only [bind, Except.bind, pure, Except.pure, if_true, hv, hyp, hy]

/-- a returned count rate went through every stage -/
theorem countrate_ok_inv (E : Env K) (thr atol rtol : K) (o : Obs K) (area : Option K) (binned : Bool)
    (wl : Option (List K)) (waverange : Option (K × K)) (force : Bool) (v : K)
    (h : countrate E thr atol rtol o area binned wl waverange force = .ok v) :
    ∃ x yp y influx, crWaves thr o binned wl = .ok x ∧ crSamples E atol rtol o binned x = .ok yp ∧
      convertFlux E.P E.T x yp .photlam .count area none = .ok y ∧
      rangeSel o x y binned wl waverange force = .ok influx ∧ v = influx.sum ∧ 0 < v := by
  cases hx : crWaves thr o binned wl with
  | error e => rw [countrate_err_waves E thr atol rtol o area binned wl waverange force e hx] at h; cases h
  | ok x =>
    cases hyp : crSamples E atol rtol o binned x with
    | error e =>
      rw [countrate_err_samples E thr atol rtol o area binned wl waverange force x e hx hyp] at h; cases h
    | ok yp =>
      cases hy : convertFlux E.P E.T x yp .photlam .count area none with
      | error e =>
        rw [countrate_err_convert E thr atol rtol o area binned wl waverange force x yp e hx hyp hy] at h
        cases h
      | ok y =>
        rw [countrate_of_stages E thr atol rtol o area binned wl waverange force x yp y hx hyp hy] at h
        unfold rateOf at h
        cases hs : rangeSel o x y binned wl waverange force with
        | error e => rw [hs] at h; cases h
        | ok influx =>
          rw [hs] at h
          simp only at h
          split_ifs at h with h0
          injection h with h
          exact ⟨x, yp, y, influx, rfl, hyp, hy, hs, h.symm, by rw [← h]; exact not_le.mp h0⟩


/-! ### the stages in detail -/

theorem sampleBinned_length (atol rtol : K) (b : Bins K) (x yp : List K)
    (h : sampleBinned atol rtol b x = .ok yp) : yp.length = x.length := by
  unfold sampleBinned at h
  simp only [bind, Except.bind] at h
  cases hv : validateWavelengths x with
  | error e => rw [hv] at h; cases h
  | ok u =>
    rw [hv] at h
    simp only at h
    cases hh : (x.map (binIndex b.binset)).mapM (pyIndex b.binset) with
    | error e => rw [hh] at h; cases h
    | ok hits =>
      rw [hh] at h
      simp only at h
      split_ifs at h
      all_goals first | (cases h) | (have := mapM_ok_length _ _ _ h; simpa using this)

theorem crSamples_length (E : Env K) (atol rtol : K) (o : Obs K) (binned : Bool) (x yp : List K)
    (h : crSamples E atol rtol o binned x = .ok yp) : yp.length = x.length := by
  unfold crSamples at h
  cases binned
  · simp only [if_false, Bool.false_eq_true] at h; exact C09.sampleTree_length E o.model x yp h
  · simp only [if_true] at h; exact sampleBinned_length atol rtol o.bins x yp h

theorem binWidths_length_of_edges (x e bw : List K) (he : binEdges x = .ok e) (hw : binWidths e = .ok bw) :
    bw.length = x.length := by
  have := C18.edges_length x e he
  have := C18.widths_length e bw hw
  omega

/-- PHOTLAM → count with an area: the count factors are the widths of the wavelengths' own bins × area -/
theorem convertFlux_count_inv (P : PhysConst K) (T : Transc K) (x yp y : List K) (a : K)
    (hlen : yp.length = x.length)
    (h : convertFlux P T x yp .photlam .count (some a) none = .ok y) :
    ∃ e bw, calcBinEdges x = .ok e ∧ binWidths e = .ok bw ∧ bw.length = x.length ∧
      y = mulFactors yp (bw.map (· * a)) := by
  unfold convertFlux at h
  have hne : (FluxUnit.photlam : FluxUnit K) ≠ .count := by intro h; cases h
  rw [if_neg hne] at h
  simp only [countFactorsFor, FluxUnit.needsArea, Bool.or_true, if_true, countFactors, bind, Except.bind,
    Except.map, pure, Except.pure] at h
  cases he : calcBinEdges x with
  | error err => rw [he] at h; cases h
  | ok e =>
    rw [he] at h
    simp only at h
    cases hw : binWidths e with
    | error err => rw [hw] at h; cases h
    | ok bw =>
      rw [hw] at h
      simp only at h
      have hbl := binWidths_length_of_edges x e bw (calcBinEdges_inv x e he).2.2 hw
      rw [convertAll_count P T x yp _ none hlen.symm (by simpa using hbl)] at h
      injection h with h
      exact ⟨e, bw, rfl, hw, hbl, h.symm⟩

theorem convertFlux_count_of (P : PhysConst K) (T : Transc K) (x yp e bw : List K) (a : K)
    (hlen : yp.length = x.length) (he : calcBinEdges x = .ok e) (hw : binWidths e = .ok bw) :
    convertFlux P T x yp .photlam .count (some a) none = .ok (mulFactors yp (bw.map (· * a))) := by
  obtain ⟨_, hv, hb⟩ := calcBinEdges_inv x e he
  exact convertFlux_count P T x yp e bw a hv hb hw (binWidths_length_of_edges x e bw hb hw) hlen.symm

theorem mulFactors_scale_area (k a : K) (f bw : List K) :
    mulFactors f (bw.map (· * (k * a))) = (mulFactors f (bw.map (· * a))).map (k * ·) := by
  induction f generalizing bw with
  | nil => simp [mulFactors]
  | cons x xs ih =>
    cases bw with
    | nil => simp [mulFactors]
    | cons b bs => simp only [List.map_cons, mulFactors, ih bs]; congr 1; ring

theorem pySlice_map {α β : Type} (f : α → β) (l : List α) (a b : Int) :
    pySlice (l.map f) a b = (pySlice l a b).map f := by
  unfold pySlice
  simp only [List.length_map, List.map_take, List.map_drop]

theorem filter_zip_map (f : K → K) (p : K → Bool) : ∀ (x y : List K),
    (((x.zip (y.map f)).filter fun q => p q.1).map Prod.snd) =
      (((x.zip y).filter fun q => p q.1).map Prod.snd).map f := by
  intro x
  induction x with
  | nil => intro y; simp
  | cons a x ih =>
    intro y
    cases y with
    | nil => simp
    | cons b y =>
      simp only [List.map_cons, List.zip_cons_cons, List.filter_cons]
      cases hp : p a
      · simp only [Bool.false_eq_true, if_false, ih y]
      · simp only [if_true, List.map_cons, ih y]

theorem crEdgesY_map (f : K → K) (o : Obs K) (wl : Option (List K)) (x y : List K) :
    crEdgesY o wl x (y.map f) = (crEdgesY o wl x y).map (fun p => (p.1, p.2.map f)) := by
  unfold crEdgesY
  cases wl with
  | none => rfl
  | some w =>
    simp only [bind, Except.bind, pure, Except.pure]
    cases binEdges x with
    | error e => rfl
    | ok e =>
      simp only [Except.map]
      split_ifs <;> simp only [List.map_reverse]

/-- the selection commutes with any map of the counts -/
theorem rangeSel_map (f : K → K) (o : Obs K) (x y : List K) (binned : Bool) (wl : Option (List K))
    (waverange : Option (K × K)) (force : Bool) :
    rangeSel o x (y.map f) binned wl waverange force =
      (rangeSel o x y binned wl waverange force).map (List.map f) := by
  unfold rangeSel
  rcases waverange with _ | ⟨wa, wb⟩
  · rfl
  · simp only [bind, Except.bind, pure, Except.pure, throw, throwThe, MonadExceptOf.throw]
    cases overlapArrays [wa, wb] x with
    | error e => rfl
    | ok stat =>
      cases stat <;> cases force <;> cases binned <;>
        simp only [if_true, if_false, Bool.false_eq_true, Except.map] <;>
        cases listMin x <;> cases listMax x <;> (try rw [crEdgesY_map]) <;> cases crEdgesY o wl x y <;>
        (try simp only [Except.map]) <;>
        first
        | (rw [pySlice_map])
        | (exact congrArg Except.ok (filter_zip_map f (fun t => decide (t ≥ _ ∧ t ≤ _)) x y))


/-! ### extreme values of a strictly ascending array; the overlap test on a range -/

theorem foldl_min_of_le (a : K) : ∀ (t : List K), (∀ x ∈ t, a ≤ x) → t.foldl min a = a := by
  intro t
  induction t with
  | nil => intro _; rfl
  | cons b t ih =>
    intro h
    rw [List.foldl_cons, min_eq_left (h b (by simp))]
    exact ih (fun x hx => h x (List.mem_cons_of_mem _ hx))

theorem listMin_strictAsc (a : K) (t : List K) (h : StrictAsc (a :: t)) : listMin (a :: t) = some a := by
  show some (t.foldl min a) = some a
  rw [foldl_min_of_le a t (fun x hx => strictAsc_head_le_mem a t h x (List.mem_cons_of_mem _ hx))]

theorem foldl_max_strictAsc : ∀ (t : List K) (a : K), StrictAsc (a :: t) → t.foldl max a = t.getLastD a := by
  intro t
  induction t with
  | nil => intro a _; rfl
  | cons b t ih =>
    intro a h
    rw [List.foldl_cons, max_eq_right (le_of_lt h.1), List.getLastD_cons]
    exact ih b h.2

theorem listMax_strictAsc (a : K) (t : List K) (h : StrictAsc (a :: t)) :
    listMax (a :: t) = some (t.getLastD a) := by
  show some (t.foldl max a) = some (t.getLastD a)
  rw [foldl_max_strictAsc t a h]

theorem listMin_pair (a b : K) : listMin [a, b] = some (min a b) := rfl
theorem listMax_pair (a b : K) : listMax [a, b] = some (max a b) := rfl

theorem overlapArrays_pair (wa wb : K) (x : List K) (xm xM : K) (hmin : listMin x = some xm)
    (hmax : listMax x = some xM) :
    overlapArrays [wa, wb] x = .ok (overlapStatus (min wa wb) (max wa wb) xm xM) := by
  simp only [overlapArrays, listMin_pair, listMax_pair, hmin, hmax]

theorem overlapArrays_swap (wa wb : K) (x : List K) : overlapArrays [wb, wa] x = overlapArrays [wa, wb] x := by
  simp only [overlapArrays, listMin_pair, listMax_pair, min_comm wb wa, max_comm wb wa]

/-- the part of the counts between two limits: whole bins of the edge array (binned) or the samples inside
(unbinned) -/
def cutRange (o : Obs K) (x y : List K) (binned : Bool) (wl : Option (List K)) (w1 w2 : K) :
    Except Err (List K) :=
  if binned then
    match crEdgesY o wl x y with
    | .error e => .error e
    | .ok p => .ok (pySlice p.2 ((searchLeft p.1 w1 : Int) - 1) (searchLeft p.1 w2))
  else .ok (((x.zip y).filter fun p => decide (p.1 ≥ w1 ∧ p.1 ≤ w2)).map Prod.snd)

/-- the range stage as a case analysis on where the range lies with respect to the sampled wavelengths -/
theorem rangeSel_cases (o : Obs K) (x y : List K) (binned : Bool) (wl : Option (List K)) (wa wb : K)
    (force : Bool) (xm xM : K) (hmin : listMin x = some xm) (hmax : listMax x = some xM) :
    rangeSel o x y binned wl (some (wa, wb)) force =
      if xm ≤ min wa wb ∧ max wa wb ≤ xM then cutRange o x y binned wl (min wa wb) (max wa wb)
      else if max wa wb < xm ∨ xM < min wa wb then .error .disjointError
      else if force then cutRange o x y binned wl (max (min wa wb) xm) (min (max wa wb) xM)
      else .error .partialOverlap := by
  unfold rangeSel cutRange
  simp only [overlapArrays_pair wa wb x xm xM hmin hmax, bind, Except.bind, pure, Except.pure, throw, throwThe,
    MonadExceptOf.throw, hmin, hmax, overlapStatus, ge_iff_le]
  by_cases h1 : xm ≤ min wa wb ∧ max wa wb ≤ xM
  · simp only [h1, and_self, if_true]
    cases binned
    · simp only [Bool.false_eq_true, if_false]
    · simp only [if_true]; cases crEdgesY o wl x y <;> rfl
  · rw [if_neg h1, if_neg h1]
    by_cases h2 : max wa wb < xm ∨ xM < min wa wb
    · simp only [h2, if_true]
    · rw [if_neg h2, if_neg h2]
      cases force
      · simp only [Bool.false_eq_true, if_false]
      · simp only [if_true]
        cases binned
        · simp only [Bool.false_eq_true, if_false]
        · simp only [if_true]; cases crEdgesY o wl x y <;> rfl

/-! ### Python slices with natural bounds -/

theorem pyClip_nat' (n k : Nat) : pyClip n (k : Int) = min k n := by
  unfold pyClip
  have h1 : ¬ ((k : Int) < 0) := by omega
  simp only [h1, if_false]
  by_cases h2 : (n : Int) < (k : Int)
  · simp only [h2, if_true]; omega
  · simp only [h2, if_false, Int.toNat_natCast]; omega

theorem pySlice_nat {α : Type} (l : List α) (i j : Nat) :
    pySlice l (i : Int) (j : Int) = (l.drop i).take (j - i) := by
  unfold pySlice
  rw [pyClip_nat', pyClip_nat']
  show List.take (min j l.length - min i l.length) (List.drop (min i l.length) l) = _
  by_cases hi : i ≤ l.length
  · rw [min_eq_left hi]
    by_cases hj : j ≤ l.length
    · rw [min_eq_left hj]
    · rw [min_eq_right (by omega)]
      rw [List.take_of_length_le (by simp), List.take_of_length_le (by simp; omega)]
  · have h1 : l.drop i = [] := List.drop_eq_nil_of_le (by omega)
    have h2 : l.drop (min i l.length) = [] := List.drop_eq_nil_of_le (by omega)
    rw [h1, h2]; simp

theorem pySlice_pred {α : Type} (l : List α) (i j : Nat) (hi : 1 ≤ i) :
    pySlice l ((i : Int) - 1) (j : Int) = (l.drop (i - 1)).take (j - (i - 1)) := by
  have : ((i : Int) - 1) = ((i - 1 : Nat) : Int) := by omega
  rw [this, pySlice_nat]

/-! ### sums over index ranges of a non-negative array -/

theorem prefix_sum_mono (y : List K) (hy : ∀ v ∈ y, 0 ≤ v) (k m : Nat) (hkm : k ≤ m) :
    (y.take k).sum ≤ (y.take m).sum := by
  obtain ⟨d, rfl⟩ : ∃ d, m = k + d := ⟨m - k, by omega⟩
  rw [List.take_add, List.sum_append]
  have : 0 ≤ ((y.drop k).take d).sum :=
    List.sum_nonneg (fun v hv => hy v (List.mem_of_mem_drop (List.mem_of_mem_take hv)))
  linarith

theorem range_sum_eq (y : List K) (lo hi : Nat) (h : lo ≤ hi) :
    ((y.drop lo).take (hi - lo)).sum = (y.take hi).sum - (y.take lo).sum := by
  obtain ⟨d, rfl⟩ : ∃ d, hi = lo + d := ⟨hi - lo, by omega⟩
  rw [List.take_add, List.sum_append, Nat.add_sub_cancel_left]; ring

/-- a wider index range of a non-negative array never sums to less -/
theorem range_sum_mono (y : List K) (hy : ∀ v ∈ y, 0 ≤ v) (lo lo' hi hi' : Nat) (h1 : lo' ≤ lo) (h2 : hi ≤ hi') :
    ((y.drop lo).take (hi - lo)).sum ≤ ((y.drop lo').take (hi' - lo')).sum := by
  have hnn : 0 ≤ ((y.drop lo').take (hi' - lo')).sum :=
    List.sum_nonneg (fun v hv => hy v (List.mem_of_mem_drop (List.mem_of_mem_take hv)))
  by_cases hc : lo ≤ hi
  · rw [range_sum_eq y lo hi hc, range_sum_eq y lo' hi' (by omega)]
    have := prefix_sum_mono y hy hi hi' h2
    have := prefix_sum_mono y hy lo' lo h1
    linarith
  · have : hi - lo = 0 := by omega
    rw [this]; simpa using hnn

theorem filter_sum_mono (p q : K → Bool) (hpq : ∀ t, p t = true → q t = true) : ∀ (x y : List K),
    (∀ v ∈ y, 0 ≤ v) →
    (((x.zip y).filter fun r => p r.1).map Prod.snd).sum ≤ (((x.zip y).filter fun r => q r.1).map Prod.snd).sum := by
  intro x
  induction x with
  | nil => intro y _; simp
  | cons a x ih =>
    intro y hy
    cases y with
    | nil => simp
    | cons b y =>
      have hb := hy b (by simp)
      have := ih y (fun v hv => hy v (List.mem_cons_of_mem _ hv))
      simp only [List.zip_cons_cons, List.filter_cons]
      cases hp : p a <;> cases hq : q a
      · simpa using this
      · simp only [Bool.false_eq_true, if_false, if_true, List.map_cons, List.sum_cons]; linarith
      · rw [hpq a hp] at hq; cases hq
      · simp only [if_true, List.map_cons, List.sum_cons]; linarith

theorem filter_sum_le_total (p : K → Bool) : ∀ (x y : List K), (∀ v ∈ y, 0 ≤ v) →
    (((x.zip y).filter fun r => p r.1).map Prod.snd).sum ≤ y.sum := by
  intro x
  induction x with
  | nil => intro y hy; simpa using List.sum_nonneg hy
  | cons a x ih =>
    intro y hy
    cases y with
    | nil => simp
    | cons b y =>
      have hb := hy b (by simp)
      have := ih y (fun v hv => hy v (List.mem_cons_of_mem _ hv))
      simp only [List.zip_cons_cons, List.filter_cons, List.sum_cons]
      cases hp : p a
      · simp only [Bool.false_eq_true, if_false]; linarith
      · simp only [if_true, List.map_cons, List.sum_cons]; linarith


theorem rangeSel_ok_minmax (o : Obs K) (x y : List K) (binned : Bool) (wl : Option (List K)) (wa wb : K)
    (force : Bool) (influx : List K) (h : rangeSel o x y binned wl (some (wa, wb)) force = .ok influx) :
    ∃ xm xM, listMin x = some xm ∧ listMax x = some xM := by
  unfold rangeSel at h
  simp only [bind, Except.bind, overlapArrays, listMin_pair, listMax_pair] at h
  cases hmin : listMin x with
  | none => rw [hmin] at h; cases h
  | some xm =>
    cases hmax : listMax x with
    | none => rw [hmin, hmax] at h; cases h
    | some xM => exact ⟨xm, xM, rfl, rfl⟩

/-- for non-negative counts a Python slice never sums to more than the whole array -/
theorem pySlice_sum_le (y : List K) (hy : ∀ v ∈ y, 0 ≤ v) (a b : Int) : (pySlice y a b).sum ≤ y.sum := by
  unfold pySlice
  have h1 : ∀ (l : List K) (n : Nat), (∀ v ∈ l, 0 ≤ v) → (l.take n).sum ≤ l.sum := by
    intro l n hl
    have := List.sum_take_add_sum_drop l n
    have h0 : 0 ≤ (l.drop n).sum := List.sum_nonneg (fun v hv => hl v (List.mem_of_mem_drop hv))
    linarith
  have h2 : ∀ (l : List K) (n : Nat), (∀ v ∈ l, 0 ≤ v) → (l.drop n).sum ≤ l.sum := by
    intro l n hl
    have := List.sum_take_add_sum_drop l n
    have h0 : 0 ≤ (l.take n).sum := List.sum_nonneg (fun v hv => hl v (List.mem_of_mem_take hv))
    linarith
  exact le_trans (h1 _ _ (fun v hv => hy v (List.mem_of_mem_drop hv))) (h2 _ _ hy)

/-- the counts that come with the edges are the counts themselves, in the given or in the reversed order -/
theorem crEdgesY_counts (o : Obs K) (wl : Option (List K)) (x y : List K) (p : List K × List K)
    (h : crEdgesY o wl x y = .ok p) : p.2 = y ∨ p.2 = y.reverse := by
  unfold crEdgesY at h
  cases wl with
  | none => simp only [pure, Except.pure] at h; injection h with h; subst h; exact Or.inl rfl
  | some w =>
    simp only [bind, Except.bind, pure, Except.pure] at h
    cases he : binEdges x with
    | error e => rw [he] at h; cases h
    | ok e =>
      rw [he] at h
      simp only at h
      injection h with h; subst h
      split_ifs
      · exact Or.inr rfl
      · exact Or.inl rfl

theorem cutRange_le_total (o : Obs K) (x y : List K) (hy : ∀ v ∈ y, 0 ≤ v) (binned : Bool)
    (wl : Option (List K)) (w1 w2 : K) (l : List K) (h : cutRange o x y binned wl w1 w2 = .ok l) :
    l.sum ≤ y.sum := by
  unfold cutRange at h
  cases binned
  · simp only [Bool.false_eq_true, if_false] at h
    injection h with h; subst h
    exact filter_sum_le_total (fun t => decide (t ≥ w1 ∧ t ≤ w2)) x y hy
  · simp only [if_true] at h
    cases hc : crEdgesY o wl x y with
    | error e => rw [hc] at h; cases h
    | ok p =>
      rw [hc] at h; injection h with h; subst h
      rcases crEdgesY_counts o wl x y p hc with h2 | h2
      · rw [h2]; exact pySlice_sum_le y hy _ _
      · rw [h2]
        have := pySlice_sum_le y.reverse (fun v hv => hy v (List.mem_reverse.mp hv))
          ((searchLeft p.1 w1 : Int) - 1) (searchLeft p.1 w2)
        rwa [List.sum_reverse] at this

/-! ### well-formed bins (what the constructor builds) and the binned stages on them -/

theorem wavelengthsOr_valid (thr : K) (m : Tree K) (wl : Option (List K)) (x : List K)
    (h : wavelengthsOr thr m wl = .ok x) : validateWavelengths x = .ok () := by
  cases wl with
  | some w =>
    simp only [wavelengthsOr, bind, Except.bind, pure, Except.pure] at h
    cases hv : validateWavelengths w with
    | error e => rw [hv] at h; cases h
    | ok u => rw [hv] at h; injection h with h; subst h; exact hv
  | none =>
    simp only [wavelengthsOr, wavesetOrErr, bind, Except.bind, pure, Except.pure] at h
    cases hw : m.waveset thr with
    | error e => rw [hw] at h; cases h
    | ok w =>
      rw [hw] at h
      cases w with
      | none => cases h
      | some w => simp only at h; injection h with h; subst h; exact waveset_valid thr m _ hw

/-- bins as `_init_bins` leaves them: strictly ascending positive centres, their midpoint edges, one binned
flux per centre -/
def GoodBins (b : Bins K) : Prop :=
  StrictAsc b.binset ∧ (∀ x ∈ b.binset, 0 < x) ∧ binEdges b.binset = .ok b.edges ∧
    b.binflux.length = b.binset.length

theorem mkObs_goodBins (E : Env K) (P : OverlapPar K) (src band : Spec K) (binset : Option (List K))
    (force : Force) (useC : Bool) (o : Obs K) (h : mkObs E P src band binset force useC = .ok o) :
    GoodBins o.bins := by
  obtain ⟨bs, hv, _, hi⟩ := mkObs_inv E P src band binset force useC o h
  obtain ⟨hor, hA, he, _, hl⟩ := C07.constructor_orders_centres E P.mergeThr o.model bs useC o.bins hv hi
  refine ⟨hA, ?_, he, hl⟩
  obtain ⟨hp, _⟩ := (validate_ok_iff bs).mp hv
  rcases hor with h1 | h1 <;> rw [h1]
  · exact hp
  · intro x hx; exact hp x (List.mem_reverse.mp hx)

theorem GoodBins.valid {b : Bins K} (hg : GoodBins b) : validateWavelengths b.binset = .ok () :=
  (validate_ok_iff _).mpr ⟨hg.2.1, Or.inl hg.1⟩

theorem GoodBins.ne {b : Bins K} (hg : GoodBins b) : b.binset ≠ [] := by
  have := (C18.edges_ok_iff _).mp ⟨_, hg.2.2.1⟩
  intro h0; rw [h0] at this; simp at this

theorem GoodBins.calc {b : Bins K} (hg : GoodBins b) : calcBinEdges b.binset = .ok b.edges :=
  calcBinEdges_eq _ _ hg.valid hg.2.2.1

theorem GoodBins.widths {b : Bins K} (hg : GoodBins b) : binWidths b.edges = .ok (absDiffs b.edges) := by
  have := C18.edges_length _ _ hg.2.2.1
  have := (C18.edges_ok_iff _).mp ⟨_, hg.2.2.1⟩
  unfold binWidths; rw [if_neg (by omega)]

/-- the counts per bin: binned flux × bin width × area -/
def binCounts (b : Bins K) (a : K) : List K := mulFactors b.binflux ((absDiffs b.edges).map (· * a))

/-- the first three stages of a binned count-rate call with default wavelengths -/
theorem binned_stages (E : Env K) (thr atol rtol : K) (hat : 0 ≤ atol) (hrt : 0 ≤ rtol) (o : Obs K)
    (hg : GoodBins o.bins) (a : K) :
    crWaves thr o true none = .ok o.bins.binset ∧
      crSamples E atol rtol o true o.bins.binset = .ok o.bins.binflux ∧
      convertFlux E.P E.T o.bins.binset o.bins.binflux .photlam .count (some a) none = .ok (binCounts o.bins a) := by
  refine ⟨rfl, ?_, ?_⟩
  · simp only [crSamples, if_true]
    exact C07.sample_binned_at_centres atol rtol hat hrt o.bins hg.ne hg.2.2.2 hg.1 hg.2.1
  · exact convertFlux_count_of E.P E.T _ _ _ _ a hg.2.2.2 hg.calc hg.widths

theorem absDiffs_nonneg : ∀ (l : List K), ∀ d ∈ absDiffs l, 0 ≤ d := by
  intro l
  induction l with
  | nil => intro d hd; simp [absDiffs] at hd
  | cons e0 t ih =>
    cases t with
    | nil => intro d hd; simp [absDiffs] at hd
    | cons e1 t =>
      intro d hd
      simp only [absDiffs, List.mem_cons] at hd
      rcases hd with rfl | hd
      · exact abs_nonneg _
      · exact ih d hd

theorem binCounts_nonneg (b : Bins K) (a : K) (ha : 0 ≤ a) (hf : ∀ v ∈ b.binflux, 0 ≤ v) :
    ∀ v ∈ binCounts b a, 0 ≤ v := by
  unfold binCounts
  have hw : ∀ w ∈ (absDiffs b.edges).map (· * a), 0 ≤ w := by
    intro w hw
    obtain ⟨d, hd, rfl⟩ := List.mem_map.mp hw
    have : 0 ≤ d := absDiffs_nonneg _ d hd
    exact mul_nonneg this ha
  generalize b.binflux = f at hf
  generalize (absDiffs b.edges).map (· * a) = cf at hw
  induction f generalizing cf with
  | nil => intro v hv; simp [mulFactors] at hv
  | cons x xs ih =>
    cases cf with
    | nil => intro v hv; simp [mulFactors] at hv
    | cons c cs =>
      intro v hv
      simp only [mulFactors, List.mem_cons] at hv
      rcases hv with rfl | hv
      · exact mul_nonneg (hf x (by simp)) (hw c (by simp))
      · exact ih (fun v hv => hf v (List.mem_cons_of_mem _ hv)) cs (fun w hw' => hw w (List.mem_cons_of_mem _ hw')) v hv

theorem binCounts_length (b : Bins K) (hg : GoodBins b) (a : K) : (binCounts b a).length = b.binset.length := by
  have hl := C18.edges_length _ _ hg.2.2.1
  have : ∀ (f cf : List K), f.length = cf.length → (mulFactors f cf).length = f.length := by
    intro f
    induction f with
    | nil => intro cf _; cases cf <;> rfl
    | cons x xs ih =>
      intro cf h
      cases cf with
      | nil => simp at h
      | cons c cs => simp only [mulFactors, List.length_cons, ih cs (by simpa using h)]
  unfold binCounts
  rw [this _ _ (by rw [List.length_map, absDiffs_length, hl, hg.2.2.2]; simp), hg.2.2.2]

/-! ### which bins a range selects -/

/-- `bin_edges[i1:i2]` with `i1 = searchsorted(edges, w1) − 1`, `i2 = searchsorted(edges, w2)` -/
def binnedRange (edges y : List K) (w1 w2 : K) : List K :=
  pySlice y ((searchLeft edges w1 : Int) - 1) (searchLeft edges w2)

theorem binnedRange_eq (edges y : List K) (w1 w2 : K) (h1 : 1 ≤ searchLeft edges w1) :
    binnedRange edges y w1 w2 =
      (y.drop (searchLeft edges w1 - 1)).take (searchLeft edges w2 - (searchLeft edges w1 - 1)) :=
  pySlice_pred y _ _ h1

/-- bin `j` is selected exactly when it reaches the range: `edges[j] < w2` and `w1 ≤ edges[j+1]` -/
theorem selected_iff (edges : List K) (hs : StrictAsc edges) (w1 w2 : K) (j : Nat) (hj : j + 1 < edges.length)
    (h1 : 1 ≤ searchLeft edges w1) :
    (searchLeft edges w1 - 1 ≤ j ∧ j < searchLeft edges w2) ↔
      (edges.getD j 0 < w2 ∧ w1 ≤ edges.getD (j + 1) 0) := by
  constructor
  · rintro ⟨ha, hb⟩
    refine ⟨searchLeft_lt edges w2 0 j hb, ?_⟩
    have hle : searchLeft edges w1 ≤ j + 1 := by omega
    have hlt : searchLeft edges w1 < edges.length := by omega
    exact le_trans (searchLeft_ge edges w1 0 hlt) (strictAsc_getD_le edges hs _ _ hle hj 0)
  · rintro ⟨ha, hb⟩
    constructor
    · have := searchLeft_le_of edges w1 0 (j + 1) hb; omega
    · by_contra hc
      have hle : searchLeft edges w2 ≤ j := by omega
      have hlt : searchLeft edges w2 < edges.length := by omega
      have := le_trans (searchLeft_ge edges w2 0 hlt) (strictAsc_getD_le edges hs _ _ hle (by omega) 0)
      exact absurd ha (not_lt.mpr this)

/-- the limits of the full range: the first centre is found in bin 0, the last one in bin `n − 1` -/
theorem searchLeft_first_centre (c e : List K) (hc : StrictAsc c) (he : binEdges c = .ok e) :
    searchLeft e (c.getD 0 0) = 1 := by
  have hl := C18.edges_length c e he
  have h2 := (C18.edges_ok_iff c).mp ⟨e, he⟩
  obtain ⟨h1, h2'⟩ := C07.centre_inside_bin c e hc he 0 (by omega)
  have := searchLeft_pos e (c.getD 0 0) 0 (by omega) h1
  have := searchLeft_le_of e (c.getD 0 0) 0 1 (le_of_lt h2')
  omega

theorem searchLeft_last_centre (c e : List K) (hc : StrictAsc c) (he : binEdges c = .ok e) :
    searchLeft e (c.getD (c.length - 1) 0) = c.length := by
  have hl := C18.edges_length c e he
  have h2 := (C18.edges_ok_iff c).mp ⟨e, he⟩
  have hes := binEdges_strictAsc c e hc he
  obtain ⟨h1, h2'⟩ := C07.centre_inside_bin c e hc he (c.length - 1) (by omega)
  have e1 : c.length - 1 + 1 = c.length := by omega
  rw [e1] at h2'
  have hle := searchLeft_le_of e (c.getD (c.length - 1) 0) 0 c.length (le_of_lt h2')
  by_contra hne
  have hlt : searchLeft e (c.getD (c.length - 1) 0) ≤ c.length - 1 := by omega
  have := le_trans (searchLeft_ge e _ 0 (by omega)) (strictAsc_getD_le e hes _ _ hlt (by omega) 0)
  exact absurd h1 (not_lt.mpr this)

/-- the full range selects every bin -/
theorem binnedRange_full (c e y : List K) (hc : StrictAsc c) (he : binEdges c = .ok e)
    (hy : y.length = c.length) : binnedRange e y (c.getD 0 0) (c.getD (c.length - 1) 0) = y := by
  rw [binnedRange_eq _ _ _ _ (by rw [searchLeft_first_centre c e hc he]),
    searchLeft_first_centre c e hc he, searchLeft_last_centre c e hc he]
  simp [← hy]

/-- a wider range selects at least the same bins: for non-negative counts the sum never decreases -/
theorem binnedRange_mono (edges y : List K) (hy : ∀ v ∈ y, 0 ≤ v) (w1 w2 w1' w2' : K)
    (h1 : 1 ≤ searchLeft edges w1') (hw1 : w1' ≤ w1) (hw2 : w2 ≤ w2') :
    (binnedRange edges y w1 w2).sum ≤ (binnedRange edges y w1' w2').sum := by
  have hm1 := searchLeft_mono edges w1' w1 hw1
  have hm2 := searchLeft_mono edges w2 w2' hw2
  rw [binnedRange_eq _ _ _ _ h1, binnedRange_eq _ _ _ _ (by omega)]
  exact range_sum_mono y hy _ _ _ _ (by omega) hm2

/-! ### explicit sampling wavelengths in the other order (052fdd8) -/

theorem foldl_min_le_init (t : List K) : ∀ a : K, t.foldl min a ≤ a := by
  induction t with
  | nil => intro a; exact le_refl _
  | cons b t ih => intro a; exact le_trans (ih (min a b)) (min_le_left _ _)

theorem foldl_min_le_mem (t : List K) : ∀ (a : K), ∀ x ∈ t, t.foldl min a ≤ x := by
  induction t with
  | nil => intro a x hx; simp at hx
  | cons b t ih =>
    intro a x hx
    rcases List.mem_cons.mp hx with rfl | hx
    · exact le_trans (foldl_min_le_init t _) (min_le_right _ _)
    · exact ih _ x hx

theorem foldl_min_mem (t : List K) : ∀ (a : K), t.foldl min a = a ∨ t.foldl min a ∈ t := by
  induction t with
  | nil => intro a; exact Or.inl rfl
  | cons b t ih =>
    intro a
    rcases ih (min a b) with h | h
    · rw [List.foldl_cons, h]
      rcases min_choice a b with h2 | h2
      · exact Or.inl h2
      · exact Or.inr (by rw [h2]; simp)
    · exact Or.inr (List.mem_cons_of_mem _ h)

theorem foldl_max_ge_init (t : List K) : ∀ a : K, a ≤ t.foldl max a := by
  induction t with
  | nil => intro a; exact le_refl _
  | cons b t ih => intro a; exact le_trans (le_max_left _ _) (ih (max a b))

theorem foldl_max_ge_mem (t : List K) : ∀ (a : K), ∀ x ∈ t, x ≤ t.foldl max a := by
  induction t with
  | nil => intro a x hx; simp at hx
  | cons b t ih =>
    intro a x hx
    rcases List.mem_cons.mp hx with rfl | hx
    · exact le_trans (le_max_right _ _) (foldl_max_ge_init t _)
    · exact ih _ x hx

theorem foldl_max_mem (t : List K) : ∀ (a : K), t.foldl max a = a ∨ t.foldl max a ∈ t := by
  induction t with
  | nil => intro a; exact Or.inl rfl
  | cons b t ih =>
    intro a
    rcases ih (max a b) with h | h
    · rw [List.foldl_cons, h]
      rcases max_choice a b with h2 | h2
      · exact Or.inl h2
      · exact Or.inr (by rw [h2]; simp)
    · exact Or.inr (List.mem_cons_of_mem _ h)

/-- `min()` of an array: a member below all members -/
theorem listMin_char (l : List K) (m : K) : listMin l = some m ↔ (m ∈ l ∧ ∀ x ∈ l, m ≤ x) := by
  cases l with
  | nil => simp [listMin]
  | cons a t =>
    have hmem : t.foldl min a ∈ a :: t := by
      rcases foldl_min_mem t a with h | h
      · rw [h]; simp
      · exact List.mem_cons_of_mem _ h
    have hle : ∀ x ∈ a :: t, t.foldl min a ≤ x := by
      intro x hx
      rcases List.mem_cons.mp hx with rfl | hx
      · exact foldl_min_le_init t _
      · exact foldl_min_le_mem t _ x hx
    constructor
    · intro h
      have : t.foldl min a = m := by simpa [listMin] using h
      rw [← this]; exact ⟨hmem, hle⟩
    · rintro ⟨h1, h2⟩
      show some (t.foldl min a) = some m
      rw [le_antisymm (hle m h1) (h2 _ hmem)]

theorem listMax_char (l : List K) (m : K) : listMax l = some m ↔ (m ∈ l ∧ ∀ x ∈ l, x ≤ m) := by
  cases l with
  | nil => simp [listMax]
  | cons a t =>
    have hmem : t.foldl max a ∈ a :: t := by
      rcases foldl_max_mem t a with h | h
      · rw [h]; simp
      · exact List.mem_cons_of_mem _ h
    have hle : ∀ x ∈ a :: t, x ≤ t.foldl max a := by
      intro x hx
      rcases List.mem_cons.mp hx with rfl | hx
      · exact foldl_max_ge_init t _
      · exact foldl_max_ge_mem t _ x hx
    constructor
    · intro h
      have : t.foldl max a = m := by simpa [listMax] using h
      rw [← this]; exact ⟨hmem, hle⟩
    · rintro ⟨h1, h2⟩
      show some (t.foldl max a) = some m
      rw [le_antisymm (h2 _ hmem) (hle m h1)]

theorem listMin_reverse (l : List K) : listMin l.reverse = listMin l := by
  cases h : listMin l with
  | none =>
    cases l with
    | nil => rfl
    | cons a t => simp [listMin] at h
  | some m =>
    rw [listMin_char] at h ⊢
    exact ⟨List.mem_reverse.mpr h.1, fun x hx => h.2 x (List.mem_reverse.mp hx)⟩

theorem listMax_reverse (l : List K) : listMax l.reverse = listMax l := by
  cases h : listMax l with
  | none =>
    cases l with
    | nil => rfl
    | cons a t => simp [listMax] at h
  | some m =>
    rw [listMax_char] at h ⊢
    exact ⟨List.mem_reverse.mpr h.1, fun x hx => h.2 x (List.mem_reverse.mp hx)⟩

theorem overlapArrays_reverse (a x : List K) : overlapArrays a x.reverse = overlapArrays a x := by
  unfold overlapArrays
  rw [listMin_reverse, listMax_reverse]

theorem isDesc_of_strictDesc' (a b : K) (l : List K) (hs : StrictDesc (a :: b :: l)) :
    isDesc (a :: b :: l) = true := by
  unfold isDesc
  have hl : (a :: b :: l).getLast? = some ((a :: b :: l).getLastD a) := by
    rw [List.getLastD_eq_getLast?, List.getLast?_eq_some_getLast (by simp)]; rfl
  rw [hl]
  simpa using strictDesc_last_lt_head a b l hs

/-- the edges-and-counts stage does not see the order of (valid) explicit wavelengths: for ascending and for
descending wavelengths it works on the ascending edges with the counts in ascending-wavelength order -/
theorem crEdgesY_reverse (o : Obs K) (w1 w2 w y : List K) (hv : validateWavelengths w = .ok ()) :
    crEdgesY o (some w1) w.reverse y.reverse = crEdgesY o (some w2) w y := by
  unfold crEdgesY
  simp only [bind, Except.bind, pure, Except.pure]
  rw [binEdges_reverse]
  cases he : binEdges w with
  | error e => rfl
  | ok e =>
    simp only [Except.map]
    obtain ⟨_, hmon⟩ := (validate_ok_iff w).mp hv
    have hl := C18.edges_length w e he
    have h2 := (C18.edges_ok_iff w).mp ⟨e, he⟩
    rcases e with _ | ⟨e0, _ | ⟨e1, et⟩⟩
    · simp at hl
    · simp only [List.length_cons, List.length_nil] at hl; omega
    · rcases hmon with hA | hD
      · have hes := binEdges_strictAsc w _ hA he
        have h1 : isDesc (e0 :: e1 :: et) = false := isDesc_false_of_asc _ hes
        have hd : StrictDesc (e0 :: e1 :: et).reverse := (strictDesc_reverse _).mpr hes
        have h3 : isDesc (e0 :: e1 :: et).reverse = true := by
          obtain ⟨a, b, l, hr⟩ : ∃ a b l, (e0 :: e1 :: et).reverse = a :: b :: l := by
            rcases hr : (e0 :: e1 :: et).reverse with _ | ⟨a, _ | ⟨b, l⟩⟩
            · simp at hr
            · have := congrArg List.length hr; simp at this
            · exact ⟨a, b, l, rfl⟩
          rw [hr] at hd ⊢
          exact isDesc_of_strictDesc' a b l hd
        rw [h1, h3]
        simp only [if_true, Bool.false_eq_true, if_false, List.reverse_reverse]
      · have hes := binEdges_strictDesc w _ hD he
        have h1 : isDesc (e0 :: e1 :: et) = true := isDesc_of_strictDesc' e0 e1 et hes
        have h3 : isDesc (e0 :: e1 :: et).reverse = false :=
          isDesc_false_of_asc _ ((strictAsc_reverse _).mpr hes)
        rw [h1, h3]
        simp only [if_true, Bool.false_eq_true, if_false]

/-- the whole range stage: the same counts are selected (with a range), the same counts in the other
order are summed (without) -/
theorem rateOf_rangeSel_reverse (o : Obs K) (w1 w2 w y : List K) (hv : validateWavelengths w = .ok ())
    (waverange : Option (K × K)) (force : Bool) :
    rateOf (rangeSel o w.reverse y.reverse true (some w1) waverange force) =
      rateOf (rangeSel o w y true (some w2) waverange force) := by
  rcases waverange with _ | ⟨wa, wb⟩
  · simp only [rangeSel, pure, Except.pure, rateOf, List.sum_reverse]
  · congr 1
    unfold rangeSel
    simp only [overlapArrays_reverse, listMin_reverse, listMax_reverse, if_true,
      crEdgesY_reverse o w1 w2 w y hv]

theorem mulFactors_reverse : ∀ (f cf : List K), f.length = cf.length →
    mulFactors f.reverse cf.reverse = (mulFactors f cf).reverse := by
  intro f
  induction f with
  | nil => intro cf h; cases cf <;> simp [mulFactors] at h ⊢
  | cons a f ih =>
    intro cf h
    cases cf with
    | nil => simp at h
    | cons c cf =>
      have hl : f.length = cf.length := by simpa using h
      have happ : ∀ (f cf : List K), f.length = cf.length → ∀ a c,
          mulFactors (f ++ [a]) (cf ++ [c]) = mulFactors f cf ++ [a * c] := by
        intro f
        induction f with
        | nil => intro cf h a c; cases cf <;> simp [mulFactors] at h ⊢
        | cons x f ih2 =>
          intro cf h a c
          cases cf with
          | nil => simp at h
          | cons y cf => simp only [List.cons_append, mulFactors, ih2 cf (by simpa using h)]
      simp only [List.reverse_cons, mulFactors]
      rw [happ _ _ (by simpa using hl), ih cf hl]

/-- PHOTLAM → count with an area, as an equation in the bin geometry of the wavelengths -/
theorem convertFlux_count_eq (P : PhysConst K) (T : Transc K) (x yp : List K) (a : K)
    (hlen : yp.length = x.length) :
    convertFlux P T x yp .photlam .count (some a) none =
      match calcBinEdges x with
      | .error e => .error e
      | .ok e =>
        match binWidths e with
        | .error e' => .error e'
        | .ok bw => .ok (mulFactors yp (bw.map (· * a))) := by
  cases he : calcBinEdges x with
  | error e =>
    unfold convertFlux
    have hne : (FluxUnit.photlam : FluxUnit K) ≠ .count := by intro h; cases h
    rw [if_neg hne]
    simp only [countFactorsFor, FluxUnit.needsArea, Bool.or_true, if_true, countFactors, bind, Except.bind,
      Except.map, he]
  | ok e =>
    cases hw : binWidths e with
    | error e' =>
      unfold convertFlux
      have hne : (FluxUnit.photlam : FluxUnit K) ≠ .count := by intro h; cases h
      rw [if_neg hne]
      simp only [countFactorsFor, FluxUnit.needsArea, Bool.or_true, if_true, countFactors, bind, Except.bind,
        Except.map, he, hw]
    | ok bw => simp only [hw]; exact convertFlux_count_of P T x yp e bw a hlen he hw

theorem binWidths_reverse (e : List K) : binWidths e.reverse = (binWidths e).map List.reverse := by
  unfold binWidths
  rw [List.length_reverse]
  split_ifs
  · rfl
  · simp only [Except.map]
    rw [absDiffs_eq_adjMap, absDiffs_eq_adjMap, adjMap_reverse _ (fun a b => abs_sub_comm b a)]

/-- order-equivariance of PHOTLAM → count: reversed wavelengths and fluxes give the reversed counts, and the
same error otherwise -/
theorem convertFlux_count_reverse (P : PhysConst K) (T : Transc K) (x yp : List K) (a : K)
    (hlen : yp.length = x.length) :
    convertFlux P T x.reverse yp.reverse .photlam .count (some a) none =
      (convertFlux P T x yp .photlam .count (some a) none).map List.reverse := by
  rw [convertFlux_count_eq P T x yp a hlen,
    convertFlux_count_eq P T x.reverse yp.reverse a (by simpa using hlen), C07.edges_of_reversed_centres]
  cases he : calcBinEdges x with
  | error e => rfl
  | ok e =>
    simp only [Except.map]
    rw [binWidths_reverse]
    cases hw : binWidths e with
    | error e' => rfl
    | ok bw =>
      simp only [Except.map]
      have hb := binWidths_length_of_edges x e bw (calcBinEdges_inv x e he).2.2 hw
      rw [List.map_reverse, mulFactors_reverse _ _ (by rw [List.length_map, hlen, hb])]

end Synphot

/-! ### a concrete observation for the non-vacuity examples (over ℚ)

`wObs`: the witness model of `Synphot.C07w` (flat source 2 × box on [1, 5] sampled at 2 and 4) carrying the
bins with centres 2, 4, 8, edges 1, 3, 6, 10 and binned fluxes 5, 6, 7: counts per unit area 10, 18, 28 -/

namespace Synphot.C08w
open Synphot Synphot.C07w Synphot.C10x.Witness

def wObs : Obs ℚ :=
  { src := src 2, band := band, model := wModel, warned := false, bins := sBins }

theorem wGood : GoodBins (wObs).bins :=
  ⟨wStrictAsc, ((validate_ok_iff _).mp wValid).1, wBinEdges, rfl⟩

theorem wWaves (thr : ℚ) : wavelengthsOr thr (wObs).model none = .ok [2, 4] := grid_of thr _ rfl

theorem wSamples (E : Env ℚ) : sampleTree E (wObs).model [2, 4] = .ok [2, 2] := by
  simp only [sampleTree, List.mapM_cons, List.mapM_nil, wObs, wEval, bind, Except.bind, pure, Except.pure]
  norm_num

theorem wValid234 : validateWavelengths ([2, 3, 4] : List ℚ) = .ok () := by
  rw [validate_ok_iff]
  refine ⟨?_, Or.inl (by norm_num [StrictAsc])⟩
  intro x hx; simp only [List.mem_cons, List.not_mem_nil, or_false] at hx
  rcases hx with rfl | rfl | rfl <;> norm_num

theorem wWaves234 (thr : ℚ) : wavelengthsOr thr (wObs).model (some [2, 3, 4]) = .ok [2, 3, 4] := by
  simp only [wavelengthsOr, wValid234, bind, Except.bind, pure, Except.pure]

theorem wSamples234 (E : Env ℚ) : sampleTree E (wObs).model [2, 3, 4] = .ok [2, 2, 2] := by
  simp only [sampleTree, List.mapM_cons, List.mapM_nil, wObs, wEval, bind, Except.bind, pure, Except.pure]
  norm_num

theorem wEdges24 : binEdges ([2, 4] : List ℚ) = .ok [1, 3, 5] := binEdges24
theorem wEdges234 : binEdges ([2, 3, 4] : List ℚ) = .ok [3/2, 5/2, 7/2, 9/2] := by
  simp [binEdges, mids]; norm_num
theorem wWidths24 : binWidths ([1, 3, 5] : List ℚ) = .ok [2, 2] := by
  simp only [binWidths, absDiffs]; norm_num
theorem wWidths234 : binWidths ([3/2, 5/2, 7/2, 9/2] : List ℚ) = .ok [1, 1, 1] := by
  simp only [binWidths, absDiffs]; norm_num

theorem wCounts (a : ℚ) : binCounts (wObs).bins a = [5 * (2 * a), 6 * (3 * a), 7 * (4 * a)] := by
  simp only [binCounts, wObs, sBins, absDiffs, List.map_cons, List.map_nil, mulFactors]
  norm_num

theorem wSum : (mulFactors (wObs).bins.binflux (absDiffs (wObs).bins.edges)).sum = 56 := by
  simp only [wObs, sBins, absDiffs, mulFactors, List.sum_cons, List.sum_nil]
  norm_num

theorem wSL2 : searchLeft ([1, 3, 6, 10] : List ℚ) 2 = 1 := by norm_num [searchLeft, List.takeWhile]
theorem wSL4 : searchLeft ([1, 3, 6, 10] : List ℚ) 4 = 2 := by norm_num [searchLeft, List.takeWhile]
theorem wSL8 : searchLeft ([1, 3, 6, 10] : List ℚ) 8 = 3 := by norm_num [searchLeft, List.takeWhile]

theorem wRange24 (y : List ℚ) : binnedRange ([1, 3, 6, 10] : List ℚ) y 2 4 = (y.drop 0).take 2 := by
  rw [binnedRange_eq _ _ _ _ (by rw [wSL2]), wSL2, wSL4]

end Synphot.C08w
