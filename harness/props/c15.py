"""C15  Model parameters with units build the same spectrum as internal-unit numbers.

Every case is one constructor call `SourceSpectrum(modelclass, z=..., **kwargs)` or
`SpectralElement(modelclass, **kwargs)` whose keyword values are plain numbers or Quantities.

(a) correspondence: the Lean model (`Synphot.Params.processArgs / build / sampleAt`, run with the
    dictionaries regenerated from the source) says which numbers the keywords convert to, which model
    object results and what it samples to.  The harness compares the implementation's object built
    from the Quantities with the model (parameters, 16 samples) *and* with a second implementation
    object built from the numbers the model says they convert to.
(b) oracle on the implementation alone: the object built from the Quantities must behave as the object
    built from numbers the harness converted itself (plain closed forms in Python floats, flux-like values
    at the reference wavelength x (1+z)); sampled in the unit it was given in, a peaked model returns
    its amplitude at the (redshifted) reference wavelength and a table its values; GaussianFlux1D obeys
    the closed-form relations; ConstFlux1D / PowerLawFlux1D are constant / a pure power law in their own
    unit; invalid requests raise the stated exception class.
"""
import math
from fractions import Fraction as F

import numpy as np

from .. import core
from ..core import q, qs, guarded, same, unq
from .. import objects as O

H = O.H                 # erg s
C = O.C                 # Angstrom / s
HF, CF = float(H), float(C)
EV = F(1602176634, 10 ** 21)     # erg per eV (exact, SI 2019)

# ------------------------------------------------------------------ units
# name -> model descriptor (Synphot.Params.QUnit); the astropy unit is built from the name in `aunit`
UNITS = {
    'AA': {'k': 'length', 's': F(1)}, 'nm': {'k': 'length', 's': F(10)}, 'micron': {'k': 'length', 's': F(10 ** 4)},
    'm': {'k': 'length', 's': F(10 ** 10)}, 'pm': {'k': 'length', 's': F(1, 100)}, 'mm': {'k': 'length', 's': F(10 ** 7)},
    'cm': {'k': 'length', 's': F(10 ** 8)},
    'kHz': {'k': 'freq', 's': F(10 ** 3)}, 'MHz': {'k': 'freq', 's': F(10 ** 6)}, 'GHz': {'k': 'freq', 's': F(10 ** 9)},
    'PHz': {'k': 'freq', 's': F(10 ** 15)},
    '1/cm': {'k': 'wavenumber', 's': F(1, 10 ** 8)}, '1/m': {'k': 'wavenumber', 's': F(1, 10 ** 10)},
    '1/AA': {'k': 'wavenumber', 's': F(1)},
    'keV': {'k': 'energy', 's': EV * 10 ** 3}, 'MeV': {'k': 'energy', 's': EV * 10 ** 6}, 'erg': {'k': 'energy', 's': F(1)},
    'J': {'k': 'energy', 's': F(10 ** 7)},
    'Hz': {'k': 'freq', 's': F(1)}, 'THz': {'k': 'freq', 's': F(10 ** 12)},
    '1/micron': {'k': 'wavenumber', 's': F(1, 10 ** 4)},
    'eV': {'k': 'energy', 's': EV},
    'PHOTLAM': {'k': 'flux', 'f': 'photlam'}, 'FLAM': {'k': 'flux', 'f': 'flam'}, 'FNU': {'k': 'flux', 'f': 'fnu'},
    'PHOTNU': {'k': 'flux', 'f': 'photnu'}, 'Jy': {'k': 'flux', 'f': {'jy': '1'}}, 'mJy': {'k': 'flux', 'f': {'jy': '1/1000'}},
    'ABmag': {'k': 'flux', 'f': 'abmag'}, 'STmag': {'k': 'flux', 'f': 'stmag'},
    'count': {'k': 'flux', 'f': 'count'}, 'OBMAG': {'k': 'flux', 'f': 'obmag'}, 'VEGAMAG': {'k': 'flux', 'f': 'vegamag'},
    'one': {'k': 'dimensionless', 's': F(1)}, 'percent': {'k': 'dimensionless', 's': F(1, 100)},
    'K': {'k': 'temperature', 's': F(1)}, 'mK': {'k': 'temperature', 's': F(1, 1000)}, 'kK': {'k': 'temperature', 's': F(1000)},
    'erg/s/cm2': {'k': 'irradiance', 's': F(1)}, 'W/m2': {'k': 'irradiance', 's': F(1000)},
    's': {'k': 'other'}, 'deg_C': {'k': 'other'},
}
WAVE_UNITS = ['AA', 'pm', 'nm', 'micron', 'mm', 'cm', 'm', 'Hz', 'kHz', 'MHz', 'GHz', 'THz', 'PHz',
              '1/micron', '1/cm', '1/m', '1/AA', 'eV', 'keV', 'MeV', 'erg', 'J']
WAVE_EXTRA = []
FLUX_UNITS = ['PHOTLAM', 'FLAM', 'FNU', 'Jy', 'mJy', 'PHOTNU', 'ABmag', 'STmag']
BAD_SOURCE_FLUX = ['count', 'OBMAG', 'VEGAMAG', 'AA', 'one', 'K']
MAGS = {'ABmag', 'STmag'}
DIMLESS_UNITS = ['one', 'percent']
TEMP_UNITS = ['K', 'mK', 'kK']
IRR_UNITS = ['erg/s/cm2', 'W/m2']
# redshifts of constructed sources: the whole admissible interval z > -1 - blueshifts, both sides of 0 (the code
# branches on `z == 0`), moderate and large redshifts; 1+z is dyadic for all but 20
ZS = [F(-7, 8), F(-1, 2), F(-1, 4), F(-1, 1024), F(0), F(1, 1024), F(1, 2), F(3), F(20)]
ZTYPES = ['wavelength_only', 'conserve_flux']


def aunit(name):
    import astropy.units as u
    from synphot import units
    special = {'PHOTLAM': units.PHOTLAM, 'FLAM': units.FLAM, 'FNU': units.FNU, 'PHOTNU': units.PHOTNU,
               'ABmag': u.ABmag, 'STmag': u.STmag, 'OBMAG': units.OBMAG, 'VEGAMAG': units.VEGAMAG,
               'one': u.dimensionless_unscaled, '1/micron': u.micron ** -1, '1/cm': u.cm ** -1, '1/m': u.m ** -1,
               '1/AA': u.AA ** -1,
               'erg/s/cm2': u.erg / u.s / u.cm ** 2, 'W/m2': u.W / u.m ** 2}
    return special[name] if name in special else u.Unit(name)


def fast_unit_errors():
    """`BaseSpectrum.__init__` compares astropy units with the strings 'wave'/'flux'/'noconv'; astropy spends
    ~30 ms composing a "did you mean" hint for an error that `Unit.__eq__` discards.  A constant hint changes
    that discarded text only (same device as harness/props/c16.py)."""
    import astropy.units.format.base as fb
    fb.did_you_mean = lambda *a, **k: ''


# ------------------------------------------------------------------ the model classes
TABLES = ('Empirical1D', 'ExtinctionModel1D')
# class -> (reference parameter or None, ordered parameter names)
CLASSES = {
    'Box1D': ('x_0', ['amplitude', 'x_0', 'width']),
    'Trapezoid1D': ('x_0', ['amplitude', 'x_0', 'width', 'slope']),
    'Gaussian1D': ('mean', ['amplitude', 'mean', 'stddev']),
    'GaussianAbsorption1D': ('mean', ['amplitude', 'mean', 'stddev']),
    'GaussianFlux1D': ('mean', ['amplitude', 'mean', 'stddev']),        # variants with fwhm / total_flux below
    'Lorentz1D': ('x_0', ['amplitude', 'x_0', 'fwhm']),
    'RickerWavelet1D': ('x_0', ['amplitude', 'x_0', 'sigma']),
    'MexicanHat1D': ('x_0', ['amplitude', 'x_0', 'sigma']),
    'PowerLaw1D': ('x_0', ['amplitude', 'x_0', 'alpha']),
    'BrokenPowerLaw1D': ('x_break', ['amplitude', 'x_break', 'alpha_1', 'alpha_2']),
    'ExponentialCutoffPowerLaw1D': ('x_0', ['amplitude', 'x_0', 'alpha', 'x_cutoff']),
    'LogParabola1D': ('x_0', ['amplitude', 'x_0', 'alpha', 'beta']),
    'Const1D': (None, ['amplitude']),
    'ConstFlux1D': (None, ['amplitude']),
    'PowerLawFlux1D': (None, ['amplitude', 'x_0', 'alpha']),
    'Empirical1D': ('points', ['points', 'lookup_table']),
    'ExtinctionModel1D': ('points', ['points', 'lookup_table']),
    'BlackBody1D': (None, ['temperature']),
    'BlackBodyNorm1D': (None, ['temperature']),
}
WIDTHS = {'width', 'stddev', 'fwhm', 'sigma'}
PEAKED = {'Box1D', 'Trapezoid1D', 'Gaussian1D', 'GaussianFlux1D', 'Lorentz1D', 'RickerWavelet1D', 'MexicanHat1D',
          'PowerLaw1D', 'BrokenPowerLaw1D', 'LogParabola1D'}      # f(reference) = amplitude
SOURCE_ONLY = {'ConstFlux1D', 'PowerLawFlux1D', 'GaussianFlux1D', 'BlackBody1D', 'BlackBodyNorm1D'}
UNSUPPORTED = ['Sersic1D', 'Linear1D', 'Voigt1D', 'Sine1D']


def model_class(name):
    from synphot import models as M
    from synphot.reddening import ExtinctionModel1D
    from astropy.modeling import models as AM
    if name == 'ExtinctionModel1D':
        return ExtinctionModel1D
    if name == '<int>':
        return int
    return getattr(M, name, None) or getattr(AM, name)


def kinds_of(model, variant_params):
    """the statement's rule, written out by hand (NOT read from the implementation's dictionary)"""
    out = {}
    for p in variant_params:
        if p in ('amplitude', 'lookup_table'):
            out[p] = 'noconv' if model in ('ConstFlux1D', 'PowerLawFlux1D') else 'flux'
        elif p in ('x_0', 'mean', 'x_break', 'points', 'x_cutoff') or p in WIDTHS:
            out[p] = 'own' if model == 'PowerLawFlux1D' else 'wave'
        elif p == 'temperature':
            out[p] = 'temp'
        elif p == 'total_flux':
            out[p] = 'irr'
        else:
            out[p] = 'dimless'
    return out


# ------------------------------------------------------------------ building real objects
def py_value(arg, table):
    """the Python object a keyword value is passed as: `pt` selects int / float / NumPy scalar / 0-d array / -0.0"""
    vals = [O.fl(x) for x in arg['v']]
    pt = arg.get('pt', 'float')
    if table:
        v = np.array(vals, dtype=float)
        if pt == 'negzero':
            v = -v
    else:
        x = vals[0]
        integral = x == int(x) and abs(x) < 2 ** 62
        if pt == 'negzero':
            v = -0.0
        elif pt == 'int' and integral:
            v = int(x)
        elif pt == 'npint' and integral:
            v = np.int64(int(x))
        elif pt == 'npfloat':
            v = np.float64(x)
        elif pt == 'arr0':
            v = np.array(x)
        else:
            v = x
    if arg.get('u') is None:
        return v
    return v * aunit(arg['u'])


def construct(case, args=None):
    from synphot import SourceSpectrum, SpectralElement
    cls = SourceSpectrum if case['cls'] == 'source' else SpectralElement
    kw = {}
    for name, arg in (args if args is not None else case['args']):
        kw[name] = py_value(arg, name in ('points', 'lookup_table'))
    if case['cls'] == 'source':
        kw['z'] = O.fl(case['z'])
        if case.get('ztype'):
            kw['z_type'] = case['ztype']
    if case['n_models'] != 1:
        kw['n_models'] = case['n_models']
    if case['model'] in TABLES:
        kw['keep_neg'] = case['keep_neg']
    return cls(model_class(case['model']), **kw)


def internal_unit(case):
    import astropy.units as u
    from synphot import units
    return units.PHOTLAM if case['cls'] == 'source' else u.dimensionless_unscaled


def flux_unit_name(un):
    import astropy.units as u
    from synphot import units
    for name, cand in (('photlam', units.PHOTLAM), ('flam', units.FLAM), ('fnu', units.FNU), ('photnu', units.PHOTNU),
                       ('stmag', u.STmag), ('abmag', u.ABmag)):
        if un == cand:
            return name
    try:
        s = F(un.to(u.Jy)).limit_denominator(10 ** 12)
        return 'jy:' + q(s)
    except Exception:
        return str(un)


def observe(sp, case):
    """parameters of the underlying model object and samples expressed in the internal unit"""
    import astropy.units as u
    m = sp._model
    params, unit = {}, ''
    if case['model'] in TABLES:
        params['points'] = np.asarray(m.points[0], dtype=float)
        params['lookup_table'] = np.asarray(m.lookup_table, dtype=float)
    else:
        for n in m.param_names:
            p = getattr(m, n)
            if p.unit is not None:
                unit = 'quantity'
            params[n] = [float(np.ravel(p.value)[0])]
    if hasattr(m, '_flux_unit'):
        unit = flux_unit_name(m._flux_unit)
    xs = np.array([O.fl(x) for x in case['xs']])
    samples = guarded(lambda: sp(xs).to_value(internal_unit(case)))
    return {'params': params, 'unit': unit, 'samples': samples}


def native_samples(sp, xs, unit):
    return sp(np.asarray(xs, dtype=float), flux_unit=aunit(unit)).value


# ------------------------------------------------------------------ harness-side conversions (plain floats)
def h_wave(v, unit):
    if unit is None:
        return v
    d = UNITS[unit]
    s = float(d['s'])
    k = d['k']
    if k == 'length':
        return v * s
    if k in ('freq', 'wavenumber', 'energy'):
        num = CF if k == 'freq' else 1.0 if k == 'wavenumber' else HF * CF
        den = v * s
        if den == 0:                  # NumPy: a non-zero number divided by +-0.0 is +-inf, no exception
            return math.copysign(math.inf, den)
        return num / den
    raise KeyError(unit)


def h_photlam(f, unit, lam, K):
    st, ab = O.fl(K['st']), O.fl(K['ab'])
    if unit is None or unit == 'PHOTLAM':
        return f
    if unit == 'PHOTNU':
        return f * CF / lam ** 2
    if unit == 'FLAM':
        return f * lam / (HF * CF)
    if unit == 'FNU':
        return f * CF / lam ** 2 * lam / (HF * CF)
    if unit in ('Jy', 'mJy'):
        return f * (1e-23 if unit == 'Jy' else 1e-26) * CF / lam ** 2 * lam / (HF * CF)
    if unit == 'STmag':
        return 10 ** (-0.4 * f) * st * lam / (HF * CF)
    if unit == 'ABmag':
        return 10 ** (-0.4 * f) * ab * CF / lam ** 2 * lam / (HF * CF)
    raise KeyError(unit)


def _or_none(f):
    try:
        return f()
    except ZeroDivisionError:       # NumPy: inf or nan, no exception
        return None


def harness_args(case):
    """the keyword arguments as internal-unit numbers, converted by the harness; Quantities the model
    class keeps for itself (ConstFlux1D / PowerLawFlux1D amplitudes) stay Quantities"""
    K = case['const']
    z = O.fl(case['z'])
    model = case['model']
    ref = CLASSES.get(model, (None, []))[0]
    names = [n for n, _ in case['args']]
    kinds = kinds_of(model, names)
    amap = dict((n, a) for n, a in case['args'])
    refw = None
    if ref is not None and ref in amap:
        refw = [h_wave(O.fl(x), amap[ref].get('u')) for x in amap[ref]['v']]
    out = []
    for n, a in case['args']:
        vals = [O.fl(x) for x in a['v']]
        un = a.get('u')
        k = kinds[n]
        if un is None or k == 'noconv':
            out.append([n, {'v': qs(vals), 'u': un}])
            continue
        if k in ('wave', 'own'):
            conv = [h_wave(v, un) for v in vals]
        elif k == 'flux':                         # Const1D has no reference wavelength: internal units only
            if case['cls'] == 'source':
                lam = refw if refw is not None else [None] * len(vals)
                conv = [_or_none(lambda: h_photlam(v, un, None if l is None else l * (1 + z), K)) for v, l in zip(vals, lam)]
            else:
                conv = [v * float(UNITS[un]['s']) for v in vals]
        elif k in ('temp', 'dimless', 'irr'):
            conv = [v * float(UNITS[un]['s']) for v in vals]
        else:
            raise KeyError(k)
        if any(x is None or not math.isfinite(x) for x in conv):
            raise FloatingPointError('a converted parameter is not finite')     # reported as NaN, as for the implementation
        out.append([n, {'v': qs(conv), 'u': None}])
    return out


# ------------------------------------------------------------------ implementation call
def impl_call(case):
    fast_unit_errors()
    res = {}
    holder = {}

    def from_q():
        holder['Q'] = construct(case)
        return observe(holder['Q'], case)
    res['Q'] = guarded(from_q)
    mo = case.get('_model_out')
    if mo is not None and 'ok' in mo.get('args', {}):
        # the numbers the MODEL says the keywords convert to (a Quantity the model leaves alone is passed as given)
        orig = dict((n, a) for n, a in case['args'])
        margs = []
        for n, a in mo['args']['ok']:
            margs.append([n, orig[n] if a['kept_unit'] else {'v': [q(core.unqf(x)) for x in a['v']], 'u': None}])
        res['N'] = guarded(lambda: observe(construct(case, margs), case))
    if case['expect'] == 'ok':
        res['H'] = guarded(lambda: observe(construct(case, harness_args(case)), case))
        if res['H'].get('err') == 'FloatingPointError':
            res['H'] = {'err': 'NaN'}
        sp = holder.get('Q')
        nat = case.get('native')
        if sp is not None and nat:
            res['native'] = guarded(lambda: native_samples(sp, [O.fl(x) for x in nat['xs']], nat['unit']))
        if sp is not None and case.get('gaussflux') and O.fl(case['z']) == 0 and case['gaussflux'].get('integral'):
            res['integral'] = guarded(lambda: sp.integrate(integration_type='analytical').value)
    return res


def model_case(case):
    def munit(name):
        if name is None:
            return None
        d = UNITS[name]
        return {k: (q(v) if isinstance(v, F) else v) for k, v in d.items()}
    return {'op': 'c15_build', 'const': case['const'], 'bbconst': case['bbconst'], 'cls': case['cls'], 'z': case['z'],
            'is_model': case['model'] != '<int>', 'model': case['model'], 'n_models': case['n_models'],
            'keep_neg': case['keep_neg'], 'xs': case['xs'], 'ztype': case.get('ztype') or 'wavelength_only',
            'args': [[n, {'v': a['v'], 'u': munit(a.get('u'))}] for n, a in case['args']]}


# ------------------------------------------------------------------ comparison implementation <-> model
def _scale(samples):
    if isinstance(samples, dict) and isinstance(samples.get('ok'), list):
        return max([abs(x) for x in samples['ok'] if isinstance(x, float) and math.isfinite(x)] + [0.0])
    return 0.0


PRTOL = 1e-12        # stored parameters against the exact conversion


def sample_tol(case):
    """relative tolerance of sampled values: 1e-9, widened by the conditioning of the profile - a feature of
    relative width 1/cond turns the implementation's few-ulp rounding of its centre / of x/(1+z) into a relative
    change of ~1e-15 * cond of the sampled value (stored parameters are compared separately at PRTOL)"""
    return 1e-9 + 1e-14 * float(case.get('cond', 1.0))


def _obs_scale(o):
    """magnitude against which an exact 0 is judged: the largest sample, and for a table its largest value (a
    sample next to a knot where the table is 0 inherits the rounding of the knot times the neighbouring values)"""
    tab = o['params'].get('lookup_table') or []
    return max([_scale(o['samples'])] + [abs(x) for x in tab if isinstance(x, float) and math.isfinite(x)])


def compare_obs(obs, mo, what, stol=1e-9, no_samples=False):
    """an observed implementation object against the model's object"""
    if 'err' in obs or 'err' in mo['built']:
        if obs.get('err') != mo['built'].get('err'):
            return '%s: construction impl %s vs model %s' % (what, obs.get('err', 'ok'), mo['built'].get('err', 'ok'))
        return None
    o, b = obs['ok'], mo['built']['ok']
    if o['unit'] != b['unit']:
        return '%s: kept unit impl %r vs model %r' % (what, o['unit'], b['unit'])
    if b['unit'] != 'quantity':
        for n, mv in b['params'].items():
            if n not in o['params']:
                return '%s: parameter %s missing on the implementation' % (what, n)
            r = same(o['params'][n], mv, rtol=PRTOL, path='%s.%s' % (what, n))
            if r:
                return r
    if no_samples:
        return None
    return same(o['samples'], mo['samples'], rtol=stol, atol=(stol - 1e-9 + 1e-12) * _obs_scale(o), path=what + '.samples')


def compare_pair(a, b, what, stol=1e-9, no_samples=False):
    """two implementation objects (plain floats)"""
    if 'err' in a or 'err' in b:
        if a.get('err') != b.get('err'):
            return 'error:%s' % a.get('err', b.get('err')), '%s: %s vs %s' % (what, a.get('err', 'ok'), b.get('err', 'ok'))
        return None
    x, y = a['ok'], b['ok']

    def close(u, v, atol=0.0, rtol=PRTOL):
        return abs(u - v) <= rtol * max(abs(u), abs(v)) + atol
    for n, pv in y['params'].items():
        if x['unit'] == 'quantity' or y['unit'] == 'quantity':
            break
        xv = x['params'].get(n)
        if xv is None or len(xv) != len(pv) or any(not close(s, t) for s, t in zip(xv, pv)):
            return 'params', '%s: parameter %s %r vs %r' % (what, n, xv, pv)
    sx, sy = x['samples'], y['samples']
    if no_samples:
        return None
    if 'err' in sx or 'err' in sy:
        if sx.get('err') != sy.get('err'):
            return 'samples-error:%s' % sx.get('err', sy.get('err')), '%s: sampling %s vs %s' % (
                what, sx.get('err', 'ok'), sy.get('err', 'ok'))
        return None
    atol = (stol - 1e-9 + 1e-12) * max(_obs_scale(x), _obs_scale(y))
    for s, t in zip(sx['ok'], sy['ok']):
        if not close(s, t, atol, stol):
            return 'samples', '%s: sample %r vs %r' % (what, s, t)
    return None


def compare(case, out, mo):
    stol = sample_tol(case)
    ns = bool(case.get('no_samples'))
    r = compare_obs(out['Q'], mo, 'quantities', stol, ns)
    if r:
        return r
    if 'N' in out:
        r = compare_pair(out['Q'], out['N'], 'from quantities vs from the numbers the model converts them to', stol, ns)
        if r:
            return r[1]
    return None


# ------------------------------------------------------------------ oracle (implementation alone)
def oracle(rep, case, out):
    model, cls = case['model'], case['cls']
    Q = out['Q']
    exp = case['expect']
    if exp != 'ok':
        if Q.get('err') != exp:
            rep.oracle_fail('reject:%s:%s:%s' % (case['tag'], exp, Q.get('err', 'accepted')),
                            'expected %s, got %s' % (exp, Q.get('err', 'an object')), case, Q)
        return
    stol = sample_tol(case)
    r = compare_pair(Q, out['H'], 'object from quantities vs object from numbers converted by the harness', stol,
                     bool(case.get('no_samples')))
    if r:
        rep.oracle_fail('quantity_vs_number:%s:%s:%s' % (cls, model, r[0]), r[1], case, Q)
        return
    if case.get('special') and ('err' in Q or 'err' in Q['ok']['samples']):
        return      # a degenerate value may legitimately fail (0/0, negative temperature): it failed the same way both times
    if 'err' in Q or 'err' in Q['ok']['samples']:
        rep.oracle_fail('valid:%s:%s:%s' % (cls, model, Q.get('err') or Q['ok']['samples'].get('err')),
                        'valid construction or sampling raised', case, Q)
        return
    nat = case.get('native')
    if nat:
        got = out.get('native', {'err': 'missing'})
        if 'err' in got:
            rep.oracle_fail('native:%s:%s:%s' % (model, nat['what'], got['err']), 'sampling in the given unit raised', case, got)
        else:
            mag = nat['unit'] in MAGS
            if nat['expect'] == 'constant':
                want = [got['ok'][0]] * len(got['ok'])
            else:
                want = [O.fl(x) for x in nat['expect']]
            floor = (stol - 1e-9 + 1e-12) * max([abs(w) for w in want] + [0.0])   # a table value of exactly 0 next to non-zero ones
            for g, w in zip(got['ok'], want):
                if not abs(g - w) <= stol * abs(w) + (stol if mag else floor):
                    rep.oracle_fail('native:%s:%s:value' % (model, nat['what']),
                                    'in %s: got %r, expected %r' % (nat['unit'], g, w), case, got)
                    break
    gf = case.get('gaussflux')
    if gf:
        p = Q['ok']['params']
        F_, m = O.fl(gf['F']), O.fl(gf['mean_aa'])
        sigma = O.fl(gf['fwhm_aa']) / (2 * math.sqrt(2 * math.log(2))) if 'fwhm_aa' in gf else O.fl(gf['sigma_aa'])
        peak = F_ / (sigma * math.sqrt(2 * math.pi)) * m / (HF * CF)
        for name, got, want in (('sigma', p['stddev'][0], sigma), ('peak', p['amplitude'][0], peak)):
            if not abs(got - want) <= PRTOL * abs(want):
                rep.oracle_fail('gaussflux:%s' % name, '%s is %r, closed form %r' % (name, got, want), case, Q)
        integ = out.get('integral')
        if integ is not None:
            want = F_ * m / (HF * CF)
            if 'err' in integ or not abs(integ['ok'] - want) <= PRTOL * abs(want):
                rep.oracle_fail('gaussflux:integral', 'photon integral %r, closed form F m / (h c) = %r' % (integ, want), case, Q)


# ------------------------------------------------------------------ generators
def dyf(rng, lo, hi, bits=4):
    return float(O.dy(rng, lo, hi, bits))


def wave_arg(rng, aa, unit):
    """the wavelength-like value `aa` (Angstrom) expressed in the unit"""
    if unit is None:
        return {'v': qs(aa), 'u': None}
    d = UNITS[unit]
    s = float(d['s'])
    k = d['k']
    vals = [x / s if k == 'length' else CF / x / s if k == 'freq' else 1.0 / x / s if k == 'wavenumber'
            else HF * CF / x / s for x in aa]
    return {'v': qs(vals), 'u': unit}


def flux_values(rng, unit, n, positive=False):
    out = []
    for _ in range(n):
        if unit in MAGS:
            out.append(dyf(rng, -5, 30, 6))
        else:
            v = 10 ** rng.uniform(-20, 4) if unit not in (None, 'PHOTLAM') else 10 ** rng.uniform(-4, 4)
            if not positive and rng.random() < 0.08:
                v = -v
            out.append(v)
    return out


def pick_units(rng, names, kinds, cls, model, focus=None, focus_unit=None, p_unit=0.6):
    """unit per parameter: the focus parameter gets the focus unit, the others a random compatible one or none"""
    out = {}
    for n in names:
        if n == focus:
            out[n] = focus_unit
            continue
        if rng.random() > p_unit:
            out[n] = None
            continue
        k = kinds[n]
        if k in ('wave', 'own'):
            out[n] = rng.choice(WAVE_UNITS)
        elif k == 'flux':
            out[n] = ('PHOTLAM' if model == 'Const1D' else rng.choice(FLUX_UNITS)) if cls == 'source' \
                else rng.choice(DIMLESS_UNITS)
        elif k == 'noconv':
            out[n] = rng.choice(FLUX_UNITS) if model in ('ConstFlux1D', 'PowerLawFlux1D') else None
        elif k == 'temp':
            out[n] = rng.choice(TEMP_UNITS)
        elif k == 'irr':
            out[n] = rng.choice(IRR_UNITS)
        else:
            out[n] = rng.choice(DIMLESS_UNITS) if rng.random() < 0.5 else None
    return out


def compatible_units(kind, cls, model):
    if kind in ('wave', 'own'):
        return [None] + WAVE_UNITS + WAVE_EXTRA
    if kind == 'flux':
        if model == 'Const1D' and cls == 'source':
            return [None, 'PHOTLAM']        # no reference wavelength: any other unit is refused (gen_reject)
        return [None] + (FLUX_UNITS if cls == 'source' else DIMLESS_UNITS)
    if kind == 'noconv':
        return [None] + FLUX_UNITS
    if kind == 'temp':
        return [None] + TEMP_UNITS
    if kind == 'irr':
        return [None] + IRR_UNITS
    return [None] + DIMLESS_UNITS


def variants(model):
    """parameter sets a class is constructed with"""
    if model == 'GaussianFlux1D':
        return [['amplitude', 'mean', 'stddev'], ['amplitude', 'mean', 'fwhm'], ['total_flux', 'mean', 'fwhm'],
                ['total_flux', 'mean', 'stddev']]
    return [CLASSES[model][1]]


def _special_value(kind, ordinary):
    if kind in ('zero', 'negzero'):
        return 0.0
    if kind == 'neg':
        return -abs(ordinary) if ordinary != 0 else -1.0
    if kind == 'tiny':
        return 2.0 ** -120
    if kind == 'huge':
        return 2.0 ** 60
    raise KeyError(kind)


def _conserved(vals, unit, zf, conserve):
    """what a value given in `unit` reads back as at the redshifted wavelength: itself, or - with flux
    conservation - divided by 1+z (magnitudes: + 2.5 log10(1+z))"""
    if not conserve:
        return vals
    if unit in MAGS:
        return [v + 2.5 * math.log10(1 + zf) for v in vals]
    return [v / (1 + zf) for v in vals]


def gen_case(rng, K, BB, model, cls, z, names, focus=None, focus_unit=None, ntab=6, ztype=None, special=None):
    kinds = kinds_of(model, names)
    units = pick_units(rng, names, kinds, cls, model, focus, focus_unit)
    ref = CLASSES[model][0]
    zf = float(z)
    # wavelength regime: optical with ordinary widths (dyadic values), or anywhere from gamma rays to radio with
    # features from 1e-9 of the centre up to the centre itself
    wide = rng.random() < 0.6 and not model.startswith('BlackBody')
    if wide:
        refaa = 10 ** rng.uniform(-3, 9)
        width = refaa * 10 ** rng.uniform(-9, 0)
    else:
        refaa = dyf(rng, 1000, 20000, 2)
        width = dyf(rng, 10, refaa / 6, 3)
    cond = 1.0
    args = {}
    case = {'op': 'c15_build', 'cls': cls, 'z': q(z), 'model': model, 'n_models': 1, 'keep_neg': False,
            'const': K, 'bbconst': BB, 'expect': 'ok', 'tag': 'valid'}
    if cls == 'source':
        case['ztype'] = ztype or rng.choice(ZTYPES)
    conserve = case.get('ztype') == 'conserve_flux' and zf != 0
    positive = model == 'Trapezoid1D'
    amp_unit = units.get('amplitude')
    if model in TABLES:
        n = rng.randint(2, ntab)
        if wide:
            pts = [refaa]
            for _ in range(n - 1):
                pts.append(pts[-1] * (1 + 10 ** rng.uniform(-4, 0.5)))
        else:
            pts = sorted({dyf(rng, 1000, 20000, 2) for _ in range(n)})
            while len(pts) < 2:
                pts = sorted(set(pts) | {dyf(rng, 1000, 20000, 2)})
        cond = max(b / (b - a) for a, b in zip(pts, pts[1:]))
        if rng.random() < 0.2:
            pts = pts[::-1]
        args['points'] = wave_arg(rng, pts, units['points'])
        un = units['lookup_table']
        if cls == 'source':
            # neighbouring table values within two decades: a knot that moves by one ulp under unit conversion
            # must not move the interpolated value by more than the tolerance
            if un in MAGS:
                base = dyf(rng, -3, 28, 6)
                vals = [base + dyf(rng, -2, 2, 6) for _ in pts]
            else:
                base = flux_values(rng, un, 1, positive=True)[0]
                vals = [base * 2 ** rng.uniform(-3, 3) * (-1 if rng.random() < 0.08 else 1) for _ in pts]
            if rng.random() < 0.2:
                vals[0] = 0.0 if un not in MAGS else vals[0]
        else:
            s = 100.0 if un == 'percent' else 1.0
            vals = [dyf(rng, 0, 1, 6) * s for _ in pts]
        args['lookup_table'] = {'v': qs(vals), 'u': un}
        if special is not None and special[0] == 'lookup_table':
            sv = _special_value(special[1], 1.0)
            args['lookup_table'] = {'v': qs([sv] * len(pts)), 'u': un, 'pt': 'negzero' if special[1] == 'negzero' else 'float'}
            case['special'] = 'flux:' + special[1]
        case['keep_neg'] = rng.random() < 0.3
        lo, hi = min(pts), max(pts)
        grid = [lo * 0.9] + [lo + (hi - lo) * t for t in (0.0, 0.07, 0.19, 0.33, 0.41, 0.5, 0.58, 0.66, 0.74, 0.83, 0.91, 0.97, 1.0)] \
            + [hi * 1.05, hi * 1.3]
        refs = pts
    else:
        refs = [refaa]
        amp_photlam = None
        for n in names:
            un = units[n]
            k = kinds[n]
            if n == ref or n == 'x_0':
                args[n] = wave_arg(rng, [refaa], un)
            elif n in WIDTHS:
                args[n] = wave_arg(rng, [width], un)
            elif n == 'x_cutoff':
                args[n] = wave_arg(rng, [refaa * rng.uniform(0.3, 3) if wide else dyf(rng, 2000, 30000, 2)], un)
            elif n == 'amplitude':
                if cls == 'source':
                    v = flux_values(rng, un, 1, positive or model in ('ConstFlux1D', 'PowerLawFlux1D'))
                    if k == 'flux':
                        amp_photlam = h_photlam(v[0], un, refaa * (1 + zf), K)
                    args[n] = {'v': qs(v), 'u': un}
                else:
                    s = 100.0 if un == 'percent' else 1.0
                    v = dyf(rng, 1 / 16, 1, 6)
                    amp_photlam = v
                    args[n] = {'v': qs([v * s]), 'u': un}
            elif n == 'temperature':
                t = dyf(rng, 200, 40000, 2)
                args[n] = {'v': qs([t / float(UNITS[un]['s']) if un else t]), 'u': un}
            elif n == 'total_flux':
                v = 10 ** rng.uniform(-18, -10)
                args[n] = {'v': qs([v / float(UNITS[un]['s']) if un else v]), 'u': un}
            elif n == 'slope':
                args[n] = None       # needs the converted amplitude, below
            else:                    # alpha, alpha_1, alpha_2, beta
                if n == 'beta':
                    v = dyf(rng, 0, 0.5, 6)
                elif model == 'PowerLawFlux1D' and amp_unit in MAGS:
                    v = dyf(rng, -0.5, 0.5, 6)    # a power law *in magnitudes*: keep 10**(-0.4 m) inside binary64
                else:
                    v = dyf(rng, -3, 3, 6)
                s = 100.0 if un == 'percent' else 1.0
                args[n] = {'v': qs([v * s]), 'u': un}
        if 'slope' in names:
            un = units['slope']
            sl = amp_photlam / (width * rng.choice([0.125, 0.25, 0.5]))
            args['slope'] = {'v': qs([sl * (100.0 if un == 'percent' else 1.0)]), 'u': un}
        avoid_centre = False
        if special is not None and special[0] in args:
            pn, sk, pt = special
            a = args[pn]
            sv = _special_value(sk, O.fl(a['v'][0]))
            a['v'] = qs([sv])
            a['pt'] = 'negzero' if sk == 'negzero' else pt
            case['special'] = '%s:%s' % (kinds[pn], sk)
            if kinds[pn] in ('wave', 'own') or pn == 'slope':
                # a zero / negative width, centre or slope makes evaluate() of the astropy models singular (0/0, inf * 0,
                # signed zeros): construction and STORED parameters are compared, sampled values are not
                case['no_samples'] = True
            if kinds[pn] in ('wave', 'own'):
                hv = h_wave(sv, a['u'])
                if math.isfinite(hv):          # 0 Hz is an infinite wavelength: the request itself becomes NaN
                    if pn in WIDTHS:
                        width = hv
                        avoid_centre = width == 0
                    elif pn == ref or pn == 'x_0':
                        refaa = hv
        # sample grid around the feature, in units of its width; the box is the only profile with jumps (at +-1/2)
        if avoid_centre or (special is not None and model == 'Box1D' and width <= 0):
            # a feature of zero width: every profile is singular exactly at its centre (0/0); stay off it
            base = abs(refaa) if refaa != 0 else 1000.0
            grid = [base * r for r in (0.25, 0.5, 0.75, 0.9, 1.1, 1.5, 2.0, 3.0)]
        elif model == 'Box1D':
            ts = [-1.5, -1.0, -0.75, -0.4, -0.3, -0.2, -0.1, 0, 0.1, 0.2, 0.3, 0.4, 0.75, 1.0, 1.5, 2.0]
            grid = [refaa + width * t for t in ts]
        elif model == 'Trapezoid1D':
            ts = [-1.6, -1.2, -0.9, -0.7, -0.55, -0.45, -0.3, -0.1, 0, 0.2, 0.45, 0.55, 0.7, 0.9, 1.2, 1.6]
            grid = [refaa + width * t for t in ts]
        elif any(n in WIDTHS for n in names):
            ts = [-4, -3.1, -2.3, -1.7, -1.0, -0.6, -0.25, 0, 0.25, 0.5, 1.0, 1.4, 2.0, 2.7, 3.5, 4.5]
            grid = [refaa + width * t for t in ts]
        else:
            grid = [refaa * r for r in (0.3, 0.4, 0.5, 0.62, 0.75, 0.87, 0.95, 1.0, 1.08, 1.2, 1.4, 1.7, 2.0, 2.4, 2.8, 3.2)]
    if special is not None and model not in TABLES:
        base = abs(refaa) if refaa != 0 else 1000.0
        grid = list(grid) + [base * r for r in (0.5, 0.9, 1.1, 2.0)] if model != 'Box1D' else grid
    if model not in TABLES and any(n in WIDTHS for n in names):
        cond = max(1.0, abs(refaa) / abs(width)) if width != 0 and refaa != 0 else 1.0
    case['cond'] = cond
    case['regime'] = 'wide' if wide else 'optical'
    # keyword order: as Python callers would write them, shuffled
    order = list(names)
    rng.shuffle(order)
    case['args'] = [[n, args[n]] for n in order]
    case['xs'] = qs(sorted({x * (1 + zf) for x in grid if x > 0}))
    # ---- what the statement says about sampling in the unit the value was given in
    regular = model in TABLES or (refaa > 0 and width > 0)
    if cls == 'source' and model in PEAKED and amp_unit in FLUX_UNITS and 'amplitude' in names and regular:
        case['native'] = {'what': 'amplitude_at_reference', 'unit': amp_unit, 'xs': qs([refaa * (1 + zf)]),
                          'expect': qs(_conserved([O.fl(args['amplitude']['v'][0])], amp_unit, zf, conserve))}
    if cls == 'source' and model == 'Empirical1D' and units['lookup_table'] in FLUX_UNITS:
        vs = [O.fl(x) for x in args['lookup_table']['v']]
        if case['keep_neg'] or units['lookup_table'] in MAGS or all(v > 0 for v in vs):
            pts_aa = [h_wave(O.fl(x), units['points']) for x in args['points']['v']]
            pairs = sorted(zip(pts_aa, vs))
            case['native'] = {'what': 'table_values', 'unit': units['lookup_table'],
                              'xs': qs([p * (1 + zf) for p, _ in pairs]),
                              'expect': qs(_conserved([v for _, v in pairs], units['lookup_table'], zf, conserve))}
    if model == 'ConstFlux1D' and amp_unit in FLUX_UNITS:
        case['native'] = {'what': 'constant', 'unit': amp_unit, 'xs': case['xs'],
                          'expect': [args['amplitude']['v'][0]] * len(case['xs']) if zf == 0 else 'constant'}
    if model == 'PowerLawFlux1D' and amp_unit in FLUX_UNITS and zf == 0 and regular:
        a, al = O.fl(args['amplitude']['v'][0]), O.fl(args['alpha']['v'][0]) * (0.01 if units['alpha'] == 'percent' else 1.0)
        case['native'] = {'what': 'power_law', 'unit': amp_unit, 'xs': case['xs'],
                          'expect': qs([a * (O.fl(x) / refaa) ** (-al) for x in case['xs']])}
    if model == 'GaussianFlux1D' and 'total_flux' in names and regular:
        tf = args['total_flux']
        case['gaussflux'] = {'F': q(O.fl(tf['v'][0]) * (float(UNITS[tf['u']]['s']) if tf['u'] else 1.0)),
                             'mean_aa': q(refaa), ('fwhm_aa' if 'fwhm' in names else 'sigma_aa'): q(width)}
        # the analytic integral goes through the default sampling set (mean +- 5 sigma), refused when it reaches
        # non-positive wavelengths (C13's subject)
        case['gaussflux']['integral'] = refaa > 6 * (width / 2.3548 if 'fwhm' in names else width)
    return case


def gen_reject(rng, K, BB, kind):
    """one invalid request; everything else in it is valid"""
    if kind in ('count', 'OBMAG', 'VEGAMAG', 'AA', 'one', 'K'):
        model = rng.choice(['Box1D', 'Gaussian1D', 'GaussianFlux1D', 'Lorentz1D', 'RickerWavelet1D', 'Trapezoid1D',
                            'PowerLaw1D', 'Empirical1D', 'LogParabola1D'])
        names = CLASSES[model][1]
        c = gen_case(rng, K, BB, model, 'source', rng.choice(ZS), names, focus='amplitude' if 'amplitude' in names else 'lookup_table',
                     focus_unit=None)
        for n, a in c['args']:
            if n in ('amplitude', 'lookup_table'):
                a['u'] = kind
                a['v'] = qs([dyf(rng, 1, 20, 4) for _ in a['v']])
            elif n == 'slope':
                a['v'] = qs([dyf(rng, 1, 4, 4)])
        c.update(expect='SynphotError', tag='source_flux_unit:' + kind)
    elif kind == 'unsupported':
        c = gen_case(rng, K, BB, 'Gaussian1D', rng.choice(['source', 'unitless']), F(0), ['amplitude'])
        c['model'] = rng.choice(UNSUPPORTED)
        c.update(expect='SynphotError', tag='unsupported_class')
    elif kind == 'not_model':
        c = gen_case(rng, K, BB, 'Gaussian1D', rng.choice(['source', 'unitless']), F(0), ['amplitude'])
        c['model'] = '<int>'
        c.update(expect='SynphotError', tag='not_a_model_class')
    elif kind == 'n_models':
        model = rng.choice(['Box1D', 'Gaussian1D', 'Const1D', 'Lorentz1D', 'Sersic1D'])
        cls = rng.choice(['source', 'unitless'])
        c = gen_case(rng, K, BB, model if model in CLASSES else 'Gaussian1D', cls, F(0), CLASSES.get(model, CLASSES['Gaussian1D'])[1])
        c['model'] = model
        c['n_models'] = rng.choice([2, 3, 0])
        c.update(expect='SynphotError', tag='n_models')
    elif kind == 'throughput':
        model = rng.choice(['Box1D', 'Gaussian1D', 'Lorentz1D', 'Trapezoid1D', 'Empirical1D', 'PowerLaw1D'])
        names = CLASSES[model][1]
        c = gen_case(rng, K, BB, model, 'unitless', F(0), names, focus='amplitude' if 'amplitude' in names else 'lookup_table')
        bad = rng.choice(['AA', 'FLAM', 'PHOTLAM', 'K', 'STmag', 'count'])
        for n, a in c['args']:
            if n in ('amplitude', 'lookup_table'):
                a['u'] = bad
        c.update(expect='UnitError', tag='dimensioned_throughput:' + bad)
    elif kind == 'wave_unit':
        model = rng.choice(['Box1D', 'Gaussian1D', 'Lorentz1D', 'Empirical1D', 'PowerLaw1D', 'PowerLawFlux1D'])
        names = CLASSES[model][1]
        cls = 'source' if model in SOURCE_ONLY else rng.choice(['source', 'unitless'])
        wn = [n for n in names if kinds_of(model, names)[n] in ('wave', 'own')]
        f = rng.choice(wn)
        c = gen_case(rng, K, BB, model, cls, rng.choice(ZS) if cls == 'source' else F(0), names, focus=f)
        bad = rng.choice(['K', 's', 'FLAM', 'one'])
        for n, a in c['args']:
            if n == f:
                a['u'] = bad
            elif n not in wn and f == CLASSES[model][0]:
                a['u'] = None          # one fault per request: nothing else can fail first
        c.update(expect='UnitError', tag='wave_unit:' + bad)
        c.pop('native', None)
    elif kind == 'generic_unit':
        model = rng.choice(['BlackBody1D', 'BlackBodyNorm1D', 'PowerLaw1D', 'Trapezoid1D', 'LogParabola1D'])
        names = CLASSES[model][1]
        f = {'BlackBody1D': 'temperature', 'BlackBodyNorm1D': 'temperature', 'PowerLaw1D': 'alpha',
             'Trapezoid1D': 'slope', 'LogParabola1D': 'beta'}[model]
        c = gen_case(rng, K, BB, model, 'source', F(0), names, focus=f)
        bad = rng.choice(['AA', 'deg_C', 's'] if f == 'temperature' else ['AA', 'K', 'FLAM'])
        for n, a in c['args']:
            if n == f:
                a['u'] = bad
        c.update(expect='UnitError', tag='generic_unit:' + bad)
        c.pop('native', None)
    elif kind == 'own_unit':
        model = rng.choice(['ConstFlux1D', 'PowerLawFlux1D'])
        c = gen_case(rng, K, BB, model, 'source', F(0), CLASSES[model][1], focus='amplitude')
        bad = rng.choice(['count', 'OBMAG', 'VEGAMAG', 'AA', 'one'])
        for n, a in c['args']:
            if n == 'amplitude':
                a['u'] = bad
        c.update(expect='NotImplementedError', tag='own_unit:' + bad)
        c.pop('native', None)
    elif kind == 'const1d_unit':
        c = gen_case(rng, K, BB, 'Const1D', 'source', rng.choice(ZS), ['amplitude'], focus='amplitude', focus_unit=None)
        bad = rng.choice([u for u in FLUX_UNITS if u != 'PHOTLAM'])
        c['args'][0][1]['u'] = bad
        c['args'][0][1]['v'] = qs(flux_values(rng, bad, 1))
        c.update(expect='SynphotError', tag='no_reference_wavelength:' + bad)
    elif kind == 'total_flux_unit':
        c = gen_case(rng, K, BB, 'GaussianFlux1D', 'source', rng.choice(ZS), ['total_flux', 'mean', 'fwhm'], focus='total_flux')
        bad = rng.choice(['Jy', 'FLAM', 'AA', 'one'])
        for n, a in c['args']:
            if n == 'total_flux':
                a['u'] = bad
        c.update(expect='UnitError', tag='total_flux_unit:' + bad)
        c.pop('gaussflux', None)
    elif kind == 'missing_reference':
        model = rng.choice(['Box1D', 'Gaussian1D', 'Lorentz1D', 'PowerLaw1D'])
        names = CLASSES[model][1]
        c = gen_case(rng, K, BB, model, rng.choice(['source', 'unitless']), F(0), names)
        c['args'] = [[n, a] for n, a in c['args'] if n != CLASSES[model][0]]
        c.update(expect='LookupError', tag='missing_reference')
        c.pop('native', None)
    else:
        raise KeyError(kind)
    c.pop('native', None)
    c.pop('gaussflux', None)
    return c


REJECTS = ['count', 'OBMAG', 'VEGAMAG', 'AA', 'one', 'K', 'unsupported', 'not_model', 'n_models', 'throughput',
           'wave_unit', 'generic_unit', 'own_unit', 'total_flux_unit', 'missing_reference', 'const1d_unit']


def classes_for(cls):
    return [m for m in CLASSES if cls == 'source' or m not in SOURCE_ONLY]


def gen_all(rep, rng, n_random, n_reject, ntab):
    K = O.consts()
    from . import c16
    BB = c16.consts()
    cases = []
    rot = 0
    # exhaustive: every class x every parameter x every compatible unit x z x public class
    for cls in ('source', 'unitless'):
        for model in classes_for(cls):
            for names in variants(model):
                kinds = kinds_of(model, names)
                for p in names:
                    for un in compatible_units(kinds[p], cls, model):
                        if cls != 'source':
                            cases.append(gen_case(rng, K, BB, model, cls, F(0), names, focus=p, focus_unit=un, ntab=ntab))
                        elif kinds[p] == 'flux':
                            # the redshift enters the conversion of flux-like parameters: every z, both redshift types
                            for z in ZS:
                                for zt in ZTYPES:
                                    cases.append(gen_case(rng, K, BB, model, cls, z, names, focus=p, focus_unit=un,
                                                          ntab=ntab, ztype=zt))
                        else:
                            # elsewhere three redshifts per combination, rotating through all of them
                            for i in range(3):
                                rot += 1
                                cases.append(gen_case(rng, K, BB, model, cls, ZS[(rot * 4 + i * 3) % len(ZS)], names,
                                                      focus=p, focus_unit=un, ntab=ntab))
    # special values: every numeric parameter of every class exactly 0 (as int, float, -0.0, NumPy scalars, 0-d array,
    # and as a Quantity in each of its units), negative, 2^-120 and 2^60
    pts = ['int', 'float', 'npfloat', 'npint', 'arr0']
    k = 0
    for cls in ('source', 'unitless'):
        for model in classes_for(cls):
            for names in variants(model):
                kinds = kinds_of(model, names)
                for p in names:
                    if p == 'points':
                        continue
                    for sk in ('zero', 'negzero', 'neg', 'tiny', 'huge'):
                        if sk in ('tiny', 'huge') and kinds[p] not in ('flux', 'noconv', 'irr'):
                            continue
                        if sk == 'negzero' and (kinds[p] in ('wave', 'own', 'temp') or p == 'slope'):
                            continue      # -0.0 where the code divides by the value: the sign of zero is not a real number
                        us = compatible_units(kinds[p], cls, model)
                        if sk != 'zero':
                            us = [rng.choice(us)]
                        for un in us:
                            if un in MAGS and sk in ('tiny', 'huge'):
                                continue
                            k += 1
                            z = rng.choice(ZS) if cls == 'source' else F(0)
                            cases.append(gen_case(rng, K, BB, model, cls, z, names, focus=p, focus_unit=un, ntab=ntab,
                                                  special=(p, sk, pts[k % len(pts)])))
    n_exh = len(cases)
    for _ in range(n_random):
        cls = 'source' if rng.random() < 0.7 else 'unitless'
        model = rng.choice(classes_for(cls))
        names = rng.choice(variants(model))
        z = rng.choice(ZS) if cls == 'source' else F(0)
        cases.append(gen_case(rng, K, BB, model, cls, z, names, ntab=ntab))
    for i in range(n_reject):
        cases.append(gen_reject(rng, K, BB, REJECTS[i % len(REJECTS)]))
    # a zero frequency / wavenumber is an infinite wavelength: NumPy gives inf without raising
    for _ in range(max(4, n_reject // 20)):
        c = gen_case(rng, K, BB, 'Gaussian1D', 'source', rng.choice(ZS), CLASSES['Gaussian1D'][1], focus='mean', focus_unit='Hz')
        for n, a in c['args']:
            if n == 'mean':
                a['v'] = ['0']
        c.update(expect='NaN', tag='zero_frequency')
        c.pop('native', None)
        cases.append(c)
    return cases, n_exh


# ------------------------------------------------------------------ run
def execute(rep, cases):
    fast_unit_errors()
    mout = core.run_model([model_case(c) for c in cases])
    for c, m in zip(cases, mout):
        c['_model_out'] = m
    impl = core.pmap(impl_call, cases)
    for c, o, m in zip(cases, impl, mout):
        ok = c['expect'] == 'ok'
        units = sorted({a.get('u') or 'number' for _, a in c['args']})
        tags = ['class:' + c['cls'], 'model:' + c['model'], 'z:' + c['z'], 'expect:' + c['expect'],
                'regime:' + c.get('regime', '?')] + ['unit:' + u for u in units]
        if c.get('special'):
            tags.append('special:' + c['special'])
        if not ok:
            tags.append('reject:' + c['tag'].split(':')[0])
        rep.count({k: v for k, v in c.items() if k not in ('const', 'bbconst', '_model_out')},
                  nontrivial=(not ok) or any(a.get('u') is not None for _, a in c['args']), tags=tags)
        r = compare(c, o, m)
        if r:
            rep.mismatch('c15_build', r, _slim(c), o.get('Q'), m)
        oracle(rep, _slim(c), o)
    return impl


def _slim(c):
    return {k: v for k, v in c.items() if k not in ('_model_out', 'const', 'bbconst')}


RULE = ('SourceSpectrum (z in {-7/8, -1/2, -1/4, -1/1024, 0, 1/1024, 1/2, 3, 20}, both z_types; flux-like parameters with every z) and SpectralElement constructors on every class of _model_param_dict that can be '
        'built (Box1D, Trapezoid1D, Gaussian1D, GaussianAbsorption1D, GaussianFlux1D in its four keyword variants, Lorentz1D, '
        'RickerWavelet1D, MexicanHat1D, PowerLaw1D, BrokenPowerLaw1D, ExponentialCutoffPowerLaw1D, LogParabola1D, Const1D, '
        'ConstFlux1D, PowerLawFlux1D, Empirical1D, ExtinctionModel1D, BlackBody1D, BlackBodyNorm1D). Exhaustive: each parameter '
        'in each compatible unit (number, 22 wavelength / frequency / wavenumber / energy units; PHOTLAM, FLAM, FNU, Jy, mJy, PHOTNU, ABmag, '
        'STmag; dimensionless, percent; K, mK, kK; erg/s/cm2, W/m2) with the other parameters in random units; then random '
        'requests. Wavelength-like values: 40% optical (reference 1000-20000 A dyadic, widths 10 A .. ref/6), 60% anywhere from '
        'gamma rays to radio (reference log-uniform 1e-3 .. 1e9 A, widths log-uniform from 1e-9 of the reference up to the '
        'reference; table knots with relative spacing 1e-4 .. 3), each given in every unit the spectral equivalence accepts '
        '(AA pm nm micron mm cm m; Hz kHz MHz GHz THz PHz; 1/micron 1/cm 1/m 1/AA; eV keV MeV erg J). STORED parameters are '
        'compared with the exact rational conversion at rtol 1e-12; samples at rtol 1e-9 + 1e-14 x (reference/width). '
        'Linear fluxes log-uniform over 24 decades '
        '(8% negative), magnitudes in [-5, 30] (power laws in magnitudes: |alpha| <= 1/2), tables of 2-6 (thorough 2-24) points in either order; 16 sample wavelengths '
        'around the feature scaled by 1+z (box: never within 0.1 width of a jump). Invalid requests: count / mag(OB) / mag(VEGA) / '
        'non-flux amplitudes on a source, a non-PHOTLAM flux amplitude for Const1D (no reference wavelength), unsupported and non-model classes, n_models != 1, dimensioned throughput, non-spectral '
        'wavelength units, wrong temperature / exponent / total-flux units, missing reference parameter, zero frequency. '
        'Special values: every numeric parameter of every class exactly 0 (as int, float, NumPy scalars, 0-d array, as a '
        'Quantity in each of its units; -0.0 where the code does not divide by the value), negative, and for flux-like '
        'parameters 2^-120 and 2^60; a zero / negative width, centre or slope is compared on construction and stored '
        'parameters only (evaluate() is singular there). '
        'Non-trivial: at least one keyword is a Quantity, or the request is invalid.')


def run(rep):
    thorough = rep.tier == 'thorough'
    rng = rep.rng('c15')
    cases, n_exh = gen_all(rep, rng, 46000 if thorough else 300, 1500 if thorough else 150, 24 if thorough else 6)
    corpus = core.load_corpus('C15')
    K = O.consts()
    from . import c16
    BB = c16.consts()
    for c in corpus:
        c['const'], c['bbconst'] = K, BB
    rep.rule = RULE
    rep.extra['exhaustive_unit_cases'] = n_exh
    execute(rep, corpus + cases)
    rep.samples = [s for s in rep.samples][:4]


def search(rep, mismatches):
    sub = core.Report(rep.pid, 'thorough', rep.seed + 1)
    rng = sub.rng('c15-search')
    cases, _ = gen_all(sub, rng, 3000, 300, 8)
    bad_models = {m[2].get('model') for m in mismatches}
    K = O.consts()
    from . import c16
    BB = c16.consts()
    for model in bad_models:
        if model in CLASSES:
            for _ in range(300):
                cls = 'source' if model in SOURCE_ONLY or rng.random() < 0.6 else 'unitless'
                cases.append(gen_case(rng, K, BB, model, cls, rng.choice(ZS) if cls == 'source' else F(0),
                                      rng.choice(variants(model))))
    execute(sub, cases)
    rep.notes.append('directed search after mismatch: %d cases, %d oracle failures' % (len(cases), len(sub.oracle_failures)))
    return sub.oracle_failures


def replay(rep, payload):
    c = payload['case']
    c['const'] = O.consts()
    from . import c16
    c['bbconst'] = c16.consts()
    execute(rep, [c])
