/-
  Synphot.Core.WaveUnit — conversion of a wavelength-like quantity to Angstrom through
  astropy's `u.spectral()` equivalency (`BaseSpectrum._validate_wavelengths`,
  spectrum.py:336-349; `units.validate_wave_unit`, units.py:338-348).
-/
import Synphot.Core.Wave

namespace Synphot
variable {K : Type} [Field K] [LinearOrder K] [IsStrictOrderedRing K]

/-- a length with `toAA` Angstrom per unit, a frequency with `toHz` Hz per unit,
a wavenumber with `toInvAA` Angstrom⁻¹ per unit; anything else is not a wavelength unit.
(`photon-energy` units pass `u.spectral()` but are refused by `validate_wave_unit`.) -/
inductive WaveUnit (K : Type)
  | length (toAA : K)
  | freq (toHz : K)
  | wavenumber (toInvAA : K)
  | other
  deriving Repr

/-- one value to Angstrom; `cAA` is the speed of light in Angstrom/s -/
def WaveUnit.toAngstrom (cAA : K) : WaveUnit K → K → Except Err K
  | .length k, v => .ok (v * k)
  | .freq k, v => if v = 0 then .error .zeroDivision else .ok (cAA / (v * k))
  | .wavenumber k, v => if v = 0 then .error .zeroDivision else .ok (1 / (v * k))
  | .other, _ => .error .unitError

/-- `_validate_wavelengths` for caller-supplied wavelengths: convert, then validate -/
def validateIn (cAA : K) (u : WaveUnit K) (w : List K) : Except Err (List K) := do
  let wa ← w.mapM (u.toAngstrom cAA)
  validateWavelengths wa
  pure wa

end Synphot
