/-
  C04 — Sampling wavelengths: unit- and order-equivariant, invalid sets always rejected.
-/
import Synphot.Lemmas.Wave
import Synphot.Lemmas.Trapz
import Synphot.Lemmas.ObsPhot
import Synphot.Core.WaveUnit

set_option linter.unusedSectionVars false
set_option linter.unusedVariables false
set_option linter.unusedSimpArgs false

namespace Synphot.C04
open Synphot
variable {K : Type} [Field K] [LinearOrder K] [IsStrictOrderedRing K]

/-! ### the validator -/

/-- accepted exactly when every value is positive and the sequence is strictly monotone -/
theorem validate_spec (w : List K) :
    validateWavelengths w = .ok () ↔ ((∀ x ∈ w, 0 < x) ∧ (StrictAsc w ∨ StrictDesc w)) :=
  validate_ok_iff w

/-- the specific error: zero/negative first, then non-monotone, then duplicate -/
theorem error_classes (w : List K) :
    (validateWavelengths w = .error .zeroWavelength ↔ ∃ x ∈ w, x ≤ 0) ∧
    (validateWavelengths w = .error .unsortedWavelength ↔
      ((∀ x ∈ w, 0 < x) ∧ WeakAsc w = false ∧ WeakDesc w = false)) ∧
    (validateWavelengths w = .error .duplicateWavelength ↔
      ((∀ x ∈ w, 0 < x) ∧ (WeakAsc w = true ∨ WeakDesc w = true) ∧ HasAdjEq w = true)) :=
  ⟨validate_zero_iff w, validate_unsorted_iff w, validate_duplicate_iff w⟩

/-- no other error class is ever produced -/
theorem only_wavelength_errors (w : List K) (e : Err) (h : validateWavelengths w = .error e) :
    e = .zeroWavelength ∨ e = .unsortedWavelength ∨ e = .duplicateWavelength := by
  unfold validateWavelengths at h
  split_ifs at h <;> cases h <;> simp

/-- the verdict does not depend on the direction of the array -/
theorem validate_order_irrelevant (w : List K) : validateWavelengths w.reverse = validateWavelengths w :=
  validate_reverse w

/-! ### rejection reaches the caller: every modelled entry point validates before it computes -/

theorem integrate_rejects (E : Env K) (m : Tree K) (x : List K) (e : Err)
    (h : validateWavelengths x = .error e) : integrateTrapz E m x = .error e := by
  simp [integrateTrapz, h, bind, Except.bind]

theorem wavelengthsOr_rejects (thr : K) (m : Tree K) (x : List K) (e : Err)
    (h : validateWavelengths x = .error e) : wavelengthsOr thr m (some x) = .error e := by
  simp [wavelengthsOr, h, bind, Except.bind]

theorem pivot_rejects (E : Env K) (thr : K) (m : Tree K) (x : List K) (e : Err)
    (h : validateWavelengths x = .error e) : pivot E thr m (some x) = .error e := by
  simp [pivot, wavelengthsOr_rejects thr m x e h, bind, Except.bind]

theorem sample_binned_rejects (atol rtol : K) (b : Bins K) (x : List K) (e : Err)
    (h : validateWavelengths x = .error e) : sampleBinned atol rtol b x = .error e := by
  simp [sampleBinned, h, bind, Except.bind]

theorem countrate_rejects (E : Env K) (thr atol rtol : K) (o : Obs K) (area : Option K) (binned : Bool)
    (x : List K) (wr : Option (K × K)) (force : Bool) (e : Err) (h : validateWavelengths x = .error e) :
    countrate E thr atol rtol o area binned (some x) wr force = .error e := by
  cases binned <;> simp [countrate, wavelengthsOr, h, bind, Except.bind]

theorem effective_wavelength_rejects (E : Env K) (thr atol rtol : K) (o : Obs K) (binned erg : Bool)
    (x : List K) (e : Err) (h : validateWavelengths x = .error e) :
    effectiveWavelength E thr atol rtol o binned (some x) erg = .error e := by
  cases binned <;> simp [effectiveWavelength, wavelengthsOr, h, bind, Except.bind]

theorem check_overlap_rejects (E : Env K) (P : OverlapPar K) (band other : Spec K) (x : List K) (e : Err)
    (bm om : Tree K) (hb : band.model = .ok bm) (ho : other.model = .ok om)
    (h : validateWavelengths x = .error e) : checkOverlap E P band other (some x) = .error e := by
  simp [checkOverlap, hb, ho, h, bind, Except.bind]

theorem observation_binset_rejects (E : Env K) (P : OverlapPar K) (src band : Spec K) (x : List K)
    (force : Force) (useC : Bool) (e : Err) (s : Spec K) (w : Bool) (sm bm : Tree K)
    (hk : src.kind = .source) (hbk : band.kind = .bandpass)
    (ha : obsAdmit E P src band force = .ok (s, w)) (hs : s.model = .ok sm) (hb : band.model = .ok bm)
    (h : validateWavelengths x = .error e) : ∃ e', mkObs E P src band (some x) force useC = .error e' ∧ e' = e := by
  refine ⟨e, ?_, rfl⟩
  simp [mkObs, hk, hbk, ha, hs, hb, h, bind, Except.bind, pure, Except.pure]

/-- a wavelength Quantity in a unit that is no length, frequency or wavenumber is a unit error -/
theorem bad_unit_rejected (cAA : K) (w : List K) (x : K) (xs : List K) (hw : w = x :: xs) :
    validateIn cAA (.other : WaveUnit K) w = .error .unitError := by
  subst hw
  simp [validateIn, WaveUnit.toAngstrom, bind, Except.bind]

/-! ### order equivariance of the unsigned trapezoid quantities -/

/-- `|trapz|` (integrate, efficiency, unit_response, effstim's integrals, …) does not depend on the
sampling order -/
theorem unsigned_integral_order (l : List (K × K)) : |trapz l.reverse| = |trapz l| := abs_trapz_reverse l

/-- a ratio of two signed trapezoid sums on the same grid (avgwave, barlam, pivot, effective wavelength,
rmswidth, …) does not depend on the sampling order either -/
theorem ratio_order (a b : List (K × K)) : trapz a.reverse / trapz b.reverse = trapz a / trapz b := by
  rw [trapz_reverse, trapz_reverse, neg_div_neg_eq]

/-- sampled values come back in the caller's order -/
theorem sample_order (E : Env K) (m : Tree K) (xs : List K) (v : List K)
    (h : sampleTree E m xs = .ok v) : sampleTree E m xs.reverse = .ok v.reverse := by
  unfold sampleTree at h ⊢
  have key : ∀ (l : List K) (r : List K), l.mapM (m.eval E) = .ok r →
      ∀ (x : K) (y : K), m.eval E x = .ok y → (l ++ [x]).mapM (m.eval E) = .ok (r ++ [y]) := by
    intro l
    induction l with
    | nil =>
      intro r hr x y hy
      simp only [List.mapM_nil, pure, Except.pure] at hr; injection hr with hr; subst hr
      simp [List.mapM_cons, hy, bind, Except.bind, pure, Except.pure]
    | cons a l ih =>
      intro r hr x y hy
      simp only [List.mapM_cons, bind, Except.bind] at hr
      cases ha : m.eval E a with
      | error e => rw [ha] at hr; cases hr
      | ok va =>
        rw [ha] at hr
        cases hl : l.mapM (m.eval E) with
        | error e => rw [hl] at hr; cases hr
        | ok rl =>
          rw [hl] at hr
          simp only [pure, Except.pure] at hr; injection hr with hr; subst hr
          simp only [List.cons_append, List.mapM_cons, bind, Except.bind, ha, ih rl hl x y hy, pure, Except.pure]
  induction xs generalizing v with
  | nil =>
    simp only [List.mapM_nil, pure, Except.pure] at h; injection h with h; subst h; rfl
  | cons a l ih =>
    simp only [List.mapM_cons, bind, Except.bind] at h
    cases ha : m.eval E a with
    | error e => rw [ha] at h; cases h
    | ok va =>
      rw [ha] at h
      cases hl : l.mapM (m.eval E) with
      | error e => rw [hl] at h; cases h
      | ok rl =>
        rw [hl] at h
        simp only [pure, Except.pure] at h; injection h with h; subst h
        rw [List.reverse_cons, List.reverse_cons]
        exact key _ _ (ih rl hl) a va ha

/-! ### unit equivariance -/

/-- a length unit with positive scale keeps the order, a frequency or wavenumber reverses it; either
way a strictly monotone positive array stays strictly monotone and positive in Angstrom -/
theorem length_unit_keeps_validity (k : K) (hk : 0 < k) (w : List K)
    (h : validateWavelengths w = .ok ()) : validateWavelengths (w.map (· * k)) = .ok () := by
  rw [validate_ok_iff] at h ⊢
  obtain ⟨hp, hm⟩ := h
  refine ⟨?_, ?_⟩
  · intro x hx
    rw [List.mem_map] at hx
    obtain ⟨y, hy, rfl⟩ := hx
    exact mul_pos (hp y hy) hk
  · have hmap : ∀ (l : List K), (StrictAsc l → StrictAsc (l.map (· * k))) ∧ (StrictDesc l → StrictDesc (l.map (· * k))) := by
      intro l
      induction l with
      | nil => exact ⟨fun _ => trivial, fun _ => trivial⟩
      | cons a l ih =>
        cases l with
        | nil => exact ⟨fun _ => trivial, fun _ => trivial⟩
        | cons b l =>
          constructor
          · rintro ⟨hab, hr⟩; exact ⟨mul_lt_mul_of_pos_right hab hk, ih.1 hr⟩
          · rintro ⟨hab, hr⟩; exact ⟨mul_lt_mul_of_pos_right hab hk, ih.2 hr⟩
    rcases hm with hm | hm
    · exact Or.inl ((hmap w).1 hm)
    · exact Or.inr ((hmap w).2 hm)

/-- the same physical wavelengths given in a length unit are the same Angstrom values -/
theorem length_unit_equivariance (cAA k : K) (hk : k ≠ 0) (wAA : List K) :
    (wAA.map (· / k)).mapM ((WaveUnit.length k).toAngstrom cAA) = .ok wAA := by
  induction wAA with
  | nil => rfl
  | cons a l ih =>
    simp only [List.map_cons, List.mapM_cons, WaveUnit.toAngstrom, bind, Except.bind, ih, pure, Except.pure]
    congr 2; field_simp

/-- … and in a frequency unit (`λ = c/ν`) -/
theorem frequency_unit_equivariance (cAA k : K) (hk : k ≠ 0) (hc : cAA ≠ 0) (wAA : List K)
    (hpos : ∀ x ∈ wAA, x ≠ 0) :
    (wAA.map (fun x => cAA / x / k)).mapM ((WaveUnit.freq k).toAngstrom cAA) = .ok wAA := by
  induction wAA with
  | nil => rfl
  | cons a l ih =>
    have ha := hpos a (by simp)
    have hne : cAA / a / k ≠ 0 := div_ne_zero (div_ne_zero hc ha) hk
    simp only [List.map_cons, List.mapM_cons, WaveUnit.toAngstrom, hne, if_false, bind, Except.bind,
      ih (fun x hx => hpos x (List.mem_cons_of_mem _ hx)), pure, Except.pure]
    congr 2; field_simp

end Synphot.C04
