/-
  Driver ops of C12: `c12_integrate` (`BaseSpectrum.integrate` on an analytic model) and
  `c12_eval` (the model sampled in the internal unit), at K = ℚ.
-/
import Synphot.Driver.Json
import Synphot.Driver.FloatTransc
import Synphot.Core.Analytic

open Lean Synphot

namespace Synphot.Driver

def parseAmpUnit (j : Json) : M (AmpUnit Rat) := do
  match j with
  | .str "photlam" => pure .photlam | .str "flam" => pure .flam
  | .str "photnu" => pure .photnu | .str "fnu" => pure .fnu
  | .str s => .error s!"unknown amplitude unit {s}"
  | o => do
      let k ← fRat o "jy"
      pure (.jy k)

def parseAConst (j : Json) : M (AConst Rat) := do
  pure { phys := { h := ← fRat j "h", c := ← fRat j "c", stZero := ← fRat j "st",
                   abZero := ← fRat j "ab", jyFnu := ← fRat j "jy" },
         kB := ← fRat j "kB", sigmaSB := ← fRat j "sigma", omega := ← fRat j "omega" }

partial def parseAModel (j : Json) : M (AModel Rat) := do
  let kind ← fStr j "kind"
  match kind with
  | "box" => pure (.box (← fRat j "amp") (← fRat j "x0") (← fRat j "width"))
  | "const" => pure (.constFlux (← fRat j "amp") (← getField j "unit" >>= parseAmpUnit))
  | "gauss" => pure (.gauss (← fRat j "amp") (← fRat j "mean") (← fRat j "stddev"))
  | "gaussflux" => pure (.gaussFlux (← fRat j "amp") (← fRat j "mean") (← fRat j "stddev"))
  | "lorentz" => pure (.lorentz (← fRat j "amp") (← fRat j "x0") (← fRat j "fwhm"))
  | "ricker" => pure (.ricker (← fRat j "amp") (← fRat j "x0") (← fRat j "sigma"))
  | "powerlaw" => pure (.powerLaw (← fRat j "amp") (← fRat j "x0") (← fRat j "alpha")
                          (← getField j "unit" >>= parseAmpUnit))
  | "trapezoid" => pure (.trapezoid (← fRat j "amp") (← fRat j "x0") (← fRat j "width") (← fRat j "slope"))
  | "blackbody" => pure (.blackbody (← fRat j "temp"))
  | "blackbodynorm" => pure (.blackbodyNorm (← fRat j "temp"))
  | "empirical" => pure (.empirical (mkTable (← fRats j "pts") (← fRats j "vals") false).1)
  | "const1d" => pure (.const1D (← fRat j "amp"))
  | "sum" => do
      let a ← getField j "a" >>= parseAModel
      let b ← getField j "b" >>= parseAModel
      pure (.sum a b)
  | "gaussabs" => pure (.gaussAbsorption (← fRat j "amp") (← fRat j "mean") (← fRat j "stddev"))
  | "scaled" => do
      let m ← getField j "m" >>= parseAModel
      pure (.scaled (← fRat j "k") m)
  | "opaque" => do
      let xs ← fRats j "xs"
      let ys ← fRats j "ys"
      pure (.opaque (xs.zip ys))
  | "redshift" => do
      let m ← getField j "m" >>= parseAModel
      pure (.redshift (← fRat j "zp1") m)
  | s => .error s!"unknown model kind {s}"

def parseIntType (s : String) : IntType :=
  if s = "trapezoid" then .trapezoid else if s = "analytical" then .analytical else .other

def parseFluxOpt (j : Json) : M FluxOpt :=
  match fOpt j "fu" with
  | none => pure .absent
  | some (.str "absent") => pure .absent
  | some (.str "photlam") => pure .photlam
  | some (.str "flam") => pure .flam
  | some (.str "notwav") => pure .notWav
  | some (.str "unparsable") => pure .unparsable
  | some _ => .error "bad fu"

def dispatchC12M (op : String) (j : Json) : M Json := do
  match op with
  | "c12_integrate" => do
      let C ← getField j "const" >>= parseAConst
      let m ← getField j "model" >>= parseAModel
      let unitless ← fBool j "unitless"
      let x ← fRats j "x"
      let req : Option IntType ← match fOpt j "itype" with
        | none => pure none
        | some v => (asStr v).map (fun s => some (parseIntType s))
      let conf := parseIntType (← fStr j "conf")
      let fu ← parseFluxOpt j
      let kw ← match fOpt j "kw" with
        | none => pure false
        | some v => asBool v
      let r := specIntegrate C transcQ unitless fu kw m x req conf
      pure (outcome (fun (p : Rat × ResUnit × Path) =>
        Json.mkObj [("value", jRat p.1), ("unit", Json.str p.2.1.name), ("path", Json.str p.2.2.name)]) r)
  | "c12_table" => do
      -- the model's own table: which kinds have an analytic form (`AModel.hasIntegrate`)
      let e : Table Rat := (mkTable [1, 2] [0, 0] false).1
      let kinds : List (String × AModel Rat) := [
        ("box", .box 1 1 1), ("const", .constFlux 1 .photlam), ("gauss", .gauss 1 1 1),
        ("gaussflux", .gaussFlux 1 1 1), ("lorentz", .lorentz 1 1 1), ("ricker", .ricker 1 1 1),
        ("powerlaw", .powerLaw 1 1 1 .photlam), ("trapezoid", .trapezoid 1 1 1 1),
        ("blackbody", .blackbody 1), ("blackbodynorm", .blackbodyNorm 1), ("empirical", .empirical e),
        ("const1d", .const1D 1), ("sum", .sum (.const1D 1) (.const1D 1)),
        ("redshift", .redshift 2 (.const1D 1)), ("gaussabs", .gaussAbsorption 1 1 1),
        ("scaled", .scaled 2 (.const1D 1)), ("opaque", .opaque [])]
      pure (Json.mkObj [("ok", Json.mkObj (kinds.map fun (n, m) => (n, Json.bool m.hasIntegrate)))])
  | "c12_eval" => do
      let C ← getField j "const" >>= parseAConst
      let m ← getField j "model" >>= parseAModel
      let x ← fRats j "x"
      let r : Except Err (List Rat) := x.mapM (m.evalInternal C transcQ)
      pure (outcome jRats r)
  | _ => .error s!"unknown op {op}"

/-- ops of C12; `none`: not one of ours -/
def dispatchC12 (op : String) (j : Json) : Option (M Json) :=
  if op ∈ ["c12_integrate", "c12_eval", "c12_table"] then some (dispatchC12M op j) else none

end Synphot.Driver
