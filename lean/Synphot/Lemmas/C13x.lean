/-
  Helper lemmas for C13 (sampling sets, merging, generated grids) and for the sampling-set part of C05:
  invariance of `validate_wavelengths` under a positive scale factor, the point formula / spacing /
  monotonicity / count of `affineGrid` and `arange`, how far above a dropped point the near-duplicate
  filter keeps one (exact step count), and the induction over expression trees behind "a composite
  samples every component".
-/
import Mathlib.Tactic.Ring
import Mathlib.Tactic.FieldSimp
import Mathlib.Tactic.Linarith
import Mathlib.Tactic.Positivity
import Mathlib.Tactic.Push
import Synphot.Lemmas.Merge
import Synphot.Lemmas.GenWave
import Synphot.Lemmas.Spectrum
import Synphot.Core.Tree

set_option linter.unusedSectionVars false
set_option linter.unusedVariables false
set_option linter.unusedSimpArgs false

namespace Synphot.C13x
open Synphot
variable {K : Type} [Field K] [LinearOrder K] [IsStrictOrderedRing K]

/-! ### a positive scale factor changes no verdict of `validate_wavelengths` -/

theorem weakAsc_map_mul (c : K) (hc : 0 < c) (l : List K) :
    WeakAsc (l.map (· * c)) = WeakAsc l := by
  induction l with
  | nil => rfl
  | cons a l ih =>
    cases l with
    | nil => rfl
    | cons b l =>
      simp only [List.map_cons, WeakAsc] at ih ⊢
      rw [ih]
      congr 1
      simp only [decide_eq_decide]
      exact mul_le_mul_iff_left₀ hc

theorem weakDesc_map_mul (c : K) (hc : 0 < c) (l : List K) :
    WeakDesc (l.map (· * c)) = WeakDesc l := by
  induction l with
  | nil => rfl
  | cons a l ih =>
    cases l with
    | nil => rfl
    | cons b l =>
      simp only [List.map_cons, WeakDesc] at ih ⊢
      rw [ih]
      congr 1
      simp only [decide_eq_decide]
      exact mul_le_mul_iff_left₀ hc

theorem hasAdjEq_map_mul (c : K) (hc : c ≠ 0) (l : List K) :
    HasAdjEq (l.map (· * c)) = HasAdjEq l := by
  induction l with
  | nil => rfl
  | cons a l ih =>
    cases l with
    | nil => rfl
    | cons b l =>
      simp only [List.map_cons, HasAdjEq] at ih ⊢
      rw [ih]
      congr 1
      simp only [decide_eq_decide]
      exact mul_left_inj' hc

theorem any_nonpos_map_mul (c : K) (hc : 0 < c) (l : List K) :
    (l.map (· * c)).any (fun x => decide (x ≤ 0)) = l.any (fun x => decide (x ≤ 0)) := by
  induction l with
  | nil => rfl
  | cons a l ih =>
    simp only [List.map_cons, List.any_cons, ih]
    congr 1
    simp only [decide_eq_decide]
    constructor
    · intro h
      by_contra h'
      exact absurd h (not_le.mpr (mul_pos (not_le.mp h') hc))
    · intro h
      exact mul_nonpos_of_nonpos_of_nonneg h (le_of_lt hc)

/-- the verdict (and the error class) of `validate_wavelengths` is the same for `w` and `w·c`, `c > 0` -/
theorem validate_map_mul (c : K) (hc : 0 < c) (w : List K) :
    validateWavelengths (w.map (· * c)) = validateWavelengths w := by
  unfold validateWavelengths
  rw [weakAsc_map_mul c hc, weakDesc_map_mul c hc, hasAdjEq_map_mul c (ne_of_gt hc),
    any_nonpos_map_mul c hc]

theorem strictAsc_map_mul (c : K) (hc : 0 < c) (l : List K) (h : StrictAsc l) :
    StrictAsc (l.map (· * c)) := by
  rw [strictAsc_iff] at h ⊢
  rw [weakAsc_map_mul c hc, hasAdjEq_map_mul c (ne_of_gt hc)]
  exact h

theorem pos_map_mul (c : K) (hc : 0 < c) (l : List K) (h : ∀ x ∈ l, 0 < x) :
    ∀ x ∈ l.map (· * c), 0 < x := by
  intro x hx
  rw [List.mem_map] at hx
  obtain ⟨y, hy, rfl⟩ := hx
  exact mul_pos (h y hy) hc

/-! ### `affineGrid`, `arange`, `linspaceOpen` -/

theorem affineGrid_zero (a d : K) : affineGrid a d 0 = [] := rfl

/-- peel the first point -/
theorem affineGrid_succ (a d : K) (n : Nat) :
    affineGrid a d (n + 1) = a :: affineGrid (a + d) d n := by
  unfold affineGrid
  rw [List.range_succ_eq_map, List.map_cons, List.map_map]
  congr 1
  · simp
  · apply List.map_congr_left
    intro i _
    simp only [Function.comp, Nat.succ_eq_add_one, Nat.cast_add, Nat.cast_one]
    ring

theorem affineGrid_getElem? (a d : K) (n i : Nat) (h : i < n) :
    (affineGrid a d n)[i]? = some (a + (i : K) * d) := by
  unfold affineGrid
  rw [List.getElem?_map, List.getElem?_range h]
  rfl

/-- all neighbours exactly `d` apart -/
def UniformStep (d : K) : List K → Prop
  | a :: b :: t => b - a = d ∧ UniformStep d (b :: t)
  | _ => True

theorem affineGrid_uniform (a d : K) (n : Nat) : UniformStep d (affineGrid a d n) := by
  induction n generalizing a with
  | zero => simp [affineGrid_zero, UniformStep]
  | succ n ih =>
    rw [affineGrid_succ]
    cases n with
    | zero => simp [affineGrid_zero, UniformStep]
    | succ n =>
      have := ih (a + d)
      rw [affineGrid_succ] at this ⊢
      exact ⟨by ring, this⟩

theorem affineGrid_strictAsc (a d : K) (hd : 0 < d) (n : Nat) : StrictAsc (affineGrid a d n) := by
  induction n generalizing a with
  | zero => simp [affineGrid_zero, StrictAsc]
  | succ n ih =>
    rw [affineGrid_succ]
    cases n with
    | zero => simp [affineGrid_zero, StrictAsc]
    | succ n =>
      have := ih (a + d)
      rw [affineGrid_succ] at this ⊢
      exact ⟨by linarith, this⟩

/-- all neighbours in the same ratio `q` (uniform in log space) -/
def UniformRatio (q : K) : List K → Prop
  | a :: b :: t => b = a * q ∧ UniformRatio q (b :: t)
  | _ => True

theorem uniformRatio_map_pow10 (T : Transc K) (hT : T.Lawful) (d : K) (l : List K)
    (h : UniformStep d l) : UniformRatio (T.pow10 d) (l.map T.pow10) := by
  induction l with
  | nil => simp [UniformRatio]
  | cons a l ih =>
    cases l with
    | nil => simp [UniformRatio]
    | cons b l =>
      obtain ⟨hab, h'⟩ := h
      refine ⟨?_, ih h'⟩
      rw [← hT.pow10_add]
      congr 1
      linarith

theorem affineGrid_getLast? (a d : K) (n : Nat) :
    (affineGrid a d (n + 1)).getLast? = some (a + (n : K) * d) := by
  unfold affineGrid
  rw [List.range_succ, List.map_append]
  simp

/-- exact multiple: `(stop − start) = k·step` gives exactly `k` points -/
theorem arange_length_of_multiple [FloorRing K] (a b d : K) (k : Nat) (hd : 0 < d)
    (h : b - a = (k : K) * d) : (arange a b d).length = k := by
  unfold arange
  rw [affineGrid_length, h, mul_div_assoc, div_self (ne_of_gt hd), mul_one, Nat.ceil_natCast]

/-! ### the near-duplicate filter: how far above a dropped point the next kept one lies -/

theorem filterClose_tail_subset (thr a : K) (l : List K) :
    ∀ x ∈ filterClose thr l, x ∈ filterClose thr (a :: l) := by
  intro x hx
  cases l with
  | nil => simp [filterClose] at hx
  | cons b t =>
    rw [filterClose_cons_cons]
    split_ifs
    · exact List.mem_cons_of_mem _ hx
    · exact hx

/-- from the point with index `i` the filter keeps a point with index `j ≥ i` reached through `j − i`
consecutive gaps that are all `≤ thr` -/
theorem filterClose_covers_idx (thr : K) (l : List K) (i : Nat) (hi : i < l.length) :
    ∃ j, ∃ hj : j < l.length, i ≤ j ∧ l[j] ∈ filterClose thr l ∧
      l[j] - l[i] ≤ thr * ((j : K) - (i : K)) := by
  induction l generalizing i with
  | nil => simp at hi
  | cons a l ih =>
    cases l with
    | nil =>
      have : i = 0 := by simpa using hi
      subst this
      exact ⟨0, by simp, le_refl _, by simp [filterClose], by simp⟩
    | cons b t =>
      cases i with
      | zero =>
        by_cases hc : b - a > thr
        · refine ⟨0, by simp, le_refl _, ?_, by simp⟩
          rw [filterClose_cons_cons, if_pos hc]; simp
        · obtain ⟨j, hj, _, hm, hb⟩ := ih 0 (by simp)
          refine ⟨j + 1, by simpa using hj, Nat.zero_le _, ?_, ?_⟩
          · rw [filterClose_cons_cons, if_neg hc]; simpa using hm
          · simp only [List.getElem_cons_succ, List.getElem_cons_zero, Nat.cast_add, Nat.cast_one,
              Nat.cast_zero, sub_zero] at hb ⊢
            have hc' : b - a ≤ thr := not_lt.mp hc
            linarith
      | succ i =>
        obtain ⟨j, hj, hij, hm, hb⟩ := ih i (by simpa using hi)
        refine ⟨j + 1, by simpa using hj, Nat.succ_le_succ hij, ?_, ?_⟩
        · simp only [List.getElem_cons_succ]
          exact filterClose_tail_subset thr a _ _ hm
        · simp only [List.getElem_cons_succ, Nat.cast_add, Nat.cast_one] at hb ⊢
          linarith

theorem strictAsc_pairwise (l : List K) (h : StrictAsc l) : l.Pairwise (· < ·) := by
  rw [← List.sortedLT_iff_pairwise, List.sortedLT_iff_isChain, ← strictAsc_iff_chain]; exact h

theorem strictAsc_getElem_le (l : List K) (h : StrictAsc l) (i j : Nat) (hi : i < l.length)
    (hj : j < l.length) (hij : i ≤ j) : l[i] ≤ l[j] := by
  rcases Nat.lt_or_eq_of_le hij with hlt | rfl
  · exact le_of_lt (List.pairwise_iff_getElem.mp (strictAsc_pairwise l h) i j hi hj hlt)
  · exact le_refl _

/-- every point of an ascending list has a kept point at or above it, at most `k·thr` away, where `k`
is a number of list positions (so `k < length`) -/
theorem filterClose_covers (thr : K) (l : List K) (hs : StrictAsc l) (x : K) (hx : x ∈ l) :
    ∃ y ∈ filterClose thr l, ∃ k : Nat, x ≤ y ∧ y - x ≤ thr * (k : K) ∧ k < l.length := by
  obtain ⟨i, hi, rfl⟩ := List.getElem_of_mem hx
  obtain ⟨j, hj, hij, hm, hb⟩ := filterClose_covers_idx thr l i hi
  refine ⟨l[j], hm, j - i, strictAsc_getElem_le l hs i j hi hj hij, ?_, by omega⟩
  rw [Nat.cast_sub hij]; exact hb

/-- with no point that has close neighbours on both sides, a dropped point has a *kept* point within
the threshold above it -/
theorem filterClose_covers_isolated (thr : K) (h0 : 0 ≤ thr) (l : List K) (hs : StrictAsc l)
    (hiso : ∀ p ∈ l, ∀ q ∈ l, ∀ r ∈ l, p < q → q < r → ¬ (q - p ≤ thr ∧ r - q ≤ thr))
    (x : K) (hx : x ∈ l) : ∃ y ∈ filterClose thr l, x ≤ y ∧ y - x ≤ thr := by
  by_cases hm : x ∈ filterClose thr l
  · exact ⟨x, hm, le_refl _, by simpa using h0⟩
  · obtain ⟨y, hy, h1, h2⟩ := filterClose_dropped thr l hs x hx hm
    by_cases hmy : y ∈ filterClose thr l
    · exact ⟨y, hmy, le_of_lt h1, h2⟩
    · obtain ⟨y', hy', h3, h4⟩ := filterClose_dropped thr l hs y hy hmy
      exact absurd ⟨h2, h4⟩ (hiso x hx y hy y' hy' h1 h3)

/-- in an ascending list whose neighbours are more than `c` apart, any two points are -/
theorem gaps_pairwise (c : K) (l : List K) (hs : StrictAsc l) (hg : Gaps c l) :
    l.Pairwise (fun s t => c < t - s) := by
  induction l with
  | nil => exact List.Pairwise.nil
  | cons a l ih =>
    cases l with
    | nil => simp
    | cons b t =>
      obtain ⟨hab, hs'⟩ := hs
      obtain ⟨hgab, hg'⟩ := hg
      have ih' := ih hs' hg'
      rw [List.pairwise_cons]
      refine ⟨?_, ih'⟩
      intro u hu
      rcases List.mem_cons.mp hu with rfl | hu'
      · exact hgab
      · have hbu : b < u := List.rel_of_pairwise_cons (strictAsc_pairwise _ hs') hu'
        linarith

theorem gaps_two_points (c : K) (l : List K) (hs : StrictAsc l) (hg : Gaps c l) (s t : K)
    (hs' : s ∈ l) (ht : t ∈ l) (hst : s < t) : c < t - s := by
  have hp := gaps_pairwise c l hs hg
  have hlt := strictAsc_pairwise l hs
  obtain ⟨i, hi, rfl⟩ := List.getElem_of_mem hs'
  obtain ⟨j, hj, rfl⟩ := List.getElem_of_mem ht
  have hij : i < j := by
    by_contra hc
    have hji : j ≤ i := not_lt.mp hc
    have := strictAsc_getElem_le l hs j i hj hi hji
    exact absurd hst (not_lt.mpr this)
  exact List.pairwise_iff_getElem.mp hp i j hi hj hij

/-- two sets whose own neighbours are more than `2·thr` apart have no point of the union with close
neighbours on both sides -/
theorem isolated_of_gaps (thr : K) (a b : List K) (ha : StrictAsc a) (hb : StrictAsc b)
    (hga : Gaps (2 * thr) a) (hgb : Gaps (2 * thr) b) :
    ∀ p ∈ union1d a b, ∀ q ∈ union1d a b, ∀ r ∈ union1d a b, p < q → q < r →
      ¬ (q - p ≤ thr ∧ r - q ≤ thr) := by
  intro p hp q hq r hr hpq hqr ⟨h1, h2⟩
  rw [mem_union1d] at hp hq hr
  have hthr : 0 < thr := by linarith
  have A : ∀ s t, s ∈ a → t ∈ a → s < t → 2 * thr < t - s := fun s t hs ht hst =>
    gaps_two_points _ a ha hga s t hs ht hst
  have B : ∀ s t, s ∈ b → t ∈ b → s < t → 2 * thr < t - s := fun s t hs ht hst =>
    gaps_two_points _ b hb hgb s t hs ht hst
  rcases hp with hp | hp <;> rcases hq with hq | hq <;> rcases hr with hr | hr
  · have := A p q hp hq hpq; linarith
  · have := A p q hp hq hpq; linarith
  · have := A p r hp hr (lt_trans hpq hqr); linarith
  · have := B q r hq hr hqr; linarith
  · have := A q r hq hr hqr; linarith
  · have := B p r hp hr (lt_trans hpq hqr); linarith
  · have := B p q hp hq hpq; linarith
  · have := B p q hp hq hpq; linarith

/-- `union1d` computed by hand: any strictly ascending list with the right members is it -/
theorem union1d_eq_of (a b u : List K) (hu : StrictAsc u) (hm : ∀ x, x ∈ u ↔ x ∈ a ∨ x ∈ b) :
    union1d a b = u := by
  have hs : a.toFinset ∪ b.toFinset = u.toFinset := by
    ext x; simp [hm x]
  unfold union1d
  rw [hs]
  have hp := strictAsc_pairwise u hu
  have hnd : u.Nodup := hp.imp (fun hab => ne_of_lt hab)
  exact (List.toFinset_sort (r := (· ≤ ·)) hnd).mpr (hp.imp le_of_lt)

theorem union1d_length_le (a b : List K) : (union1d a b).length ≤ a.length + b.length := by
  unfold union1d
  rw [Finset.length_sort]
  exact le_trans (Finset.card_union_le _ _)
    (Nat.add_le_add (List.toFinset_card_le a) (List.toFinset_card_le b))

/-! ### expression trees -/

/-- every sampling point of every leaf that has a sampling set (extinction curves have none),
as seen from the root: multiplied by the `1+z` of every enclosing redshift -/
def leafPoints : Tree K → List K
  | .leaf l => (l.sampleset).getD []
  | .bin _ l r => leafPoints l ++ leafPoints r
  | .scale m _ => leafPoints m
  | .redshift z m => (leafPoints m).map (· * (1 + z))

/-- every redshift in the tree has `1+z > 0` -/
def ZPos : Tree K → Prop
  | .leaf _ => True
  | .bin _ l r => ZPos l ∧ ZPos r
  | .scale m _ => ZPos m
  | .redshift z m => 0 < 1 + z ∧ ZPos m

/-- no merge in the tree meets two points within the threshold of each other -/
def Separated (thr : K) : Tree K → Prop
  | .leaf _ => True
  | .bin _ l r => Separated thr l ∧ Separated thr r ∧
      ∀ wl wr, l.sampleset thr = some wl → r.sampleset thr = some wr → Gaps thr (union1d wl wr)
  | .scale m _ => Separated thr m
  | .redshift _ m => Separated thr m

/-- bound on how far above a leaf point the composite's nearest sampling point may lie: every merge on
the way up may push it by one threshold per point it handles, every redshift stretches the distance -/
def slack (thr : K) : Tree K → K
  | .leaf _ => 0
  | .bin _ l r => max (slack thr l) (slack thr r) +
      thr * (((leafPoints l).length + (leafPoints r).length : Nat) : K)
  | .scale m _ => slack thr m
  | .redshift z m => slack thr m * (1 + z)

theorem slack_nonneg (thr : K) (h0 : 0 ≤ thr) (m : Tree K) (hz : ZPos m) : 0 ≤ slack thr m := by
  induction m with
  | leaf l => simp [slack]
  | bin op l r ihl ihr =>
    simp only [slack]
    have := ihl hz.1
    have h2 : 0 ≤ thr * (((leafPoints l).length + (leafPoints r).length : Nat) : K) :=
      mul_nonneg h0 (Nat.cast_nonneg _)
    have h3 : slack thr l ≤ max (slack thr l) (slack thr r) := le_max_left _ _
    linarith
  | scale m k ih => exact ih hz
  | redshift z m ih =>
    simp only [slack]
    exact mul_nonneg (ih hz.2) (le_of_lt hz.1)

/-- a composite's sampling set contains only sampling points of its components -/
theorem sampleset_subset_leafPoints (thr : K) (m : Tree K) :
    ∀ w, m.sampleset thr = some w → ∀ x ∈ w, x ∈ leafPoints m := by
  induction m with
  | leaf l =>
    intro w h x hx
    simp only [Tree.sampleset] at h
    simp [leafPoints, h, hx]
  | bin op l r ihl ihr =>
    intro w h x hx
    simp only [Tree.sampleset] at h
    simp only [leafPoints, List.mem_append]
    cases hl : l.sampleset thr with
    | none =>
      cases hr : r.sampleset thr with
      | none => rw [hl, hr] at h; simp [mergeWavelengths] at h
      | some wr =>
        rw [hl, hr] at h; simp only [mergeWavelengths, Option.some.injEq] at h; subst h
        exact Or.inr (ihr wr hr x hx)
    | some wl =>
      cases hr : r.sampleset thr with
      | none =>
        rw [hl, hr] at h; simp only [mergeWavelengths, Option.some.injEq] at h; subst h
        exact Or.inl (ihl wl hl x hx)
      | some wr =>
        rw [hl, hr] at h; simp only [mergeWavelengths, Option.some.injEq] at h; subst h
        have := (mem_union1d wl wr x).mp ((filterClose_sublist thr _).subset hx)
        rcases this with h1 | h1
        · exact Or.inl (ihl wl hl x h1)
        · exact Or.inr (ihr wr hr x h1)
  | scale m k ih =>
    intro w h x hx
    exact ih w h x hx
  | redshift z m ih =>
    intro w h x hx
    simp only [Tree.sampleset, Option.map_eq_some_iff] at h
    obtain ⟨w0, h0, rfl⟩ := h
    rw [List.mem_map] at hx
    obtain ⟨y, hy, rfl⟩ := hx
    simp only [leafPoints, List.mem_map]
    exact ⟨y, ih w0 h0 y hy, rfl⟩

/-- the composite's set is never longer than the list of all component points -/
theorem sampleset_length_le (thr : K) (m : Tree K) :
    ∀ w, m.sampleset thr = some w → w.length ≤ (leafPoints m).length := by
  induction m with
  | leaf l =>
    intro w h
    simp only [Tree.sampleset] at h
    simp [leafPoints, h]
  | bin op l r ihl ihr =>
    intro w h
    simp only [Tree.sampleset] at h
    simp only [leafPoints, List.length_append]
    cases hl : l.sampleset thr with
    | none =>
      cases hr : r.sampleset thr with
      | none => rw [hl, hr] at h; simp [mergeWavelengths] at h
      | some wr =>
        rw [hl, hr] at h; simp only [mergeWavelengths, Option.some.injEq] at h; subst h
        have := ihr wr hr; omega
    | some wl =>
      cases hr : r.sampleset thr with
      | none =>
        rw [hl, hr] at h; simp only [mergeWavelengths, Option.some.injEq] at h; subst h
        have := ihl wl hl; omega
      | some wr =>
        rw [hl, hr] at h; simp only [mergeWavelengths, Option.some.injEq] at h; subst h
        have h1 := (filterClose_sublist thr (union1d wl wr)).length_le
        have h2 := union1d_length_le wl wr
        have := ihl wl hl; have := ihr wr hr; omega
  | scale m k ih => intro w h; exact ih w h
  | redshift z m ih =>
    intro w h
    simp only [Tree.sampleset, Option.map_eq_some_iff] at h
    obtain ⟨w0, h0, rfl⟩ := h
    simpa [leafPoints] using ih w0 h0

/-- a tree with a component point has a sampling set -/
theorem sampleset_isSome_of_leafPoint (thr : K) (m : Tree K) (x : K) (hx : x ∈ leafPoints m) :
    ∃ w, m.sampleset thr = some w := by
  induction m generalizing x with
  | leaf l =>
    simp only [leafPoints] at hx
    cases h : l.sampleset with
    | none => simp [h] at hx
    | some w => exact ⟨w, by simp [Tree.sampleset, h]⟩
  | bin op l r ihl ihr =>
    simp only [leafPoints, List.mem_append] at hx
    simp only [Tree.sampleset]
    rcases hx with hx | hx
    · obtain ⟨wl, hl⟩ := ihl x hx
      rw [hl]
      cases r.sampleset thr <;> simp [mergeWavelengths]
    · obtain ⟨wr, hr⟩ := ihr x hx
      rw [hr]
      cases l.sampleset thr <;> simp [mergeWavelengths]
  | scale m k ih => exact ih x hx
  | redshift z m ih =>
    simp only [leafPoints, List.mem_map] at hx
    obtain ⟨y, hy, rfl⟩ := hx
    obtain ⟨w, hw⟩ := ih y hy
    exact ⟨w.map (· * (1 + z)), by simp [Tree.sampleset, hw]⟩

/-- without near-coincidences a composite's sampling set contains every component point exactly -/
theorem separated_contains (thr : K) (m : Tree K) (hsep : Separated thr m) (x : K)
    (hx : x ∈ leafPoints m) : ∃ w, m.sampleset thr = some w ∧ x ∈ w := by
  induction m generalizing x with
  | leaf l =>
    simp only [leafPoints] at hx
    cases h : l.sampleset with
    | none => simp [h] at hx
    | some w => exact ⟨w, by simp [Tree.sampleset, h], by simpa [h] using hx⟩
  | bin op l r ihl ihr =>
    obtain ⟨sl, sr, sg⟩ := hsep
    simp only [leafPoints, List.mem_append] at hx
    simp only [Tree.sampleset]
    rcases hx with hx | hx
    · obtain ⟨wl, hl, hxl⟩ := ihl sl x hx
      cases hr : r.sampleset thr with
      | none => exact ⟨wl, by rw [hl]; rfl, hxl⟩
      | some wr =>
        refine ⟨filterClose thr (union1d wl wr), by rw [hl]; rfl, ?_⟩
        rw [filterClose_of_gaps thr _ (sg wl wr hl hr), mem_union1d]
        exact Or.inl hxl
    · obtain ⟨wr, hr, hxr⟩ := ihr sr x hx
      cases hl : l.sampleset thr with
      | none => exact ⟨wr, by rw [hr]; rfl, hxr⟩
      | some wl =>
        refine ⟨filterClose thr (union1d wl wr), by rw [hr]; rfl, ?_⟩
        rw [filterClose_of_gaps thr _ (sg wl wr hl hr), mem_union1d]
        exact Or.inr hxr
  | scale m k ih => exact ih hsep x hx
  | redshift z m ih =>
    simp only [leafPoints, List.mem_map] at hx
    obtain ⟨y, hy, rfl⟩ := hx
    obtain ⟨w, hw, hyw⟩ := ih hsep y hy
    exact ⟨w.map (· * (1 + z)), by simp [Tree.sampleset, hw], List.mem_map.mpr ⟨y, hyw, rfl⟩⟩

/-- a merge node: a point of one input is covered by the merged set within `thr·(|a|+|b|)` -/
theorem merge_covers_len (thr : K) (h0 : 0 ≤ thr) (a b : List K) (x : K) (hx : x ∈ a ∨ x ∈ b) :
    ∃ y ∈ filterClose thr (union1d a b), x ≤ y ∧
      y - x ≤ thr * ((a.length + b.length : Nat) : K) := by
  obtain ⟨y, hy, k, h1, h2, h3⟩ := filterClose_covers thr (union1d a b) (union1d_strictAsc a b) x
    ((mem_union1d a b x).mpr hx)
  refine ⟨y, hy, h1, le_trans h2 (mul_le_mul_of_nonneg_left ?_ h0)⟩
  have := union1d_length_le a b
  exact_mod_cast (by omega : k ≤ a.length + b.length)

/-- **every component point is covered**: for any expression tree (redshift factors positive) every
sampling point of every leaf has a point of the composite's set at or above it, within `slack` -/
theorem covers (thr : K) (h0 : 0 ≤ thr) (m : Tree K) (hz : ZPos m) (x : K)
    (hx : x ∈ leafPoints m) :
    ∃ w, m.sampleset thr = some w ∧ ∃ y ∈ w, x ≤ y ∧ y - x ≤ slack thr m := by
  induction m generalizing x with
  | leaf l =>
    simp only [leafPoints] at hx
    cases h : l.sampleset with
    | none => simp [h] at hx
    | some w =>
      exact ⟨w, by simp [Tree.sampleset, h], x, by simpa [h] using hx, le_refl _, by simp [slack]⟩
  | bin op l r ihl ihr =>
    simp only [leafPoints, List.mem_append] at hx
    simp only [Tree.sampleset, slack]
    have hN : 0 ≤ thr * (((leafPoints l).length + (leafPoints r).length : Nat) : K) :=
      mul_nonneg h0 (Nat.cast_nonneg _)
    rcases hx with hx | hx
    · obtain ⟨wl, hl, y1, hy1, hxy1, hb1⟩ := ihl hz.1 x hx
      have hmax : slack thr l ≤ max (slack thr l) (slack thr r) := le_max_left _ _
      cases hr : r.sampleset thr with
      | none => exact ⟨wl, by rw [hl]; rfl, y1, hy1, hxy1, by linarith⟩
      | some wr =>
        obtain ⟨y, hy, hy1y, hb2⟩ := merge_covers_len thr h0 wl wr y1 (Or.inl hy1)
        refine ⟨filterClose thr (union1d wl wr), by rw [hl]; rfl, y, hy, le_trans hxy1 hy1y, ?_⟩
        have e1 : (wl.length + wr.length : Nat) ≤ (leafPoints l).length + (leafPoints r).length :=
          Nat.add_le_add (sampleset_length_le thr l wl hl) (sampleset_length_le thr r wr hr)
        have e2 : thr * ((wl.length + wr.length : Nat) : K) ≤
            thr * (((leafPoints l).length + (leafPoints r).length : Nat) : K) :=
          mul_le_mul_of_nonneg_left (by exact_mod_cast e1) h0
        linarith
    · obtain ⟨wr, hr, y1, hy1, hxy1, hb1⟩ := ihr hz.2 x hx
      have hmax : slack thr r ≤ max (slack thr l) (slack thr r) := le_max_right _ _
      cases hl : l.sampleset thr with
      | none => exact ⟨wr, by rw [hr]; rfl, y1, hy1, hxy1, by linarith⟩
      | some wl =>
        obtain ⟨y, hy, hy1y, hb2⟩ := merge_covers_len thr h0 wl wr y1 (Or.inr hy1)
        refine ⟨filterClose thr (union1d wl wr), by rw [hr]; rfl, y, hy, le_trans hxy1 hy1y, ?_⟩
        have e1 : (wl.length + wr.length : Nat) ≤ (leafPoints l).length + (leafPoints r).length :=
          Nat.add_le_add (sampleset_length_le thr l wl hl) (sampleset_length_le thr r wr hr)
        have e2 : thr * ((wl.length + wr.length : Nat) : K) ≤
            thr * (((leafPoints l).length + (leafPoints r).length : Nat) : K) :=
          mul_le_mul_of_nonneg_left (by exact_mod_cast e1) h0
        linarith
  | scale m k ih => exact ih hz x hx
  | redshift z m ih =>
    simp only [leafPoints, List.mem_map] at hx
    obtain ⟨x0, hx0, rfl⟩ := hx
    obtain ⟨w, hw, y, hy, hxy, hb⟩ := ih hz.2 x0 hx0
    refine ⟨w.map (· * (1 + z)), by simp [Tree.sampleset, hw], y * (1 + z),
      List.mem_map.mpr ⟨y, hy, rfl⟩, mul_le_mul_of_nonneg_right hxy (le_of_lt hz.1), ?_⟩
    simp only [slack]
    have := mul_le_mul_of_nonneg_right hb (le_of_lt hz.1)
    linarith

/-! ### scalar multiplication / division of a spectrum object leaves its sampling set alone -/

theorem resultTree_scalar_sampleset (thr : K) (op : BinOp) (self : Spec K) (v : K) (t a : Tree K)
    (h : resultTree op self (.real v) = .ok t) (ha : self.model = .ok a) :
    t.sampleset thr = a.sampleset thr := by
  unfold resultTree at h
  split at h
  · rename_i hkind htree
    have hm : self.model = .ok self.tree := model_of_not_source self (by rw [hkind]; decide)
    rw [hm] at ha; cases ha
    simp only at h; cases h
    rw [htree]
    simp [Tree.sampleset]
  · cases h
  · cases op with
    | mul =>
      simp only [ha, bind, Except.bind, pure, Except.pure] at h; cases h; rfl
    | div =>
      simp only [ha, bind, Except.bind, pure, Except.pure] at h
      split_ifs at h
      cases h; rfl
    | add => cases h
    | sub => cases h

theorem resultTree_quantity_sampleset (thr : K) (op : BinOp) (self : Spec K) (v : K) (t a : Tree K)
    (h : resultTree op self (.quantity v) = .ok t) (ha : self.model = .ok a) :
    t.sampleset thr = a.sampleset thr := by
  unfold resultTree at h
  split at h
  · rename_i hkind htree
    have hm : self.model = .ok self.tree := model_of_not_source self (by rw [hkind]; decide)
    rw [hm] at ha; cases ha
    simp only at h; cases h
    rw [htree]
    simp [Tree.sampleset]
  · cases h
  · cases op with
    | mul =>
      simp only [ha, bind, Except.bind, pure, Except.pure] at h; cases h; rfl
    | div =>
      simp only [ha, bind, Except.bind, pure, Except.pure] at h
      split_ifs at h
      cases h; rfl
    | add => cases h
    | sub => cases h

end Synphot.C13x
