#!/bin/bash
# Build the Lean model, lemma library and property theorems from the files on disk (offline).
cd "$(dirname "$0")/lean" || exit 2
export PATH="/opt/veriftools/lean/bin:$PATH"
lake build 2>&1 | grep -v 'conda.cli.condarc' | tail -5
exit ${PIPESTATUS[0]}
