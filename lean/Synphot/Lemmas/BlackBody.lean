/-
  Synphot.Lemmas.BlackBody — helper lemmas for C16: `expm1` facts derived from the `exp` laws of
  `Transc.Lawful`, the closed form of the Planck photon radiance and its order properties.
-/
import Mathlib.Tactic.Ring
import Mathlib.Tactic.FieldSimp
import Mathlib.Tactic.Linarith
import Mathlib.Tactic.Positivity
import Synphot.Core.BlackBody
import Synphot.Lemmas.Wave

set_option linter.unusedSectionVars false
set_option linter.unusedSimpArgs false
set_option linter.unusedVariables false

namespace Synphot.BlackBody
variable {K : Type} [Field K] [LinearOrder K] [IsStrictOrderedRing K]
variable {C : BBConst K} {T : Transc K}

/-- the constants are positive numbers (true of the physical ones) -/
structure BBConst.Pos (C : BBConst K) : Prop where
  h : 0 < C.h
  c : 0 < C.c
  kB : 0 < C.kB
  bWien : 0 < C.bWien
  sigmaSB : 0 < C.sigmaSB
  rSun : 0 < C.rSun
  kpc : 0 < C.kpc
  sr : 0 < C.srPerArcsec2

/-! ### `expm1` from the laws of `exp` -/

theorem expm1_pos (hT : T.Lawful) {x : K} (hx : 0 < x) : 0 < T.expm1 x := by
  rw [hT.expm1_eq]
  have := hT.exp_strictMono 0 x hx
  rw [hT.exp_zero] at this
  linarith

theorem expm1_strictMono (hT : T.Lawful) {x y : K} (h : x < y) :
    T.expm1 x < T.expm1 y := by
  rw [hT.expm1_eq, hT.expm1_eq]
  have := hT.exp_strictMono x y h
  linarith

theorem expm1_zero (hT : T.Lawful) : T.expm1 0 = 0 := by
  rw [hT.expm1_eq, hT.exp_zero]; ring

/-! ### the closed form -/

/-- `hν/kT` written with the wavelength: `hc/(λ k T)` -/
def boltzArg (C : BBConst K) (lam temp : K) : K := C.h * C.c / (lam * C.kB * temp)

/-- Planck's law as a photon flux density per steradian in PHOTLAM:
`B_λ(T)·λ/(hc) = 2c/λ⁴ / (exp(hc/λkT) − 1)`, `c` in Å/s, `λ` in Å; `10¹⁶` is Å² per cm². -/
def planckPhotlam (C : BBConst K) (T : Transc K) (lam temp : K) : K :=
  2 * C.c * 10 ^ 16 / (lam ^ 4 * (T.exp (boltzArg C lam temp) - 1))

/-- Planck's law as an energy flux density per steradian in FLAM: `B_λ(T) = 2hc²/λ⁵ / (exp(hc/λkT) − 1)` -/
def planckFlam (C : BBConst K) (T : Transc K) (lam temp : K) : K :=
  2 * C.h * C.c ^ 2 * 10 ^ 16 / (lam ^ 5 * (T.exp (boltzArg C lam temp) - 1))

theorem boltzArg_pos (hC : C.Pos) {lam temp : K} (hl : 0 < lam) (ht : 0 < temp) :
    0 < boltzArg C lam temp := by
  have := hC.h; have := hC.c; have := hC.kB
  unfold boltzArg; positivity

theorem boltzArg_strictAnti_T (hC : C.Pos) {lam t1 t2 : K} (hl : 0 < lam) (h1 : 0 < t1)
    (h12 : t1 < t2) : boltzArg C lam t2 < boltzArg C lam t1 := by
  have hh := hC.h; have hc := hC.c; have hk := hC.kB
  unfold boltzArg
  apply div_lt_div_of_pos_left (by positivity) (by positivity)
  exact mul_lt_mul_of_pos_left h12 (by positivity)

theorem boltzArg_eq (hC : C.Pos) {lam temp : K} (hl : 0 < lam) (ht : 0 < temp) :
    C.h * (C.c / lam) / (C.kB * temp) = boltzArg C lam temp := by
  have := hC.kB
  unfold boltzArg; field_simp

theorem expBoltz_sub_one_pos (hC : C.Pos) (hT : T.Lawful) {lam temp : K} (hl : 0 < lam)
    (ht : 0 < temp) : 0 < T.exp (boltzArg C lam temp) - 1 := by
  have := expm1_pos hT (boltzArg_pos hC hl ht)
  rwa [hT.expm1_eq] at this

theorem blackbodyNu_eq (hC : C.Pos) (hT : T.Lawful) {lam temp : K} (hl : 0 < lam) (ht : 0 < temp) :
    blackbodyNu C T lam temp =
      .ok (2 * C.h * (C.c / lam) ^ 3 / ((C.c / 10 ^ 8) ^ 2 * (T.exp (boltzArg C lam temp) - 1))) := by
  unfold blackbodyNu
  rw [if_neg (not_lt.mpr (le_of_lt ht)), if_neg (ne_of_gt ht)]
  simp only [boltzArg_eq hC hl ht]
  have hp := expm1_pos hT (boltzArg_pos hC hl ht)
  rw [if_neg (ne_of_gt hp), hT.expm1_eq]

theorem bbEvaluate_eq (hC : C.Pos) (hT : T.Lawful) {lam temp : K} (hl : 0 < lam) (ht : 0 < temp) :
    bbEvaluate C T lam temp = .ok (planckPhotlam C T lam temp) := by
  unfold bbEvaluate
  rw [blackbodyNu_eq hC hT hl ht]
  show Except.ok _ = Except.ok _
  congr 1
  have hh := hC.h; have hc := hC.c
  have hE := expBoltz_sub_one_pos hC hT hl ht
  unfold fnuToPhotlam planckPhotlam
  field_simp

theorem planckPhotlam_pos (hC : C.Pos) (hT : T.Lawful) {lam temp : K} (hl : 0 < lam) (ht : 0 < temp) :
    0 < planckPhotlam C T lam temp := by
  have hc := hC.c
  have hE := expBoltz_sub_one_pos hC hT hl ht
  unfold planckPhotlam; positivity

theorem planckPhotlam_strictMono_T (hC : C.Pos) (hT : T.Lawful) {lam t1 t2 : K} (hl : 0 < lam)
    (h1 : 0 < t1) (h12 : t1 < t2) : planckPhotlam C T lam t1 < planckPhotlam C T lam t2 := by
  have hc := hC.c
  have h2 : 0 < t2 := lt_trans h1 h12
  have hE2 := expBoltz_sub_one_pos hC hT hl h2
  have hlt := hT.exp_strictMono _ _ (boltzArg_strictAnti_T hC hl h1 h12)
  unfold planckPhotlam
  apply div_lt_div_of_pos_left (by positivity) (by positivity)
  apply mul_lt_mul_of_pos_left _ (by positivity)
  linarith

theorem bbOmega_pos (hC : C.Pos) (hT : T.Lawful) : 0 < bbOmega C T := by
  have := hC.rSun; have := hC.kpc; have := hT.pi_pos
  unfold bbOmega; positivity

/-- energy form = photon form × photon energy `hc/λ` -/
theorem planckFlam_eq (hC : C.Pos) (hT : T.Lawful) {lam temp : K} (hl : 0 < lam) (ht : 0 < temp) :
    photlamToFlam C lam (planckPhotlam C T lam temp) = planckFlam C T lam temp := by
  have hE := expBoltz_sub_one_pos hC hT hl ht
  unfold photlamToFlam planckPhotlam planckFlam
  field_simp

/-! ### element-wise evaluation -/

theorem mapM_ok_of_forall {f : K → Except Err K} {g : K → K} :
    ∀ (w : List K), (∀ x ∈ w, f x = .ok (g x)) → w.mapM f = .ok (w.map g)
  | [], _ => rfl
  | a :: t, h => by
    have ha := h a (by simp)
    have ht := mapM_ok_of_forall t (fun x hx => h x (by simp [hx]))
    simp only [List.mapM_cons, ha, ht, List.map_cons]
    rfl

/-! ### histories -/

theorem thermalHistory_append (C : BBConst K) (T : Transc K) (w : List K) :
    ∀ (s₁ : List (ThStep K)) (th : Thermal K) (s₂ : List (ThStep K)),
      thermalHistory C T w th (s₁ ++ s₂) =
        thermalHistory C T w th s₁ ++ thermalHistory C T w (s₁.foldl Thermal.step th) s₂
  | [], th, s₂ => by simp [thermalHistory]
  | .query :: r, th, s₂ => by
    simp only [List.cons_append, thermalHistory, List.foldl_cons, Thermal.step]
    rw [thermalHistory_append C T w r th s₂]
  | .setTemp v s :: r, th, s₂ => by
    simp only [List.cons_append, thermalHistory, List.foldl_cons]
    rw [thermalHistory_append C T w r _ s₂]
  | .setFill f :: r, th, s₂ => by
    simp only [List.cons_append, thermalHistory, List.foldl_cons]
    rw [thermalHistory_append C T w r _ s₂]
  | .refused :: r, th, s₂ => by
    simp only [List.cons_append, thermalHistory, List.foldl_cons, Thermal.step]
    rw [thermalHistory_append C T w r th s₂]

theorem foldl_step_emis (s : List (ThStep K)) (th : Thermal K) :
    (s.foldl Thermal.step th).emis = th.emis := by
  induction s generalizing th with
  | nil => rfl
  | cons a r ih => rw [List.foldl_cons, ih]; cases a <;> rfl

/-- the temperature after a history whose steps after position `i` assign no temperature -/
def ThStep.isSetTemp : ThStep K → Bool
  | .setTemp _ _ => true
  | _ => false

def ThStep.isSetFill : ThStep K → Bool
  | .setFill _ => true
  | _ => false

theorem foldl_step_temp_of_none (s : List (ThStep K)) (th : Thermal K)
    (h : ∀ a ∈ s, ThStep.isSetTemp a = false) : (s.foldl Thermal.step th).temp = th.temp := by
  induction s generalizing th with
  | nil => rfl
  | cons a r ih =>
    rw [List.foldl_cons, ih _ (fun b hb => h b (by simp [hb]))]
    have := h a (by simp)
    cases a <;> simp [ThStep.isSetTemp] at this <;> rfl

theorem foldl_step_fill_of_none (s : List (ThStep K)) (th : Thermal K)
    (h : ∀ a ∈ s, ThStep.isSetFill a = false) : (s.foldl Thermal.step th).beamFill = th.beamFill := by
  induction s generalizing th with
  | nil => rfl
  | cons a r ih =>
    rw [List.foldl_cons, ih _ (fun b hb => h b (by simp [hb]))]
    have := h a (by simp)
    cases a <;> simp [ThStep.isSetFill] at this <;> rfl

/-! ### header lookup -/

theorem Header.get_nil (key : String) : Header.get ([] : Header K) key = none := rfl

theorem Header.get_cons_eq (k : String) (v : K) (hdr : Header K) (key : String)
    (h : (k.toList == upperKey key) = true) : Header.get ((k, v) :: hdr) key = some v := by
  unfold Header.get; rw [List.find?_cons_of_pos (by simpa using h)]; rfl

theorem Header.get_cons_ne (k : String) (v : K) (hdr : Header K) (key : String)
    (h : (k.toList == upperKey key) = false) : Header.get ((k, v) :: hdr) key = Header.get hdr key := by
  unfold Header.get; rw [List.find?_cons_of_neg (by simpa using h)]

end Synphot.BlackBody
