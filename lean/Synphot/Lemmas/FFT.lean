/-
  Helper lemmas for C20 (model: `Synphot/Core/FFT.lean`).

  * list facts: `rangeSum` as a `Finset` sum, `listMin`/`listMax` specifications, the median of a
    constant list, the regular grid `λ₀ + kΔ` (length, entries, differences, order), linear
    interpolation at a knot, the rescaling `(v − min v)·p/(max v − min v)`;
  * trigonometric sums under `TrigLawful` (any ordered field): the sine series with phase ¼ is the
    real part of the truncated inverse DFT;
  * at `ℝ` with the real `sin`, `cos`, `π`: orthogonality of the `N`-th roots of unity and the exact
    inversion `Re ifft (fft x) = x` (through `ℂ`: geometric sum of `exp (2πi d/N)`).
-/
import Synphot.Core.FFT
import Mathlib.Tactic
import Mathlib.Analysis.SpecialFunctions.Complex.Log
import Mathlib.Algebra.Field.GeomSum

set_option linter.unusedSectionVars false
set_option linter.unusedVariables false

namespace Synphot.FFT
variable {K : Type} [Field K] [LinearOrder K] [IsStrictOrderedRing K]

/-! ### sums -/

theorem rangeSum_eq_sum (n : ℕ) (f : ℕ → K) : rangeSum n f = ∑ i ∈ Finset.range n, f i := by
  unfold rangeSum
  induction n with
  | zero => simp
  | succ n ih =>
    rw [List.range_succ, List.map_append, List.sum_append, ih, Finset.sum_range_succ]; simp

/-! ### minimum and maximum of an array -/

theorem foldl_min_le (t : List K) (a : K) : t.foldl min a ≤ a ∧ ∀ x ∈ t, t.foldl min a ≤ x := by
  induction t generalizing a with
  | nil => simp
  | cons b t ih =>
    simp only [List.foldl_cons]
    obtain ⟨h1, h2⟩ := ih (min a b)
    refine ⟨h1.trans (min_le_left _ _), ?_⟩
    intro x hx
    rcases List.mem_cons.1 hx with rfl | hx
    · exact h1.trans (min_le_right _ _)
    · exact h2 x hx

theorem foldl_min_mem (t : List K) (a : K) : t.foldl min a ∈ a :: t := by
  induction t generalizing a with
  | nil => simp
  | cons b t ih =>
    simp only [List.foldl_cons]
    rcases List.mem_cons.1 (ih (min a b)) with h | h
    · rw [h]; rcases min_choice a b with h' | h' <;> rw [h'] <;> simp
    · exact List.mem_cons_of_mem _ (List.mem_cons_of_mem _ h)

theorem foldl_max_ge (t : List K) (a : K) : a ≤ t.foldl max a ∧ ∀ x ∈ t, x ≤ t.foldl max a := by
  induction t generalizing a with
  | nil => simp
  | cons b t ih =>
    simp only [List.foldl_cons]
    obtain ⟨h1, h2⟩ := ih (max a b)
    refine ⟨(le_max_left _ _).trans h1, ?_⟩
    intro x hx
    rcases List.mem_cons.1 hx with rfl | hx
    · exact (le_max_right _ _).trans h1
    · exact h2 x hx

theorem foldl_max_mem (t : List K) (a : K) : t.foldl max a ∈ a :: t := by
  induction t generalizing a with
  | nil => simp
  | cons b t ih =>
    simp only [List.foldl_cons]
    rcases List.mem_cons.1 (ih (max a b)) with h | h
    · rw [h]; rcases max_choice a b with h' | h' <;> rw [h'] <;> simp
    · exact List.mem_cons_of_mem _ (List.mem_cons_of_mem _ h)

/-- `arr.min()` returns an element of the array that is `≤` every element -/
theorem listMin_spec {l : List K} {m : K} (h : listMin l = .ok m) : m ∈ l ∧ ∀ x ∈ l, m ≤ x := by
  cases l with
  | nil => cases h
  | cons a t =>
    simp only [listMin, Except.ok.injEq] at h
    subst h
    refine ⟨foldl_min_mem t a, ?_⟩
    intro x hx
    rcases List.mem_cons.1 hx with rfl | hx
    · exact (foldl_min_le t _).1
    · exact (foldl_min_le t a).2 x hx

theorem listMax_spec {l : List K} {m : K} (h : listMax l = .ok m) : m ∈ l ∧ ∀ x ∈ l, x ≤ m := by
  cases l with
  | nil => cases h
  | cons a t =>
    simp only [listMax, Except.ok.injEq] at h
    subst h
    refine ⟨foldl_max_mem t a, ?_⟩
    intro x hx
    rcases List.mem_cons.1 hx with rfl | hx
    · exact (foldl_max_ge t _).1
    · exact (foldl_max_ge t a).2 x hx

theorem listMin_eq_of {l : List K} {m : K} (hm : m ∈ l) (hle : ∀ x ∈ l, m ≤ x) : listMin l = .ok m := by
  cases l with
  | nil => cases hm
  | cons a t =>
    have h : listMin (a :: t) = .ok (t.foldl min a) := rfl
    obtain ⟨h1, h2⟩ := listMin_spec h
    rw [h, le_antisymm (h2 m hm) (hle _ h1)]

theorem listMax_eq_of {l : List K} {m : K} (hm : m ∈ l) (hle : ∀ x ∈ l, x ≤ m) : listMax l = .ok m := by
  cases l with
  | nil => cases hm
  | cons a t =>
    have h : listMax (a :: t) = .ok (t.foldl max a) := rfl
    obtain ⟨h1, h2⟩ := listMax_spec h
    rw [h, le_antisymm (hle _ h1) (h2 m hm)]

theorem listMin_isOk {l : List K} (h : l ≠ []) : ∃ m, listMin l = .ok m := by
  cases l with
  | nil => exact absurd rfl h
  | cons a t => exact ⟨_, rfl⟩

theorem listMax_isOk {l : List K} (h : l ≠ []) : ∃ m, listMax l = .ok m := by
  cases l with
  | nil => exact absurd rfl h
  | cons a t => exact ⟨_, rfl⟩

/-! ### median -/

/-- the median of `m ≥ 1` equal values is that value -/
theorem median_replicate (m : ℕ) (hm : 0 < m) (d : K) : median (List.replicate m d) = .ok d := by
  unfold median
  have hperm := List.mergeSort_perm (List.replicate m d) (fun a b => decide (a ≤ b))
  have hs : (List.replicate m d).mergeSort (fun a b => decide (a ≤ b)) = List.replicate m d := by
    rw [List.eq_replicate_iff]
    refine ⟨by rw [hperm.length_eq]; simp, ?_⟩
    intro b hb
    exact List.eq_of_mem_replicate (hperm.mem_iff.1 hb)
  simp only [hs, List.length_replicate]
  rw [if_neg (by omega)]
  split_ifs with h1
  · rw [List.getD_eq_getElem?_getD, List.getElem?_replicate, if_pos (by omega)]; rfl
  · rw [List.getD_eq_getElem?_getD, List.getElem?_replicate, if_pos (by omega),
        List.getD_eq_getElem?_getD, List.getElem?_replicate, if_pos (by omega)]
    simp

/-! ### the regular grid `λ₀ + kΔ` -/

@[simp] theorem sw_length (N : ℕ) (a d : K) : (simplifiedWavelength N a d).length = N := by
  simp [simplifiedWavelength]

theorem sw_getElem? (N : ℕ) (a d : K) (k : ℕ) (hk : k < N) :
    (simplifiedWavelength N a d)[k]? = some (a + (k : K) * d) := by
  simp [simplifiedWavelength, List.getElem?_map, List.getElem?_range hk]

theorem sw_getD (N : ℕ) (a d : K) (k : ℕ) (hk : k < N) :
    (simplifiedWavelength N a d).getD k 0 = a + (k : K) * d := by
  rw [List.getD_eq_getElem?_getD, sw_getElem? N a d k hk]; rfl

theorem sw_mem {N : ℕ} {a d x : K} : x ∈ simplifiedWavelength N a d ↔ ∃ k, k < N ∧ x = a + (k : K) * d := by
  simp only [simplifiedWavelength, List.mem_map, List.mem_range]
  constructor
  · rintro ⟨k, hk, rfl⟩; exact ⟨k, hk, rfl⟩
  · rintro ⟨k, hk, rfl⟩; exact ⟨k, hk, rfl⟩

theorem sw_succ (N : ℕ) (a d : K) :
    simplifiedWavelength (N + 1) a d = a :: simplifiedWavelength N (a + d) d := by
  unfold simplifiedWavelength
  rw [List.range_succ_eq_map, List.map_cons, List.map_map]
  congr 1
  · simp
  · apply List.map_congr_left
    intro k _
    simp only [Function.comp, Nat.cast_succ]; ring

theorem sw_snoc (N : ℕ) (a d : K) :
    simplifiedWavelength (N + 1) a d = simplifiedWavelength N a d ++ [a + (N : K) * d] := by
  unfold simplifiedWavelength
  rw [List.range_succ, List.map_append]; rfl

theorem sw_pairwise (N : ℕ) (a : K) {d : K} (hd : 0 < d) :
    (simplifiedWavelength N a d).Pairwise (· < ·) := by
  unfold simplifiedWavelength
  rw [List.pairwise_map]
  refine (List.pairwise_lt_range (n := N)).imp ?_
  intro i j hij
  have : (i : K) < j := by exact_mod_cast hij
  nlinarith

theorem diffs_sw (N : ℕ) (a d : K) : diffs (simplifiedWavelength N a d) = List.replicate (N - 1) d := by
  induction N generalizing a with
  | zero => rfl
  | succ n ih =>
    rw [sw_succ]
    cases n with
    | zero => rfl
    | succ m =>
      have := ih (a + d)
      rw [sw_succ] at this ⊢
      simp only [diffs] at this ⊢
      rw [this]
      simp [List.replicate_succ]

/-- parameters reported for an exactly regular grid with `n ≥ 2` points and step `Δ ≠ 0` -/
theorem median_diffs_sw (n : ℕ) (hn : 2 ≤ n) (a d : K) (hd : d ≠ 0) :
    median ((diffs (simplifiedWavelength n a d)).filter (fun x => x ≠ 0)) = .ok d := by
  rw [diffs_sw]
  have : (List.replicate (n - 1) d).filter (fun x => decide (x ≠ 0)) = List.replicate (n - 1) d := by
    rw [List.filter_eq_self]; intro x hx; rw [List.eq_of_mem_replicate hx]; simpa using hd
  rw [this]; exact median_replicate _ (by omega) d

theorem listMin_sw (N : ℕ) (hN : 0 < N) (a : K) {d : K} (hd : 0 < d) :
    listMin (simplifiedWavelength N a d) = .ok a := by
  apply listMin_eq_of
  · exact sw_mem.2 ⟨0, hN, by simp⟩
  · intro x hx
    obtain ⟨k, _, rfl⟩ := sw_mem.1 hx
    have : (0 : K) ≤ k := Nat.cast_nonneg k
    nlinarith

/-! ### linear interpolation at a knot -/

theorem interpAsc_knot : ∀ (xs ys : List K), xs.length = ys.length → xs.Pairwise (· < ·) →
    ∀ k, k < xs.length → interpAsc xs ys (xs.getD k 0) = ys.getD k 0
  | [], _, _, _, k, hk => by simp at hk
  | [x0], [], h, _, _, _ => by simp at h
  | [x0], y0 :: ys, _, _, k, hk => by
      have : k = 0 := by simpa using hk
      subst this; simp [interpAsc]
  | x0 :: x1 :: xs, [], h, _, _, _ => by simp at h
  | x0 :: x1 :: xs, [y0], h, _, _, _ => by simp at h
  | x0 :: x1 :: xs, y0 :: y1 :: ys, h, hp, k, hk => by
      have h01 : x0 < x1 := (List.pairwise_cons.1 hp).1 x1 (by simp)
      have hp' : (x1 :: xs).Pairwise (· < ·) := (List.pairwise_cons.1 hp).2
      cases k with
      | zero =>
        simp only [List.getD_cons_zero, interpAsc]
        rw [if_pos h01.le]; simp
      | succ k =>
        simp only [List.getD_cons_succ, interpAsc]
        cases k with
        | zero =>
          simp only [List.getD_cons_zero]
          rw [if_pos le_rfl]
          have : x1 - x0 ≠ 0 := sub_ne_zero.2 h01.ne'
          rw [div_self this]; simp
        | succ k =>
          have hk' : k < xs.length := by simp at hk; omega
          have hgt : x1 < (x1 :: xs).getD (k + 1) 0 := by
            simp only [List.getD_cons_succ]
            rw [List.getD_eq_getElem?_getD, List.getElem?_eq_getElem hk']
            exact (List.pairwise_cons.1 hp').1 _ (List.getElem_mem hk')
          rw [if_neg (not_le.2 hgt)]
          have := interpAsc_knot (x1 :: xs) (y1 :: ys) (by simpa using h) hp' (k + 1) (by simp; omega)
          simpa using this

/-- `np.interp` of a table sampled on the regular grid, at the points of the (longer) simplified grid:
the table's own value at the first `n` points, its last value beyond -/
theorem npInterp_sw (n : ℕ) (hn : 0 < n) (a : K) {d : K} (hd : 0 < d) (ys : List K) (hys : ys.length = n)
    (k : ℕ) :
    npInterp (simplifiedWavelength n a d) ys (a + (k : K) * d) = ys.getD (min k (n - 1)) 0 := by
  obtain ⟨m, rfl⟩ : ∃ m, n = m + 1 := ⟨n - 1, by omega⟩
  have hhead : (simplifiedWavelength (m + 1) a d).headD 0 = a := by rw [sw_succ]; rfl
  have hlast : (simplifiedWavelength (m + 1) a d).getLastD 0 = a + (m : K) * d := by rw [sw_snoc]; simp
  have hk0 : (0 : K) ≤ k := Nat.cast_nonneg k
  unfold npInterp
  rw [hhead, hlast, if_neg (by nlinarith)]
  by_cases hkm : k ≤ m
  · have : (k : K) ≤ m := by exact_mod_cast hkm
    rw [if_neg (by nlinarith)]
    have := interpAsc_knot (simplifiedWavelength (m + 1) a d) ys (by simp [hys]) (sw_pairwise _ a hd) k
      (by simp; omega)
    rw [sw_getD _ _ _ _ (by omega)] at this
    rw [this, min_eq_left (by omega)]
  · have : (m : K) < k := by exact_mod_cast (not_le.1 hkm)
    rw [if_pos (by nlinarith), min_eq_right (by omega)]
    simp only [Nat.add_sub_cancel]
    rw [List.getLastD_eq_getLast?, List.getLast?_eq_getElem?, hys]
    simp [List.getD_eq_getElem?_getD]

/-! ### the rescaling -/

theorem rescale_eq_ok {v : List K} {p lo hi : K} (hlo : listMin v = .ok lo) (hhi : listMax v = .ok hi)
    (hne : hi ≠ lo) : rescale v p = .ok (v.map fun x => (x - lo) * p / (hi - lo)) := by
  unfold rescale
  rw [hlo, hhi]
  simp only [bind, Except.bind, pure, Except.pure]
  rw [if_neg (sub_ne_zero.2 hne)]

theorem rescale_eq_nan {v : List K} {p lo : K} (hlo : listMin v = .ok lo) (hhi : listMax v = .ok lo) :
    rescale v p = .error .nan := by
  unfold rescale
  rw [hlo, hhi]
  simp [bind, Except.bind]

/-- `rescale` succeeds exactly when the array is non-empty and not constant -/
theorem rescale_ok_iff {v : List K} {p : K} {w : List K} (h : rescale v p = .ok w) :
    ∃ lo hi, listMin v = .ok lo ∧ listMax v = .ok hi ∧ lo < hi ∧ w = v.map fun x => (x - lo) * p / (hi - lo) := by
  unfold rescale at h
  cases hlo : listMin v with
  | error e => rw [hlo] at h; cases h
  | ok lo =>
    cases hhi : listMax v with
    | error e => rw [hlo, hhi] at h; cases h
    | ok hi =>
      rw [hlo, hhi] at h
      simp only [bind, Except.bind, pure, Except.pure] at h
      by_cases h0 : hi - lo = 0
      · rw [if_pos h0] at h; cases h
      · rw [if_neg h0] at h
        obtain ⟨hm, hmin⟩ := listMin_spec hlo
        obtain ⟨_, hmax⟩ := listMax_spec hhi
        have hle : lo ≤ hi := hmax lo hm
        refine ⟨lo, hi, rfl, rfl, lt_of_le_of_ne hle (fun e => h0 (by rw [e]; simp)), ?_⟩
        injection h with h; exact h.symm

/-! ### trigonometric sums under the lawful identities (any ordered field) -/

theorem TrigLawful.sin_quarter {T : Transc K} (hT : TrigLawful T) (x : K) :
    T.sin (2 * T.pi * (x + 1 / 4)) = T.cos (2 * T.pi * x) := by
  have : 2 * T.pi * (x + 1 / 4) = 2 * T.pi * x + T.pi / 2 := by ring
  rw [this, hT.sin_add, hT.sin_half_pi, hT.cos_half_pi]; ring

theorem invDftRe_length (T : Transc K) (N : ℕ) (params : List (K × K)) : (invDftRe T N params).length = N := by
  simp [invDftRe]

theorem invDftRe_eq (T : Transc K) (N : ℕ) (params : List (K × K)) (hp : params.length ≤ N) :
    invDftRe T N params = (List.range N).map fun j =>
      rangeSum params.length (fun k =>
        (params.getD k (0, 0)).1 * T.cos (angle T N (j * k)) -
        (params.getD k (0, 0)).2 * T.sin (angle T N (j * k))) / (N : K) := by
  unfold invDftRe
  rw [List.take_of_length_le hp]

/-- the sine series `Σ (Re cᵢ/N) sin(2π(i/N·t + ¼)) − Σ (Im cᵢ/N) sin(2π·i/N·t)` at an integer `t = j`
is the `j`-th entry of `Re ifft`: `(1/N) Σ (Re cᵢ cos(2π ij/N) − Im cᵢ sin(2π ij/N))` -/
theorem analyticM_nat {T : Transc K} (hT : TrigLawful T) (N : ℕ) (params : List (K × K)) (j : ℕ) :
    analyticM T N params (j : K) =
      rangeSum params.length (fun k =>
        (params.getD k (0, 0)).1 * T.cos (angle T N (j * k)) -
        (params.getD k (0, 0)).2 * T.sin (angle T N (j * k))) / (N : K) := by
  unfold analyticM sine1D
  simp only [rangeSum_eq_sum]
  rw [← Finset.sum_sub_distrib, Finset.sum_div]
  apply Finset.sum_congr rfl
  intro i _
  rw [hT.sin_quarter, add_zero]
  have : 2 * T.pi * ((i : K) / (N : K) * (j : K)) = angle T N (j * i) := by
    unfold angle; push_cast; ring
  rw [this]; ring

/-! ### the real trigonometric functions: orthogonality and exact inversion -/

/-- `T`'s `sin`, `cos`, `π` are the real ones -/
def IsRealTrig (T : Transc ℝ) : Prop := T.sin = Real.sin ∧ T.cos = Real.cos ∧ T.pi = Real.pi

theorem IsRealTrig.lawful {T : Transc ℝ} (h : IsRealTrig T) : TrigLawful T := by
  obtain ⟨hs, hc, hp⟩ := h
  refine ⟨?_, ?_, ?_, ?_, ?_, ?_⟩ <;> simp only [hs, hc, hp]
  · exact Real.sin_add
  · exact Real.cos_add
  · exact Real.sin_zero
  · exact Real.cos_zero
  · exact Real.sin_pi_div_two
  · exact Real.cos_pi_div_two

/-- orthogonality of the `N`-th roots of unity, real part:
`Σ_{k<N} cos(2π jk/N − 2π lk/N) = N·[j = l]` for `j, l < N` -/
theorem ortho_cos (N : ℕ) (hN : 0 < N) (j l : ℕ) (hj : j < N) (hl : l < N) :
    ∑ k ∈ Finset.range N,
      Real.cos (2 * Real.pi * ((j * k : ℕ) : ℝ) / N - 2 * Real.pi * ((l * k : ℕ) : ℝ) / N)
      = if j = l then (N : ℝ) else 0 := by
  have hN' : (N : ℂ) ≠ 0 := by exact_mod_cast hN.ne'
  by_cases h : j = l
  · subst h; simp
  · rw [if_neg h]
    set z : ℂ := Complex.exp (2 * Real.pi * Complex.I * ((j : ℂ) - l) / N) with hz
    have hterm : ∀ k : ℕ,
        Real.cos (2 * Real.pi * ((j * k : ℕ) : ℝ) / N - 2 * Real.pi * ((l * k : ℕ) : ℝ) / N)
          = (z ^ k).re := by
      intro k
      rw [hz, ← Complex.exp_nat_mul, ← Complex.exp_ofReal_mul_I_re]
      congr 2
      push_cast
      field_simp
    have hz1 : z ≠ 1 := by
      intro h1
      rw [hz, Complex.exp_eq_one_iff] at h1
      obtain ⟨m, hm⟩ := h1
      have hC : ((j : ℂ) - l) = m * N := by
        field_simp at hm
        rw [hm]; ring
      have hZ : ((j : ℤ) - l) = m * N := by exact_mod_cast hC
      have hdvd : (N : ℤ) ∣ ((j : ℤ) - l) := ⟨m, by rw [hZ, mul_comm]⟩
      have habs : |(j : ℤ) - l| < N := by
        rw [abs_lt]; constructor <;> omega
      have := Int.eq_zero_of_abs_lt_dvd hdvd habs
      omega
    have hzN : z ^ N = 1 := by
      rw [hz, ← Complex.exp_nat_mul]
      have : (N : ℂ) * (2 * Real.pi * Complex.I * ((j : ℂ) - l) / N)
          = (((j : ℤ) - l : ℤ) : ℂ) * (2 * Real.pi * Complex.I) := by
        push_cast; field_simp
      rw [this]; exact Complex.exp_int_mul_two_pi_mul_I _
    simp_rw [hterm]
    rw [← Complex.re_sum, geom_sum_eq hz1, hzN]; simp

theorem fftTrunc_all (T : Transc K) (x : List K) (m : ℕ) (hm : x.length ≤ m) :
    fftTrunc T x m = (List.range x.length).map (dftCoeff T x) := by
  unfold fftTrunc
  rw [List.take_of_length_le (by simpa using hm)]

/-- **exact inversion**: with every term kept, the real part of the inverse DFT of the DFT of a real
array is the array itself -/
theorem invDftRe_fft {T : Transc ℝ} (hT : IsRealTrig T) (x : List ℝ) (hx : x ≠ []) (m : ℕ)
    (hm : x.length ≤ m) : invDftRe T x.length (fftTrunc T x m) = x := by
  obtain ⟨hs, hc, hp⟩ := hT
  have hN : 0 < x.length := List.length_pos_iff.2 hx
  rw [fftTrunc_all T x m hm, invDftRe_eq _ _ _ (by simp)]
  apply List.ext_getElem (by simp)
  intro j h1 h2
  simp only [List.getElem_map, List.getElem_range, List.length_map, List.length_range]
  rw [rangeSum_eq_sum]
  have hcoef : ∀ k ∈ Finset.range x.length,
      (((List.range x.length).map (dftCoeff T x)).getD k (0, 0)).1 * T.cos (angle T x.length (j * k)) -
      (((List.range x.length).map (dftCoeff T x)).getD k (0, 0)).2 * T.sin (angle T x.length (j * k))
      = ∑ l ∈ Finset.range x.length, x.getD l 0 *
          Real.cos (2 * Real.pi * ((j * k : ℕ) : ℝ) / x.length - 2 * Real.pi * ((l * k : ℕ) : ℝ) / x.length) := by
    intro k hk
    have hk' : k < x.length := Finset.mem_range.1 hk
    rw [List.getD_eq_getElem?_getD, List.getElem?_map, List.getElem?_range hk']
    simp only [Option.map_some, Option.getD_some, dftCoeff, rangeSum_eq_sum, angle, hs, hc, hp]
    rw [Finset.sum_mul, neg_mul, sub_neg_eq_add, Finset.sum_mul, ← Finset.sum_add_distrib]
    apply Finset.sum_congr rfl
    intro l _
    rw [Real.cos_sub]; ring
  rw [Finset.sum_congr rfl hcoef, Finset.sum_comm]
  have hl : ∀ l ∈ Finset.range x.length,
      ∑ k ∈ Finset.range x.length, x.getD l 0 *
          Real.cos (2 * Real.pi * ((j * k : ℕ) : ℝ) / x.length - 2 * Real.pi * ((l * k : ℕ) : ℝ) / x.length)
        = if j = l then x.getD l 0 * x.length else 0 := by
    intro l hl
    rw [← Finset.mul_sum, ortho_cos x.length hN j l h2 (Finset.mem_range.1 hl)]
    split_ifs <;> simp
  rw [Finset.sum_congr rfl hl, Finset.sum_ite_eq, if_pos (Finset.mem_range.2 h2)]
  have : (x.length : ℝ) ≠ 0 := by exact_mod_cast hN.ne'
  rw [mul_div_assoc, div_self this, mul_one, List.getD_eq_getElem?_getD, List.getElem?_eq_getElem h2]
  rfl

/-! ### the reconstructed table as a bandpass -/

/-- the `Empirical1D` built from non-negative values on the regular grid returns the table's value at
every grid point -/
theorem reconstructed_knot (N : ℕ) (a : K) {d : K} (hd : 0 < d) (ys : List K) (hys : ys.length = N)
    (hnn : ∀ y ∈ ys, 0 ≤ y) (k : ℕ) (hk : k < N) :
    reconstructed (simplifiedWavelength N a d, ys) (a + (k : K) * d) = ys.getD k 0 := by
  obtain ⟨m, rfl⟩ : ∃ m, N = m + 1 := ⟨N - 1, by omega⟩
  have hm0 : (0 : K) ≤ (m : K) * d := mul_nonneg (Nat.cast_nonneg m) hd.le
  have hh : (simplifiedWavelength (m + 1) a d).head? = some a := by rw [sw_succ]; rfl
  have hl : (simplifiedWavelength (m + 1) a d).getLast? = some (a + (m : K) * d) := by rw [sw_snoc]; simp
  have hhead : (simplifiedWavelength (m + 1) a d).headD 0 = a := by rw [sw_succ]; rfl
  have hlast : (simplifiedWavelength (m + 1) a d).getLastD 0 = a + (m : K) * d := by rw [sw_snoc]; simp
  have hclip : ys.map (fun v => if v < 0 then 0 else v) = ys := by
    conv_rhs => rw [← List.map_id ys]
    apply List.map_congr_left
    intro y hy; rw [if_neg (not_lt.2 (hnn y hy))]; rfl
  have hkm : (k : K) ≤ m := by exact_mod_cast (show k ≤ m by omega)
  have hk0 : (0 : K) ≤ k := Nat.cast_nonneg k
  have hknot := interpAsc_knot (simplifiedWavelength (m + 1) a d) ys (by simp [hys]) (sw_pairwise _ a hd) k
      (by simp; omega)
  rw [sw_getD _ _ _ _ hk] at hknot
  have hyk : 0 ≤ ys.getD k 0 := by
    rw [List.getD_eq_getElem?_getD, List.getElem?_eq_getElem (by omega)]
    exact hnn _ (List.getElem_mem _)
  have hdesc : isDesc (simplifiedWavelength (m + 1) a d) = false := by
    unfold isDesc
    rw [hh, hl]
    simp only [decide_eq_false_iff_not, not_lt]
    linarith
  unfold reconstructed mkTable
  simp only [hdesc, Bool.false_eq_true, if_false, clipNeg, hclip]
  unfold Table.eval
  simp only [hhead, hlast, Bool.false_eq_true, if_false]
  have h1 : ¬ (a + (k : K) * d < a) := by nlinarith
  have h2 : ¬ (a + (k : K) * d > a + (m : K) * d) := by nlinarith
  rw [if_neg h1, if_neg h2, hknot, if_neg (not_lt.2 hyk)]

/-! ### `filter_to_fft`, `filter_from_fft` unfolded -/

theorem filterToFft_ok {T : Transc K} {bp : K → K} {wl : List K} {N nTerms : ℕ} {r : Params K}
    (h : filterToFft T bp wl N nTerms = .ok r) :
    ∃ lam0 delta trMax, listMin wl = .ok lam0 ∧
      median ((diffs wl).filter (fun d => d ≠ 0)) = .ok delta ∧
      listMax (wl.map bp) = .ok trMax ∧ N ≠ 0 ∧
      r = { n := wl.length, lam0 := lam0, delta := delta, trMax := trMax,
            fft := fftTrunc T ((simplifiedWavelength N lam0 delta).map (npInterp wl (wl.map bp))) nTerms } := by
  unfold filterToFft at h
  dsimp only at h
  cases h1 : listMin wl with
  | error e => rw [h1] at h; cases h
  | ok lam0 =>
    cases h2 : median ((diffs wl).filter (fun d => d ≠ 0)) with
    | error e => rw [h1, h2] at h; cases h
    | ok delta =>
      cases h3 : listMax (wl.map bp) with
      | error e => rw [h1, h2, h3] at h; cases h
      | ok trMax =>
        rw [h1, h2, h3] at h
        simp only [bind, Except.bind, pure, Except.pure] at h
        by_cases hN : N = 0
        · rw [if_pos hN] at h; cases h
        · rw [if_neg hN] at h
          injection h with h
          exact ⟨lam0, delta, trMax, rfl, rfl, rfl, hN, h.symm⟩

theorem filterToFft_eq {T : Transc K} {bp : K → K} {wl : List K} {N nTerms : ℕ} {lam0 delta trMax : K}
    (h1 : listMin wl = .ok lam0) (h2 : median ((diffs wl).filter (fun d => d ≠ 0)) = .ok delta)
    (h3 : listMax (wl.map bp) = .ok trMax) (hN : N ≠ 0) :
    filterToFft T bp wl N nTerms = .ok
      { n := wl.length, lam0 := lam0, delta := delta, trMax := trMax,
        fft := fftTrunc T ((simplifiedWavelength N lam0 delta).map (npInterp wl (wl.map bp))) nTerms } := by
  unfold filterToFft
  dsimp only
  rw [h1, h2, h3]
  simp only [bind, Except.bind, pure, Except.pure]
  rw [if_neg hN]

theorem filterFromFft_eq (T : Transc K) {N : ℕ} (hN : N ≠ 0) (lam0 : K) {delta : K} (hd : delta ≠ 0) (trMax : K)
    (params : List (K × K)) :
    filterFromFft T N lam0 delta trMax params =
      (rescale (invDftRe T N params) trMax).map (fun vals => (simplifiedWavelength N lam0 delta, vals)) := by
  unfold filterFromFft
  rw [if_neg hd, if_neg hN]
  cases rescale (invDftRe T N params) trMax <;> rfl

theorem fftTrunc_length (T : Transc K) (x : List K) (m : ℕ) : (fftTrunc T x m).length = min m x.length := by
  simp [fftTrunc]

/-- the interpolated transmittance on the simplified grid of `N` points, for a table on the regular grid of
`n` points: the table, then its last value repeated -/
theorem interp_on_sw (n : ℕ) (hn : 0 < n) (a : K) {d : K} (hd : 0 < d) (bp : K → K) (N : ℕ) :
    (simplifiedWavelength N a d).map (npInterp (simplifiedWavelength n a d) ((simplifiedWavelength n a d).map bp))
      = (List.range N).map (fun k => bp (a + ((min k (n - 1) : ℕ) : K) * d)) := by
  unfold simplifiedWavelength
  rw [List.map_map]
  apply List.map_congr_left
  intro k _
  simp only [Function.comp]
  have := npInterp_sw n hn a hd ((simplifiedWavelength n a d).map bp) (by simp) k
  unfold simplifiedWavelength at this
  rw [this, List.getD_eq_getElem?_getD, List.getElem?_map, List.getElem?_map,
    List.getElem?_range (by omega)]
  rfl

end Synphot.FFT
