"""Rebuild of the C bin integrator from /repo/synphot/src/synphot_utils.c into a scratch directory.

The in-tree synphot_utils*.so is a build artefact that does not follow an edit of the C source; checks that
speak about "the compiled bin integrator" therefore compile the current source themselves (-O0 and -O2)."""
import hashlib
import importlib.util
import os
import subprocess
import sys
import sysconfig
import tempfile

from . import core

_CACHE = {}


def build(opt='-O2'):
    """returns the `calcbinflux` function of a freshly compiled extension (cached per source hash and flag)"""
    src = os.path.join(core.REPO, 'synphot', 'src', 'synphot_utils.c')
    with open(src, 'rb') as f:
        h = hashlib.sha256(f.read() + opt.encode()).hexdigest()[:16]
    if h in _CACHE:
        return _CACHE[h]
    import numpy as np
    d = os.path.join(tempfile.gettempdir(), 'verif_cext_%s_%d' % (h, os.getuid()))
    os.makedirs(d, exist_ok=True)
    so = os.path.join(d, 'synphot_utils' + (sysconfig.get_config_var('EXT_SUFFIX') or '.so'))
    if not os.path.exists(so):
        tmp = so + '.%d.tmp' % os.getpid()
        cmd = ['gcc', '-shared', '-fPIC', opt, '-I' + sysconfig.get_paths()['include'], '-I' + np.get_include(),
               '-I' + os.path.join(core.REPO, 'synphot', 'include'), src, '-o', tmp]
        p = subprocess.run(cmd, capture_output=True, text=True)
        if p.returncode != 0:
            raise RuntimeError('cannot compile synphot_utils.c: ' + p.stderr[-1500:])
        os.replace(tmp, so)
    spec = importlib.util.spec_from_file_location('synphot_utils', so)
    mod = importlib.util.module_from_spec(spec)
    spec.loader.exec_module(mod)
    _CACHE[h] = mod.calcbinflux
    return mod.calcbinflux
