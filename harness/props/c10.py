"""C10  Normalisation reaches the requested value and preserves spectral shape."""
import math
from fractions import Fraction as F

from ..core import NP as np

from .. import core, objects as O
from ..core import q, qs, guarded, same, unq
from . import c07, c08

PAR = c08.PAR
TARGET_UNITS = ['flam', 'fnu', 'jy', 'mjy', 'stmag', 'abmag', 'photlam', 'photnu', 'count', 'obmag', 'vegamag']
MAGS = {'stmag', 'abmag', 'obmag', 'vegamag'}


def vega_prim():
    pts = [F(900), F(2000), F(4000), F(6000), F(8000), F(12000)]
    vals = [F(3), F(5), F(8), F(6), F(4), F(2)]
    return {'prim': 'source', 'leaf': {'leaf': 'empirical', 'pts': qs(pts), 'vals': qs(vals), 'keep_neg': False}}


def target_quantity(case):
    v = O.fl(case['target'])
    return v * O.astropy_flux_unit(case['unit_name'])


def impl_call(case):
    def f():
        sp = O.build_prim(case['src'])
        band = O.build_prim(case['band'])
        for pr in case.get('prior', []):
            # what the same operand objects were asked before must not matter: results discarded
            try:
                w = np.array([O.fl(x) for x in pr['wl']])
                obj = band if pr['on'] == 'band' else sp
                if pr['m'] == 'call':
                    obj(w)
                else:
                    getattr(obj, pr['m'])(wavelengths=w)
            except Exception:   # noqa
                pass
        xs = np.array([O.fl(x) for x in case['xs']])
        before = sp(xs).value.copy()
        kw = {'force': case['force']}
        if case.get('area') is not None:
            kw['area'] = O.fl(case['area'])
        vega = None
        if case.get('vega'):
            vega = O.build_prim(case['vega'])
            kw['vegaspec'] = vega
        if case.get('wl') is not None:
            kw['wavelengths'] = np.array([O.fl(x) for x in case['wl']])
        was_extrap = None
        if type(sp.model).__name__ == 'Empirical1D' or (hasattr(sp, '_model') and type(sp._model).__name__ == 'Empirical1D'):
            was_extrap = sp._model.fill_value is np.nan
        new = sp.normalize(target_quantity(case), band=band, **kw)
        after = sp(xs).value
        out = {'factor': None, 'warned': 'PartialRenorm' in new.warnings, 'vals': new(xs).value}
        nz = np.nonzero(before)[0]
        ratios = (new(xs).value[nz] / before[nz]) if nz.size else np.array([])
        x = {'before': before, 'operand_after': after, 'ratios': ratios, 'z_new': float(new.z)}
        if was_extrap is not None:
            x['extrap_before'], x['extrap_after'] = bool(was_extrap), bool(sp._model.fill_value is np.nan)
        # post-condition: observe the normalised spectrum through the same band
        from synphot import Observation
        unit = O.astropy_flux_unit(case['unit_name'])

        def post():
            obs = Observation(new, band, force='extrap')
            ekw = {}
            if case.get('area') is not None:
                ekw['area'] = O.fl(case['area'])
            if vega is not None:
                ekw['vegaspec'] = vega
            if case.get('wl') is not None:
                ekw['wavelengths'] = np.array([O.fl(x) for x in case['wl']])
            return obs.effstim(unit, **ekw).value
        x['post_effstim'] = guarded(post)

        def photon_rate():
            # photon rate through the band of the normalised spectrum vs a spectrum flat at the target
            from synphot import SourceSpectrum
            from synphot.models import ConstFlux1D
            flat = SourceSpectrum(ConstFlux1D, amplitude=target_quantity(case))
            w = None if case.get('wl') is None else np.array([O.fl(x) for x in case['wl']])
            a = (new * band).integrate(wavelengths=w, integration_type='trapezoid').value
            b = (flat * band).integrate(wavelengths=w, integration_type='trapezoid').value
            return [a, b]
        x['photon_rate'] = guarded(photon_rate)
        out['_x'] = x
        return out
    out = guarded(f)
    if case.get('_placed'):
        from . import c06
        out['_facts'] = guarded(lambda: c06.facts({'band': case['band'], 'other': case['src']}))
    elif not case.get('force'):
        from . import c06       # only for recognising a tie on the threshold in compare()
        out['_tie_facts'] = guarded(lambda: c06.facts({'band': case['band'], 'other': case['src']}))
    return out


def model_case(case):
    c = {'op': 'normalize', 'const': case['const'], 'src': case['src'], 'band': case['band'], 'target': case['target'],
         'unit': O.model_flux_unit(case['unit_name']), 'wl': case.get('wl'), 'force': case['force'], 'area': case.get('area'),
         'vega': case.get('vega'), 'xs': case['xs']}
    c.update(PAR)
    return c


def compare(case, o, m):
    o2 = {k: v for k, v in o.items() if not k.startswith('_')}
    if 'ok' in o2:
        o2 = {'ok': {k: v for k, v in o2['ok'].items() if not k.startswith('_') and k != 'factor'}}
    m2 = m
    if 'ok' in m:
        m2 = {'ok': {k: v for k, v in m['ok'].items() if k != 'factor'}}
        if isinstance(m2['ok'].get('vals'), dict):
            return None         # the model cannot sample (division by zero in a composite): nothing to compare
    if (o2.get('err') == 'PartialOverlap') != (m2.get('err') == 'PartialOverlap'):
        # the excluded fraction sits on the 1 % threshold itself (exactly 1/100 in exact arithmetic, one rounding either
        # way in binary64): which side of `<` it falls on is rounding, not the admission rule
        fx = (o.get('_facts') or o.get('_tie_facts') or {}).get('ok')
        if fx and fx.get('total') and abs(fx['excl_coarse'] / fx['total'] - 0.01) <= 1e-12:
            return None
    scale = max([abs(v) for v in (o2.get('ok', {}).get('vals') or [0.0])] + [0.0])
    return same(o2, m2, rtol=1e-8, atol=1e-12 * scale)


def neg_source(case):
    lf = case['src']['leaf']
    return lf['leaf'] == 'empirical' and lf.get('keep_neg') and any(unq(v) < 0 for v in lf['vals'])


def oracle_admission(rep, case, out):
    """disjoint always raises; an insufficiently overlapping band raises unless forced; judged from the excluded
    throughput measured two ways (only where both agree about the 1 % threshold)"""
    fx = out.get('_facts', {}).get('ok')
    if not fx or fx.get('a') is None or fx.get('b') is None:
        return
    a1, a2 = fx['a']
    b1, b2 = fx['b']
    u = case['unit_name']
    missing = (u in ('count', 'obmag') and case.get('area') is None) or (u == 'vegamag' and not case.get('vega'))
    if a2 < b1 or b2 < a1:
        if out.get('err') != 'DisjointError' and not (missing and out.get('err') == 'SynphotError'):
            rep.oracle_fail('normalize:admission:disjoint:%s' % (out.get('err') or 'returned'),
                            'the band is disjoint from the source (force=%s): DisjointError expected' % case['force'], case, out)
        return
    if (a1 >= b1 and a2 <= b2) or not fx.get('total'):
        return
    fr = [fx['excl_coarse'] / fx['total'], fx['excl_fine'] / fx['total']]
    if all(x > 0.01 * (1 + 1e-9) for x in fr) and not case['force']:
        if out.get('err') != 'PartialOverlap' and not (missing and out.get('err') == 'SynphotError'):
            rep.oracle_fail('normalize:admission:insufficient_overlap:%s' % (out.get('err') or 'returned'),
                            '%.4g of the band throughput lies outside the source and force=False: PartialOverlap expected' % fr[0], case, out)


def oracle(rep, case, out):
    oracle_admission(rep, case, out)
    u = case['unit_name']
    needs_area = u in ('count', 'obmag')
    needs_vega = u == 'vegamag'
    if 'err' in out:
        e = out['err']
        legit = e in ('DisjointError', 'PartialOverlap', 'SynphotError', 'NotImplementedError', 'ZeroWavelength', 'UndefinedBinset')
        if e == 'ValueError' and (c07.c07_zero_band(case) or case.get('wl') is not None):
            legit = True     # the band has no positive sample on the given wavelengths: nothing to normalise in
        if e == 'NaN':
            legit = True
        if not legit:
            rep.oracle_fail('normalize:%s:%s' % (u, e), 'normalize raised %s: %s' % (e, out.get('msg', '')[:100]), case, out)
        return
    if (needs_area and case.get('area') is None) or (needs_vega and not case.get('vega')):
        rep.oracle_fail('normalize:%s:missing_input_returned' % u, 'a spectrum was returned although area / Vega is missing', case, out)
        return
    o = out['ok']
    x = o['_x']
    r = x['ratios']
    if len(r):
        k = r[0]
        if not (k > 0) or any(abs(ri - k) > 1e-9 * abs(k) for ri in r):
            rep.oracle_fail('normalize:%s:not_scalar_multiple' % u, 'new/old is not one positive constant: %s' % (list(r)[:5],), case, out)
    # operand unchanged (apart from the documented switch to extrapolation on a partial overlap)
    changed = any(a != b for a, b in zip(x['before'], x['operand_after']))
    if changed:
        allowed = x.get('extrap_before') is False and x.get('extrap_after') is True and o['warned']
        if not allowed:
            rep.oracle_fail('normalize:%s:operand_changed' % u, 'the original spectrum samples differently after normalize', case, out)
    if x.get('extrap_before') is False and x.get('extrap_after') is True and not o['warned']:
        rep.oracle_fail('normalize:%s:silent_extrapolation_switch' % u, 'operand switched to extrapolation without partial overlap', case, out)
    pe = x['post_effstim']
    tgt = O.fl(case['target'])
    if any(b < 0 for b in x['before']) or neg_source(case):
        return      # band integrals are unsigned areas: the post-condition is stated for non-negative flux
    xw = ':explicit_wavelengths' if case.get('wl') is not None else ''
    if u in ('photlam', 'photnu'):
        pr = x['photon_rate']
        if 'ok' in pr and abs(pr['ok'][0] - pr['ok'][1]) > 1e-8 * abs(pr['ok'][1]):
            rep.oracle_fail('normalize:%s%s:photon_rate' % (u, xw), 'photon rate %r vs flat-at-target %r' % tuple(pr['ok']), case, out)
        return
    if 'err' in pe:
        if pe['err'] in ('PartialOverlap', 'DisjointError', 'SynphotError', 'NaN', 'UndefinedBinset', 'ZeroWavelength'):
            return
        rep.oracle_fail('normalize:%s:post_effstim:%s' % (u, pe['err']), 'cannot observe the normalised spectrum', case, out)
        return
    tol = 1e-8 * abs(tgt) + (1e-8 if u in MAGS else 0)
    if abs(pe['ok'] - tgt) > tol:
        rep.oracle_fail('normalize:%s%s:target_not_reached' % (u, xw), 'effstim of the normalised spectrum is %r, target %r' % (pe['ok'], tgt), case, out)


def gen_placed(rng):
    """an untapered source table and a bandpass table in a graded or disjoint placement (C06's families)"""
    from . import c06
    if rng.random() < 0.7:
        c = c06.gen_grading(rng, None, 1)[0]
        return c['other'], c['band'], 'graded:' + c['_kind']
    def run_of(start, n, lo_step, hi_step, sign=1):
        pts = [start]
        for _ in range(n - 1):
            pts.append(pts[-1] + sign * O.dy(rng, lo_step, hi_step, 0))
        return sorted(pts)
    bpts = run_of(O.dy(rng, 3000, 5000, 0), rng.randint(2, 5), 50, 400)
    gap = O.dy(rng, 1, 2000, 0)
    if rng.random() < 0.5:
        spts = run_of(bpts[-1] + gap, rng.randint(2, 4), 20, 300)
    else:
        spts = run_of(bpts[0] - gap, rng.randint(2, 4), 20, 300, sign=-1)
    band = {'prim': 'bandpass', 'leaf': c06.table_on(bpts, False, rng)}
    src = {'prim': 'source', 'leaf': c06.table_on(spts, False, rng)}
    return O.fill_ss(src), band, 'disjoint'


def gen_case(rng, K, thorough):
    src, band = c07.gen_pair(rng)
    placed = None
    if rng.random() < 0.25:
        src, band, placed = gen_placed(rng)
    r = rng.random() if placed is None else 1.0
    if r < 0.2:
        src = O.gen_prim(rng, 'source', transcendental=False)
        O.fill_ss(src)
    if band['leaf']['leaf'] == 'empirical' and all(unq(v) == 0 for v in band['leaf']['vals']):
        band['leaf']['vals'][1 if len(band['leaf']['vals']) > 2 else 0] = '1/2'
    u = rng.choice(TARGET_UNITS)
    if u in MAGS:
        tgt = O.dy(rng, -10, 30, 3)
    else:
        tgt = F(2) ** rng.randint(-70, 40) * rng.choice([1, 3, 5])
    c = {'op': 'normalize', 'const': K, 'src': src, 'band': band, 'target': q(tgt), 'unit_name': u,
         'force': rng.random() < 0.5, 'wl': None, 'area': None, 'vega': None,
         'xs': qs(O.sample_grid(rng, 16, 800, 12000))}
    if u in ('count', 'obmag') and rng.random() < 0.92 or rng.random() < 0.05:
        c['area'] = q(10 ** rng.uniform(1, 5))
    if u == 'vegamag' and rng.random() < 0.92 or rng.random() < 0.05:
        c['vega'] = vega_prim()
    if rng.random() < 0.2 and placed is None:
        c['wl'] = qs(O.sample_grid(rng, rng.randint(3, 12), 1500, 9000))
    if placed is not None:
        c['_placed'] = placed
    if rng.random() < 0.4:
        # earlier queries on the very objects handed to normalize(), on explicit coarse grids
        c['prior'] = [{'on': rng.choice(['band', 'band', 'src']), 'm': None,
                       'wl': qs(O.sample_grid(rng, rng.randint(2, 6), 1500, 9000))} for _ in range(rng.randint(1, 2))]
        for pr in c['prior']:
            pr['m'] = rng.choice(['pivot', 'avgwave', 'barlam', 'integrate', 'call']) if pr['on'] == 'band' else rng.choice(['integrate', 'avgwave', 'call'])
    return c


def run(rep):
    thorough = rep.tier == 'thorough'
    rng = rep.rng('c10')
    K = O.consts()
    cases = core.load_corpus('C10')
    for c in cases:
        c['const'] = K
    cases += [gen_case(rng, K, thorough) for _ in range(15000 if thorough else 1500)]
    rep.rule = ('sources (tables, constants, boxes, trapezoids, power laws, redshifted and flux-conserving redshifted) x bandpasses '
                '(tables, boxes) x targets in FLAM, FNU, Jy, mJy, STmag, ABmag, PHOTLAM, PHOTNU, count, OBMAG (with/without area), '
                'VEGAMAG (with/without Vega) over 110 binary decades x force x explicit / implicit sampling wavelengths; 40% after 1-2 earlier queries (pivot, avgwave, barlam, integrate, sampling on explicit coarse grids) on the same operand objects; a quarter on graded / disjoint placements. '
                'Non-trivial: a normalised spectrum was returned.')

    def tags(c, o):
        return ['unit:' + c['unit_name'], 'outcome:' + (o.get('err') or 'ok'), 'force:%s' % c['force']]

    def nontrivial(c, o):
        return 'ok' in o
    core.run_cases(rep, cases, impl_call, model_case, oracle, tags_fn=tags, nontrivial_fn=nontrivial, compare_fn=compare)
    rep.samples = [s if not isinstance(s, dict) else {k: v for k, v in s.items() if k != 'const'} for s in rep.samples]


def search(rep, mismatches):
    sub = core.Report(rep.pid, 'thorough', rep.seed + 1)
    rng = sub.rng('c10-search')
    K = O.consts()
    cases = [gen_case(rng, K, False) for _ in range(3000)]
    impl = core.pmap(impl_call, cases)
    for c, o in zip(cases, impl):
        oracle(sub, c, o)
    rep.notes.append('directed search after mismatch: %d cases, %d oracle failures' % (len(cases), len(sub.oracle_failures)))
    return sub.oracle_failures


def replay(rep, payload):
    c = payload['case']
    c['const'] = O.consts()
    core.run_cases(rep, [c], impl_call, model_case, oracle, compare_fn=compare)
