/-
  C03 — Tabulated spectra interpolate linearly and extrapolate only by the stated rule.

  `Table` is the state of an `Empirical1D` after construction, `Table.eval` its `evaluate`,
  `mkTable` its constructor, `taperPts` the table `BaseSpectrum.taper` builds.
  All theorems: every ordered field, every table length, any spacing.
-/
import Synphot.Lemmas.Interp
import Synphot.Lemmas.C03x
import Synphot.Core.Observation

set_option linter.unusedSectionVars false
set_option linter.unusedVariables false
set_option linter.unusedSimpArgs false

namespace Synphot.C03
open Synphot
variable {K : Type} [Field K] [LinearOrder K] [IsStrictOrderedRing K]

/-- well-formed table: strictly ascending points (what `mkTable` produces from any strictly
monotone input), as many values as points -/
structure WF (t : Table K) : Prop where
  asc : StrictAsc t.pts
  len : t.vals.length = t.pts.length

/-- negative values were clipped at construction unless the caller kept them -/
def Clipped (t : Table K) : Prop := t.keepNeg = true ∨ ∀ y ∈ t.vals, 0 ≤ y

/-- between two neighbouring knots the spectrum is the straight line through them -/
theorem eval_is_chord (t : Table K) (hw : WF t) (hc : Clipped t) (s : (K × K) × (K × K))
    (hs : s ∈ segs t.pts t.vals) (x : K) (h1 : s.1.1 ≤ x) (h2 : x ≤ s.2.1) :
    t.eval x = chord s x := by
  have hk := segs_mem_knots t.pts t.vals s hs
  have hlt := segs_strict t.pts t.vals hw.asc s hs
  have hx0 : t.pts.headD 0 ≤ x := by
    cases hp : t.pts with
    | nil => rw [hp] at hk; simp at hk
    | cons p0 ps =>
      simp only [List.headD_cons]
      exact le_trans (strictAsc_head_le_mem p0 ps (hp ▸ hw.asc) s.1.1 (hp ▸ hk.1)) h1
  have hxn : x ≤ t.pts.getLastD 0 := le_trans h2 (strictAsc_mem_le_last t.pts hw.asc 0 _ hk.2)
  have hraw := interpAsc_chord t.pts t.vals hw.asc s hs x h1 h2
  unfold Table.eval
  simp only [not_lt.mpr hx0, not_lt.mpr hxn, if_false, hraw]
  rcases hc with hc | hc
  · simp [hc]
  · have hv := segs_mem_vals t.pts t.vals s hs
    have hb := (chord_between s hlt x h1 h2).1
    have : 0 ≤ chord s x := le_trans (le_min (hc _ hv.1) (hc _ hv.2)) hb
    cases t.keepNeg <;> simp [not_lt.mpr this]

/-- the tabulated value at every tabulated wavelength (left knot of a segment) -/
theorem eval_knot_left (t : Table K) (hw : WF t) (hc : Clipped t) (s : (K × K) × (K × K))
    (hs : s ∈ segs t.pts t.vals) : t.eval s.1.1 = s.1.2 := by
  have hlt := segs_strict t.pts t.vals hw.asc s hs
  rw [eval_is_chord t hw hc s hs s.1.1 (le_refl _) (le_of_lt hlt), chord_left]

/-- … and at the right knot (covers the last tabulated wavelength) -/
theorem eval_knot_right (t : Table K) (hw : WF t) (hc : Clipped t) (s : (K × K) × (K × K))
    (hs : s ∈ segs t.pts t.vals) : t.eval s.2.1 = s.2.2 := by
  have hlt := segs_strict t.pts t.vals hw.asc s hs
  rw [eval_is_chord t hw hc s hs s.2.1 (le_of_lt hlt) (le_refl _), chord_right s hlt]

/-- hence never outside the two neighbouring values -/
theorem eval_between (t : Table K) (hw : WF t) (hc : Clipped t) (s : (K × K) × (K × K))
    (hs : s ∈ segs t.pts t.vals) (x : K) (h1 : s.1.1 ≤ x) (h2 : x ≤ s.2.1) :
    min s.1.2 s.2.2 ≤ t.eval x ∧ t.eval x ≤ max s.1.2 s.2.2 := by
  rw [eval_is_chord t hw hc s hs x h1 h2]
  exact chord_between s (segs_strict t.pts t.vals hw.asc s hs) x h1 h2

/-- outside the table, below: the first value (nearest end) unless the table is zero-ended -/
theorem eval_below (t : Table K) (x : K) (hx : x < t.pts.headD 0)
    (h0 : t.keepNeg = true ∨ 0 ≤ t.vals.headD 0) :
    t.eval x = if t.fillNaN then t.vals.headD 0 else 0 := by
  unfold Table.eval
  dsimp only
  rw [if_pos hx]
  by_cases hk : t.keepNeg = true
  · rw [if_pos hk]
  · rw [if_neg hk]
    have h0' : 0 ≤ t.vals.headD 0 := by
      rcases h0 with h0 | h0
      · exact absurd h0 hk
      · exact h0
    by_cases hf : t.fillNaN = true
    · rw [if_pos hf, if_neg (not_lt.mpr h0')]
    · rw [if_neg hf, if_neg (lt_irrefl 0)]

/-- outside the table, above: the last value unless the table is zero-ended -/
theorem eval_above (t : Table K) (x : K) (hx0 : ¬ x < t.pts.headD 0) (hx : t.pts.getLastD 0 < x)
    (h0 : t.keepNeg = true ∨ 0 ≤ t.vals.getLastD 0) :
    t.eval x = if t.fillNaN then t.vals.getLastD 0 else 0 := by
  unfold Table.eval
  dsimp only
  rw [if_neg hx0, if_pos hx]
  by_cases hk : t.keepNeg = true
  · rw [if_pos hk]
  · rw [if_neg hk]
    have h0' : 0 ≤ t.vals.getLastD 0 := by
      rcases h0 with h0 | h0
      · exact absurd h0 hk
      · exact h0
    by_cases hf : t.fillNaN = true
    · rw [if_pos hf, if_neg (not_lt.mpr h0')]
    · rw [if_neg hf, if_neg (lt_irrefl 0)]

/-- unless the caller asked to keep them, no sampled value is negative -/
theorem eval_nonneg (t : Table K) (hk : t.keepNeg = false) (x : K) : 0 ≤ t.eval x := by
  unfold Table.eval
  simp only [hk, Bool.false_eq_true, if_false]
  split_ifs <;> first | exact le_refl _ | (rename_i h; exact not_lt.mp h)

/-- construction: negative entries are replaced by zero and the warning is recorded exactly
when there was one; with `keep_neg` the values are untouched and no warning is recorded -/
theorem clipNeg_spec (keepNeg : Bool) (y : List K) :
    (keepNeg = true → clipNeg keepNeg y = (y, false)) ∧
    (keepNeg = false → (∀ v ∈ (clipNeg keepNeg y).1, 0 ≤ v) ∧
        ((clipNeg keepNeg y).2 = true ↔ ∃ v ∈ y, v < 0) ∧
        (clipNeg keepNeg y).1 = y.map (fun v => max v 0)) := by
  constructor
  · intro h; simp [clipNeg, h]
  · intro h
    simp only [clipNeg, h, Bool.false_eq_true, if_false]
    refine ⟨?_, ?_, ?_⟩
    · intro v hv
      rw [List.mem_map] at hv
      obtain ⟨u, _, rfl⟩ := hv
      split_ifs with hu
      · exact le_refl _
      · exact not_lt.mp hu
    · simp [List.any_eq_true]
    · apply List.map_congr_left
      intro v _
      split_ifs with hv
      · exact (max_eq_right (le_of_lt hv)).symm
      · exact (max_eq_left (not_lt.mp hv)).symm

/-- the fill rule: zero fill exactly for zero-ended (tapered) tables -/
theorem mkTable_fill (x y : List K) (k : Bool) :
    (mkTable x y k).1.fillNaN = !(mkTable x y k).1.isTapered := by
  simp [mkTable, Table.isTapered]

/-- a table given in descending order is the same table as its ascending reversal -/
theorem mkTable_order (a b : K) (l : List K) (y : List K) (k : Bool)
    (hs : StrictDesc (a :: b :: l)) :
    mkTable (a :: b :: l) y k = mkTable (a :: b :: l).reverse y.reverse k := by
  have hlt := strictDesc_last_lt_head a b l hs
  have hl1 : (a :: b :: l).getLast? = some ((a :: b :: l).getLastD a) := by
    rw [List.getLastD_eq_getLast?]
    cases h : (a :: b :: l).getLast? with
    | none => simp at h
    | some v => rfl
  have hd1 : isDesc (a :: b :: l) = true := by
    unfold isDesc; rw [hl1]
    show decide ((a :: b :: l).getLastD a < a) = true
    exact decide_eq_true hlt
  have hrev_head : (a :: b :: l).reverse.head? = some ((a :: b :: l).getLastD a) := by
    rw [List.head?_reverse, hl1]
  have hrev_last : (a :: b :: l).reverse.getLast? = some a := by
    rw [List.getLast?_reverse]; rfl
  have hd2 : isDesc (a :: b :: l).reverse = false := by
    unfold isDesc; rw [hrev_head, hrev_last]
    show decide (a < (a :: b :: l).getLastD a) = false
    exact decide_eq_false (not_lt.mpr (le_of_lt hlt))
  unfold mkTable
  simp only [hd1, hd2, if_true, Bool.false_eq_true, if_false]

/-! ### tapering -/

/-- `taper` adds exactly one point beyond each non-zero end, with value zero, at `x₀²/x₁`
(resp. `xₙ²/xₙ₋₁`), and none at a zero end; all other points and values are the sampled ones -/
theorem taper_spec (x0 x1 : K) (xs : List K) (first last : K) (f : K → K) :
    let x := x0 :: x1 :: xs
    let w1 := x0 ^ 2 / x1
    let w2 := x.getLastD x0 ^ 2 / (x.dropLast).getLastD x0
    taperPts x first last f =
      if first = 0 ∧ last = 0 then none
      else some ((if first ≠ 0 then [w1] else []) ++ x ++ (if last ≠ 0 then [w2] else []),
                 (if first ≠ 0 then [0] else []) ++ x.map f ++ (if last ≠ 0 then [0] else [])) := by
  intro x w1 w2
  simp only [taperPts, x, w1, w2]
  by_cases h : first = 0 ∧ last = 0
  · simp [h]
  · rw [if_neg h, if_neg h]
    by_cases h1 : first = 0 <;> by_cases h2 : last = 0 <;> simp [h1, h2]

/-- the added lower point lies below the table and the added upper point above it
(positive ascending wavelengths) -/
theorem taper_points_outside (x0 x1 xl2 xl : K) (h0 : 0 < x0) (h01 : x0 < x1) (hl2 : 0 < xl2)
    (hl : xl2 < xl) : x0 ^ 2 / x1 < x0 ∧ xl < xl ^ 2 / xl2 := by
  constructor
  · rw [div_lt_iff₀ (lt_trans h0 h01)]; nlinarith
  · rw [lt_div_iff₀ hl2]; nlinarith

/-- a tapered table is zero-ended, so tapering it again returns the spectrum itself -/
theorem taper_idem (x : List K) (f : K → K) : taperPts x 0 0 f = none := by
  unfold taperPts
  cases x with
  | nil => rfl
  | cons a l => cases l <;> simp

/-! ### tapering leaves the inside of the table alone -/

/-- inside its range a well-formed table evaluates to the interpolant -/
theorem eval_inside_eq_interp (t : Table K) (hc : Clipped t) (x : K)
    (h0 : t.pts.headD 0 ≤ x) (hn : x ≤ t.pts.getLastD 0)
    (hnn : t.keepNeg = true ∨ 0 ≤ interpAsc t.pts t.vals x) : t.eval x = interpAsc t.pts t.vals x := by
  unfold Table.eval
  dsimp only
  rw [if_neg (not_lt.mpr h0), if_neg (not_lt.mpr hn)]
  rcases hnn with hk | hk
  · rw [if_pos hk]
  · by_cases hk' : t.keepNeg = true
    · rw [if_pos hk']
    · rw [if_neg hk', if_neg (not_lt.mpr hk)]

/-- sampled at its own knots a table returns its values -/
theorem eval_at_knots (t : Table K) (hw : WF t) (hc : Clipped t) : t.pts.map t.eval = t.vals := by
  have hk := interpAsc_at_knots t.pts t.vals hw.asc hw.len.symm
  rw [← hk]
  apply List.map_congr_left
  intro x hx
  have hx0 : t.pts.headD 0 ≤ x := by
    cases hp : t.pts with
    | nil => rw [hp] at hx; simp at hx
    | cons p0 ps => simp only [List.headD_cons]; exact strictAsc_head_le_mem p0 ps (hp ▸ hw.asc) x (hp ▸ hx)
  have hxn : x ≤ t.pts.getLastD 0 := strictAsc_mem_le_last t.pts hw.asc 0 x hx
  apply eval_inside_eq_interp t hc x hx0 hxn
  rcases hc with hc | hc
  · exact Or.inl hc
  · exact Or.inr (interpAsc_nonneg t.pts t.vals hc hw.asc x hx0)

/-- the constructor on already ascending points and already admissible values stores them as given -/
theorem mkTable_of_asc (px py : List K) (k : Bool) (hs : StrictAsc px) (hc : k = true ∨ ∀ v ∈ py, 0 ≤ v) :
    (mkTable px py k).1 = { pts := px, vals := py, keepNeg := k, fillNaN := !endsZero py } := by
  unfold mkTable
  simp only [isDesc_false_of_asc px hs, Bool.false_eq_true, if_false, clipNeg_id k py hc]

/-- two tables with the same `keep_neg` whose interpolants agree at a point inside both ranges agree there -/
theorem eval_eq_of_interp (t t' : Table K) (hk : t'.keepNeg = t.keepNeg) (x : K)
    (h0 : t.pts.headD 0 ≤ x) (hn : x ≤ t.pts.getLastD 0) (h0' : t'.pts.headD 0 ≤ x) (hn' : x ≤ t'.pts.getLastD 0)
    (hi : interpAsc t'.pts t'.vals x = interpAsc t.pts t.vals x) : t'.eval x = t.eval x := by
  unfold Table.eval; dsimp only
  rw [if_neg (not_lt.mpr h0), if_neg (not_lt.mpr hn), if_neg (not_lt.mpr h0'), if_neg (not_lt.mpr hn'), hi, hk]

/-- `taper()` of a tabulated spectrum on positive wavelengths: inside the original range every value is
unchanged, the new table is zero-ended (so it extrapolates with zero), and it keeps `keep_neg` -/
theorem taper_inside_unchanged (t : Table K) (x0 x1 : K) (xs : List K) (hp : t.pts = x0 :: x1 :: xs)
    (hw : WF t) (hc : Clipped t) (hpos : 0 < x0) (t' : Table K) (ht : t.taper = some t') :
    (∀ x, x0 ≤ x → x ≤ t.pts.getLastD 0 → t'.eval x = t.eval x) ∧ t'.isTapered = true ∧
      t'.keepNeg = t.keepNeg := by
  have hasc : StrictAsc (x0 :: x1 :: xs) := hp ▸ hw.asc
  have h01 : x0 < x1 := hasc.1
  obtain ⟨hlt, hge⟩ := dropLast_last_lt x0 x1 xs hasc
  have hout := taper_points_outside x0 x1 _ _ hpos h01 (lt_of_lt_of_le hpos hge) hlt
  have hknots : (x0 :: x1 :: xs).map t.eval = t.vals := hp ▸ eval_at_knots t hw hc
  have hlen : (x0 :: x1 :: xs).length = t.vals.length := by rw [← hp]; exact hw.len.symm
  have hspec := taper_spec x0 x1 xs (t.vals.headD 0) (t.vals.getLastD 0) t.eval
  dsimp only at hspec
  unfold Table.taper at ht
  rw [hp, hspec, hknots] at ht
  obtain ⟨y0, y1, ys, hv⟩ : ∃ y0 y1 ys, t.vals = y0 :: y1 :: ys := by
    match hvv : t.vals, hlen with
    | y0 :: y1 :: ys, _ => exact ⟨y0, y1, ys, rfl⟩
    | [_], h => simp at h
    | [], h => simp at h
  have hlys : xs.length = ys.length := by rw [hv] at hlen; simpa using hlen
  have hzero : t.keepNeg = true ∨ ∀ v ∈ t.vals, 0 ≤ v := hc
  have hL : t.pts.getLastD 0 = (x0 :: x1 :: xs).getLastD x0 := by rw [hp]; simp only [List.getLastD_cons]
  set w1 := x0 ^ 2 / x1 with hw1
  set w2 := (x0 :: x1 :: xs).getLastD x0 ^ 2 / (x0 :: x1 :: xs).dropLast.getLastD x0 with hw2
  have hlastlt : ∀ y ∈ (x0 :: x1 :: xs).getLast?, y < w2 := by
    intro y hy
    have : (x0 :: x1 :: xs).getLastD x0 = y := by rw [List.getLastD_eq_getLast?, hy]; rfl
    rw [← this]; exact hout.2
  have hascA : StrictAsc ((x0 :: x1 :: xs) ++ [w2]) := strictAsc_append_one _ _ hasc hlastlt
  have hascP : StrictAsc (w1 :: x0 :: x1 :: xs) := strictAsc_cons_one _ _ hasc (by simp; exact hout.1)
  have hascPA : StrictAsc (w1 :: ((x0 :: x1 :: xs) ++ [w2])) :=
    strictAsc_cons_one _ _ hascA (by simp; exact hout.1)
  have hnnA : t.keepNeg = true ∨ ∀ v ∈ t.vals ++ [0], 0 ≤ v := by
    rcases hzero with h | h
    · exact Or.inl h
    · right; intro v hv'; rcases List.mem_append.mp hv' with h' | h'
      · exact h v h'
      · simp at h'; rw [h']
  have hnnP : t.keepNeg = true ∨ ∀ v ∈ (0 : K) :: t.vals, 0 ≤ v := by
    rcases hzero with h | h
    · exact Or.inl h
    · right; intro v hv'; rcases List.mem_cons.mp hv' with h' | h'
      · rw [h']
      · exact h v h'
  have hnnPA : t.keepNeg = true ∨ ∀ v ∈ (0 : K) :: (t.vals ++ [0]), 0 ≤ v := by
    rcases hnnA with h | h
    · exact Or.inl h
    · right; intro v hv'; rcases List.mem_cons.mp hv' with h' | h'
      · rw [h']
      · exact h v h'
  -- interpolants agree on the original range
  have hiA : ∀ x, x ≤ (x0 :: x1 :: xs).getLastD x0 →
      interpAsc ((x0 :: x1 :: xs) ++ [w2]) (t.vals ++ [0]) x = interpAsc (x0 :: x1 :: xs) t.vals x := by
    intro x hx
    apply interpAsc_append w2 0 (x0 :: x1 :: xs) t.vals hlen (by simp) x
    simpa only [List.getLastD_cons] using hx
  have hiP : ∀ x, x0 ≤ x →
      interpAsc (w1 :: x0 :: x1 :: xs) (0 :: t.vals) x = interpAsc (x0 :: x1 :: xs) t.vals x := by
    intro x hx
    rw [hv]; exact interpAsc_prepend w1 0 x0 x1 y0 y1 xs ys hout.1 h01 x hx
  have hiPA : ∀ x, x0 ≤ x → x ≤ (x0 :: x1 :: xs).getLastD x0 →
      interpAsc (w1 :: ((x0 :: x1 :: xs) ++ [w2])) (0 :: (t.vals ++ [0])) x = interpAsc (x0 :: x1 :: xs) t.vals x := by
    intro x hx hxn
    rw [← hiA x hxn, hv]
    exact interpAsc_prepend w1 0 x0 x1 y0 y1 (xs ++ [w2]) (ys ++ [0]) hout.1 h01 x hx
  by_cases h1 : t.vals.headD 0 = 0 <;> by_cases h2 : t.vals.getLastD 0 = 0
  · rw [if_pos ⟨h1, h2⟩] at ht; simp at ht
  · simp only [h1, h2, and_false, if_false, ne_eq, not_true_eq_false, not_false_eq_true, if_true,
      List.nil_append, Option.some.injEq] at ht
    rw [mkTable_of_asc _ _ _ hascA hnnA] at ht
    subst ht
    refine ⟨?_, ?_, rfl⟩
    · intro x hx0 hxn
      rw [hL] at hxn
      refine eval_eq_of_interp t _ ?_ x (by rw [hp]; simpa using hx0) (by rw [hL]; exact hxn) ?_ ?_ ?_
      · rfl
      · simpa using hx0
      · simp only [List.getLastD_concat]; exact le_of_lt (lt_of_le_of_lt hxn hout.2)
      · simp only []; rw [hp]; exact hiA x hxn
    · have hl : (t.vals ++ [(0 : K)]).getLast? = some 0 := by simp
      have hh : (t.vals ++ [(0 : K)]).head? = some y0 := by rw [hv]; rfl
      have h1' : y0 = 0 := by rw [hv] at h1; simpa using h1
      simp only [Table.isTapered, endsZero, hl, hh, h1']; simp
  · simp only [h1, h2, false_and, if_false, ne_eq, not_true_eq_false, not_false_eq_true, if_true,
      List.append_nil, List.singleton_append, Option.some.injEq] at ht
    rw [mkTable_of_asc _ _ _ hascP hnnP] at ht
    subst ht
    refine ⟨?_, ?_, rfl⟩
    · intro x hx0 hxn
      refine eval_eq_of_interp t _ ?_ x (by rw [hp]; simpa using hx0) hxn ?_ ?_ ?_
      · rfl
      · simp only [List.headD_cons]; exact le_trans (le_of_lt hout.1) hx0
      · rw [hL] at hxn; simpa only [List.getLastD_cons] using hxn
      · simp only []; rw [hp]; exact hiP x hx0
    · simp only [Table.isTapered, endsZero]
      have : (0 :: t.vals).getLast? = some (t.vals.getLastD 0) := by
        rw [hv, List.getLast?_cons_cons, List.getLastD_eq_getLast?,
          List.getLast?_eq_getLast_of_ne_nil (by simp)]; rfl
      simp only [Table.isTapered, endsZero, List.head?_cons, this, h2]; simp
  · simp only [h1, h2, false_and, and_false, if_false, ne_eq, not_true_eq_false, not_false_eq_true, if_true,
      List.singleton_append, Option.some.injEq] at ht
    replace ht : (mkTable (w1 :: ((x0 :: x1 :: xs) ++ [w2])) (0 :: (t.vals ++ [0])) t.keepNeg).1 = t' := ht
    rw [mkTable_of_asc _ _ _ hascPA hnnPA] at ht
    subst ht
    refine ⟨?_, ?_, rfl⟩
    · intro x hx0 hxn
      rw [hL] at hxn
      refine eval_eq_of_interp t _ ?_ x (by rw [hp]; simpa using hx0) (by rw [hL]; exact hxn) ?_ ?_ ?_
      · rfl
      · simp only [List.headD_cons]; exact le_trans (le_of_lt hout.1) hx0
      · have : (w1 :: ((x0 :: x1 :: xs) ++ [w2])).getLastD 0 = w2 := by
          rw [List.getLastD_cons, List.getLastD_concat]
        simp only []; rw [this]; exact le_of_lt (lt_of_le_of_lt hxn hout.2)
      · simp only []; rw [hp]; exact hiPA x hx0 hxn
    · have hl : ((0 : K) :: (t.vals ++ [(0 : K)])).getLast? = some 0 := by
        have : (0 : K) :: (t.vals ++ [(0 : K)]) = ((0 : K) :: t.vals) ++ [0] := rfl
        rw [this, List.getLast?_concat]
      simp only [Table.isTapered, endsZero, List.head?_cons, hl]; simp

/-- non-vacuity of `taper_inside_unchanged`: a concrete table with two non-zero ends is tapered to a table
with one more point on each side -/
example : (Table.taper (mkTable ([2, 4, 8] : List ℚ) [5, 1, 4] false).1).map (·.pts) = some [1, 2, 4, 8, 16] := by
  decide +kernel

/-- non-vacuity: a concrete descending table with a negative entry -/
example : (mkTable ([3, 2, 1] : List ℚ) [5, -1, 4] false).1.pts = [1, 2, 3] ∧
    (mkTable ([3, 2, 1] : List ℚ) [5, -1, 4] false).1.vals = [4, 0, 5] ∧
    (mkTable ([3, 2, 1] : List ℚ) [5, -1, 4] false).2 = true := by decide

/-! ## deepening (round 6): constructor, array evaluation, continuity, extrapolation rule, taper -/

/-! ### (a) the constructor -/

/-- for strictly monotone points (either order) and as many values, the constructed table is well-formed,
clipped and carries the caller's `keep_neg`: the hypotheses `WF`, `Clipped` of every theorem above are what
`Empirical1D.__init__` establishes -/
theorem mkTable_wf (x y : List K) (k : Bool) (h : StrictAsc x ∨ StrictDesc x) (hl : y.length = x.length) :
    WF (mkTable x y k).1 ∧ Clipped (mkTable x y k).1 ∧ (mkTable x y k).1.keepNeg = k :=
  ⟨⟨C03x.mkTable_strictAsc x y k h, C03x.mkTable_len x y k h hl⟩, C03x.mkTable_admissible x y k, rfl⟩

/-- a descending table is stored ascending with the values reversed ALONG with the points; the stored
values are the clipped values reversed, which is the same array as the reversed values clipped (clipping
happens after the reversal in the code; being element-wise it commutes with it) -/
theorem mkTable_descending (a b : K) (l y : List K) (k : Bool) (hs : StrictDesc (a :: b :: l)) :
    (mkTable (a :: b :: l) y k).1.pts = (a :: b :: l).reverse ∧
    (mkTable (a :: b :: l) y k).1.vals = (clipNeg k y.reverse).1 ∧
    (clipNeg k y.reverse).1 = (clipNeg k y).1.reverse ∧
    (mkTable (a :: b :: l) y k).2 = (clipNeg k y).2 := by
  rw [C03x.mkTable_desc a b l y k hs, C03x.clipNeg_reverse]
  exact ⟨rfl, rfl, rfl, rfl⟩

/-- the `NegativeFlux` warning is recorded iff `keep_neg` is false and some given value is negative —
for every input, in either order -/
theorem mkTable_warning_iff (x y : List K) (k : Bool) :
    (mkTable x y k).2 = true ↔ (k = false ∧ ∃ v ∈ y, v < 0) := C03x.mkTable_flag x y k

/-- end to end, either order: at the caller's `i`-th wavelength the spectrum returns the caller's `i`-th
value (zero instead of a negative one unless `keep_neg`) — the value stays attached to its wavelength -/
theorem mkTable_eval_inputs (x y : List K) (k : Bool) (h : StrictAsc x ∨ StrictDesc x)
    (hl : y.length = x.length) :
    x.map (mkTable x y k).1.eval = (clipNeg k y).1 ∧
    ∀ (i : Nat) (xi yi : K), x[i]? = some xi → y[i]? = some yi →
      (mkTable x y k).1.eval xi = if k = false ∧ yi < 0 then 0 else yi := by
  obtain ⟨hw, hc, _⟩ := mkTable_wf x y k h hl
  have hk := eval_at_knots _ hw hc
  have hmap : x.map (mkTable x y k).1.eval = (clipNeg k y).1 := by
    rcases C03x.mkTable_mono x y k h with ⟨h1, h2⟩ | ⟨h1, h2, _⟩
    · rw [h1, h2] at hk; exact hk
    · rw [h1, h2, List.map_reverse] at hk
      exact List.reverse_injective hk
  refine ⟨hmap, ?_⟩
  intro i xi yi hxi hyi
  have h1 : (x.map (mkTable x y k).1.eval)[i]? = some ((mkTable x y k).1.eval xi) := by
    rw [List.getElem?_map, hxi]; rfl
  rw [hmap, C03x.clipNeg_getElem?, hyi] at h1
  exact (Option.some.inj h1).symm

/-! ### (b) evaluation is a function of the wavelength alone -/

/-- evaluating an array is evaluating each wavelength: the result at a position depends on the wavelength
there and on nothing else (not on the length, the end points, the order or the other entries of the query
array — a "native grid" shortcut keyed on any of those would break this) -/
theorem sample_pointwise (E : Env K) (t : Table K) (xs : List K) :
    sampleTree E (.leaf (.table t)) xs = .ok (xs.map t.eval) := by
  unfold sampleTree
  induction xs with
  | nil => rfl
  | cons a l ih => rw [List.mapM_cons, ih]; rfl

/-- … hence the same wavelength gives the same value in any two query arrays, at any positions -/
theorem sample_independent_of_array (E : Env K) (t : Table K) (xs xs' vs vs' : List K) (i j : Nat) (x : K)
    (h : sampleTree E (.leaf (.table t)) xs = .ok vs) (h' : sampleTree E (.leaf (.table t)) xs' = .ok vs')
    (hi : xs[i]? = some x) (hj : xs'[j]? = some x) :
    vs[i]? = some (t.eval x) ∧ vs'[j]? = some (t.eval x) := by
  rw [sample_pointwise] at h h'
  cases h; cases h'
  constructor
  · rw [List.getElem?_map, hi]; rfl
  · rw [List.getElem?_map, hj]; rfl

/-! ### (c) continuity: on the segments and across the knots -/

/-- every wavelength of the table's closed range lies on a segment between two neighbouring knots, where
the spectrum is the chord (so `eval_is_chord`, `eval_between` speak about every in-range wavelength) -/
theorem eval_inside_on_segment (t : Table K) (hw : WF t) (hc : Clipped t) (h2 : 2 ≤ t.pts.length) (x : K)
    (h0 : t.pts.headD 0 ≤ x) (hn : x ≤ t.pts.getLastD 0) :
    ∃ s ∈ segs t.pts t.vals, s.1.1 ≤ x ∧ x ≤ s.2.1 ∧ t.eval x = chord s x ∧
      min s.1.2 s.2.2 ≤ t.eval x ∧ t.eval x ≤ max s.1.2 s.2.2 := by
  obtain ⟨s, hs, h1, h2'⟩ := C03x.segs_cover t.pts t.vals hw.len.symm h2 x h0 hn
  exact ⟨s, hs, h1, h2', eval_is_chord t hw hc s hs x h1 h2', eval_between t hw hc s hs x h1 h2'⟩

/-- two equal neighbouring values: the spectrum is constant on the whole segment between them -/
theorem eval_const_segment (t : Table K) (hw : WF t) (hc : Clipped t) (s : (K × K) × (K × K))
    (hs : s ∈ segs t.pts t.vals) (he : s.1.2 = s.2.2) (x : K) (h1 : s.1.1 ≤ x) (h2 : x ≤ s.2.1) :
    t.eval x = s.1.2 := by
  rw [eval_is_chord t hw hc s hs x h1 h2, C03x.chord_const s he]

/-- on a segment two values differ by slope × distance (Lipschitz with the segment's slope: no jump at or
between the knots; together with `eval_knot_left/right` of the neighbouring segments, continuity across
the knots) -/
theorem eval_segment_diff (t : Table K) (hw : WF t) (hc : Clipped t) (s : (K × K) × (K × K))
    (hs : s ∈ segs t.pts t.vals) (x x' : K) (h1 : s.1.1 ≤ x) (h2 : x ≤ s.2.1) (h1' : s.1.1 ≤ x')
    (h2' : x' ≤ s.2.1) :
    t.eval x - t.eval x' = (s.2.2 - s.1.2) / (s.2.1 - s.1.1) * (x - x') := by
  rw [eval_is_chord t hw hc s hs x h1 h2, eval_is_chord t hw hc s hs x' h1' h2', C03x.chord_diff]

/-! ### (d) the extrapolation rule -/

/-- a table as constructed (fill value chosen by `is_tapered`) returns, outside its range, the NEAREST END
VALUE — always: the zero fill of a zero-ended table is the special case where both end values are 0 -/
theorem extrap_nearest_end (x y : List K) (k : Bool) (q : K) :
    (q < (mkTable x y k).1.pts.headD 0 → (mkTable x y k).1.eval q = (mkTable x y k).1.vals.headD 0) ∧
    (¬ q < (mkTable x y k).1.pts.headD 0 → (mkTable x y k).1.pts.getLastD 0 < q →
      (mkTable x y k).1.eval q = (mkTable x y k).1.vals.getLastD 0) := by
  set t := (mkTable x y k).1 with ht
  have hfill : t.fillNaN = !endsZero t.vals := by rw [ht]; simp [mkTable]
  have hadm : t.keepNeg = true ∨ ∀ v ∈ t.vals, 0 ≤ v := C03x.mkTable_admissible x y k
  have hhead : t.keepNeg = true ∨ 0 ≤ t.vals.headD 0 := by
    rcases hadm with h | h
    · exact Or.inl h
    · right
      cases hv : t.vals with
      | nil => simp
      | cons a l => simp only [List.headD_cons]; exact h a (by rw [hv]; exact List.mem_cons_self)
  have hlast : t.keepNeg = true ∨ 0 ≤ t.vals.getLastD 0 := by
    rcases hadm with h | h
    · exact Or.inl h
    · right
      cases hv : t.vals with
      | nil => simp
      | cons a l =>
        have hne : (a :: l) ≠ [] := by simp
        have : (a :: l).getLastD 0 = (a :: l).getLast hne := by
          rw [List.getLastD_eq_getLast?, List.getLast?_eq_getLast_of_ne_nil hne]; rfl
        rw [this]; exact h _ (by rw [hv]; exact List.getLast_mem hne)
  have hends : endsZero t.vals = true → t.vals.headD 0 = 0 ∧ t.vals.getLastD 0 = 0 := by
    intro he
    have hne : t.vals ≠ [] := by
      intro h; rw [h] at he; exact absurd he (by simp [C03x.endsZero_nil])
    exact (C03x.endsZero_iff _ hne).mp he
  constructor
  · intro hq
    rw [eval_below t q hq hhead, hfill]
    cases he : endsZero t.vals
    · simp
    · rw [(hends he).1]; simp
  · intro hq0 hq
    rw [eval_above t q hq0 hq hlast, hfill]
    cases he : endsZero t.vals
    · simp
    · rw [(hends he).2]; simp

/-- NO tolerance: outside the table the spectrum is zero everywhere iff both end values of the stored
(ordered, clipped) table are EXACTLY zero; an end value of any magnitude other than 0 is extrapolated -/
theorem extrap_zero_iff_ends_zero (x y : List K) (k : Bool) (h : StrictAsc x ∨ StrictDesc x)
    (hl : y.length = x.length) (hne : x ≠ []) :
    (∀ q, (q < (mkTable x y k).1.pts.headD 0 ∨ (mkTable x y k).1.pts.getLastD 0 < q) →
        (mkTable x y k).1.eval q = 0) ↔
      ((mkTable x y k).1.vals.headD 0 = 0 ∧ (mkTable x y k).1.vals.getLastD 0 = 0) := by
  obtain ⟨hw, _, _⟩ := mkTable_wf x y k h hl
  set t := (mkTable x y k).1 with ht
  have hpne : t.pts ≠ [] := by
    rcases C03x.mkTable_mono x y k h with ⟨h1, _⟩ | ⟨h1, _, _⟩
    · rw [← ht] at h1; rw [h1]; exact hne
    · rw [← ht] at h1; rw [h1]; simpa using hne
  have hle : t.pts.headD 0 ≤ t.pts.getLastD 0 := by
    cases hp : t.pts with
    | nil => exact absurd hp hpne
    | cons a l => exact strictAsc_mem_le_last (a :: l) (hp ▸ hw.asc) 0 a List.mem_cons_self
  constructor
  · intro hz
    constructor
    · have hq : t.pts.headD 0 - 1 < t.pts.headD 0 := by linarith
      rw [← (extrap_nearest_end x y k _).1 hq]; exact hz _ (Or.inl hq)
    · have hq : t.pts.getLastD 0 < t.pts.getLastD 0 + 1 := by linarith
      have hq0 : ¬ t.pts.getLastD 0 + 1 < t.pts.headD 0 := by linarith
      rw [← (extrap_nearest_end x y k _).2 hq0 hq]; exact hz _ (Or.inr hq)
  · rintro ⟨h1, h2⟩ q hq
    by_cases hq0 : q < t.pts.headD 0
    · rw [(extrap_nearest_end x y k q).1 hq0, h1]
    · rcases hq with hq | hq
      · exact absurd hq hq0
      · rw [(extrap_nearest_end x y k q).2 hq0 hq, h2]

/-- `force_extrapolation` changes nothing inside the table's range -/
theorem forceExtrap_inside (t : Table K) (x : K) (h0 : t.pts.headD 0 ≤ x) (hn : x ≤ t.pts.getLastD 0) :
    t.forceExtrap.eval x = t.eval x := by
  have hn' : ¬ x > t.pts.getLastD 0 := not_lt.mpr hn
  simp only [Table.eval, Table.forceExtrap, if_neg (not_lt.mpr h0), if_neg hn']

/-- … is idempotent, and touches nothing but the fill rule -/
theorem forceExtrap_idem (t : Table K) :
    t.forceExtrap.forceExtrap = t.forceExtrap ∧ t.forceExtrap.pts = t.pts ∧ t.forceExtrap.vals = t.vals ∧
      t.forceExtrap.keepNeg = t.keepNeg ∧ t.forceExtrap.fillNaN = true :=
  ⟨rfl, rfl, rfl, rfl, rfl⟩

/-- … and outside the range makes the spectrum the nearest end value, whatever the fill rule was -/
theorem forceExtrap_outside (t : Table K) (hc : Clipped t) (x : K) :
    (x < t.pts.headD 0 → t.forceExtrap.eval x = t.vals.headD 0) ∧
    (¬ x < t.pts.headD 0 → t.pts.getLastD 0 < x → t.forceExtrap.eval x = t.vals.getLastD 0) := by
  have hhead : t.keepNeg = true ∨ 0 ≤ t.vals.headD 0 := by
    rcases hc with h | h
    · exact Or.inl h
    · right
      cases hv : t.vals with
      | nil => simp
      | cons a l => simp only [List.headD_cons]; exact h a (by rw [hv]; exact List.mem_cons_self)
  have hlast : t.keepNeg = true ∨ 0 ≤ t.vals.getLastD 0 := by
    rcases hc with h | h
    · exact Or.inl h
    · right
      cases hv : t.vals with
      | nil => simp
      | cons a l =>
        have hne : (a :: l) ≠ [] := by simp
        have : (a :: l).getLastD 0 = (a :: l).getLast hne := by
          rw [List.getLastD_eq_getLast?, List.getLast?_eq_getLast_of_ne_nil hne]; rfl
        rw [this]; exact h _ (by rw [hv]; exact List.getLast_mem hne)
  constructor
  · intro hx
    have := eval_below t.forceExtrap x hx hhead
    simpa [Table.forceExtrap] using this
  · intro hx0 hx
    have := eval_above t.forceExtrap x hx0 hx hlast
    simpa [Table.forceExtrap] using this

/-- on a table as constructed `force_extrapolation` changes no value at all (nearest-end extrapolation of a
zero-ended table is the zero fill) -/
theorem forceExtrap_constructed (x y : List K) (k : Bool) (q : K) :
    (mkTable x y k).1.forceExtrap.eval q = (mkTable x y k).1.eval q := by
  have hc : Clipped (mkTable x y k).1 := C03x.mkTable_admissible x y k
  by_cases h0 : q < (mkTable x y k).1.pts.headD 0
  · rw [(forceExtrap_outside _ hc q).1 h0, (extrap_nearest_end x y k q).1 h0]
  · by_cases hn : (mkTable x y k).1.pts.getLastD 0 < q
    · rw [(forceExtrap_outside _ hc q).2 h0 hn, (extrap_nearest_end x y k q).2 h0 hn]
    · exact forceExtrap_inside _ q (not_lt.mp h0) (not_lt.mp hn)

/-! ### (e) taper -/

/-- `taper()` returns the spectrum itself exactly when both end values of the table are zero (two or more
points) -/
theorem taper_none_iff (t : Table K) (x0 x1 : K) (xs : List K) (hp : t.pts = x0 :: x1 :: xs) :
    t.taper = none ↔ (t.vals.headD 0 = 0 ∧ t.vals.getLastD 0 = 0) := by
  have hspec := taper_spec x0 x1 xs (t.vals.headD 0) (t.vals.getLastD 0) t.eval
  dsimp only at hspec
  unfold Table.taper
  rw [hp, hspec]
  by_cases h : t.vals.headD 0 = 0 ∧ t.vals.getLastD 0 = 0
  · rw [if_pos h]; exact ⟨fun _ => h, fun _ => rfl⟩
  · rw [if_neg h]
    exact ⟨fun h' => by simp at h', fun h' => absurd h' h⟩

/-- the FULL statement at z = 0: the table `taper()` builds from a well-formed table on positive
wavelengths — one point `x₀²/x₁` (resp. `xₙ²/xₙ₋₁`) with value 0 beyond each end whose value is NOT
EXACTLY zero (a negative end value kept by `keep_neg` included), the original points and values in between,
`keep_neg` propagated, zero fill -/
theorem taper_table (t : Table K) (x0 x1 : K) (xs : List K) (hp : t.pts = x0 :: x1 :: xs)
    (hw : WF t) (hc : Clipped t) (hpos : 0 < x0) :
    t.taper = if t.vals.headD 0 = 0 ∧ t.vals.getLastD 0 = 0 then none else
      some { pts := (if t.vals.headD 0 ≠ 0 then [x0 ^ 2 / x1] else []) ++ t.pts ++
                      (if t.vals.getLastD 0 ≠ 0 then
                        [t.pts.getLastD 0 ^ 2 / t.pts.dropLast.getLastD 0] else []),
             vals := (if t.vals.headD 0 ≠ 0 then [0] else []) ++ t.vals ++
                      (if t.vals.getLastD 0 ≠ 0 then [0] else []),
             keepNeg := t.keepNeg, fillNaN := false } := by
  have hasc : StrictAsc (x0 :: x1 :: xs) := hp ▸ hw.asc
  have h01 : x0 < x1 := hasc.1
  obtain ⟨hlt, hge⟩ := dropLast_last_lt x0 x1 xs hasc
  have hout := taper_points_outside x0 x1 _ _ hpos h01 (lt_of_lt_of_le hpos hge) hlt
  have hknots : (x0 :: x1 :: xs).map t.eval = t.vals := hp ▸ eval_at_knots t hw hc
  have hlen : (x0 :: x1 :: xs).length = t.vals.length := by rw [← hp]; exact hw.len.symm
  have hspec := taper_spec x0 x1 xs (t.vals.headD 0) (t.vals.getLastD 0) t.eval
  dsimp only at hspec
  have hhi : t.pts.getLastD 0 ^ 2 / t.pts.dropLast.getLastD 0 =
      (x0 :: x1 :: xs).getLastD x0 ^ 2 / (x0 :: x1 :: xs).dropLast.getLastD x0 := by
    simp only [hp, List.getLastD_cons, List.dropLast_cons_cons, List.dropLast]
  have hvne : t.vals ≠ [] := by
    intro h; rw [h] at hlen; simp at hlen
  unfold Table.taper
  rw [hhi, hp, hspec, hknots]
  set w1 := x0 ^ 2 / x1 with hw1
  set w2 := (x0 :: x1 :: xs).getLastD x0 ^ 2 / (x0 :: x1 :: xs).dropLast.getLastD x0 with hw2
  have hlastlt : ∀ y ∈ (x0 :: x1 :: xs).getLast?, y < w2 := by
    intro y hy
    have : (x0 :: x1 :: xs).getLastD x0 = y := by rw [List.getLastD_eq_getLast?, hy]; rfl
    rw [← this]; exact hout.2
  have hascA : StrictAsc ((x0 :: x1 :: xs) ++ [w2]) := strictAsc_append_one _ _ hasc hlastlt
  have hascP : StrictAsc (w1 :: x0 :: x1 :: xs) := strictAsc_cons_one _ _ hasc (by simp; exact hout.1)
  have hascPA : StrictAsc (w1 :: ((x0 :: x1 :: xs) ++ [w2])) :=
    strictAsc_cons_one _ _ hascA (by simp; exact hout.1)
  have hzero : t.keepNeg = true ∨ ∀ v ∈ t.vals, 0 ≤ v := hc
  have hnnA : t.keepNeg = true ∨ ∀ v ∈ t.vals ++ [0], 0 ≤ v := by
    rcases hzero with h | h
    · exact Or.inl h
    · right; intro v hv'; rcases List.mem_append.mp hv' with h' | h'
      · exact h v h'
      · simp at h'; rw [h']
  have hnnP : t.keepNeg = true ∨ ∀ v ∈ (0 : K) :: t.vals, 0 ≤ v := by
    rcases hzero with h | h
    · exact Or.inl h
    · right; intro v hv'; rcases List.mem_cons.mp hv' with h' | h'
      · rw [h']
      · exact h v h'
  have hnnPA : t.keepNeg = true ∨ ∀ v ∈ (0 : K) :: (t.vals ++ [0]), 0 ≤ v := by
    rcases hnnA with h | h
    · exact Or.inl h
    · right; intro v hv'; rcases List.mem_cons.mp hv' with h' | h'
      · rw [h']
      · exact h v h'
  by_cases h1 : t.vals.headD 0 = 0 <;> by_cases h2 : t.vals.getLastD 0 = 0
  · simp only [h1, h2, and_self, if_true]
  · simp only [h1, h2, and_false, if_false, ne_eq, not_true_eq_false, not_false_eq_true, if_true,
      List.nil_append]
    rw [mkTable_of_asc _ _ _ hascA hnnA]
    have he : endsZero (t.vals ++ [0]) = true := by
      rw [C03x.endsZero_iff _ (by simp)]
      refine ⟨?_, by simp⟩
      cases hv : t.vals with
      | nil => exact absurd hv hvne
      | cons a l => rw [hv] at h1; simpa using h1
    rw [he]; rfl
  · simp only [h1, h2, false_and, if_false, ne_eq, not_true_eq_false, not_false_eq_true, if_true,
      List.append_nil, List.singleton_append]
    rw [mkTable_of_asc _ _ _ hascP hnnP]
    have he : endsZero ((0 : K) :: t.vals) = true := by
      rw [C03x.endsZero_iff _ (by simp)]
      refine ⟨by simp, ?_⟩
      cases hv : t.vals with
      | nil => exact absurd hv hvne
      | cons a l => rw [hv] at h2; simpa [List.getLastD_cons] using h2
    rw [he]; rfl
  · simp only [h1, h2, false_and, and_false, if_false, ne_eq, not_true_eq_false, not_false_eq_true, if_true,
      List.singleton_append]
    have he : endsZero ((0 : K) :: (t.vals ++ [0])) = true := by
      rw [C03x.endsZero_iff _ (by simp)]
      refine ⟨by simp, ?_⟩
      rw [List.getLastD_cons, List.getLastD_concat]
    show some (mkTable (w1 :: ((x0 :: x1 :: xs) ++ [w2])) (0 :: (t.vals ++ [0])) t.keepNeg).1 = _
    rw [mkTable_of_asc _ _ _ hascPA hnnPA, he]; rfl

/-- taper then taper = taper: the tapered table is zero-ended, so tapering it returns it; and it is zero
everywhere outside its (extended) range -/
theorem taper_taper (t : Table K) (x0 x1 : K) (xs : List K) (hp : t.pts = x0 :: x1 :: xs)
    (hw : WF t) (hc : Clipped t) (hpos : 0 < x0) (t' : Table K) (ht : t.taper = some t') :
    t'.taper = none ∧ t'.vals.headD 0 = 0 ∧ t'.vals.getLastD 0 = 0 ∧
      ∀ x, (x < t'.pts.headD 0 ∨ t'.pts.getLastD 0 < x) → t'.eval x = 0 := by
  obtain ⟨_, htap, _⟩ := taper_inside_unchanged t x0 x1 xs hp hw hc hpos t' ht
  rw [taper_table t x0 x1 xs hp hw hc hpos] at ht
  by_cases hb : t.vals.headD 0 = 0 ∧ t.vals.getLastD 0 = 0
  · rw [if_pos hb] at ht; cases ht
  · rw [if_neg hb] at ht
    have hfill : t'.fillNaN = false := by cases ht; rfl
    have hvne : t'.vals ≠ [] := by
      intro h; rw [Table.isTapered, h] at htap; exact absurd htap (by simp [C03x.endsZero_nil])
    obtain ⟨e1, e2⟩ := (C03x.endsZero_iff _ hvne).mp htap
    have hnone : t'.taper = none := by
      unfold Table.taper
      rw [e1, e2, taper_idem]
    refine ⟨hnone, e1, e2, ?_⟩
    intro x hx
    have hraw : (if x < t'.pts.headD 0 then (if t'.fillNaN then t'.vals.headD 0 else 0)
        else if x > t'.pts.getLastD 0 then (if t'.fillNaN then t'.vals.getLastD 0 else 0)
        else interpAsc t'.pts t'.vals x) = 0 := by
      by_cases h1 : x < t'.pts.headD 0
      · rw [if_pos h1]; simp [hfill]
      · have h2 : t'.pts.getLastD 0 < x := by
          rcases hx with hx | hx
          · exact absurd hx h1
          · exact hx
        rw [if_neg h1, if_pos h2]; simp [hfill]
    unfold Table.eval
    dsimp only
    rw [hraw]; simp

/-- an end value that is negative and KEPT (`keep_neg`) still gets its zero point: the test is `≠ 0`, not
`> 0`; the negative value itself stays at the original end -/
theorem taper_negative_end (t : Table K) (x0 x1 : K) (xs : List K) (hp : t.pts = x0 :: x1 :: xs)
    (hw : WF t) (hc : Clipped t) (hpos : 0 < x0) (hneg : t.vals.headD 0 < 0) :
    ∃ t', t.taper = some t' ∧ t'.pts.headD 0 = x0 ^ 2 / x1 ∧ t'.vals.headD 0 = 0 ∧
      t'.eval x0 = t.vals.headD 0 ∧ t.keepNeg = true := by
  have hkeep : t.keepNeg = true := by
    rcases hc with h | h
    · exact h
    · exfalso
      cases hv : t.vals with
      | nil => rw [hv] at hneg; simp at hneg
      | cons a l =>
        rw [hv] at hneg; simp only [List.headD_cons] at hneg
        exact absurd (h a (by rw [hv]; exact List.mem_cons_self)) (not_le.mpr hneg)
  have h1 : t.vals.headD 0 ≠ 0 := ne_of_lt hneg
  have hT := taper_table t x0 x1 xs hp hw hc hpos
  rw [if_neg (fun h => h1 h.1)] at hT
  refine ⟨_, hT, ?_, ?_, ?_, hkeep⟩
  · simp only [h1, ne_eq, not_false_eq_true, if_true, List.singleton_append, List.cons_append, List.headD_cons]
  · simp only [h1, ne_eq, not_false_eq_true, if_true, List.singleton_append, List.cons_append, List.headD_cons]
  · obtain ⟨hin, _, _⟩ := taper_inside_unchanged t x0 x1 xs hp hw hc hpos _ hT
    have hlast : x0 ≤ t.pts.getLastD 0 :=
      strictAsc_mem_le_last t.pts hw.asc 0 x0 (by rw [hp]; exact List.mem_cons_self)
    rw [hin x0 le_rfl hlast]
    have hk := eval_at_knots t hw hc
    rw [hp] at hk
    have : t.vals.headD 0 = t.eval x0 := by rw [← hk]; rfl
    exact this.symm

/-- the scaled form (a source redshifted by `z`, read in the observer's frame: points × `c = 1+z`, values ×
a flux factor `k > 0`): tapering commutes with the scaling — the added points are `c·x₀²/x₁`, `c·xₙ²/xₙ₋₁`,
which are `(c x₀)²/(c x₁)` and `(c xₙ)²/(c xₙ₋₁)`, and the decision which ends to extend is the same -/
theorem taper_scaled (t : Table K) (c k : K) (hc : 0 < c) (hk : 0 < k) :
    (C03x.scaled t c k).taper = t.taper.map (fun t' => C03x.scaled t' c k) := by
  have hcne : c ≠ 0 := ne_of_gt hc
  have hkne : k ≠ 0 := ne_of_gt hk
  unfold Table.taper
  cases hp : t.pts with
  | nil => simp [C03x.scaled, hp, taperPts]
  | cons x0 l =>
    cases l with
    | nil => simp [C03x.scaled, hp, taperPts]
    | cons x1 xs =>
      have hpS : (C03x.scaled t c k).pts = x0 * c :: x1 * c :: xs.map (· * c) := by
        simp [C03x.scaled, hp]
      have hspec := taper_spec x0 x1 xs (t.vals.headD 0) (t.vals.getLastD 0) t.eval
      have hspecS := taper_spec (x0 * c) (x1 * c) (xs.map (· * c)) ((C03x.scaled t c k).vals.headD 0)
        ((C03x.scaled t c k).vals.getLastD 0) (C03x.scaled t c k).eval
      dsimp only at hspec hspecS
      rw [hpS, hspecS, hspec]
      have e1 : (C03x.scaled t c k).vals.headD 0 = 0 ↔ t.vals.headD 0 = 0 := by
        simp only [C03x.scaled, C03x.headD_map_mul, mul_eq_zero, hkne, or_false]
      have e2 : (C03x.scaled t c k).vals.getLastD 0 = 0 ↔ t.vals.getLastD 0 = 0 := by
        simp only [C03x.scaled, C03x.getLastD_map_mul, mul_eq_zero, hkne, or_false]
      have hw1 : (x0 * c) ^ 2 / (x1 * c) = x0 ^ 2 / x1 * c := by
        by_cases hx1 : x1 = 0
        · simp [hx1]
        · field_simp
      have hlastS : (x0 * c :: x1 * c :: xs.map (· * c)).getLastD (x0 * c) = (x0 :: x1 :: xs).getLastD x0 * c := by
        have := List.getLastD_map (f := (· * c)) (l := x0 :: x1 :: xs) (a := x0)
        simpa using this
      have hdropS : (x0 * c :: x1 * c :: xs.map (· * c)).dropLast.getLastD (x0 * c) =
          (x0 :: x1 :: xs).dropLast.getLastD x0 * c := by
        have h1 : (x0 * c :: x1 * c :: xs.map (· * c)) = (x0 :: x1 :: xs).map (· * c) := by simp
        rw [h1, ← List.map_dropLast]
        exact List.getLastD_map (f := (· * c)) (l := (x0 :: x1 :: xs).dropLast) (a := x0)
      have hw2 : (x0 * c :: x1 * c :: xs.map (· * c)).getLastD (x0 * c) ^ 2 /
          (x0 * c :: x1 * c :: xs.map (· * c)).dropLast.getLastD (x0 * c) =
          (x0 :: x1 :: xs).getLastD x0 ^ 2 / (x0 :: x1 :: xs).dropLast.getLastD x0 * c := by
        rw [hlastS, hdropS]
        by_cases hx1 : (x0 :: x1 :: xs).dropLast.getLastD x0 = 0
        · rw [hx1, zero_mul, div_zero, div_zero, zero_mul]
        · field_simp
      have hvals : (x0 * c :: x1 * c :: xs.map (· * c)).map (C03x.scaled t c k).eval =
          ((x0 :: x1 :: xs).map t.eval).map (· * k) := by
        have h1 : (x0 * c :: x1 * c :: xs.map (· * c)) = (x0 :: x1 :: xs).map (· * c) := by simp
        rw [h1, List.map_map, List.map_map]
        apply List.map_congr_left
        intro a _
        simp only [Function.comp]
        rw [C03x.scaled_eval t c k hc hk.le, mul_div_assoc, div_self hcne, mul_one]
      rw [hvals, hw1, hw2]
      have hkeep : (C03x.scaled t c k).keepNeg = t.keepNeg := rfl
      by_cases h1 : t.vals.headD 0 = 0 <;> by_cases h2 : t.vals.getLastD 0 = 0
      · rw [if_pos ⟨e1.mpr h1, e2.mpr h2⟩, if_pos ⟨h1, h2⟩]; rfl
      · have h2' := (not_congr e2).mpr h2
        simp only [e1.mpr h1, h1, h2, h2', and_false, if_false, ne_eq, not_true_eq_false, not_false_eq_true,
          if_true, List.nil_append, Option.map_some, hkeep]
        congr 1
        rw [← C03x.mkTable_scaled _ _ _ c k hc hk]
        simp
      · have h1' := (not_congr e1).mpr h1
        simp only [e2.mpr h2, h1, h2, h1', false_and, if_false, ne_eq, not_true_eq_false, not_false_eq_true,
          if_true, List.append_nil, Option.map_some, hkeep]
        congr 1
        rw [← C03x.mkTable_scaled _ _ _ c k hc hk]
        simp
      · have h1' := (not_congr e1).mpr h1
        have h2' := (not_congr e2).mpr h2
        simp only [h1, h2, h1', h2', false_and, if_false, ne_eq, not_true_eq_false, not_false_eq_true,
          if_true, Option.map_some, hkeep]
        congr 1
        rw [← C03x.mkTable_scaled _ _ _ c k hc hk]
        simp

/-! ### non-vacuity of the round-6 theorems (concrete rational tables) -/

/-- a table with two equal neighbours and non-zero ends -/
def exT : Table ℚ := ⟨[1, 2, 4], [3, 3, 1], false, true⟩
/-- a kept negative first value -/
def exNeg : Table ℚ := ⟨[2, 4, 8], [-1, 1, 4], true, true⟩
/-- zero fill with non-zero ends (only `force_extrapolation` makes it extrapolate) -/
def exFill : Table ℚ := ⟨[1, 2, 4], [3, 3, 1], false, false⟩
def exEnv : Env ℚ :=
  ⟨⟨1, 1, 1, 1, 1⟩, ⟨fun _ => 0, fun _ => 0, fun _ => 0, fun _ => 0, fun _ => 0, fun _ => 0, fun _ => 0,
    fun _ _ => 0, 0, fun _ => 0, fun _ => 0⟩⟩

theorem exT_wf : WF exT := ⟨by norm_num [StrictAsc, exT], rfl⟩
theorem exT_clipped : Clipped exT := by
  right; intro y hy; simp [exT] at hy; rcases hy with rfl | rfl <;> norm_num
theorem exNeg_wf : WF exNeg := ⟨by norm_num [StrictAsc, exNeg], rfl⟩
theorem exFill_clipped : Clipped exFill := by
  right; intro y hy; simp [exFill] at hy; rcases hy with rfl | rfl <;> norm_num

example : WF (mkTable ([3, 2, 1] : List ℚ) [5, -1, 4] false).1 ∧ Clipped (mkTable ([3, 2, 1] : List ℚ) [5, -1, 4] false).1 ∧
    (mkTable ([3, 2, 1] : List ℚ) [5, -1, 4] false).1.keepNeg = false :=
  mkTable_wf _ _ _ (Or.inr (by norm_num [StrictDesc])) rfl

example : (mkTable ([3, 2, 1] : List ℚ) [5, -1, 4] false).1.vals = (clipNeg false ([5, -1, 4] : List ℚ).reverse).1 :=
  (mkTable_descending 3 2 [1] [5, -1, 4] false (by norm_num [StrictDesc])).2.1

example : (mkTable ([3, 2, 1] : List ℚ) [5, -1, 4] false).2 = true :=
  (mkTable_warning_iff _ _ _).mpr ⟨rfl, -1, by simp, by norm_num⟩

example : ¬ (mkTable ([3, 2, 1] : List ℚ) [5, -1, 4] true).2 = true := fun h =>
  absurd ((mkTable_warning_iff _ _ _).mp h).1 (by decide)

/-- descending input, second wavelength: the (clipped) second value -/
example : (mkTable ([3, 2, 1] : List ℚ) [5, -1, 4] false).1.eval 2 = 0 := by
  have := (mkTable_eval_inputs ([3, 2, 1] : List ℚ) [5, -1, 4] false (Or.inr (by norm_num [StrictDesc])) rfl).2
    1 2 (-1) rfl rfl
  simpa using this

/-- … and with `keep_neg` the negative value itself -/
example : (mkTable ([3, 2, 1] : List ℚ) [5, -1, 4] true).1.eval 2 = -1 := by
  have := (mkTable_eval_inputs ([3, 2, 1] : List ℚ) [5, -1, 4] true (Or.inr (by norm_num [StrictDesc])) rfl).2
    1 2 (-1) rfl rfl
  simpa using this

example : sampleTree exEnv (.leaf (.table exT)) [3, 1, 100, 3] = .ok ([3, 1, 100, 3].map exT.eval) :=
  sample_pointwise exEnv exT _

/-- the same wavelength in a long unsorted array and alone: the same value -/
example (vs vs' : List ℚ) (h : sampleTree exEnv (.leaf (.table exT)) [3, 1, 100, 3] = .ok vs)
    (h' : sampleTree exEnv (.leaf (.table exT)) [3] = .ok vs') : vs[3]? = vs'[0]? := by
  obtain ⟨a, b⟩ := sample_independent_of_array exEnv exT _ _ vs vs' 3 0 3 h h' rfl rfl
  rw [a, b]

example : ∃ s ∈ segs exT.pts exT.vals, s.1.1 ≤ (3 : ℚ) ∧ (3 : ℚ) ≤ s.2.1 ∧ exT.eval 3 = chord s 3 ∧
    min s.1.2 s.2.2 ≤ exT.eval 3 ∧ exT.eval 3 ≤ max s.1.2 s.2.2 :=
  eval_inside_on_segment exT exT_wf exT_clipped (by decide) 3 (by norm_num [exT]) (by norm_num [exT])

/-- between the two equal neighbours the spectrum is flat -/
example : exT.eval (3 / 2) = 3 :=
  eval_const_segment exT exT_wf exT_clipped ((1, 3), (2, 3)) (by simp [exT, segs]) rfl (3 / 2)
    (by norm_num) (by norm_num)

example : exT.eval 3 - exT.eval (5 / 2) = (1 - 3) / (4 - 2) * (3 - 5 / 2) :=
  eval_segment_diff exT exT_wf exT_clipped ((2, 3), (4, 1)) (by simp [exT, segs]) 3 (5 / 2)
    (by norm_num) (by norm_num) (by norm_num) (by norm_num)

/-- no tolerance: a last value `ε > 0` of ANY magnitude is extrapolated, not replaced by zero -/
example (ε : ℚ) (hε : 0 < ε) : (mkTable ([1, 2, 4] : List ℚ) [0, 3, ε] false).1.eval 100 = ε := by
  have hd : isDesc ([1, 2, 4] : List ℚ) = false := by decide
  have hp : (mkTable ([1, 2, 4] : List ℚ) [0, 3, ε] false).1.pts = [1, 2, 4] := by simp [mkTable, hd]
  have hv : (mkTable ([1, 2, 4] : List ℚ) [0, 3, ε] false).1.vals = [0, 3, ε] := by
    simp [mkTable, hd, clipNeg, not_lt.mpr hε.le]
  have := (extrap_nearest_end ([1, 2, 4] : List ℚ) [0, 3, ε] false 100).2
  rw [hp, hv] at this
  exact this (by norm_num) (by norm_num)

/-- both ends exactly zero: zero outside -/
example : (mkTable ([4, 2, 1] : List ℚ) [0, 3, 0] false).1.eval 100 = 0 :=
  (extrap_zero_iff_ends_zero ([4, 2, 1] : List ℚ) [0, 3, 0] false (Or.inr (by norm_num [StrictDesc])) rfl
    (by simp)).mpr (by decide) 100 (Or.inr (by decide))

example : exFill.forceExtrap.eval 3 = exFill.eval 3 :=
  forceExtrap_inside exFill 3 (by norm_num [exFill]) (by norm_num [exFill])

example : exFill.forceExtrap.forceExtrap = exFill.forceExtrap := (forceExtrap_idem exFill).1

/-- `force_extrapolation` on the zero-filled table: the last value beyond the last point (it was 0 before) -/
example : exFill.forceExtrap.eval 100 = 1 ∧ exFill.eval 100 = 0 :=
  ⟨(forceExtrap_outside exFill exFill_clipped 100).2 (by norm_num [exFill]) (by norm_num [exFill]),
   by decide +kernel⟩

example : (mkTable ([4, 2, 1] : List ℚ) [0, 3, 0] false).1.forceExtrap.eval 100 =
    (mkTable ([4, 2, 1] : List ℚ) [0, 3, 0] false).1.eval 100 := forceExtrap_constructed _ _ _ _

example : (⟨[3, 4, 5], [0, 3, 0], false, false⟩ : Table ℚ).taper = none :=
  (taper_none_iff _ 3 4 [5] rfl).mpr ⟨rfl, rfl⟩

example : exT.taper = some ⟨[1 ^ 2 / 2, 1, 2, 4, 4 ^ 2 / 2], [0, 3, 3, 1, 0], false, false⟩ := by
  have := taper_table exT 1 2 [4] rfl exT_wf exT_clipped (by norm_num)
  rw [if_neg (by norm_num [exT])] at this
  simpa [exT] using this

example : ∃ t', exT.taper = some t' ∧ t'.taper = none := by
  cases h : exT.taper with
  | none => exact absurd ((taper_none_iff exT 1 2 [4] rfl).mp h).1 (by norm_num [exT])
  | some t' => exact ⟨t', rfl, (taper_taper exT 1 2 [4] rfl exT_wf exT_clipped (by norm_num) t' h).1⟩

/-- the kept negative end gets its zero point at `2²/4` and stays `-1` at `2` -/
example : ∃ t', exNeg.taper = some t' ∧ t'.pts.headD 0 = 2 ^ 2 / 4 ∧ t'.vals.headD 0 = 0 ∧
    t'.eval 2 = -1 ∧ exNeg.keepNeg = true :=
  taper_negative_end exNeg 2 4 [8] rfl exNeg_wf (Or.inl rfl) (by norm_num) (by norm_num [exNeg])

/-- the table seen at `z = 1` with flux factor 3: its taper is the scaled taper -/
example : (C03x.scaled exT 2 3).taper = exT.taper.map (fun t' => C03x.scaled t' 2 3) :=
  taper_scaled exT 2 3 (by norm_num) (by norm_num)

example : ((C03x.scaled exT 2 3).taper).map (·.pts) = some [1, 2, 4, 8, 16] := by decide +kernel

end Synphot.C03
