/-
  Helper lemmas for the deepened C03 theorems (model: `Synphot/Core/Interp.lean`): what the constructor
  stores for either order of the points, the warning flag, the segments of a table cover its range,
  chords, zero ends, and the table with its points scaled by `c` and its values by `k` (a redshifted
  source read in the observer's frame: `c = 1 + z`).
-/
import Mathlib.Tactic.Ring
import Mathlib.Tactic.FieldSimp
import Mathlib.Tactic.Linarith
import Synphot.Lemmas.Interp

set_option linter.unusedSectionVars false
set_option linter.unusedSimpArgs false
set_option linter.unusedVariables false

namespace Synphot.C03x
open Synphot
variable {K : Type} [Field K] [LinearOrder K] [IsStrictOrderedRing K]

/-! ### the constructor -/

theorem isDesc_of_strictDesc (a b : K) (l : List K) (hs : StrictDesc (a :: b :: l)) :
    isDesc (a :: b :: l) = true := by
  have hlt := strictDesc_last_lt_head a b l hs
  have hl1 : (a :: b :: l).getLast? = some ((a :: b :: l).getLastD a) := by
    rw [List.getLastD_eq_getLast?]
    cases h : (a :: b :: l).getLast? with
    | none => simp at h
    | some v => rfl
  unfold isDesc; rw [hl1]
  show decide ((a :: b :: l).getLastD a < a) = true
  exact decide_eq_true hlt

/-- clipping is element-wise: it commutes with reversal, and the warning flag does not see the order -/
theorem clipNeg_reverse (k : Bool) (y : List K) :
    clipNeg k y.reverse = ((clipNeg k y).1.reverse, (clipNeg k y).2) := by
  unfold clipNeg
  cases k
  · simp only [Bool.false_eq_true, if_false, List.map_reverse, List.any_reverse]
  · simp

theorem clipNeg_length (k : Bool) (y : List K) : (clipNeg k y).1.length = y.length := by
  unfold clipNeg; cases k <;> simp

theorem clipNeg_flag (k : Bool) (y : List K) : (clipNeg k y).2 = true ↔ (k = false ∧ ∃ v ∈ y, v < 0) := by
  unfold clipNeg
  cases k
  · simp [List.any_eq_true]
  · simp

theorem clipNeg_admissible (k : Bool) (y : List K) : k = true ∨ ∀ v ∈ (clipNeg k y).1, 0 ≤ v := by
  cases k
  · right
    intro v hv
    simp only [clipNeg, Bool.false_eq_true, if_false, List.mem_map] at hv
    obtain ⟨u, _, rfl⟩ := hv
    split_ifs with hu
    · exact le_refl _
    · exact not_lt.mp hu
  · exact Or.inl rfl

/-- entry `i` of the clipped array: the entry itself when kept or non-negative, else `0` -/
theorem clipNeg_getElem? (k : Bool) (y : List K) (i : Nat) :
    (clipNeg k y).1[i]? = (y[i]?).map (fun v => if k = false ∧ v < 0 then 0 else v) := by
  unfold clipNeg
  cases k
  · simp
  · simp

/-- what the constructor stores, on strictly ascending points -/
theorem mkTable_asc (x y : List K) (k : Bool) (hs : StrictAsc x) :
    mkTable x y k = ({ pts := x, vals := (clipNeg k y).1, keepNeg := k, fillNaN := !endsZero (clipNeg k y).1 },
      (clipNeg k y).2) := by
  unfold mkTable
  simp only [isDesc_false_of_asc x hs, Bool.false_eq_true, if_false]

/-- what the constructor stores, on strictly descending points (at least two): points AND values reversed,
the values clipped (clipping after or before the reversal is the same array) -/
theorem mkTable_desc (a b : K) (l y : List K) (k : Bool) (hs : StrictDesc (a :: b :: l)) :
    mkTable (a :: b :: l) y k =
      ({ pts := (a :: b :: l).reverse, vals := (clipNeg k y).1.reverse, keepNeg := k,
         fillNaN := !endsZero (clipNeg k y).1.reverse }, (clipNeg k y).2) := by
  unfold mkTable
  simp only [isDesc_of_strictDesc a b l hs, if_true, clipNeg_reverse]

/-- the warning is recorded exactly when `keep_neg` is false and some given value is negative — for every
input, whatever its order -/
theorem mkTable_flag (x y : List K) (k : Bool) :
    (mkTable x y k).2 = true ↔ (k = false ∧ ∃ v ∈ y, v < 0) := by
  unfold mkTable
  by_cases hd : isDesc x = true
  · simp only [hd, if_true, clipNeg_reverse, clipNeg_flag]
  · simp only [hd, Bool.false_eq_true, if_false, clipNeg_flag]

theorem mkTable_keepNeg (x y : List K) (k : Bool) : (mkTable x y k).1.keepNeg = k := rfl

/-- a strictly monotone list is either strictly ascending or strictly descending with at least two entries -/
theorem mono_cases (x : List K) (h : StrictAsc x ∨ StrictDesc x) :
    StrictAsc x ∨ ∃ a b l, x = a :: b :: l ∧ StrictDesc x := by
  rcases h with h | h
  · exact Or.inl h
  · match x, h with
    | [], _ => exact Or.inl trivial
    | [_], _ => exact Or.inl trivial
    | a :: b :: l, h => exact Or.inr ⟨a, b, l, rfl, h⟩

/-- points and values of the constructed table for strictly monotone points -/
theorem mkTable_mono (x y : List K) (k : Bool) (h : StrictAsc x ∨ StrictDesc x) :
    ((mkTable x y k).1.pts = x ∧ (mkTable x y k).1.vals = (clipNeg k y).1) ∨
    ((mkTable x y k).1.pts = x.reverse ∧ (mkTable x y k).1.vals = (clipNeg k y).1.reverse ∧ StrictDesc x) := by
  rcases mono_cases x h with h | ⟨a, b, l, rfl, h⟩
  · left; rw [mkTable_asc x y k h]; exact ⟨rfl, rfl⟩
  · right; rw [mkTable_desc a b l y k h]; exact ⟨rfl, rfl, h⟩

theorem mkTable_strictAsc (x y : List K) (k : Bool) (h : StrictAsc x ∨ StrictDesc x) :
    StrictAsc (mkTable x y k).1.pts := by
  rcases mkTable_mono x y k h with ⟨h1, _⟩ | ⟨h1, _, h3⟩
  · rw [h1]
    rcases mono_cases x h with h | ⟨a, b, l, rfl, h'⟩
    · exact h
    · rw [mkTable_desc a b l y k h'] at h1
      -- pts = reverse = x: then x ascending as the reverse of a descending list
      have : StrictAsc (a :: b :: l).reverse := (strictAsc_reverse _).mpr h'
      rw [show (a :: b :: l).reverse = a :: b :: l from h1] at this
      exact this
  · rw [h1]; exact (strictAsc_reverse _).mpr h3

theorem mkTable_len (x y : List K) (k : Bool) (h : StrictAsc x ∨ StrictDesc x) (hl : y.length = x.length) :
    (mkTable x y k).1.vals.length = (mkTable x y k).1.pts.length := by
  rcases mkTable_mono x y k h with ⟨h1, h2⟩ | ⟨h1, h2, _⟩
  · rw [h1, h2, clipNeg_length, hl]
  · rw [h1, h2, List.length_reverse, List.length_reverse, clipNeg_length, hl]

theorem mkTable_admissible (x y : List K) (k : Bool) :
    (mkTable x y k).1.keepNeg = true ∨ ∀ v ∈ (mkTable x y k).1.vals, 0 ≤ v := by
  unfold mkTable
  simp only []
  split_ifs
  · exact clipNeg_admissible k y.reverse
  · exact clipNeg_admissible k y

/-! ### segments cover the range -/

/-- every point of the closed range of an ascending table (two or more knots) lies on one of its segments -/
theorem segs_cover : ∀ (xs ys : List K), xs.length = ys.length → 2 ≤ xs.length → ∀ x,
    xs.headD 0 ≤ x → x ≤ xs.getLastD 0 → ∃ s ∈ segs xs ys, s.1.1 ≤ x ∧ x ≤ s.2.1 := by
  intro xs
  induction xs with
  | nil => intro ys _ h2; simp at h2
  | cons x0 xs ih =>
    intro ys hl h2 x h0 hn
    cases ys with
    | nil => simp at hl
    | cons y0 ys =>
      cases xs with
      | nil => simp at h2
      | cons x1 xs =>
        cases ys with
        | nil => simp at hl
        | cons y1 ys =>
          by_cases hc : x ≤ x1
          · exact ⟨((x0, y0), (x1, y1)), by simp [segs], by simpa using h0, hc⟩
          · cases xs with
            | nil =>
              simp [List.getLastD] at hn
              exact absurd hn hc
            | cons x2 xs =>
              obtain ⟨s, hs, h1, h2'⟩ := ih (y1 :: ys) (by simpa using hl) (by simp) x
                (by simpa using le_of_lt (not_le.mp hc)) (by simpa [List.getLastD] using hn)
              exact ⟨s, by simp only [segs, List.mem_cons]; exact Or.inr hs, h1, h2'⟩

/-- a chord between two equal values is that value -/
theorem chord_const (s : (K × K) × (K × K)) (h : s.1.2 = s.2.2) (x : K) : chord s x = s.1.2 := by
  simp only [chord, ← h]; ring

/-- difference of two values on the same chord: slope × distance -/
theorem chord_diff (s : (K × K) × (K × K)) (x x' : K) :
    chord s x - chord s x' = (s.2.2 - s.1.2) / (s.2.1 - s.1.1) * (x - x') := by
  simp only [chord]
  by_cases h : s.2.1 - s.1.1 = 0
  · simp [h]
  · field_simp; ring

/-! ### ends -/

theorem endsZero_iff (l : List K) (h : l ≠ []) : endsZero l = true ↔ (l.headD 0 = 0 ∧ l.getLastD 0 = 0) := by
  cases l with
  | nil => exact absurd rfl h
  | cons a t =>
    have hl : (a :: t).getLast? = some ((a :: t).getLast h) := List.getLast?_eq_getLast_of_ne_nil h
    have hd : (a :: t).getLastD 0 = (a :: t).getLast h := by
      rw [List.getLastD_eq_getLast?, hl]; rfl
    simp only [endsZero, List.head?_cons, hl, hd, List.headD_cons, Bool.and_eq_true, decide_eq_true_eq]

theorem endsZero_nil : endsZero ([] : List K) = false := rfl

theorem getLastD_append_cons (l : List K) (a : K) (t : List K) (d : K) :
    (l ++ a :: t).getLastD d = t.getLastD a := by
  induction l generalizing d with
  | nil => simp only [List.nil_append, List.getLastD_cons]
  | cons b l ih => rw [List.cons_append, List.getLastD_cons, ih]

/-! ### scaling a table: points × c, values × k (a redshifted source: c = 1 + z) -/

theorem interpAsc_scale (c k : K) (hc : 0 < c) : ∀ (xs ys : List K) (x : K),
    interpAsc (xs.map (· * c)) (ys.map (· * k)) x = interpAsc xs ys (x / c) * k := by
  intro xs
  induction xs with
  | nil =>
    intro ys x
    cases ys with
    | nil => simp [interpAsc]
    | cons y0 ys => simp [interpAsc]
  | cons x0 xs ih =>
    intro ys x
    cases ys with
    | nil => simp [interpAsc]
    | cons y0 ys =>
      cases xs with
      | nil => simp [interpAsc]
      | cons x1 xs =>
        cases ys with
        | nil => simp [interpAsc]
        | cons y1 ys =>
          have hiff : x ≤ x1 * c ↔ x / c ≤ x1 := (div_le_iff₀ hc).symm
          simp only [List.map_cons, interpAsc]
          by_cases h : x ≤ x1 * c
          · rw [if_pos h, if_pos (hiff.mp h)]
            have hcne : c ≠ 0 := ne_of_gt hc
            by_cases hx : x1 - x0 = 0
            · have : x1 * c - x0 * c = 0 := by rw [← sub_mul, hx, zero_mul]
              simp only [this, hx, div_zero]; ring
            · have : x1 * c - x0 * c ≠ 0 := by rw [← sub_mul]; exact mul_ne_zero hx hcne
              field_simp
          · rw [if_neg h, if_neg (fun h' => h (hiff.mpr h'))]
            have := ih (y1 :: ys) x
            simpa only [List.map_cons] using this

/-- a table with its points scaled by `c` and its values by `k` -/
def scaled (t : Table K) (c k : K) : Table K :=
  { pts := t.pts.map (· * c), vals := t.vals.map (· * k), keepNeg := t.keepNeg, fillNaN := t.fillNaN }

theorem headD_map_mul (l : List K) (c : K) : (l.map (· * c)).headD 0 = l.headD 0 * c := by
  cases l <;> simp

theorem getLastD_map_mul (l : List K) (c : K) : (l.map (· * c)).getLastD 0 = l.getLastD 0 * c := by
  cases l with
  | nil => simp
  | cons a l =>
    rw [List.map_cons, List.getLastD_cons, List.getLastD_cons]
    induction l generalizing a with
    | nil => simp
    | cons b l ih => rw [List.map_cons, List.getLastD_cons, List.getLastD_cons]; exact ih b

/-- the scaled table read at `x` is the table read at `x / c`, times `k` -/
theorem scaled_eval (t : Table K) (c k : K) (hc : 0 < c) (hk : 0 ≤ k) (x : K) :
    (scaled t c k).eval x = t.eval (x / c) * k := by
  have h1 : x < t.pts.headD 0 * c ↔ x / c < t.pts.headD 0 := (div_lt_iff₀ hc).symm
  have h2 : x > t.pts.getLastD 0 * c ↔ x / c > t.pts.getLastD 0 := (lt_div_iff₀ hc).symm
  have hraw : (if x < t.pts.headD 0 * c then (if t.fillNaN then t.vals.headD 0 * k else 0)
      else if x > t.pts.getLastD 0 * c then (if t.fillNaN then t.vals.getLastD 0 * k else 0)
      else interpAsc (t.pts.map (· * c)) (t.vals.map (· * k)) x) =
      (if x / c < t.pts.headD 0 then (if t.fillNaN then t.vals.headD 0 else 0)
      else if x / c > t.pts.getLastD 0 then (if t.fillNaN then t.vals.getLastD 0 else 0)
      else interpAsc t.pts t.vals (x / c)) * k := by
    by_cases a : x < t.pts.headD 0 * c
    · rw [if_pos a, if_pos (h1.mp a)]; split_ifs <;> simp
    · rw [if_neg a, if_neg (fun h => a (h1.mpr h))]
      by_cases b : x > t.pts.getLastD 0 * c
      · rw [if_pos b, if_pos (h2.mp b)]; split_ifs <;> simp
      · rw [if_neg b, if_neg (fun h => b (h2.mpr h))]
        exact interpAsc_scale c k hc _ _ x
  unfold Table.eval scaled
  simp only [headD_map_mul, getLastD_map_mul]
  rw [hraw]
  set r := (if x / c < t.pts.headD 0 then (if t.fillNaN then t.vals.headD 0 else 0)
      else if x / c > t.pts.getLastD 0 then (if t.fillNaN then t.vals.getLastD 0 else 0)
      else interpAsc t.pts t.vals (x / c)) with hr
  by_cases hkn : t.keepNeg = true
  · simp only [hkn, if_true]
  · simp only [hkn, Bool.false_eq_true, if_false]
    by_cases hr0 : r < 0
    · rw [if_pos hr0, zero_mul]
      by_cases hrk : r * k < 0
      · rw [if_pos hrk]
      · rw [if_neg hrk]
        have : r * k ≤ 0 := mul_nonpos_of_nonpos_of_nonneg (le_of_lt hr0) hk
        exact le_antisymm this (not_lt.mp hrk)
    · rw [if_neg hr0, if_neg (not_lt.mpr (mul_nonneg (not_lt.mp hr0) hk))]

theorem isDesc_map_mul (x : List K) (c : K) (hc : 0 < c) : isDesc (x.map (· * c)) = isDesc x := by
  unfold isDesc
  rw [List.head?_map, List.getLast?_map]
  cases x.head? <;> cases x.getLast? <;> simp [mul_lt_mul_iff_of_pos_right hc]

theorem clipNeg_map_mul (kn : Bool) (y : List K) (k : K) (hk : 0 < k) :
    (clipNeg kn (y.map (· * k))).1 = (clipNeg kn y).1.map (· * k) := by
  unfold clipNeg
  cases kn
  · simp only [Bool.false_eq_true, if_false, List.map_map]
    apply List.map_congr_left
    intro v _
    simp only [Function.comp]
    by_cases hv : v < 0
    · rw [if_pos hv, if_pos (mul_neg_of_neg_of_pos hv hk), zero_mul]
    · rw [if_neg hv, if_neg (not_lt.mpr (mul_nonneg (not_lt.mp hv) hk.le))]
  · simp

theorem endsZero_map_mul (y : List K) (k : K) (hk : k ≠ 0) : endsZero (y.map (· * k)) = endsZero y := by
  unfold endsZero
  rw [List.head?_map, List.getLast?_map]
  cases y.head? <;> cases y.getLast? <;> simp [hk]

/-- the constructor commutes with the scaling -/
theorem mkTable_scaled (x y : List K) (kn : Bool) (c k : K) (hc : 0 < c) (hk : 0 < k) :
    (mkTable (x.map (· * c)) (y.map (· * k)) kn).1 = scaled (mkTable x y kn).1 c k := by
  unfold mkTable scaled
  simp only [isDesc_map_mul x c hc]
  by_cases hd : isDesc x = true
  · simp only [hd, if_true, ← List.map_reverse, clipNeg_map_mul _ _ k hk, endsZero_map_mul _ k hk.ne']
  · simp only [hd, Bool.false_eq_true, if_false, clipNeg_map_mul _ _ k hk, endsZero_map_mul _ k hk.ne']

end Synphot.C03x
