/-
  C14 — FITS spectrum files round-trip values, units and headers.

  Statements are about the model of `synphot/specio.py` in `Core/Specio.lean`
  (`writeFitsSpec`, `readFitsSpec`, `readAsciiSpec`, `validateUnit`) for every ordered field `K`,
  every verdict function `astro` of astropy's unit parser, every table, header dictionary,
  column name and flag setting.  The name table of `validate_unit` and the keyword defaults are
  the generated ones (`Generated/Tables.lean`), so the table theorems are re-checked against the
  source on every run.

  Modelled, not verified: `astropy.io.fits`, `astropy.io.ascii`, `QTable.read`, astropy's unit
  parser (a parameter), float32 rounding of the stored numbers.

  The two defects of DESIGN §7 F4 (UnboundLocalError for an unopenable file name; units whose
  upper-cased string astropy cannot parse back) were repaired in /repo (b0df8c3, 7cabd95); the model
  follows the repaired code and the full statements are proved.  The only hypothesis about astropy is
  that its parser reads back the generic string it prints for a unit (`Supported`, third case).
-/
import Mathlib.Algebra.Order.Field.Rat
import Mathlib.Tactic.NormNum
import Synphot.Lemmas.Specio
import Synphot.Props.C03

set_option linter.unusedSectionVars false
set_option linter.unusedVariables false
set_option linter.unusedSimpArgs false

namespace Synphot.C14
open Synphot
variable {K : Type} [Field K] [LinearOrder K] [IsStrictOrderedRing K]

/-! ## the unit-name table of `validate_unit` (generated from the source) -/

/-- the names listed in the statement of C01 with the unit each must resolve to (astropy's generic
string of the unit; `""` is the dimensionless unit) -/
def statedNames : List (String × String) := [
  ("photlam", "PHOTLAM"), ("photnu", "PHOTNU"), ("flam", "FLAM"), ("fnu", "FNU"), ("jy", "Jy"),
  ("stmag", "mag(ST)"), ("abmag", "mag(AB)"), ("obmag", "mag(OB)"), ("vegamag", "mag(VEGA)"),
  ("angstroms", "Angstrom"), ("inversemicrons", "1 / micron"), ("transmission", ""),
  ("extinction", ""), ("emissivity", "")]

/-- every listed name is in the source's table with the stated unit -/
theorem unit_names : ∀ p ∈ statedNames, Generated.unitNameTable.lookup p.1 = some p.2 := by
  decide

/-- the table is consulted with the lower-cased input and nothing else: two spellings that differ
only in letter case cannot be told apart -/
theorem lookup_case_insensitive (s t : String) (h : s.toLower = t.toLower) :
    lookupUnitName s = lookupUnitName t :=
  lookupUnitName_congr s t h

/-- every key of the table is itself lower case, so every entry can be reached -/
theorem table_keys_lower_case : ∀ p ∈ Generated.unitNameTable, p.1.toLower = p.1 := by
  decide +kernel

/-- lifting to any letter case: whatever `s` is, if its lower-cased form is one of the listed names
then `validate_unit(s)` is the stated unit — independently of what astropy would make of `s` -/
theorem unit_names_any_case (astro : Astro) :
    ∀ p ∈ statedNames, ∀ s : String, s.toLower = p.1 → validateUnit astro (.str s) = .ok p.2 :=
  fun p hp s hs => validateUnit_of_table astro s p.1 p.2 hs (unit_names p hp)

example : lookupUnitName "PhotLam" = some "PHOTLAM" := by decide +kernel
example : lookupUnitName "InverseMicrons" = some "1 / micron" := by decide +kernel
example : lookupUnitName "MAG(vega)" = some "mag(VEGA)" := by decide +kernel
example : lookupUnitName "Hz" = none := by decide +kernel

/-- the fallback for names outside the table is astropy on the string as given, then lower-cased -/
theorem fallback_is_exact_then_lower : Generated.unitNameFallback = "exact_then_lower" := by decide

/-- the units that are themselves names of the table (in some letter case) -/
def namedUnits : List String :=
  ["PHOTLAM", "PHOTNU", "FLAM", "FNU", "Jy", "mag(ST)", "mag(AB)", "mag(OB)", "mag(VEGA)"]

theorem namedUnits_facts : ∀ u ∈ namedUnits, u ≠ "" ∧ lookupUnitName u = some u := by
  decide +kernel

/-- the two code shapes the theorems below are about, as they stand in the source now: the TUNIT
string is `_unit_to_fits_str(validate_unit(x))`, and `fits.open` is called before the `try` -/
theorem emission_rule : Generated.unitEmission = "upper_if_same_unit" := by decide
theorem open_before_try : Generated.fitsOpenPosition = "before_try" := by decide

/-- A unit the package supports, as the model sees it: the dimensionless unit; one of the units named
in `validate_unit`'s table; or any other unit, given **the one assumption about astropy**: its parser
reads the generic string it prints for the unit back as that unit (`astro u = some u`), and that string
is not by accident a name of the table. -/
def Supported (astro : Astro) (u : String) : Prop :=
  u = "" ∨ u ∈ namedUnits ∨ (lookupUnitName u = none ∧ astro u = some u)

/-- `validate_unit` maps the generic string of every supported unit to the unit -/
theorem supported_selfValid (astro : Astro) (u : String) (h : Supported astro u) :
    u = "" ∨ SelfValid astro u := by
  rcases h with h | h | ⟨h1, h2⟩
  · exact Or.inl h
  · exact Or.inr (validateUnit_of_lookup astro u u (namedUnits_facts u h).2)
  · right
    simp [SelfValid, validateUnit, h1, h2]

/-- **every supported unit is written as a string that reads back as the same unit** — the emitted
string is upper-cased only after `validate_unit` was seen to map it back to the unit -/
theorem emitted_unit_reads_back (astro : Astro) (u : String) (h : Supported astro u) :
    readUnit astro (tunitCard (emitUnit astro u)) = .ok u :=
  readUnit_emit astro u (supported_selfValid astro u h)

/-- the legacy upper-case convention is kept wherever it is harmless: if `validate_unit` maps the
upper-cased string to the unit, that string is what is written -/
theorem emitted_upper_when_harmless (astro : Astro) (u : String)
    (h : validateUnit astro (.str u.toUpper) = .ok u) : emitUnit astro u = u.toUpper := by
  simp [emitUnit, h]

/-- … and otherwise the unit's own string is written -/
theorem emitted_keeps_case_otherwise (astro : Astro) (u : String)
    (h : validateUnit astro (.str u.toUpper) ≠ .ok u) : emitUnit astro u = u := by
  unfold emitUnit
  cases hv : validateUnit astro (.str u.toUpper) with
  | error e => rfl
  | ok v =>
    have : v ≠ u := fun e => h (by rw [hv, e])
    simp [this]

/-- the keyword defaults the property speaks of, as they stand in the source: trimming and padding
on, native precision, epsilon 0.00032; first extension, WAVELENGTH/FLUX columns; Angstrom/FLAM for
ASCII tables -/
theorem io_defaults :
    Generated.writeFitsDefaults.lookup "trim_zero" = some "True" ∧
    Generated.writeFitsDefaults.lookup "pad_zero_ends" = some "True" ∧
    Generated.writeFitsDefaults.lookup "precision" = some "None" ∧
    Generated.writeFitsDefaults.lookup "epsilon" = some "0.00032" ∧
    Generated.readFitsDefaults.lookup "ext" = some "1" ∧
    Generated.readFitsDefaults.lookup "wave_col" = some "'WAVELENGTH'" ∧
    Generated.readFitsDefaults.lookup "flux_col" = some "'FLUX'" ∧
    Generated.readAsciiDefaults.lookup "wave_unit" = some "u.AA" ∧
    Generated.readAsciiDefaults.lookup "flux_unit" = some "units.FLAM" := by
  decide

/-! ## round trip with trimming and padding disabled -/

/-- flags off: the file holds exactly the caller's rows in the caller's order, reading it back
returns the same wavelength and flux values with the units the writer validated, and the caller's
primary-header cards are in the returned header — for every supported wavelength unit and every
supported flux or throughput unit.  `hnothin`: the epsilon thinning is not in force (see
`roundtrip_raw_thinned` for the other case). -/
theorem roundtrip_raw (astro : Astro) (isStr : Bool) (a : WriteArgs K) (wu fu : String) (p : Dtype)
    (wc fc : String)
    (hwu : validateUnit astro a.waveSpec = .ok wu) (hfu : validateUnit astro a.fluxSpec = .ok fu)
    (hlen : a.wave.length = a.flux.length)
    (hp : resolvePrecision a.precision a.waveDtype a.fluxDtype = .ok p)
    (htrim : a.trimZero = false) (hpad : a.padZeroEnds = false)
    (hnothin : ¬ (a.waveDtype = .f8 ∧ p = .f4))
    (hsw : Supported astro wu) (hsf : Supported astro fu)
    (hwc : wc.toLower = a.waveCol.toLower) (hfc : fc.toLower = a.fluxCol.toLower)
    (hcols : a.waveCol.toLower ≠ a.fluxCol.toLower)
    (hkeys : (a.priHeader.map (fun kv => kv.1.toUpper)).Nodup) :
    ∃ file hdr, writeFitsSpec astro a = .ok file ∧
      readFitsSpec astro isStr (some file) (.idx 1) wc fc = .ok ⟨hdr, wu, a.wave, fu, a.flux⟩ ∧
      ∀ kv ∈ a.priHeader, hdr.lookup kv.1.toUpper = some kv.2 := by
  have hrows : storedRows a.trimZero a.padZeroEnds a.waveDtype p a.epsilon (a.wave.zip a.flux)
      = .ok (a.wave.zip a.flux) := by
    simp [storedRows, htrim, hpad, hnothin, bind, Except.bind, pure, Except.pure]
  refine ⟨writtenFile astro a wu fu p (a.wave.zip a.flux), (writtenFile astro a wu fu p (a.wave.zip a.flux)).pri,
    writeFitsSpec_ok astro a wu fu p _ hwu hfu hlen hp hrows, ?_, ?_⟩
  · rw [read_written astro isStr a wu fu p _ wc fc (emitted_unit_reads_back astro wu hsw) (emitted_unit_reads_back astro fu hsf) hwc hfc hcols, zip_fst _ _ hlen,
      zip_snd _ _ hlen]
  · intro kv hkv
    exact lookup_setCards_mem a.priHeader _ hkeys kv hkv

/-- flags off, double-precision wavelengths written in single precision: the rows read back are the
rows the thinning keeps (`thin_spec` says which) -/
theorem roundtrip_raw_thinned (astro : Astro) (isStr : Bool) (a : WriteArgs K) (wu fu : String)
    (wc fc : String)
    (hwu : validateUnit astro a.waveSpec = .ok wu) (hfu : validateUnit astro a.fluxSpec = .ok fu)
    (hlen : a.wave.length = a.flux.length) (hne : a.wave ≠ [])
    (hp : resolvePrecision a.precision a.waveDtype a.fluxDtype = .ok .f4) (hwd : a.waveDtype = .f8)
    (htrim : a.trimZero = false) (hpad : a.padZeroEnds = false)
    (hsw : Supported astro wu) (hsf : Supported astro fu)
    (hwc : wc.toLower = a.waveCol.toLower) (hfc : fc.toLower = a.fluxCol.toLower)
    (hcols : a.waveCol.toLower ≠ a.fluxCol.toLower) :
    ∃ file hdr, writeFitsSpec astro a = .ok file ∧
      readFitsSpec astro isStr (some file) (.idx 1) wc fc =
        .ok ⟨hdr, wu, (thinRows a.epsilon (a.wave.zip a.flux)).map Prod.fst,
                  fu, (thinRows a.epsilon (a.wave.zip a.flux)).map Prod.snd⟩ := by
  have hz : (a.wave.zip a.flux).isEmpty = false := by
    cases hw : a.wave with
    | nil => exact absurd hw hne
    | cons x xs =>
      cases hf : a.flux with
      | nil => rw [hw, hf] at hlen; simp at hlen
      | cons y ys => simp
  have hrows : storedRows a.trimZero a.padZeroEnds a.waveDtype .f4 a.epsilon (a.wave.zip a.flux)
      = .ok (thinRows a.epsilon (a.wave.zip a.flux)) := by
    simp [storedRows, htrim, hpad, hwd, thin, hz, bind, Except.bind, pure, Except.pure]
  exact ⟨_, _, writeFitsSpec_ok astro a wu fu .f4 _ hwu hfu hlen hp hrows,
    read_written astro isStr a wu fu .f4 _ wc fc (emitted_unit_reads_back astro wu hsw) (emitted_unit_reads_back astro fu hsf) hwc hfc hcols⟩

/-- the caller's primary- and extension-header cards are in the written file (any flag setting);
keywords are distinct after upper-casing -/
theorem header_cards_carried (astro : Astro) (a : WriteArgs K) (file : FitsFile K)
    (h : writeFitsSpec astro a = .ok file)
    (hpk : (a.priHeader.map (fun kv => kv.1.toUpper)).Nodup)
    (hek : (a.extHeader.map (fun kv => kv.1.toUpper)).Nodup) :
    (∀ kv ∈ a.priHeader, file.pri.lookup kv.1.toUpper = some kv.2) ∧
    ∃ hdu, file.exts = [hdu] ∧ ∀ kv ∈ a.extHeader, hdu.header.lookup kv.1.toUpper = some kv.2 := by
  obtain ⟨wu, fu, p, rows, _, _, _, _, _, hf⟩ := writeFitsSpec_inv astro a file h
  subst hf
  exact ⟨fun kv hkv => lookup_setCards_mem a.priHeader _ hpk kv hkv, _, rfl,
    fun kv hkv => lookup_setCards_mem a.extHeader _ hek kv hkv⟩

/-- FILENAME and ORIGIN stay unless the caller's dictionary overrides them -/
theorem default_cards_kept (astro : Astro) (a : WriteArgs K) (file : FitsFile K)
    (h : writeFitsSpec astro a = .ok file)
    (hk : ∀ kv ∈ a.priHeader, kv.1.toUpper ≠ "FILENAME" ∧ kv.1.toUpper ≠ "ORIGIN") :
    file.pri.lookup "FILENAME" = some a.filename ∧ file.pri.lookup "ORIGIN" = some "synphot" := by
  obtain ⟨wu, fu, p, rows, _, _, _, _, _, hf⟩ := writeFitsSpec_inv astro a file h
  subst hf
  constructor
  · show (setCards _ a.priHeader).lookup "FILENAME" = _
    rw [lookup_setCards_other _ _ _ (fun kv hkv => (hk kv hkv).1)]; simp [List.lookup]
  · show (setCards _ a.priHeader).lookup "ORIGIN" = _
    rw [lookup_setCards_other _ _ _ (fun kv hkv => (hk kv hkv).2)]
    have : ("ORIGIN" == "FILENAME") = false := by decide
    simp [List.lookup, this]

/-! ## the epsilon thinning -/

/-- the thinning rule: the survivors are rows of the input in the input's order; on ascending
(descending) wavelengths any two of them are farther apart than `eps`; the last row always
survives -/
theorem thin_spec (eps : K) (l : List (K × K)) :
    (thinRows eps l).Sublist l ∧
    (l.Pairwise (fun a b => a.1 ≤ b.1) → (thinRows eps l).Pairwise (fun a b => eps < b.1 - a.1)) ∧
    (l.Pairwise (fun a b => b.1 ≤ a.1) → (thinRows eps l).Pairwise (fun a b => eps < a.1 - b.1)) ∧
    (thinRows eps l).getLast? = l.getLast? :=
  ⟨thinRows_sublist eps l, thinRows_pairwise_asc eps l, thinRows_pairwise_desc eps l,
    thinRows_getLast? eps l⟩

/-- the recursion of the model is the statement of the code: the rows `i` with
`|w[i+1] − w[i]| > epsilon`, then the last row -/
theorem thin_as_coded (eps : K) (l : List (K × K)) :
    thinRows eps l =
      ((l.zip l.tail).filter (fun p => decide (eps < |p.2.1 - p.1.1|))).map Prod.fst
        ++ l.getLast?.toList :=
  thinRows_eq_where eps l

/-- rows whose neighbours are all farther apart than `eps` are all kept -/
theorem thin_keeps_separated (eps : K) (l : List (K × K))
    (h : l.IsChain (fun a b => eps < |b.1 - a.1|)) : thinRows eps l = l :=
  thinRows_of_gaps eps l h

/-! ## default options: zero rows dropped, one zero row beyond each end -/

/-- the padded table: exactly one new row in front of the first and one behind the last row, zero
flux, and on positive ascending wavelengths both lie strictly outside the range of the table -/
theorem pad_beyond_ends_asc (rows : List (K × K)) (h2 : 2 ≤ rows.length)
    (hasc : rows.Pairwise (fun a b => a.1 < b.1)) (hpos : ∀ r ∈ rows, 0 < r.1) :
    ∃ w1 w2, padZeroEnds rows = .ok ((w1, 0) :: rows ++ [(w2, 0)]) ∧ 0 < w1 ∧
      (∀ r ∈ rows, w1 < r.1) ∧ (∀ r ∈ rows, r.1 < w2) := by
  match rows, h2 with
  | r0 :: r1 :: t, _ =>
    obtain ⟨l0, l1, t', hrev⟩ := reverse_two r0 r1 t
    have hr1 : 0 < r1.1 := hpos r1 (by simp)
    have hr0 : 0 < r0.1 := hpos r0 (by simp)
    have hmem : ∀ x, x ∈ (r0 :: r1 :: t) ↔ x ∈ l0 :: l1 :: t' := by
      intro x; rw [← hrev, List.mem_reverse]
    have hl1 : 0 < l1.1 := hpos l1 ((hmem l1).mpr (by simp))
    have hrp : (l0 :: l1 :: t').Pairwise (fun a b => b.1 < a.1) := by
      rw [← hrev, List.pairwise_reverse]; exact hasc
    have h01 : r0.1 < r1.1 := (List.pairwise_cons.mp hasc).1 r1 (by simp)
    have hl10 : l1.1 < l0.1 := (List.pairwise_cons.mp hrp).1 l1 (by simp)
    refine ⟨r0.1 ^ 2 / r1.1, l0.1 ^ 2 / l1.1,
      padZeroEnds_ok r0 r1 l0 l1 t t' hrev (ne_of_gt hr1) (ne_of_gt hl1),
      (pad_front_asc _ _ hr0 h01).1, ?_, ?_⟩
    · intro r hr
      have hlt := (pad_front_asc _ _ hr0 h01).2
      rcases List.mem_cons.mp hr with e | e
      · rw [e]; exact hlt
      · exact lt_trans hlt ((List.pairwise_cons.mp hasc).1 r e)
    · intro r hr
      have hgt := pad_back_asc _ _ hl1 hl10
      rcases List.mem_cons.mp ((hmem r).mp hr) with e | e
      · rw [e]; exact hgt
      · exact lt_trans ((List.pairwise_cons.mp hrp).1 r e) hgt

/-- the same for descending wavelengths: the first new row lies above, the last below (and positive) -/
theorem pad_beyond_ends_desc (rows : List (K × K)) (h2 : 2 ≤ rows.length)
    (hdesc : rows.Pairwise (fun a b => b.1 < a.1)) (hpos : ∀ r ∈ rows, 0 < r.1) :
    ∃ w1 w2, padZeroEnds rows = .ok ((w1, 0) :: rows ++ [(w2, 0)]) ∧ 0 < w2 ∧
      (∀ r ∈ rows, r.1 < w1) ∧ (∀ r ∈ rows, w2 < r.1) := by
  match rows, h2 with
  | r0 :: r1 :: t, _ =>
    obtain ⟨l0, l1, t', hrev⟩ := reverse_two r0 r1 t
    have hr1 : 0 < r1.1 := hpos r1 (by simp)
    have hmem : ∀ x, x ∈ (r0 :: r1 :: t) ↔ x ∈ l0 :: l1 :: t' := by
      intro x; rw [← hrev, List.mem_reverse]
    have hl1 : 0 < l1.1 := hpos l1 ((hmem l1).mpr (by simp))
    have hl0 : 0 < l0.1 := hpos l0 ((hmem l0).mpr (by simp))
    have hrp : (l0 :: l1 :: t').Pairwise (fun a b => a.1 < b.1) := by
      rw [← hrev, List.pairwise_reverse]; exact hdesc
    have h01 : r1.1 < r0.1 := (List.pairwise_cons.mp hdesc).1 r1 (by simp)
    have hl10 : l0.1 < l1.1 := (List.pairwise_cons.mp hrp).1 l1 (by simp)
    refine ⟨r0.1 ^ 2 / r1.1, l0.1 ^ 2 / l1.1,
      padZeroEnds_ok r0 r1 l0 l1 t t' hrev (ne_of_gt hr1) (ne_of_gt hl1),
      (pad_back_desc _ _ hl0 hl10).1, ?_, ?_⟩
    · intro r hr
      have hgt := pad_front_desc _ _ hr1 h01
      rcases List.mem_cons.mp hr with e | e
      · rw [e]; exact hgt
      · exact lt_trans ((List.pairwise_cons.mp hdesc).1 r e) hgt
    · intro r hr
      have hlt := (pad_back_desc _ _ hl0 hl10).2
      rcases List.mem_cons.mp ((hmem r).mp hr) with e | e
      · rw [e]; exact hlt
      · exact lt_trans hlt ((List.pairwise_cons.mp hrp).1 r e)

/-- the padding is applied to the rows at the ends of the table as it stands after trimming — with
fewer than two rows left there is nothing to extrapolate from (`IndexError`) -/
theorem pad_needs_two_rows (rows : List (K × K)) (h : rows.length < 2) :
    padZeroEnds rows = .error .indexError :=
  padZeroEnds_short rows h

/-- default options: what is read back is one zero-flux row, then exactly the rows of the input
whose flux is not zero, unchanged and in the input's order, then one zero-flux row; units as
validated by the writer.  `nz` is the list of non-zero rows; at least two of them must remain and
their wavelengths must not be zero. -/
theorem roundtrip_default (astro : Astro) (isStr : Bool) (a : WriteArgs K) (wu fu : String) (p : Dtype)
    (wc fc : String)
    (hwu : validateUnit astro a.waveSpec = .ok wu) (hfu : validateUnit astro a.fluxSpec = .ok fu)
    (hlen : a.wave.length = a.flux.length)
    (hp : resolvePrecision a.precision a.waveDtype a.fluxDtype = .ok p)
    (htrim : a.trimZero = true) (hpad : a.padZeroEnds = true)
    (hnothin : ¬ (a.waveDtype = .f8 ∧ p = .f4))
    (h2 : 2 ≤ (trimZero (a.wave.zip a.flux)).length)
    (hw : ∀ r ∈ trimZero (a.wave.zip a.flux), r.1 ≠ 0)
    (hsw : Supported astro wu) (hsf : Supported astro fu)
    (hwc : wc.toLower = a.waveCol.toLower) (hfc : fc.toLower = a.fluxCol.toLower)
    (hcols : a.waveCol.toLower ≠ a.fluxCol.toLower) :
    let nz := (a.wave.zip a.flux).filter (fun r => decide (r.2 ≠ 0))
    ∃ file hdr w1 w2, writeFitsSpec astro a = .ok file ∧
      readFitsSpec astro isStr (some file) (.idx 1) wc fc =
        .ok ⟨hdr, wu, w1 :: nz.map Prod.fst ++ [w2], fu, 0 :: nz.map Prod.snd ++ [0]⟩ ∧
      nz.Sublist (a.wave.zip a.flux) ∧ (∀ r ∈ nz, r.2 ≠ 0) ∧
      (∀ r ∈ a.wave.zip a.flux, r.2 ≠ 0 → r ∈ nz) := by
  intro nz
  have hnz : trimZero (a.wave.zip a.flux) = nz := rfl
  rw [hnz] at h2 hw
  obtain ⟨w1, w2, hpadok⟩ : ∃ w1 w2, padZeroEnds nz = .ok ((w1, 0) :: nz ++ [(w2, 0)]) := by
    match hm : nz, h2 with
    | r0 :: r1 :: t, _ =>
      obtain ⟨l0, l1, t', hrev⟩ := reverse_two r0 r1 t
      have hmem : l1 ∈ r0 :: r1 :: t := by
        rw [← List.mem_reverse, hrev]; simp
      exact ⟨_, _, padZeroEnds_ok r0 r1 l0 l1 t t' hrev (hw r1 (by simp)) (hw l1 hmem)⟩
  have hrows : storedRows a.trimZero a.padZeroEnds a.waveDtype p a.epsilon (a.wave.zip a.flux)
      = .ok ((w1, 0) :: nz ++ [(w2, 0)]) := by
    simp [storedRows, htrim, hpad, hnothin, hnz, hpadok, bind, Except.bind, pure, Except.pure]
  refine ⟨writtenFile astro a wu fu p ((w1, 0) :: nz ++ [(w2, 0)]),
    (writtenFile astro a wu fu p ((w1, 0) :: nz ++ [(w2, 0)])).pri, w1, w2,
    writeFitsSpec_ok astro a wu fu p _ hwu hfu hlen hp hrows, ?_, List.filter_sublist, ?_, ?_⟩
  · rw [read_written astro isStr a wu fu p _ wc fc (emitted_unit_reads_back astro wu hsw) (emitted_unit_reads_back astro fu hsf) hwc hfc hcols]
    simp
  · intro r hr; simpa using (List.mem_filter.mp hr).2
  · intro r hr hne; exact List.mem_filter.mpr ⟨hr, by simpa using hne⟩

/-! ## ASCII tables -/

/-- the general form: the first field of every data line is the wavelength, the second the flux -/
theorem ascii_columns_units (astro : Astro) (lines : List (AsciiLine K)) (ws fs : Option UnitSpec)
    (wu fu : String) (r0 : List K) (rest : List (List K))
    (hrows : asciiRows lines = r0 :: rest) (hn : 2 ≤ r0.length)
    (hall : ∀ r ∈ asciiRows lines, r.length = r0.length)
    (hwu : validateUnit astro (ws.getD (.unit "Angstrom")) = .ok wu)
    (hfu : validateUnit astro (fs.getD (.unit "FLAM")) = .ok fu) :
    readAsciiSpec astro (some lines) ws fs =
      .ok (wu, (asciiRows lines).map (fun r => r.getD 0 0), fu, (asciiRows lines).map (fun r => r.getD 1 0)) := by
  simp [readAsciiSpec, asciiTable_ok lines r0 rest hrows hall, asciiFinish, hwu, hfu, bind, Except.bind,
    Nat.not_lt.mpr hn]

/-- an ASCII table is read as first column = wavelength in Angstrom, second column = flux in FLAM
when no units are requested -/
theorem ascii_columns (astro : Astro) (lines : List (AsciiLine K)) (r0 : List K) (rest : List (List K))
    (hrows : asciiRows lines = r0 :: rest) (hn : 2 ≤ r0.length)
    (hall : ∀ r ∈ asciiRows lines, r.length = r0.length) :
    readAsciiSpec astro (some lines) none none =
      .ok ("Angstrom", (asciiRows lines).map (fun r => r.getD 0 0),
           "FLAM", (asciiRows lines).map (fun r => r.getD 1 0)) :=
  ascii_columns_units astro lines none none _ _ r0 rest hrows hn hall rfl rfl

/-- comment lines, blank lines and every column after the second do not influence the result (value
or error): the table stripped down to its data lines and their first two fields reads the same -/
theorem ascii_ignores_comments_and_extra_columns (astro : Astro) (lines : List (AsciiLine K))
    (ws fs : Option UnitSpec) (r0 : List K) (rest : List (List K))
    (hrows : asciiRows lines = r0 :: rest) (hn : 2 ≤ r0.length)
    (hall : ∀ r ∈ asciiRows lines, r.length = r0.length) :
    readAsciiSpec astro (some lines) ws fs =
      readAsciiSpec astro (some ((asciiRows lines).map (fun r => AsciiLine.data (r.take 2)))) ws fs := by
  have hstrip : ∀ rows : List (List K), asciiRows (rows.map (fun r => AsciiLine.data (r.take 2)))
      = rows.map (fun r => r.take 2) := by
    intro rows
    induction rows with
    | nil => rfl
    | cons r t ih => simp only [List.map_cons, asciiRows, List.filterMap_cons] at ih ⊢; rw [ih]
  have hrows' : asciiRows ((asciiRows lines).map (fun r => AsciiLine.data (r.take 2)))
      = r0.take 2 :: rest.map (fun r => r.take 2) := by rw [hstrip, hrows]; rfl
  have hall2 : ∀ r ∈ asciiRows ((asciiRows lines).map (fun r => AsciiLine.data (r.take 2))),
      r.length = (r0.take 2).length := by
    rw [hstrip]; intro r hr
    obtain ⟨x, hx, rfl⟩ := List.mem_map.mp hr
    have := hall x hx
    simp only [List.length_take]; omega
  have h2 : (r0.take 2).length = 2 := by simp only [List.length_take]; omega
  have hcol : ∀ i, i < 2 → ((asciiRows lines).map (fun r => r.take 2)).map (fun r => r.getD i 0)
      = (asciiRows lines).map (fun r => r.getD i 0) := by
    intro i hi
    rw [List.map_map]
    apply List.map_congr_left
    intro r _
    simp [List.getD_eq_getElem?_getD, List.getElem?_take, hi]
  unfold readAsciiSpec
  rw [asciiTable_ok lines r0 rest hrows hall, asciiTable_ok _ _ _ hrows' hall2, h2, hstrip]
  simp only [bind, Except.bind, asciiFinish, hcol 0 (by omega), hcol 1 (by omega),
    Nat.not_lt.mpr hn, Nat.lt_irrefl]

/-- a table with a single column has no flux column: `IndexError` (a lookup error) -/
theorem ascii_one_column (astro : Astro) (lines : List (AsciiLine K)) (x : K) (rest : List (List K))
    (hrows : asciiRows lines = [x] :: rest) (hall : ∀ r ∈ asciiRows lines, r.length = 1) :
    readAsciiSpec astro (some lines) none none = .error .indexError := by
  simp [readAsciiSpec, asciiTable_ok lines [x] rest hrows (by simpa using hall), asciiFinish,
    validateUnit, bind, Except.bind]

theorem ascii_open_failure_is_file_error (astro : Astro) (ws fs : Option UnitSpec) :
    readAsciiSpec (K := K) astro none ws fs = .error .fileError := rfl

/-! ## error classes of the FITS reader -/

/-- a file that cannot be opened — file name or file object alike — is reported through the
underlying file error: `fits.open` is called before the `try`, nothing intercepts its `OSError` -/
theorem open_failure_is_file_error (astro : Astro) (isStr : Bool) (ext : ExtSel) (wc fc : String) :
    readFitsSpec (K := K) astro isStr none ext wc fc = .error .fileError := rfl

/-- no outcome of `read_fits_spec` on an unopenable file is an `UnboundLocalError` -/
theorem open_failure_never_unbound_local (astro : Astro) (isStr : Bool) (ext : ExtSel) (wc fc : String) :
    readFitsSpec (K := K) astro isStr none ext wc fc ≠ .error .unboundLocal := by
  rw [open_failure_is_file_error]; intro h; cases h

/-- once the file is open the `finally` block is harmless: the outcome is that of the body -/
theorem opened_file_finally_is_harmless (astro : Astro) (isStr : Bool) (f : FitsFile K) (ext : ExtSel)
    (wc fc : String) :
    readFitsSpec astro isStr (some f) ext wc fc = readFitsBody astro f ext wc.toLower fc.toLower :=
  readFitsSpec_opened astro isStr f ext wc fc

/-- a table extension number the file does not have: `IndexError` -/
theorem missing_ext_number_is_lookup_error (astro : Astro) (isStr : Bool) (f : FitsFile K) (i : Int)
    (wc fc : String) (h : (f.exts.length : Int) < i) :
    readFitsSpec astro isStr (some f) (.idx i) wc fc = .error .indexError := by
  rw [readFitsSpec_opened]
  simp [readFitsBody, selectExt_idx_beyond f i h, bind, Except.bind]

/-- an extension name the file does not have: `KeyError` -/
theorem missing_ext_name_is_lookup_error (astro : Astro) (isStr : Bool) (f : FitsFile K) (s : String)
    (wc fc : String) (h : ∀ hdu ∈ f.exts, hdu.extname.toUpper ≠ s.toUpper) :
    readFitsSpec astro isStr (some f) (.name s) wc fc = .error .lookupError := by
  rw [readFitsSpec_opened]
  simp [readFitsBody, selectExt_name_none f s h, bind, Except.bind]

/-- the requested wavelength column is not in the table (in any letter case): the error is the one
of the lookup itself — `list.index` raising `ValueError: '…' is not in list` — provided the unit
cards of the extension are readable, so that the lookup is reached -/
theorem missing_wave_column_is_lookup_error (astro : Astro) (isStr : Bool) (f : FitsFile K)
    (ext : ExtSel) (hdu : TableHdu K) (wc fc : String) (hsel : selectExt f ext = .ok hdu)
    (cols : List (String × String × List K)) (hunits : fixCols astro hdu.cols = .ok cols)
    (hmiss : ∀ c ∈ cols, c.1.toLower ≠ wc.toLower) :
    readFitsSpec astro isStr (some f) ext wc fc = .error .valueError := by
  rw [readFitsSpec_opened]
  simp [readFitsBody, hsel, hunits, findCol_none cols _ hmiss, bind, Except.bind]

/-- the same for the flux column (the wavelength column exists and its unit is readable) -/
theorem missing_flux_column_is_lookup_error (astro : Astro) (isStr : Bool) (f : FitsFile K)
    (ext : ExtSel) (hdu : TableHdu K) (wc fc : String) (hsel : selectExt f ext = .ok hdu)
    (cols : List (String × String × List K)) (hunits : fixCols astro hdu.cols = .ok cols)
    (cw : String × String × List K) (wu : String)
    (hfound : findCol cols wc.toLower = .ok cw) (hwunit : colUnit astro cw.2.1 = .ok wu)
    (hmiss : ∀ c ∈ cols, c.1.toLower ≠ fc.toLower) :
    readFitsSpec astro isStr (some f) ext wc fc = .error .valueError := by
  rw [readFitsSpec_opened]
  simp [readFitsBody, hsel, hunits, hfound, hwunit, findCol_none cols _ hmiss, bind, Except.bind]

/-- the column lookup is case-insensitive on both sides: the stored names and the requested name
are lower-cased before they are compared -/
theorem column_lookup_case_insensitive (astro : Astro) (isStr : Bool) (f : FitsFile K) (ext : ExtSel)
    (wc wc' fc fc' : String) (hw : wc.toLower = wc'.toLower) (hf : fc.toLower = fc'.toLower) :
    readFitsSpec astro isStr (some f) ext wc fc = readFitsSpec astro isStr (some f) ext wc' fc' := by
  rw [readFitsSpec_opened, readFitsSpec_opened, hw, hf]

/-! ## why the writer no longer upper-cases unconditionally (documentation of the repaired defect) -/

theorem hz_facts : "Hz".toUpper = "HZ" ∧ "HZ".toLower = "hz" ∧ lookupUnitName "HZ" = none ∧
    lookupUnitName "Hz" = none := by
  decide +kernel

/-- with astropy's case-sensitive verdicts on `HZ` and `hz`, the string the *unrepaired* writer emitted
for Hz (`to_string().upper()`) cannot be read back -/
theorem unconditional_upper_fails_for_hz (astro : Astro) (h2 : astro "HZ" = none) (h3 : astro "hz" = none) :
    readUnit astro (tunitCard "Hz".toUpper) = .error .valueError := by
  obtain ⟨e1, e2, e3, _⟩ := hz_facts
  apply readUnit_upper_unparsable
  · rw [e1]; decide
  · rw [e1]; exact e3
  · rw [e1]; exact h2
  · rw [e1, e2]; exact h3

/-- the repaired writer keeps `Hz` as it is under the same verdicts, and it reads back -/
theorem hz_keeps_case_and_reads_back (astro : Astro) (h1 : astro "Hz" = some "Hz") (h2 : astro "HZ" = none)
    (h3 : astro "hz" = none) :
    emitUnit astro "Hz" = "Hz" ∧ readUnit astro (tunitCard (emitUnit astro "Hz")) = .ok "Hz" := by
  obtain ⟨e1, e2, e3, e4⟩ := hz_facts
  constructor
  · apply emitted_keeps_case_otherwise
    rw [e1, validateUnit_unparsable astro "HZ" e3 h2 (by rw [e2]; exact h3)]
    intro h; cases h
  · exact emitted_unit_reads_back astro "Hz" (Or.inr (Or.inr ⟨e4, h1⟩))

/-! ## reloading: the loaded object returns the saved values at the saved wavelengths -/

/-- `Empirical1D(points=wave, lookup_table=flux, keep_neg=k)` — what `from_file` builds from the file's
columns — evaluated at any stored wavelength returns the stored value: ascending wavelengths, at least
two rows, and no negative value unless `keep_neg` (negative values are clipped by the constructor,
C03).  Interpolation at the knots is C03's `eval_knot_left/right`. -/
theorem reload_samples_saved (wave flux : List K) (keepNeg : Bool)
    (hlen : wave.length = flux.length) (h2 : 2 ≤ wave.length) (hasc : StrictAsc wave)
    (hclip : keepNeg = true ∨ ∀ y ∈ flux, 0 ≤ y) :
    ∀ p ∈ wave.zip flux, (mkTable wave flux keepNeg).1.eval p.1 = p.2 := by
  have hnd : isDesc wave = false := by
    match wave, h2, hasc with
    | a :: b :: l, _, hasc =>
      have hle : a ≤ (a :: b :: l).getLastD 0 :=
        strictAsc_mem_le_last (a :: b :: l) hasc 0 a (by simp)
      have hl : (a :: b :: l).getLast? = some ((a :: b :: l).getLastD 0) := by
        rw [List.getLastD_eq_getLast?]
        cases h : (a :: b :: l).getLast? with
        | none => simp at h
        | some v => rfl
      unfold isDesc
      rw [hl]
      show decide ((a :: b :: l).getLastD 0 < a) = false
      exact decide_eq_false (not_lt.mpr hle)
  have hcl : (clipNeg keepNeg flux).1 = flux := by
    unfold clipNeg
    rcases hclip with hk | hk
    · simp [hk]
    · cases keepNeg
      · simp only [Bool.false_eq_true, if_false]
        conv_rhs => rw [← List.map_id flux]
        apply List.map_congr_left
        intro y hy
        simp [not_lt.mpr (hk y hy)]
      · simp
  have hpts : (mkTable wave flux keepNeg).1.pts = wave := by simp [mkTable, hnd]
  have hvals : (mkTable wave flux keepNeg).1.vals = flux := by simp [mkTable, hnd, hcl]
  have hkn : (mkTable wave flux keepNeg).1.keepNeg = keepNeg := by simp [mkTable]
  have hw : C03.WF (mkTable wave flux keepNeg).1 := ⟨by rw [hpts]; exact hasc, by rw [hpts, hvals, hlen]⟩
  have hc : C03.Clipped (mkTable wave flux keepNeg).1 := by
    unfold C03.Clipped
    rw [hkn, hvals]; exact hclip
  intro p hp
  obtain ⟨s, hs, h⟩ := mem_zip_segs wave flux hlen h2 p hp
  have hs' : s ∈ segs (mkTable wave flux keepNeg).1.pts (mkTable wave flux keepNeg).1.vals := by
    rw [hpts, hvals]; exact hs
  rcases h with h | h
  · rw [← h]; exact C03.eval_knot_left _ hw hc s hs'
  · rw [← h]; exact C03.eval_knot_right _ hw hc s hs'

/-- saving with the flags off and loading again: the object built from what `read_fits_spec` returns
gives the saved value at every saved wavelength -/
theorem reload_after_roundtrip_raw (astro : Astro) (isStr : Bool) (a : WriteArgs K) (wu fu : String)
    (p : Dtype) (wc fc : String) (keepNeg : Bool)
    (hwu : validateUnit astro a.waveSpec = .ok wu) (hfu : validateUnit astro a.fluxSpec = .ok fu)
    (hlen : a.wave.length = a.flux.length)
    (hp : resolvePrecision a.precision a.waveDtype a.fluxDtype = .ok p)
    (htrim : a.trimZero = false) (hpad : a.padZeroEnds = false)
    (hnothin : ¬ (a.waveDtype = .f8 ∧ p = .f4))
    (hsw : Supported astro wu) (hsf : Supported astro fu)
    (hwc : wc.toLower = a.waveCol.toLower) (hfc : fc.toLower = a.fluxCol.toLower)
    (hcols : a.waveCol.toLower ≠ a.fluxCol.toLower)
    (hkeys : (a.priHeader.map (fun kv => kv.1.toUpper)).Nodup)
    (h2 : 2 ≤ a.wave.length) (hasc : StrictAsc a.wave)
    (hclip : keepNeg = true ∨ ∀ y ∈ a.flux, 0 ≤ y) :
    ∃ file r, writeFitsSpec astro a = .ok file ∧
      readFitsSpec astro isStr (some file) (.idx 1) wc fc = .ok r ∧
      ∀ row ∈ a.wave.zip a.flux, (mkTable r.wave r.flux keepNeg).1.eval row.1 = row.2 := by
  obtain ⟨file, hdr, hw, hr, _⟩ := roundtrip_raw astro isStr a wu fu p wc fc hwu hfu hlen hp htrim hpad
    hnothin hsw hsf hwc hfc hcols hkeys
  exact ⟨file, _, hw, hr, reload_samples_saved a.wave a.flux keepNeg hlen h2 hasc hclip⟩

/-! ## non-vacuity: every hypothesis of the round-trip theorems is satisfiable, and the pipeline
computes what the statements say on a concrete table -/

/-- an astropy that knows `nm` in lower case only (as the real one) -/
def astroDemo : Astro := fun s => if s = "nm" then some "nm" else none

example : validateUnit astroDemo (.str "flam") = .ok "FLAM" := by decide +kernel
example : validateUnit astroDemo (.str "NM") = .ok "nm" := by decide +kernel
example : validateUnit astroDemo (.unit "nm") = .ok "nm" := rfl
example : emitUnit astroDemo "nm" = "NM" := by decide +kernel
example : readUnit astroDemo (tunitCard (emitUnit astroDemo "nm")) = .ok "nm" := by decide +kernel
example : Supported astroDemo "nm" := Or.inr (Or.inr ⟨by decide +kernel, rfl⟩)
example : readUnit astroDemo (tunitCard (emitUnit astroDemo "FLAM")) = .ok "FLAM" := by decide +kernel
example : resolvePrecision none .f8 .f8 = .ok .f8 := rfl
example : resolvePrecision (some "Single") .f8 .f8 = .ok .f4 := by decide +kernel
example : resolvePrecision (some "half") .f8 .f8 = .error .synphotError := by decide +kernel
example : "Wv".toLower = "WV".toLower ∧ "WV".toLower ≠ "FX".toLower := by decide +kernel

/-- defaults on `[(1,0),(2,5),(3,0),(4,7)]`: zero rows dropped, `2²/4 = 1` in front, `4²/2 = 8` behind -/
example : storedRows true true .f8 .f8 (1/2) [((1:ℚ), 0), (2, 5), (3, 0), (4, 7)]
    = .ok [(1, 0), (2, 5), (4, 7), (8, 0)] := by
  simp [storedRows, trimZero, padZeroEnds, bind, Except.bind, pure, Except.pure]
  norm_num

/-- flags off, double → single with `eps = 1/2`: rows closer than `eps` to their successor go -/
example : storedRows false false .f8 .f4 (1/2) [((1:ℚ), 5), (5/4, 6), (2, 7), (9/4, 8)]
    = .ok [(5/4, 6), (9/4, 8)] := by
  simp [storedRows, thin, thinRows, bind, Except.bind, pure, Except.pure]
  norm_num [abs_of_nonneg]

/-- a single non-zero row cannot be padded -/
example : storedRows true true .f8 .f8 (1/2) [((1:ℚ), 0), (2, 5), (3, 0)] = .error .indexError := by
  simp [storedRows, trimZero, padZeroEnds, bind, Except.bind, pure, Except.pure]

end Synphot.C14
