/-
  Synphot.Core.Bandpar — the photometric parameters of a bandpass as coded in
  synphot/spectrum.py: `BaseSpectrum.avgwave / barlam / pivot` (540-622) and
  `SpectralElement.unit_response / rmswidth / photbw / fwhm / tlambda / tpeak / wpeak /
  equivwidth / rectwidth / efficiency / emflx` (1570-1893), with `integrate()`'s trapezoid
  branch (501-503) and `units.HC`.

  Every parameter is a function of the list of samples `(xᵢ, yᵢ)`: `x` the validated
  wavelengths in Angstrom *in the caller's order* (ascending or descending), `y` the
  bandpass sampled there.  Trapezoid sums are signed (`scipy.integrate.trapezoid`); the
  `abs`, the `== 0` guards and the threshold masks are where the code has them.
  `tlambda` and `emflx` evaluate the bandpass once more at the average wavelength, so they
  take the bandpass `f` itself.
-/
import Synphot.Core.Trapz
import Synphot.Core.Transc
import Synphot.Core.Tree

namespace Synphot.Bandpar
variable {K : Type} [Field K] [LinearOrder K] [IsStrictOrderedRing K]

/-- `trapezoid(g(x, y), x=x)` over the samples -/
def integ (g : K × K → K) (l : List (K × K)) : K := trapz (l.map fun p => (p.1, g p))

/-- `self(x)` on a wavelength array: the first failing wavelength fails the call -/
def sample (f : K → Except Err K) : List K → Except Err (List (K × K))
  | [] => .ok []
  | x :: xs =>
    match f x with
    | .error e => .error e
    | .ok y =>
      match sample f xs with
      | .error e => .error e
      | .ok r => .ok ((x, y) :: r)

/-- sampling a compound model (`Tree.eval`) -/
def sampleTree (E : Env K) (m : Tree K) (xs : List K) : Except Err (List (K × K)) :=
  sample (m.eval E) xs

/-- `bp * k`: every sample multiplied by `k` -/
def scaleY (k : K) (l : List (K × K)) : List (K × K) := l.map fun p => (p.1, k * p.2)

/-! ### BaseSpectrum.avgwave / barlam / pivot -/

/-- `avgwave`: `num = trapz(y·x)`, `den = trapz(y)`; `0` if `den == 0` else `|num/den|` -/
def avgwave (l : List (K × K)) : K :=
  let num := integ (fun p => p.2 * p.1) l
  let den := integ (fun p => p.2) l
  if den = 0 then 0 else |num / den|

/-- `barlam` (the documented formula): `num = trapz(y·ln x / x)`, `den = trapz(y / x)`;
`0` if `den == 0` else `exp(num/den)` (no `abs`: numerator and denominator change sign together with
the sampling order) -/
def barlam (T : Transc K) (l : List (K × K)) : K :=
  let num := integ (fun p => p.2 * T.ln p.1 / p.1) l
  let den := integ (fun p => p.2 / p.1) l
  if den = 0 then 0 else T.exp (num / den)

/-- `barlam` AS FOUND, before /repo commit ca9035f: `0` if `num == 0 or den == 0` else
`exp(|num/den|)`.  Not used by the model any more; kept for the as-found witnesses of C11 §7. -/
def barlamAsFound (T : Transc K) (l : List (K × K)) : K :=
  let num := integ (fun p => p.2 * T.ln p.1 / p.1) l
  let den := integ (fun p => p.2 / p.1) l
  if num = 0 ∨ den = 0 then 0 else T.exp |num / den|

/-- `pivot`: `num = trapz(y·x)`, `den = trapz(y / x)`; `0` if `den == 0` else `sqrt(|num/den|)` -/
def pivot (T : Transc K) (l : List (K × K)) : K :=
  let num := integ (fun p => p.2 * p.1) l
  let den := integ (fun p => p.2 / p.1) l
  if den = 0 then 0 else T.sqrt |num / den|

/-! ### SpectralElement -/

/-- unit of the `area` argument: a bare number is cm², a Quantity is converted to cm² -/
inductive AreaUnit | cm2 | m2
  deriving DecidableEq, Repr

/-- `units.validate_quantity(area, AREA)` followed by `.cgs` -/
def AreaUnit.toCm2 : AreaUnit → K → K
  | .cm2, a => a
  | .m2, a => a * 10000

/-- `unit_response`: `HC / (area · |trapz(y·x)|)` in FLAM (`HC = h·c` in erg·Å; the final
`.to(FLAM)` is the identity); a zero divisor gives NumPy's `inf` -/
def unitResponse (hc area : K) (l : List (K × K)) : Except Err K :=
  let intVal := |integ (fun p => p.2 * p.1) l|
  if area * intVal = 0 then .error .nan else .ok (hc / (area * intVal))

/-- `x[mask], y[mask]` with `mask = y >= threshold` (`threshold=None`: everything) -/
def mask (thr : Option K) (l : List (K × K)) : List (K × K) :=
  match thr with
  | none => l
  | some t => l.filter fun p => decide (t ≤ p.2)

/-- `rmswidth`: the average wavelength is that of *all* samples, the two integrals run over
the masked ones -/
def rmswidth (T : Transc K) (l : List (K × K)) (thr : Option K) : K :=
  let m := mask thr l
  let a := avgwave l
  let num := integ (fun p => (p.1 - a) ^ 2 * p.2) m
  let den := integ (fun p => p.2) m
  if den = 0 then 0 else T.sqrt |num / den|

/-- `photbw` (IRAF `bandw`) -/
def photbw (T : Transc K) (l : List (K × K)) (thr : Option K) : K :=
  let m := mask thr l
  let a := barlam T l
  if a = 0 then 0
  else
    let num := integ (fun p => p.2 * T.ln (p.1 / a) ^ 2 / p.1) m
    let den := integ (fun p => p.2 / p.1) m
    if den = 0 then 0 else a * T.sqrt |num / den|

/-- `fwhm = sqrt(8 ln 2) · photbw` -/
def fwhm (T : Transc K) (l : List (K × K)) (thr : Option K) : K :=
  T.sqrt (8 * T.ln 2) * photbw T l thr

/-- `self(x).max()` (callers pass at least one sample; NumPy raises on an empty array,
see `checked`) -/
def tpeak : List (K × K) → K
  | [] => 0
  | p :: t => t.foldl (fun m q => max m q.2) p.2

/-- `x[y == tpeak][0]`: the first sample attaining the maximum -/
def wpeak (l : List (K × K)) : K :=
  match l.find? (fun p => decide (p.2 = tpeak l)) with
  | some p => p.1
  | none => 0

/-- `equivwidth = integrate(integration_type='trapezoid') = |trapz(|y|)|` -/
def equivwidth (l : List (K × K)) : K := |integ (fun p => |p.2|) l|

/-- `rectwidth`: `0` if `tpeak == 0` else `equivwidth / tpeak` -/
def rectwidth (l : List (K × K)) : K :=
  if tpeak l = 0 then 0 else equivwidth l / tpeak l

/-- `efficiency = |trapz(y / x)|` -/
def efficiency (l : List (K × K)) : K := |integ (fun p => p.2 / p.1) l|

/-- `tlambda = self(avgwave)`: the bandpass evaluated at the average wavelength; the call
validates its argument, so an average wavelength of `0` (the `den == 0` guard) raises
`ZeroWavelength` -/
def tlambda (f : K → Except Err K) (l : List (K × K)) : Except Err K :=
  let a := avgwave l
  if a ≤ 0 then .error .zeroWavelength else f a

/-- `emflx`: `0` if `tlambda == 0` else `uresp · equvw / tlambda` -/
def emflx (f : K → Except Err K) (hc area : K) (l : List (K × K)) : Except Err K := do
  let t ← tlambda f l
  if t = 0 then pure 0
  else do
    let u ← unitResponse hc area l
    pure (u * equivwidth l / t)

/-- `max()` / `[0]` on an empty array raise (`ValueError` / `IndexError`); everything else is
defined on every sample list -/
def checked (e : Err) (l : List (K × K)) (v : K) : Except Err K :=
  if l.isEmpty then .error e else .ok v

end Synphot.Bandpar
