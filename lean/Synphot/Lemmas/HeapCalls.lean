/-
  What each modelled call writes (`Core/Heap.lean`), classified against the documented write-sets.
-/
import Synphot.Lemmas.Heap

set_option linter.unusedSectionVars false
set_option linter.unusedVariables false
set_option linter.unusedSimpArgs false

namespace Synphot.HeapModel
open Synphot
variable {K : Type} [Field K] [LinearOrder K] [IsStrictOrderedRing K]

theorem writeSet_cons (e : Effect K) (es : List (Effect K)) :
    writeSet (e :: es) = (match e.loc with | some l => [l] | none => []) ++ writeSet es := by
  simp only [writeSet, List.filterMap_cons]
  cases e.loc <;> rfl

theorem writeSet_evalEffects (fx : Fixes) (t : HTree K) :
    writeSet (evalEffects fx t) = if t.hasBadBB && !fx.errstate then [.npErr] else [] := by
  unfold evalEffects
  split <;> simp [writeSet_cons, writeSet_nil, Effect.loc]

theorem writeSet_forceEffects (h : Heap K) (o : Nat) (A : Obj K) (hA : h.objs[o]? = some A) :
    writeSet (forceEffects A) = forceLocs h o := by
  unfold forceEffects forceLocs
  rw [hA]
  cases hr : A.tree.rootTab? <;> simp [hr, writeSet_cons, writeSet_nil, Effect.loc]

theorem taperBuild_writeSet (A : Obj K) (d : TaperData K) (f b k : Bool) (n m : Nat) :
    writeSet (taperBuild A d f b k n m).1 = [] := by
  simp [taperBuild, writeSet_cons, writeSet_nil, Effect.loc]

theorem taperCore_writeSet (h : Heap K) (A : Obj K) (d : TaperData K) (n m : Nat)
    (es : List (Effect K)) (ob : Obj K) (he : taperCore h A d n m = some (es, ob)) :
    writeSet es = [] := by
  unfold taperCore at he
  simp only at he
  split at he
  · cases he
  · simp only [Option.some.injEq] at he
    have := taperBuild_writeSet A d (taperEnds h A d).1 (taperEnds h A d).2.1 (taperEnds h A d).2.2 n m
    rw [he] at this; exact this

theorem cellData_aliased (c : ArrCell K) (conv : List K) (h : c.container.aliased = true) :
    cellData c conv = c.data := by
  unfold cellData
  cases hc : c.container <;> simp [hc, Container.aliased] at h ⊢

theorem objHasBadBB_of (h : Heap K) (o : Nat) (A : Obj K) (m : HTree K) (hA : h.objs[o]? = some A)
    (hm : A.model = .ok m) : objHasBadBB h o = m.hasBadBB := by
  simp [objHasBadBB, hA, hm]

/-- the only store `Empirical1D` construction makes into an existing cell -/
theorem newEmpirical_writes (fx : Fixes) (h : Heap K) (kind : Kind) (x y : Nat) (xc yc : List K)
    (keep : Bool) (md : Option Nat) (f0 : FillArg K) (zi : Option (K × ZType)) :
    ∀ l ∈ writeSet (newEmpirical fx h kind x y xc yc keep md f0 zi).1,
      l ∈ hidden fx h (.newEmpirical kind x y xc yc keep md f0 zi) := by
  intro l hl
  unfold newEmpirical at hl
  split at hl
  · rename_i cx cy hx hy
    simp only at hl
    split at hl
    · simp [writeSet_nil] at hl
    · split at hl
      · -- IndexError before the store: only the allocation of a private copy of x
        split at hl <;> simp [writeSet_cons, writeSet_nil, Effect.loc] at hl
      · have key : ∀ l ∈ writeSet
            (if cy.container.aliased = true then
              if (!keep && (cellData cy yc).any fun v => decide (v < 0)) = true then
                if fx.copyBeforeClip = true then
                  [Effect.allocArr ⟨(clipNeg false (cellData cy yc)).1, .ndarray, false⟩]
                else [Effect.writeArr y (clipNeg false (cellData cy yc)).1]
              else []
            else [Effect.allocArr ⟨if (!keep && (cellData cy yc).any fun v => decide (v < 0)) = true
                then (clipNeg false (cellData cy yc)).1 else cellData cy yc, .ndarray, false⟩] : List (Effect K)),
            l ∈ hidden fx h (.newEmpirical kind x y xc yc keep md f0 zi) := by
          intro l hl
          by_cases ha : cy.container.aliased = true
          · rw [if_pos ha] at hl
            by_cases hc : (!keep && (cellData cy yc).any fun v => decide (v < 0)) = true
            · rw [if_pos hc] at hl
              by_cases hf : fx.copyBeforeClip = true
              · rw [if_pos hf] at hl; simp [writeSet_cons, writeSet_nil, Effect.loc] at hl
              · rw [if_neg hf] at hl
                simp only [writeSet_cons, writeSet_nil, Effect.loc, List.append_nil,
                  List.mem_singleton] at hl
                subst hl
                rw [cellData_aliased cy yc ha] at hc
                simp only [Bool.and_eq_true, Bool.not_eq_true'] at hc
                simp only [Bool.not_eq_true] at hf
                simp [hidden, hy, hf, hc.1, hc.2, ha]
            · rw [if_neg hc] at hl; simp [writeSet_nil] at hl
          · rw [if_neg ha] at hl; simp [writeSet_cons, writeSet_nil, Effect.loc] at hl
        split at hl
        · -- one-point table: ValueError after the store
          rw [writeSet_append] at hl
          rcases List.mem_append.mp hl with h1 | h1
          · split at h1 <;> simp [writeSet_cons, writeSet_nil, Effect.loc] at h1
          · exact key l h1
        · simp only [writeSet_append, List.mem_append] at hl
          rcases hl with (h1 | h1) | h1
          · split at h1 <;> simp [writeSet_cons, writeSet_nil, Effect.loc] at h1
          · exact key l h1
          · simp [writeSet_cons, writeSet_nil, Effect.loc] at h1
  · simp [writeSet_nil] at hl

theorem normalize_writes (h : Heap K) (o band : Nat) (force : Bool) (stat : Overlap) (k : K)
    (numErr : Option Err) :
    ∀ l ∈ writeSet (normalize h o band force stat k numErr).1,
      l ∈ documented h (.normalize o band force stat k numErr) := by
  intro l hl
  unfold normalize at hl
  split at hl
  · rename_i A B hA hB
    split at hl
    · simp [writeSet_nil] at hl
    · split at hl
      · simp [writeSet_nil] at hl
      · split at hl
        · simp [writeSet_nil] at hl
        · split at hl
          · simp [writeSet_nil] at hl
          · split at hl
            · simp [writeSet_nil] at hl
            · split at hl <;> simp [writeSet_nil, writeSet_cons, Effect.loc] at hl
            · rename_i hs1 hs2
              have hp : stat.isPartial = true := by
                cases stat <;> simp_all [Overlap.isPartial]
              split at hl
              · simp [writeSet_nil] at hl
              · rename_i hrefuse
                have hdoc : documented h (.normalize o band force stat k numErr) = forceLocs h o := by
                  simp only [documented]
                  rw [if_pos ⟨hp, hrefuse⟩]
                rw [hdoc]
                split at hl
                · rw [writeSet_forceEffects h o A hA] at hl; exact hl
                · rw [writeSet_append, writeSet_forceEffects h o A hA] at hl
                  simpa [writeSet_cons, writeSet_nil, Effect.loc] using hl
  · simp [writeSet_nil] at hl

theorem observation_writes (h : Heap K) (src band : Nat) (force : Force) (stat : Overlap)
    (binset : Option (Nat × List K)) (d : TaperData K) (numErr : Option Err) :
    ∀ l ∈ writeSet (observation h src band force stat binset d numErr).1,
      l ∈ documented h (.observation src band force stat binset d numErr) := by
  intro l hl
  unfold observation at hl
  split at hl
  · rename_i S B hS hB
    split at hl
    · simp [writeSet_nil] at hl
    · split at hl
      · simp [writeSet_nil] at hl
      · split at hl
        · simp [writeSet_nil] at hl
        · rename_i mS hmS
          split at hl
          · simp [writeSet_nil] at hl
          · simp only at hl
            split at hl
            · simp [writeSet_nil] at hl
            · rename_i es sid S' warn tapered hadm
              -- every effect of the admission step that is not an allocation is the forced extrapolation
              have hes : ∀ l ∈ writeSet es,
                  l ∈ documented h (.observation src band force stat binset d numErr) := by
                intro l hl
                cases stat with
                | none => simp at hadm
                | full =>
                  simp only [Except.ok.injEq, Prod.mk.injEq] at hadm
                  obtain ⟨rfl, _⟩ := hadm
                  simp [writeSet_nil] at hl
                | partialMost =>
                  cases force with
                  | none => simp at hadm
                  | bogus => simp at hadm
                  | extrap =>
                    simp only [Except.ok.injEq, Prod.mk.injEq] at hadm
                    obtain ⟨rfl, _⟩ := hadm
                    rw [writeSet_forceEffects h src S hS] at hl
                    simpa [documented, Overlap.isPartial] using hl
                  | taper =>
                    simp only at hadm
                    split at hadm
                    · simp at hadm
                    · split at hadm
                      · simp only [Except.ok.injEq, Prod.mk.injEq] at hadm
                        obtain ⟨rfl, _⟩ := hadm
                        simp [writeSet_nil] at hl
                      · rename_i es' ob htc
                        simp only [Except.ok.injEq, Prod.mk.injEq] at hadm
                        obtain ⟨rfl, _⟩ := hadm
                        rw [writeSet_append, taperCore_writeSet h S d _ _ es' ob htc] at hl
                        simp [writeSet_cons, writeSet_nil, Effect.loc] at hl
                | partialNotMost =>
                  cases force with
                  | none => simp at hadm
                  | bogus => simp at hadm
                  | extrap =>
                    simp only [Except.ok.injEq, Prod.mk.injEq] at hadm
                    obtain ⟨rfl, _⟩ := hadm
                    rw [writeSet_forceEffects h src S hS] at hl
                    simpa [documented, Overlap.isPartial] using hl
                  | taper =>
                    simp only at hadm
                    split at hadm
                    · simp at hadm
                    · split at hadm
                      · simp only [Except.ok.injEq, Prod.mk.injEq] at hadm
                        obtain ⟨rfl, _⟩ := hadm
                        simp [writeSet_nil] at hl
                      · rename_i es' ob htc
                        simp only [Except.ok.injEq, Prod.mk.injEq] at hadm
                        obtain ⟨rfl, _⟩ := hadm
                        rw [writeSet_append, taperCore_writeSet h S d _ _ es' ob htc] at hl
                        simp [writeSet_cons, writeSet_nil, Effect.loc] at hl
              have hper : ∀ l ∈ writeSet (es.filter fun e => !e.isAlloc),
                  l ∈ documented h (.observation src band force stat binset d numErr) :=
                fun l hl => hes l (writeSet_filter_sub es _ l hl)
              split at hl
              · exact hper l hl
              · split at hl
                · exact hper l hl
                · exact hper l hl
                · rw [writeSet_append] at hl
                  rcases List.mem_append.mp hl with h1 | h1
                  · exact hes l h1
                  · simp [writeSet_cons, writeSet_nil, Effect.loc] at h1
  · simp [writeSet_nil] at hl

theorem mem_evalEffects (fx : Fixes) (h : Heap K) (o : Nat) (A : Obj K) (mA : HTree K)
    (hA : h.objs[o]? = some A) (hm : A.model = .ok mA) :
    ∀ l ∈ writeSet (evalEffects fx mA), l ∈ errLocs fx h o := by
  intro l hl
  rw [writeSet_evalEffects] at hl
  unfold errLocs
  rw [objHasBadBB_of h o A mA hA hm]
  split at hl
  · rename_i hc
    simp only [Bool.and_eq_true, Bool.not_eq_true'] at hc
    simp [hc.1, hc.2] at hl ⊢
    exact hl
  · simp at hl

theorem integrate_writes (fx : Fixes) (h : Heap K) (o : Nat) (w : WaveArg K) (t : IntegType)
    (numErr : Option Err) :
    ∀ l ∈ writeSet (integrate fx h o w t numErr).1, l ∈ errLocs fx h o := by
  intro l hl
  unfold integrate at hl
  split at hl
  · simp [writeSet_nil] at hl
  · rename_i A hA
    split at hl
    · simp [writeSet_nil] at hl
    · rename_i mA hm
      split at hl
      · simp [writeSet_nil] at hl
      · simp only at hl
        split at hl
        · simp [writeSet_nil] at hl
        · simp [writeSet_nil] at hl
        · simp [writeSet_nil] at hl
        · split at hl
          · exact mem_evalEffects fx h o A mA hA hm l hl
          · simp [writeSet_nil] at hl

theorem query_writes (fx : Fixes) (h : Heap K) (o : Nat) (w : WaveArg K) (numErr : Option Err) :
    ∀ l ∈ writeSet (query fx h o w numErr).1, l ∈ errLocs fx h o := by
  intro l hl
  unfold query at hl
  split at hl
  · simp [writeSet_nil] at hl
  · rename_i A hA
    split at hl
    · simp [writeSet_nil] at hl
    · rename_i mA hm
      split at hl
      · simp [writeSet_nil] at hl
      · split at hl
        · exact mem_evalEffects fx h o A mA hA hm l hl
        · simp [writeSet_nil] at hl

theorem sampleCall_writes (fx : Fixes) (env : HEnv K) (h : Heap K) (o w : Nat) (conv : List K) :
    ∀ l ∈ writeSet (sampleCall fx env h o w conv).1, l ∈ errLocs fx h o := by
  intro l hl
  unfold sampleCall at hl
  split at hl
  · rename_i A c hA hc
    simp only at hl
    split at hl
    · simp [writeSet_nil] at hl
    · split at hl
      · simp [writeSet_nil] at hl
      · rename_i mA hm
        exact mem_evalEffects fx h o A mA hA hm l hl
  · simp [writeSet_nil] at hl

theorem toFits_writes (fx : Fixes) (h : Heap K) (o : Nat) (w : WaveArg K) (dh : Option Nat)
    (ioErr : Option Err) :
    ∀ l ∈ writeSet (toFits fx h o w dh ioErr).1, l ∈ hidden fx h (.toFits o w dh ioErr) := by
  intro l hl
  unfold toFits at hl
  split at hl
  · simp [writeSet_nil] at hl
  · rename_i A hA
    split at hl
    · simp [writeSet_nil] at hl
    · split at hl
      · simp [writeSet_nil] at hl
      · rename_i mA hm
        split at hl
        · simp [writeSet_nil] at hl
        · split at hl
          · simp only [hidden, List.mem_append]
            exact Or.inr (mem_evalEffects fx h o A mA hA hm l hl)
          · simp only at hl
            cases dh with
            | none => simp [writeSet_nil] at hl
            | some d =>
              simp only at hl
              split at hl
              · simp [writeSet_nil] at hl
              · rename_i hf
                split at hl
                · simp only [writeSet_cons, writeSet_nil, Effect.loc, List.append_nil,
                    List.mem_singleton] at hl
                  subst hl
                  simp only [Bool.not_eq_true] at hf
                  simp [hidden, hf]
                · simp [writeSet_nil] at hl

/-- **every store a call makes into an existing cell is either documented or one of the three
undocumented writes selected by `fx`** -/
theorem writes_classified (fx : Fixes) (env : HEnv K) (h : Heap K) (c : Call K) :
    ∀ l ∈ writes fx env h c, l ∈ documented h c ∨ l ∈ hidden fx h c := by
  intro l hl
  unfold writes at hl
  cases c with
  | newEmpirical kind x y xc yc keep md f0 zi =>
    exact Or.inr (newEmpirical_writes fx h kind x y xc yc keep md f0 zi l hl)
  | newAnalytic kind lf zi => simp [effects, writeSet_cons, writeSet_nil, Effect.loc] at hl
  | newBlackBody temp label zi => simp [effects, writeSet_cons, writeSet_nil, Effect.loc] at hl
  | sample o w conv => exact Or.inr (by simpa [hidden] using sampleCall_writes fx env h o w conv l hl)
  | arith op a b =>
    simp only [effects, arith] at hl
    split at hl
    · split at hl
      · simp [writeSet_nil] at hl
      · split at hl
        · simp [writeSet_nil] at hl
        · split at hl <;> simp [writeSet_nil, writeSet_cons, Effect.loc] at hl
    · simp [writeSet_nil] at hl
  | rmul v a =>
    simp only [effects, arith] at hl
    split at hl
    · split at hl
      · simp [writeSet_nil] at hl
      · split at hl
        · simp [writeSet_nil] at hl
        · split at hl <;> simp [writeSet_nil, writeSet_cons, Effect.loc] at hl
    · simp [writeSet_nil] at hl
  | normalize o band force stat k numErr => exact Or.inl (normalize_writes h o band force stat k numErr l hl)
  | taper o d =>
    simp only [effects, taper] at hl
    split at hl
    · simp [writeSet_nil] at hl
    · split at hl
      · simp [writeSet_nil] at hl
      · split at hl
        · simp [writeSet_nil] at hl
        · split at hl
          · simp [writeSet_nil] at hl
          · simp [writeSet_nil] at hl
          · split at hl
            · simp [writeSet_nil] at hl
            · split at hl
              · simp [writeSet_nil] at hl
              · rename_i es ob htc
                rw [writeSet_append, taperCore_writeSet h _ d _ _ es ob htc] at hl
                simp [writeSet_cons, writeSet_nil, Effect.loc] at hl
  | observation src band force stat binset d numErr =>
    exact Or.inl (observation_writes h src band force stat binset d numErr l hl)
  | integrate o w t numErr => exact Or.inr (by simpa [hidden] using integrate_writes fx h o w t numErr l hl)
  | query o w numErr => exact Or.inr (by simpa [hidden] using query_writes fx h o w numErr l hl)
  | toFits o w d ioErr => exact Or.inr (toFits_writes fx h o w d ioErr l hl)
  | utility arrs dicts out => simp [effects, writeSet_nil] at hl
  | setZ o z =>
    simp only [effects, setZ] at hl
    split at hl
    · simp [writeSet_nil] at hl
    · split at hl <;> simp [writeSet_nil, writeSet_cons, Effect.loc] at hl
      exact Or.inl (by simp [documented, hl])
  | setZBad o =>
    simp only [effects, setZBad] at hl
    split at hl
    · simp [writeSet_nil] at hl
    · split at hl <;> simp [writeSet_nil] at hl
  | setZType o t =>
    simp only [effects, setZType] at hl
    split at hl
    · simp [writeSet_nil] at hl
    · split at hl <;> simp [writeSet_nil, writeSet_cons, Effect.loc] at hl
      exact Or.inl (by simp [documented, hl])
  | setZTypeBad o =>
    simp only [effects, setZBad] at hl
    split at hl
    · simp [writeSet_nil] at hl
    · split at hl <;> simp [writeSet_nil] at hl
  | forceExtrap o =>
    simp only [effects, forceExtrap] at hl
    split at hl
    · simp [writeSet_nil] at hl
    · rename_i A hA
      rw [writeSet_forceEffects h o A hA] at hl
      exact Or.inl (by simpa [documented] using hl)
  | setWarnings o w =>
    simp only [effects, setWarnings] at hl
    split at hl
    · simp [writeSet_nil] at hl
    · simp [writeSet_nil, writeSet_cons, Effect.loc] at hl
      exact Or.inl (by simp [documented, hl])
  | setMeta o k v =>
    simp only [effects, setMeta] at hl
    split at hl
    · simp [writeSet_nil] at hl
    · simp [writeSet_nil, writeSet_cons, Effect.loc] at hl
      exact Or.inl (by simp [documented, hl])

/-- with the three patches applied no call writes outside its documented write-set -/
theorem hidden_repaired (h : Heap K) (c : Call K) : hidden Fixes.repaired h c = [] := by
  cases c <;> simp [hidden, errLocs, Fixes.repaired]
  rename_i d _
  cases d <;> simp

end Synphot.HeapModel
