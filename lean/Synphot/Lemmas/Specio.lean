/-
  Lemmas about the list logic of `Core/Specio.lean`: header cards, zero trimming, epsilon
  thinning, end padding.
-/
import Mathlib.Tactic.Linarith
import Mathlib.Tactic.FieldSimp
import Mathlib.Data.List.Pairwise
import Mathlib.Data.List.Basic
import Synphot.Core.Specio
import Synphot.Lemmas.Interp

set_option linter.unusedSectionVars false
set_option linter.unusedVariables false
set_option linter.unusedSimpArgs false

namespace Synphot
variable {K : Type} [Field K] [LinearOrder K] [IsStrictOrderedRing K]

/-! ### header cards -/

theorem lookup_setCard (h : List (String × String)) (k v k' : String) :
    (setCard h k v).lookup k' = if k' = k then some v else h.lookup k' := by
  induction h with
  | nil =>
    by_cases e : k' = k
    · simp [setCard, List.lookup, e]
    · simp [setCard, List.lookup, e]
  | cons c t ih =>
    obtain ⟨a, b⟩ := c
    unfold setCard
    by_cases hak : a = k
    · subst hak
      by_cases e : k' = a
      · simp [List.lookup, e]
      · have : (k' == a) = false := by simpa using e
        simp [List.lookup, e, this]
    · rw [if_neg hak]
      by_cases e : k' = k
      · subst e
        have : (k' == a) = false := by simpa using fun h => hak h.symm
        simp [List.lookup, this, ih]
      · by_cases e2 : k' = a
        · subst e2; simp [List.lookup, e]
        · have : (k' == a) = false := by simpa using e2
          simp [List.lookup, this, ih, e]

/-- a keyword that the dictionary does not set keeps its card -/
theorem lookup_setCards_other (d : List (String × String)) (h : List (String × String)) (k' : String)
    (hk : ∀ kv ∈ d, kv.1.toUpper ≠ k') : (setCards h d).lookup k' = h.lookup k' := by
  induction d generalizing h with
  | nil => rfl
  | cons c t ih =>
    have h1 : c.1.toUpper ≠ k' := hk c (by simp)
    have h2 : ∀ kv ∈ t, kv.1.toUpper ≠ k' := fun kv hkv => hk kv (by simp [hkv])
    show (setCards (setCard h c.1.toUpper c.2) t).lookup k' = _
    rw [ih _ h2, lookup_setCard, if_neg (fun e => h1 e.symm)]

/-- every card of the caller's dictionary is in the header afterwards (keywords distinct after
upper-casing) -/
theorem lookup_setCards_mem (d : List (String × String)) (h : List (String × String))
    (hd : (d.map (fun kv => kv.1.toUpper)).Nodup) (kv : String × String) (hkv : kv ∈ d) :
    (setCards h d).lookup kv.1.toUpper = some kv.2 := by
  induction d generalizing h with
  | nil => cases hkv
  | cons c t ih =>
    simp only [List.map_cons, List.nodup_cons] at hd
    show (setCards (setCard h c.1.toUpper c.2) t).lookup kv.1.toUpper = _
    rcases List.mem_cons.mp hkv with e | e
    · subst e
      rw [lookup_setCards_other t _ _ (fun x hx hx' => hd.1 (by
        rw [← hx']; exact List.mem_map.mpr ⟨x, hx, rfl⟩))]
      rw [lookup_setCard, if_pos rfl]
    · exact ih _ hd.2 e

/-! ### trim_zero -/

theorem trimZero_sublist (rows : List (K × K)) : (trimZero rows).Sublist rows :=
  List.filter_sublist

theorem mem_trimZero (rows : List (K × K)) (r : K × K) : r ∈ trimZero rows ↔ r ∈ rows ∧ r.2 ≠ 0 := by
  simp [trimZero]

/-- trimming is the identity on a table without zero-flux rows -/
theorem trimZero_of_nonzero (rows : List (K × K)) (h : ∀ r ∈ rows, r.2 ≠ 0) : trimZero rows = rows := by
  unfold trimZero
  exact List.filter_eq_self.mpr (fun r hr => by simpa using h r hr)

/-! ### epsilon thinning -/

theorem thinRows_nil (eps : K) : thinRows eps ([] : List (K × K)) = [] := by simp [thinRows]
theorem thinRows_single (eps : K) (a : K × K) : thinRows eps [a] = [a] := by simp [thinRows]
theorem thinRows_cons_cons (eps : K) (a b : K × K) (t : List (K × K)) :
    thinRows eps (a :: b :: t) =
      if eps < |b.1 - a.1| then a :: thinRows eps (b :: t) else thinRows eps (b :: t) := by
  simp [thinRows]

/-- the survivors are rows of the input, in the input's order -/
theorem thinRows_sublist (eps : K) (l : List (K × K)) : (thinRows eps l).Sublist l := by
  induction l with
  | nil => simp [thinRows_nil]
  | cons a l ih =>
    cases l with
    | nil => simp [thinRows_single]
    | cons b t =>
      rw [thinRows_cons_cons]
      split_ifs
      · exact ih.cons_cons a
      · exact ih.cons a

theorem thinRows_ne_nil (eps : K) (l : List (K × K)) (h : l ≠ []) : thinRows eps l ≠ [] := by
  induction l with
  | nil => exact absurd rfl h
  | cons a l ih =>
    cases l with
    | nil => simp [thinRows_single]
    | cons b t =>
      rw [thinRows_cons_cons]
      split_ifs
      · simp
      · exact ih (by simp)

/-- the last row always survives -/
theorem thinRows_getLast? (eps : K) (l : List (K × K)) : (thinRows eps l).getLast? = l.getLast? := by
  induction l with
  | nil => simp [thinRows_nil]
  | cons a l ih =>
    cases l with
    | nil => simp [thinRows_single]
    | cons b t =>
      rw [thinRows_cons_cons]
      have hne : thinRows eps (b :: t) ≠ [] := thinRows_ne_nil eps _ (by simp)
      split_ifs
      · rw [List.getLast?_cons_of_ne_nil hne, ih]; simp [List.getLast?_cons_cons]
      · rw [ih]; simp [List.getLast?_cons_cons]

/-- the recursion is the index formulation of the code: the rows `i` with
`|w[i+1] − w[i]| > eps`, followed by the last row -/
theorem thinRows_eq_where (eps : K) (l : List (K × K)) :
    thinRows eps l =
      ((l.zip l.tail).filter (fun p => decide (eps < |p.2.1 - p.1.1|))).map Prod.fst
        ++ l.getLast?.toList := by
  induction l with
  | nil => simp [thinRows_nil]
  | cons a l ih =>
    cases l with
    | nil => simp [thinRows_single]
    | cons b t =>
      rw [thinRows_cons_cons, ih]
      by_cases h : eps < |b.1 - a.1|
      · simp [h, List.getLast?_cons_cons]
      · simp [h, List.getLast?_cons_cons]

/-- on ascending wavelengths any two survivors are farther apart than `eps` -/
theorem thinRows_pairwise_asc (eps : K) (l : List (K × K))
    (h : l.Pairwise (fun a b => a.1 ≤ b.1)) :
    (thinRows eps l).Pairwise (fun a b => eps < b.1 - a.1) := by
  induction l with
  | nil => simp [thinRows_nil]
  | cons a l ih =>
    cases l with
    | nil => simp [thinRows_single]
    | cons b t =>
      have hbt := (List.pairwise_cons.mp h).2
      have hab : a.1 ≤ b.1 := (List.pairwise_cons.mp h).1 b (by simp)
      rw [thinRows_cons_cons]
      split_ifs with hgap
      · refine List.pairwise_cons.mpr ⟨?_, ih hbt⟩
        intro x hx
        have hx' : x ∈ b :: t := (thinRows_sublist eps (b :: t)).subset hx
        have hbx : b.1 ≤ x.1 := by
          rcases List.mem_cons.mp hx' with e | e
          · rw [e]
          · exact (List.pairwise_cons.mp hbt).1 x e
        rw [abs_of_nonneg (by linarith)] at hgap
        linarith
      · exact ih hbt

/-- the same on descending wavelengths -/
theorem thinRows_pairwise_desc (eps : K) (l : List (K × K))
    (h : l.Pairwise (fun a b => b.1 ≤ a.1)) :
    (thinRows eps l).Pairwise (fun a b => eps < a.1 - b.1) := by
  induction l with
  | nil => simp [thinRows_nil]
  | cons a l ih =>
    cases l with
    | nil => simp [thinRows_single]
    | cons b t =>
      have hbt := (List.pairwise_cons.mp h).2
      have hab : b.1 ≤ a.1 := (List.pairwise_cons.mp h).1 b (by simp)
      rw [thinRows_cons_cons]
      split_ifs with hgap
      · refine List.pairwise_cons.mpr ⟨?_, ih hbt⟩
        intro x hx
        have hx' : x ∈ b :: t := (thinRows_sublist eps (b :: t)).subset hx
        have hbx : x.1 ≤ b.1 := by
          rcases List.mem_cons.mp hx' with e | e
          · rw [e]
          · exact (List.pairwise_cons.mp hbt).1 x e
        rw [abs_of_nonpos (by linarith)] at hgap
        linarith
      · exact ih hbt

/-- rows that are all farther apart than `eps` are all kept -/
theorem thinRows_of_gaps (eps : K) (l : List (K × K))
    (h : l.IsChain (fun a b => eps < |b.1 - a.1|)) : thinRows eps l = l := by
  induction l with
  | nil => simp [thinRows_nil]
  | cons a l ih =>
    cases l with
    | nil => simp [thinRows_single]
    | cons b t =>
      rw [List.isChain_cons_cons] at h
      rw [thinRows_cons_cons, if_pos h.1, ih h.2]

/-! ### pad_zero_ends -/

/-- shape of the padded table: one new row in front of the first and one behind the last row, both
with zero flux, wavelengths `w₀²/w₁` and `wₙ²/wₙ₋₁`; the rows in between are the input -/
theorem padZeroEnds_ok (r0 r1 l0 l1 : K × K) (t t' : List (K × K))
    (hrev : (r0 :: r1 :: t).reverse = l0 :: l1 :: t') (h1 : r1.1 ≠ 0) (h2 : l1.1 ≠ 0) :
    padZeroEnds (r0 :: r1 :: t) =
      .ok ((r0.1 ^ 2 / r1.1, 0) :: (r0 :: r1 :: t) ++ [(l0.1 ^ 2 / l1.1, 0)]) := by
  unfold padZeroEnds
  rw [hrev]
  simp [h1, h2]

/-- a table of at least two rows has a last and a last-but-one row -/
theorem reverse_two (r0 r1 : K × K) (t : List (K × K)) :
    ∃ l0 l1 t', (r0 :: r1 :: t).reverse = l0 :: l1 :: t' := by
  have hlen : ((r0 :: r1 :: t).reverse).length = t.length + 2 := by simp
  match hm : (r0 :: r1 :: t).reverse, hlen with
  | l0 :: l1 :: t', _ => exact ⟨l0, l1, t', rfl⟩
  | [_], hl => simp at hl
  | [], hl => simp at hl

theorem padZeroEnds_short (rows : List (K × K)) (h : rows.length < 2) :
    padZeroEnds rows = .error .indexError := by
  match rows, h with
  | [], _ => simp [padZeroEnds]
  | [a], _ => simp [padZeroEnds]

/-- the new first wavelength lies strictly beyond the first row, on the far side from the second:
`0 < w₀ < w₁ → 0 < w₀²/w₁ < w₀` -/
theorem pad_front_asc (w0 w1 : K) (h0 : 0 < w0) (h : w0 < w1) : 0 < w0 ^ 2 / w1 ∧ w0 ^ 2 / w1 < w0 := by
  have h1 : 0 < w1 := lt_trans h0 h
  refine ⟨by positivity, ?_⟩
  rw [div_lt_iff₀ h1]
  nlinarith

/-- `0 < wₙ₋₁ < wₙ → wₙ < wₙ²/wₙ₋₁` -/
theorem pad_back_asc (wl1 wl : K) (h0 : 0 < wl1) (h : wl1 < wl) : wl < wl ^ 2 / wl1 := by
  rw [lt_div_iff₀ h0]
  nlinarith

/-- descending tables: `w₀ > w₁ > 0 → w₀ < w₀²/w₁` and `wₙ₋₁ > wₙ > 0 → 0 < wₙ²/wₙ₋₁ < wₙ` -/
theorem pad_front_desc (w0 w1 : K) (h1 : 0 < w1) (h : w1 < w0) : w0 < w0 ^ 2 / w1 :=
  pad_back_asc w1 w0 h1 h

theorem pad_back_desc (wl1 wl : K) (h0 : 0 < wl) (h : wl < wl1) : 0 < wl ^ 2 / wl1 ∧ wl ^ 2 / wl1 < wl :=
  pad_front_asc wl wl1 h0 h

/-! ### units -/

theorem lookupUnitName_congr (s t : String) (h : s.toLower = t.toLower) :
    lookupUnitName s = lookupUnitName t := by
  unfold lookupUnitName; rw [h]

/-- a name of the table is accepted in any letter case, whatever astropy thinks of it -/
theorem validateUnit_of_lookup (astro : Astro) (s id : String) (h : lookupUnitName s = some id) :
    validateUnit astro (.str s) = .ok id := by
  simp [validateUnit, h]

theorem validateUnit_of_table (astro : Astro) (s n id : String) (hs : s.toLower = n)
    (h : Generated.unitNameTable.lookup n = some id) : validateUnit astro (.str s) = .ok id := by
  apply validateUnit_of_lookup
  unfold lookupUnitName; rw [hs]; exact h

/-- a string that is neither in the name table nor parsable by astropy as it stands or lower-cased
is rejected with astropy's `ValueError` -/
theorem validateUnit_unparsable (astro : Astro) (s : String) (h1 : lookupUnitName s = none)
    (h2 : astro s = none) (h3 : astro s.toLower = none) :
    validateUnit astro (.str s) = .error .valueError := by
  simp [validateUnit, h1, h2, h3]

theorem readUnit_ok_iff (astro : Astro) (card : Option String) (u : String) :
    readUnit astro card = .ok u ↔ ∃ u1, fixTunit astro card = .ok u1 ∧ colUnit astro u1 = .ok u := by
  unfold readUnit
  cases h : fixTunit astro card with
  | error e => simp [bind, Except.bind]
  | ok u1 => simp [bind, Except.bind]

theorem readUnit_none (astro : Astro) : readUnit astro none = .ok "" := by
  simp [readUnit, fixTunit, colUnit, bind, Except.bind]

theorem toUpper_ne_empty (u : String) (h : u ≠ "") : u.toUpper ≠ "" := by
  intro e
  apply h
  have h1 : (u.toUpper).toList = u.toList.map Char.toUpper := by
    unfold String.toUpper; exact String.toList_map
  rw [e] at h1
  have h2 : u.toList = [] := by
    have : ("" : String).toList = [] := rfl
    rw [this] at h1
    exact List.map_eq_nil_iff.mp h1.symm
  exact String.toList_eq_nil_iff.mp h2

/-- `validate_unit` maps the unit's own generic string to the unit -/
def SelfValid (astro : Astro) (u : String) : Prop := validateUnit astro (.str u) = .ok u

/-- the two outcomes of `_unit_to_fits_str`: upper case, and then `validate_unit` maps that string back
to the unit; or the unit's own string -/
theorem emitUnit_cases (astro : Astro) (u : String) :
    (emitUnit astro u = u.toUpper ∧ validateUnit astro (.str u.toUpper) = .ok u) ∨
      emitUnit astro u = u := by
  unfold emitUnit
  cases h : validateUnit astro (.str u.toUpper) with
  | error e => right; rfl
  | ok v =>
    by_cases hv : v = u
    · left; subst hv; simp
    · right; simp [hv]

theorem emitUnit_empty (astro : Astro) : emitUnit astro "" = "" := by
  have hu : "".toUpper = "" := by decide +kernel
  rcases emitUnit_cases astro "" with ⟨h, _⟩ | h
  · rw [h, hu]
  · exact h

/-- whatever `_unit_to_fits_str` emits is read back as the unit: either the emitted string is the
upper-cased one, which was checked to validate to the unit, or it is the unit's own string -/
theorem readUnit_emit (astro : Astro) (u : String) (h : u = "" ∨ SelfValid astro u) :
    readUnit astro (tunitCard (emitUnit astro u)) = .ok u := by
  by_cases hu : u = ""
  · subst hu
    simp [emitUnit_empty, tunitCard, readUnit_none]
  · have hs : validateUnit astro (.str u) = .ok u := by
      rcases h with h | h
      · exact absurd h hu
      · exact h
    rcases emitUnit_cases astro u with ⟨he, hv⟩ | he
    · rw [he]
      simp [readUnit, tunitCard, fixTunit, colUnit, toUpper_ne_empty u hu, hv, hs, hu, bind, Except.bind]
    · rw [he]
      simp [readUnit, tunitCard, fixTunit, colUnit, hs, hu, bind, Except.bind]

/-- why the unconditional upper-casing of the unrepaired writer failed: a string that is neither in the
name table nor parsable by astropy as it stands or lower-cased cannot be read -/
theorem readUnit_upper_unparsable (astro : Astro) (u : String) (hne : u.toUpper ≠ "")
    (h1 : lookupUnitName u.toUpper = none) (h2 : astro u.toUpper = none)
    (h3 : astro u.toUpper.toLower = none) :
    readUnit astro (tunitCard u.toUpper) = .error .valueError := by
  simp [readUnit, tunitCard, fixTunit, hne, validateUnit_unparsable astro _ h1 h2 h3, bind, Except.bind]

/-! ### the writer -/

theorem zip_fst (w f : List K) (h : w.length = f.length) : (w.zip f).map Prod.fst = w :=
  List.map_fst_zip (le_of_eq h)

theorem zip_snd (w f : List K) (h : w.length = f.length) : (w.zip f).map Prod.snd = f :=
  List.map_snd_zip (le_of_eq h.symm)

/-- the file `write_fits_spec` produces when nothing raises -/
def writtenFile (astro : Astro) (a : WriteArgs K) (wu fu : String) (p : Dtype) (rows : List (K × K)) : FitsFile K :=
  { pri := setCards [("FILENAME", a.filename), ("ORIGIN", "synphot")] a.priHeader
    exts := [{ extname := "", header := setCards [] a.extHeader, format := p,
               cols := [⟨a.waveCol, tunitCard (emitUnit astro wu), rows.map Prod.fst⟩,
                        ⟨a.fluxCol, tunitCard (emitUnit astro fu), rows.map Prod.snd⟩] }] }

theorem writeFitsSpec_ok (astro : Astro) (a : WriteArgs K) (wu fu : String) (p : Dtype)
    (rows : List (K × K))
    (hwu : validateUnit astro a.waveSpec = .ok wu) (hfu : validateUnit astro a.fluxSpec = .ok fu)
    (hlen : a.wave.length = a.flux.length)
    (hp : resolvePrecision a.precision a.waveDtype a.fluxDtype = .ok p)
    (hrows : storedRows a.trimZero a.padZeroEnds a.waveDtype p a.epsilon (a.wave.zip a.flux) = .ok rows) :
    writeFitsSpec astro a = .ok (writtenFile astro a wu fu p rows) := by
  unfold writeFitsSpec writtenFile
  simp [hwu, hfu, hlen, hp, hrows, bind, Except.bind, pure, Except.pure]

/-- anything the writer returns has this shape -/
theorem writeFitsSpec_inv (astro : Astro) (a : WriteArgs K) (file : FitsFile K)
    (h : writeFitsSpec astro a = .ok file) :
    ∃ wu fu p rows, validateUnit astro a.waveSpec = .ok wu ∧ validateUnit astro a.fluxSpec = .ok fu ∧
      a.wave.length = a.flux.length ∧
      resolvePrecision a.precision a.waveDtype a.fluxDtype = .ok p ∧
      storedRows a.trimZero a.padZeroEnds a.waveDtype p a.epsilon (a.wave.zip a.flux) = .ok rows ∧
      file = writtenFile astro a wu fu p rows := by
  unfold writeFitsSpec at h
  cases hwu : validateUnit astro a.waveSpec with
  | error e => simp [hwu, bind, Except.bind] at h
  | ok wu =>
    cases hfu : validateUnit astro a.fluxSpec with
    | error e => simp [hwu, hfu, bind, Except.bind] at h
    | ok fu =>
      by_cases hlen : a.wave.length = a.flux.length
      · cases hp : resolvePrecision a.precision a.waveDtype a.fluxDtype with
        | error e => simp [hwu, hfu, hlen, hp, bind, Except.bind, pure, Except.pure] at h
        | ok p =>
          cases hrows : storedRows a.trimZero a.padZeroEnds a.waveDtype p a.epsilon (a.wave.zip a.flux) with
          | error e => simp [hwu, hfu, hlen, hp, hrows, bind, Except.bind, pure, Except.pure] at h
          | ok rows =>
            simp [hwu, hfu, hlen, hp, hrows, bind, Except.bind, pure, Except.pure] at h
            exact ⟨wu, fu, p, rows, rfl, rfl, hlen, rfl, hrows, by rw [← h]; rfl⟩
      · simp [hwu, hfu, hlen, bind, Except.bind, pure, Except.pure, throw, throwThe,
          MonadExceptOf.throw] at h

/-! ### the reader on a two-column table -/

theorem readFitsSpec_opened (astro : Astro) (isStr : Bool) (f : FitsFile K) (ext : ExtSel)
    (wc fc : String) :
    readFitsSpec astro isStr (some f) ext wc fc = readFitsBody astro f ext wc.toLower fc.toLower := by
  cases isStr <;> simp [readFitsSpec, pyTryFinally]

theorem readFitsBody_two (astro : Astro) (pri hdr : List (String × String)) (fmt : Dtype)
    (wn fn : String) (cw cf : Option String) (w f : List K) (wc fc uw1 uw uf1 uf : String)
    (h1 : fixTunit astro cw = .ok uw1) (h2 : colUnit astro uw1 = .ok uw)
    (h3 : fixTunit astro cf = .ok uf1) (h4 : colUnit astro uf1 = .ok uf)
    (hwc : wn.toLower = wc) (hfc : fn.toLower = fc) (hne : wn.toLower ≠ fc) :
    readFitsBody astro ⟨pri, [⟨"", hdr, fmt, [⟨wn, cw, w⟩, ⟨fn, cf, f⟩]⟩]⟩ (.idx 1) wc fc
      = .ok ⟨pri, uw, w, uf, f⟩ := by
  subst hwc; subst hfc
  unfold readFitsBody selectExt
  simp [fixCols, h1, h2, h3, h4, hne, findCol, List.find?, bind, Except.bind, pure, Except.pure,
    List.mapM_cons, List.mapM_nil]

/-- reading back what was written: the units as validated by the writer, the stored rows, and the
primary header, provided both emitted unit strings can be read back and the column names are asked
for in any letter case -/
theorem read_written (astro : Astro) (isStr : Bool) (a : WriteArgs K) (wu fu : String) (p : Dtype)
    (rows : List (K × K)) (wc fc : String)
    (hrw : readUnit astro (tunitCard (emitUnit astro wu)) = .ok wu)
    (hrf : readUnit astro (tunitCard (emitUnit astro fu)) = .ok fu)
    (hwc : wc.toLower = a.waveCol.toLower) (hfc : fc.toLower = a.fluxCol.toLower)
    (hcols : a.waveCol.toLower ≠ a.fluxCol.toLower) :
    readFitsSpec astro isStr (some (writtenFile astro a wu fu p rows)) (.idx 1) wc fc =
      .ok ⟨(writtenFile astro a wu fu p rows).pri, wu, rows.map Prod.fst, fu, rows.map Prod.snd⟩ := by
  rw [readFitsSpec_opened]
  obtain ⟨uw1, h1, h2⟩ := (readUnit_ok_iff astro _ _).mp hrw
  obtain ⟨uf1, h3, h4⟩ := (readUnit_ok_iff astro _ _).mp hrf
  unfold writtenFile
  exact readFitsBody_two astro _ _ p a.waveCol a.fluxCol _ _ _ _ _ _ uw1 wu uf1 fu h1 h2 h3 h4
    hwc.symm hfc.symm (by rw [hfc]; exact hcols)

theorem findCol_none (cols : List (String × String × List K)) (name : String)
    (h : ∀ c ∈ cols, c.1.toLower ≠ name) : findCol cols name = .error .valueError := by
  have : cols.find? (fun c => decide (c.1.toLower = name)) = none := by
    rw [List.find?_eq_none]; intro c hc; simp [h c hc]
  simp [findCol, this]

theorem selectExt_name_none (f : FitsFile K) (s : String)
    (h : ∀ hdu ∈ f.exts, hdu.extname.toUpper ≠ s.toUpper) :
    selectExt f (.name s) = .error .lookupError := by
  have key : ∀ p : TableHdu K → Bool, (∀ hd ∈ f.exts, p hd = false) → f.exts.find? p = none :=
    fun p hp => List.find?_eq_none.mpr (fun hd hhd => by simp [hp hd hhd])
  simp only [selectExt]
  rw [key _ (fun hd hhd => by simp [h hd hhd])]

theorem selectExt_idx_beyond (f : FitsFile K) (i : Int) (h : (f.exts.length : Int) < i) :
    selectExt f (.idx i) = .error .indexError := by
  unfold selectExt
  have h0 : ¬ i < 0 := by have : (0 : Int) ≤ f.exts.length := Int.natCast_nonneg _; omega
  have h1 : (f.exts.length : Int) + 1 ≤ i := by omega
  simp [h0, h1]

/-! ### ASCII tables -/

theorem asciiTable_ok (lines : List (AsciiLine K)) (r0 : List K) (rest : List (List K))
    (hrows : asciiRows lines = r0 :: rest) (hall : ∀ r ∈ asciiRows lines, r.length = r0.length) :
    asciiTable (some lines) = .ok (r0.length, asciiRows lines) := by
  have hne : lines.isEmpty = false := by
    cases lines with
    | nil => simp [asciiRows] at hrows
    | cons _ _ => rfl
  have hn : asciiNcols (asciiRows lines) = r0.length := by rw [hrows]; rfl
  have hall' : (asciiRows lines).all (fun r => r.length == r0.length) = true := by
    rw [List.all_eq_true]; intro r hr; simpa using hall r hr
  simp [asciiTable, hne, hn, hall']

/-! ### reloading: every stored row is a knot of the table built from the file -/

/-- every row of a table with at least two rows is the left or the right end of one of its segments -/
theorem mem_zip_segs : ∀ (xs ys : List K), xs.length = ys.length → 2 ≤ xs.length →
    ∀ p ∈ xs.zip ys, ∃ s ∈ segs xs ys, s.1 = p ∨ s.2 = p
  | x0 :: x1 :: xt, y0 :: y1 :: yt, hlen, _, p, hp => by
    simp only [List.zip_cons_cons, List.mem_cons] at hp
    rcases hp with rfl | rfl | hp
    · exact ⟨((x0, y0), (x1, y1)), by simp [segs], Or.inl rfl⟩
    · exact ⟨((x0, y0), (x1, y1)), by simp [segs], Or.inr rfl⟩
    · cases xt with
      | nil => simp at hp
      | cons x2 xt' =>
        have hl : (x1 :: x2 :: xt').length = (y1 :: yt).length := by simpa using hlen
        obtain ⟨s, hs, h⟩ := mem_zip_segs (x1 :: x2 :: xt') (y1 :: yt) hl (by simp) p
          (by simp only [List.zip_cons_cons, List.mem_cons]
              cases yt with
              | nil => simp at hl
              | cons y2 yt' => simp only [List.zip_cons_cons, List.mem_cons] at hp ⊢; exact Or.inr hp)
        exact ⟨s, by simp [segs, hs], h⟩
  | [], _, _, h2, _, _ => by simp at h2
  | [_], _, _, h2, _, _ => by simp at h2
  | _ :: _ :: _, [], hlen, _, _, _ => by simp at hlen
  | _ :: _ :: _, [_], hlen, _, _, _ => by simp at hlen

end Synphot
