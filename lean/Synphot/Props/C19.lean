/-
  C19 — Operations have no hidden side effects and results are history-independent.

  The store model is `Core/Heap.lean`: every public call is compiled, from the pre-state, to a list
  of primitive effects (allocate / store into an existing cell); `writes` is the set of existing
  cells a call stores into, `documented` what the documentation allows it to modify in place
  (redshift attributes, extrapolation behaviour of the underlying model, metadata), `hidden fx`
  the three undocumented stores of DESIGN §7 F8 that the code selected by `fx` performs (none for the
  current code).

  * `frame` / `frame_current` — the full claim: for the repaired code, which is what /repo contains
    (`Fixes.current = Fixes.repaired`), every allocated location outside the documented mutators'
    write-sets keeps its contents over every history (induction over the history).
  * `frame_partial` — the same for every code version `fx`, with the hidden write-sets of `fx` excluded
    (`hiddenAlong Fixes.repaired = []`).
  * On the code as found (before commits 0c2f796, 8588084, fa5dbd7) the full claim was false: the three
    `*_writes_*` / `blackbody_leaves_errstate` theorems exhibit, for each hidden write-set of
    `Fixes.asFound`, a call that stores there; they document why the fixes exist.
  * corollaries: caller-owned arrays and dictionaries and the three process-wide settings
    (`frame_callers`, `frame_callers_partial`), `sample_stable` (+ `_repaired`, and
    `sample_stable_reachable` for stores built by a history from the caller's pool: every call
    preserves well-formedness, `HeapModel.wf_step`, so every object such a store holds is live,
    `live_reachable`), `eval_twice`, `expr_twice`; metadata: `meta_merge_spec`, `arithMeta_drops`,
    `arithMeta_lookup`, `meta_no_alias`, `meta_no_alias_result`.
-/
import Synphot.Lemmas.HeapWF

set_option linter.unusedSectionVars false
set_option linter.unusedVariables false
set_option linter.unusedSimpArgs false

namespace Synphot.C19
open Synphot Synphot.HeapModel
variable {K : Type} [Field K] [LinearOrder K] [IsStrictOrderedRing K]

/-! ### the frame property -/

/-- one call changes no allocated location outside the cells it stores into -/
theorem step_frame (fx : Fixes) (env : HEnv K) (h : Heap K) (c : Call K) :
    Frame (writes fx env h c) h (step fx env h c).1 :=
  applyAll_frame h _

/-- a history changes no allocated location outside the cells its calls store into -/
theorem run_frame (fx : Fixes) (env : HEnv K) (h : Heap K) (cs : List (Call K)) :
    Frame (writesAlong fx env h cs) h (run fx env h cs) := by
  induction cs generalizing h with
  | nil => exact Frame.refl _ _
  | cons c cs ih => exact Frame.trans (step_frame fx env h c) (ih _)

theorem writesAlong_classified (fx : Fixes) (env : HEnv K) (h : Heap K) (cs : List (Call K)) :
    ∀ l ∈ writesAlong fx env h cs, l ∈ documentedAlong fx env h cs ∨ l ∈ hiddenAlong fx env h cs := by
  induction cs generalizing h with
  | nil => intro l hl; simp [writesAlong] at hl
  | cons c cs ih =>
    intro l hl
    simp only [writesAlong, List.mem_append] at hl
    simp only [documentedAlong, hiddenAlong, List.mem_append]
    rcases hl with hl | hl
    · rcases writes_classified fx env h c l hl with h1 | h1
      · exact Or.inl (Or.inl h1)
      · exact Or.inr (Or.inl h1)
    · rcases ih _ l hl with h1 | h1
      · exact Or.inl (Or.inr h1)
      · exact Or.inr (Or.inr h1)

/-
  History: on the code as found (`Fixes.asFound`) the claim at full strength,
      Frame (documentedAlong Fixes.asFound env h cs) h (run Fixes.asFound env h cs),
  was false at exactly three write-sites (DESIGN §7 F8); `clip_writes_caller_array`,
  `frame_fails_asFound`, `to_fits_writes_caller_dict`, `blackbody_leaves_errstate` below are the
  machine-checked counterexamples (theorems about `Fixes.asFound`, kept as the record of why the
  three fix commits 0c2f796, 8588084, fa5dbd7 exist; regression replays corpus/C19/F8_*.jsonl).
  `frame_partial` is the version-independent statement; `frame` / `frame_current` the full claim
  for the code /repo contains now.
-/

/-- **frame property, any code version**: every allocated location outside the documented mutators'
write-sets and outside the hidden write-sets of `fx` is unchanged by any history -/
theorem frame_partial (fx : Fixes) (env : HEnv K) (h : Heap K) (cs : List (Call K)) :
    Frame (documentedAlong fx env h cs ++ hiddenAlong fx env h cs) h (run fx env h cs) :=
  (run_frame fx env h cs).mono fun l hl => by
    rcases writesAlong_classified fx env h cs l hl with h1 | h1
    · exact List.mem_append_left _ h1
    · exact List.mem_append_right _ h1

theorem hiddenAlong_repaired (env : HEnv K) (h : Heap K) (cs : List (Call K)) :
    hiddenAlong Fixes.repaired env h cs = [] := by
  induction cs generalizing h with
  | nil => rfl
  | cons c cs ih => simp [hiddenAlong, hidden_repaired, ih]

/-- **frame property at full strength, repaired code**: for every history, every location outside the
documented mutators' write-sets is unchanged -/
theorem frame (env : HEnv K) (h : Heap K) (cs : List (Call K)) :
    Frame (documentedAlong Fixes.repaired env h cs) h (run Fixes.repaired env h cs) := by
  have := frame_partial Fixes.repaired env h cs
  rwa [hiddenAlong_repaired, List.append_nil] at this

theorem current_repaired : Fixes.current = Fixes.repaired := rfl

/-- **the headline: the frame property at full strength for the code in /repo now**
(`Fixes.current`): for every store and every history of public calls — constructors on caller-owned
arrays, sampling, arithmetic, normalisation, tapering, observations, integration, parameter
queries, file output, module helpers, calls that raise — every allocated location outside the
documented mutators' write-sets holds afterwards what it held before -/
theorem frame_current (env : HEnv K) (h : Heap K) (cs : List (Call K)) :
    Frame (documentedAlong Fixes.current env h cs) h (run Fixes.current env h cs) := by
  rw [current_repaired]; exact frame env h cs

/-! ### what the documented mutators can touch at all -/

theorem forceLocs_tables (h : Heap K) (o : Nat) : ∀ l ∈ forceLocs h o, ∃ m, l = .table m := by
  intro l hl
  unfold forceLocs at hl
  split at hl
  · split at hl
    · exact ⟨_, by simpa using hl⟩
    · simp at hl
  · simp at hl

/-- documented mutators write redshift states, extrapolation flags and metadata — never a caller's
array or dictionary, never a process-wide setting, never an object's `_model` -/
theorem documented_kinds (h : Heap K) (c : Call K) :
    ∀ l ∈ documented h c, (∃ o, l = .objZ o) ∨ (∃ m, l = .table m) ∨ (∃ o, l = .objMeta o) := by
  intro l hl
  cases c <;> simp only [documented] at hl
  all_goals first
    | (simp at hl; done)
    | (simp only [List.mem_singleton] at hl; subst hl; simp)
    | exact Or.inr (Or.inl (forceLocs_tables _ _ l hl))
    | (split at hl
       · exact Or.inr (Or.inl (forceLocs_tables _ _ l hl))
       · simp at hl)

theorem documentedAlong_kinds (fx : Fixes) (env : HEnv K) (h : Heap K) (cs : List (Call K)) :
    ∀ l ∈ documentedAlong fx env h cs,
      (∃ o, l = .objZ o) ∨ (∃ m, l = .table m) ∨ (∃ o, l = .objMeta o) := by
  induction cs generalizing h with
  | nil => intro l hl; simp [documentedAlong] at hl
  | cons c cs ih =>
    intro l hl
    simp only [documentedAlong, List.mem_append] at hl
    rcases hl with hl | hl
    · exact documented_kinds h c l hl
    · exact ih _ l hl

/-- the hidden writes are a caller's array, a caller's dictionary, or `np.geterr()` -/
theorem hidden_kinds (fx : Fixes) (h : Heap K) (c : Call K) :
    ∀ l ∈ HeapModel.hidden fx h c, (∃ i, l = .arr i) ∨ (∃ i, l = .dict i) ∨ l = .npErr := by
  intro l hl
  cases c <;> simp only [HeapModel.hidden, errLocs] at hl
  all_goals first
    | (simp at hl; done)
    | (split at hl
       · split at hl
         · split at hl
           · simp only [List.mem_singleton] at hl; exact Or.inl ⟨_, hl⟩
           · simp at hl
         · simp at hl
       · simp at hl)
    | (split at hl
       · simp only [List.mem_singleton] at hl; exact Or.inr (Or.inr hl)
       · simp at hl)
    | skip
  -- toFits
  rename_i o w d e
  simp only [List.mem_append] at hl
  rcases hl with hl | hl
  · cases d with
    | none => simp at hl
    | some d =>
      simp only at hl
      split at hl
      · simp only [List.mem_singleton] at hl; exact Or.inr (Or.inl ⟨_, hl⟩)
      · simp at hl
  · split at hl
    · simp only [List.mem_singleton] at hl; exact Or.inr (Or.inr hl)
    · simp at hl

theorem hiddenAlong_kinds (fx : Fixes) (env : HEnv K) (h : Heap K) (cs : List (Call K)) :
    ∀ l ∈ hiddenAlong fx env h cs, (∃ i, l = .arr i) ∨ (∃ i, l = .dict i) ∨ l = .npErr := by
  induction cs generalizing h with
  | nil => intro l hl; simp [hiddenAlong] at hl
  | cons c cs ih =>
    intro l hl
    simp only [hiddenAlong, List.mem_append] at hl
    rcases hl with hl | hl
    · exact hidden_kinds fx h c l hl
    · exact ih _ l hl

/-- **repaired code**: after any history, including calls that raise, every caller-owned array and
dictionary has the contents it had, and `np.geterr()`, the unit registry and
`conf.default_integrator` are what they were -/
theorem frame_callers (env : HEnv K) (h : Heap K) (cs : List (Call K)) :
    (∀ (i : Nat) c, h.arrays[i]? = some c → (run Fixes.repaired env h cs).arrays[i]? = some c) ∧
    (∀ (i : Nat) d, h.dicts[i]? = some d → (run Fixes.repaired env h cs).dicts[i]? = some d) ∧
    (run Fixes.repaired env h cs).npErr = h.npErr ∧
    (run Fixes.repaired env h cs).units = h.units ∧
    (run Fixes.repaired env h cs).integrator = h.integrator := by
  have F := frame env h cs
  have K1 := documentedAlong_kinds Fixes.repaired env h cs
  refine ⟨?_, ?_, ?_, ?_, ?_⟩
  · intro i c hc
    have := F (.arr i) (.arr c) (fun hm => by rcases K1 _ hm with ⟨_, e⟩ | ⟨_, e⟩ | ⟨_, e⟩ <;> cases e)
      (by simp [Heap.get, hc])
    simp only [Heap.get, Option.map_eq_some_iff] at this
    obtain ⟨a, ha, e⟩ := this
    cases e; exact ha
  · intro i d hd
    have := F (.dict i) (.dict d) (fun hm => by rcases K1 _ hm with ⟨_, e⟩ | ⟨_, e⟩ | ⟨_, e⟩ <;> cases e)
      (by simp [Heap.get, hd])
    simp only [Heap.get, Option.map_eq_some_iff] at this
    obtain ⟨a, ha, e⟩ := this
    cases e; exact ha
  · have := F .npErr (.npErr h.npErr)
      (fun hm => by rcases K1 _ hm with ⟨_, e⟩ | ⟨_, e⟩ | ⟨_, e⟩ <;> cases e) rfl
    simp only [Heap.get, Option.some.injEq, Cell.npErr.injEq] at this
    exact this
  · have := F .units (.units h.units)
      (fun hm => by rcases K1 _ hm with ⟨_, e⟩ | ⟨_, e⟩ | ⟨_, e⟩ <;> cases e) rfl
    simp only [Heap.get, Option.some.injEq, Cell.units.injEq] at this
    exact this
  · have := F .integrator (.integrator h.integrator)
      (fun hm => by rcases K1 _ hm with ⟨_, e⟩ | ⟨_, e⟩ | ⟨_, e⟩ <;> cases e) rfl
    simp only [Heap.get, Option.some.injEq, Cell.integrator.injEq] at this
    exact this

/-- **any code version, in particular the code as found**: the unit registry, the package
configuration and every object's `_model` are never written, and a caller's array / dictionary /
`np.geterr()` is unchanged unless it lies in a hidden write-set of the history -/
theorem frame_callers_partial (fx : Fixes) (env : HEnv K) (h : Heap K) (cs : List (Call K)) :
    (run fx env h cs).units = h.units ∧ (run fx env h cs).integrator = h.integrator ∧
    (∀ (i : Nat) c, .arr i ∉ hiddenAlong fx env h cs → h.arrays[i]? = some c →
        (run fx env h cs).arrays[i]? = some c) ∧
    (∀ (i : Nat) d, .dict i ∉ hiddenAlong fx env h cs → h.dicts[i]? = some d →
        (run fx env h cs).dicts[i]? = some d) ∧
    (.npErr ∉ hiddenAlong fx env h cs → (run fx env h cs).npErr = h.npErr) := by
  have F := frame_partial fx env h cs
  have K1 := documentedAlong_kinds fx env h cs
  have K2 := hiddenAlong_kinds fx env h cs
  have nd : ∀ l, (∀ o, l ≠ Loc.objZ o) → (∀ m, l ≠ Loc.table m) → (∀ o, l ≠ Loc.objMeta o) →
      l ∉ documentedAlong fx env h cs := by
    intro l h1 h2 h3 hm
    rcases K1 _ hm with ⟨o, e⟩ | ⟨m, e⟩ | ⟨o, e⟩
    · exact h1 o e
    · exact h2 m e
    · exact h3 o e
  refine ⟨?_, ?_, ?_, ?_, ?_⟩
  · have := F .units (.units h.units) (fun hm => by
      rcases List.mem_append.mp hm with hm | hm
      · exact nd _ (by simp) (by simp) (by simp) hm
      · rcases K2 _ hm with ⟨_, e⟩ | ⟨_, e⟩ | e <;> cases e) rfl
    simp only [Heap.get, Option.some.injEq, Cell.units.injEq] at this
    exact this
  · have := F .integrator (.integrator h.integrator) (fun hm => by
      rcases List.mem_append.mp hm with hm | hm
      · exact nd _ (by simp) (by simp) (by simp) hm
      · rcases K2 _ hm with ⟨_, e⟩ | ⟨_, e⟩ | e <;> cases e) rfl
    simp only [Heap.get, Option.some.injEq, Cell.integrator.injEq] at this
    exact this
  · intro i c hi hc
    have := F (.arr i) (.arr c) (fun hm => by
      rcases List.mem_append.mp hm with hm | hm
      · exact nd _ (by simp) (by simp) (by simp) hm
      · exact hi hm) (by simp [Heap.get, hc])
    simp only [Heap.get, Option.map_eq_some_iff] at this
    obtain ⟨a, ha, e⟩ := this
    cases e; exact ha
  · intro i d hi hd
    have := F (.dict i) (.dict d) (fun hm => by
      rcases List.mem_append.mp hm with hm | hm
      · exact nd _ (by simp) (by simp) (by simp) hm
      · exact hi hm) (by simp [Heap.get, hd])
    simp only [Heap.get, Option.map_eq_some_iff] at this
    obtain ⟨a, ha, e⟩ := this
    cases e; exact ha
  · intro hi
    have := F .npErr (.npErr h.npErr) (fun hm => by
      rcases List.mem_append.mp hm with hm | hm
      · exact nd _ (by simp) (by simp) (by simp) hm
      · exact hi hm) rfl
    simp only [Heap.get, Option.some.injEq, Cell.npErr.injEq] at this
    exact this

/-! ### sampling is stable -/

/-- whatever is computed from an object's model and its tables depends only on the locations `reads`
lists -/
theorem reads_congr (h h' : Heap K) (o : Nat)
    (ho : (h.objs[o]?).isSome) (hsame : ∀ l ∈ reads h o, h'.get l = h.get l) :
    ∃ ob ob', h.objs[o]? = some ob ∧ h'.objs[o]? = some ob' ∧ ob'.model = ob.model ∧
      ∀ m ∈ ob.tree.tables, h'.table m = h.table m := by
  obtain ⟨ob, hob⟩ := Option.isSome_iff_exists.mp ho
  have hr : reads h o = [.objModel o, .objZ o] ++ ob.tree.tables.flatMap fun m =>
      .table m :: (match h.tables[m]? with
        | some c => [.arr c.pts, .arr c.vals]
        | none => []) := by
    unfold reads; rw [hob]
    rfl
  have h1 := hsame (.objModel o) (by rw [hr]; simp)
  have h2 := hsame (.objZ o) (by rw [hr]; simp)
  simp only [Heap.get, hob, Option.map_some] at h1 h2
  rw [Option.map_eq_some_iff] at h1 h2
  obtain ⟨ob', hob', e1⟩ := h1
  obtain ⟨ob'', hob'', e2⟩ := h2
  rw [hob'] at hob''
  cases hob''
  simp only [Cell.model.injEq] at e1
  simp only [Cell.z.injEq] at e2
  obtain ⟨ek, et, _, _⟩ := e1
  have hmodel : ob'.model = ob.model := by
    unfold Obj.model; rw [ek, et, e2]
  have htab : ∀ m ∈ ob.tree.tables, h'.table m = h.table m := by
    intro m hm
    have hin : ∀ l ∈ (Loc.table m :: (match h.tables[m]? with
          | some c => [Loc.arr c.pts, Loc.arr c.vals]
          | none => [])), l ∈ reads h o := by
      intro l hl
      rw [hr]
      apply List.mem_append_right
      exact List.mem_flatMap.mpr ⟨m, hm, hl⟩
    have ht := hsame (.table m) (hin _ (by simp))
    simp only [Heap.get] at ht
    have ht' : h'.tables[m]? = h.tables[m]? := by
      cases ha : h'.tables[m]? <;> cases hb : h.tables[m]? <;> simp [ha, hb] at ht ⊢
      exact ht
    apply table_congr h h' m ht'
    intro c hc
    have hp := hsame (.arr c.pts) (hin _ (by simp [hc]))
    have hv := hsame (.arr c.vals) (hin _ (by simp [hc]))
    simp only [Heap.get] at hp hv
    constructor
    · cases ha : h'.arrays[c.pts]? <;> cases hb : h.arrays[c.pts]? <;> simp [ha, hb] at hp ⊢
      exact hp
    · cases ha : h'.arrays[c.vals]? <;> cases hb : h.arrays[c.vals]? <;> simp [ha, hb] at hv ⊢
      exact hv
  exact ⟨ob, ob', hob, hob', hmodel, htab⟩

/-- sampling reads only the locations `reads` lists -/
theorem sample_congr (env : HEnv K) (h h' : Heap K) (o : Nat) (xs : List K)
    (ho : (h.objs[o]?).isSome) (hsame : ∀ l ∈ reads h o, h'.get l = h.get l) :
    sample env h' o xs = sample env h o xs := by
  obtain ⟨ob, ob', hob, hob', hmodel, htab⟩ := reads_congr h h' o ho hsame
  unfold sample
  rw [hob, hob']
  simp only [hmodel]
  cases hm : ob.model with
  | error e => rfl
  | ok t =>
    simp only [bind, Except.bind]
    apply sampleTree_congr
    intro m hmem
    rw [model_tables ob t hm] at hmem
    exact htab m hmem

/-- … and so does the `waveset` property (hence `waverange` and every default-wavelength result) -/
theorem waveset_congr (thr : K) (bbss : K → Option (List K)) (h h' : Heap K) (o : Nat)
    (ho : (h.objs[o]?).isSome) (hsame : ∀ l ∈ reads h o, h'.get l = h.get l) :
    waveset thr bbss h' o = waveset thr bbss h o := by
  obtain ⟨ob, ob', hob, hob', hmodel, htab⟩ := reads_congr h h' o ho hsame
  unfold waveset
  rw [hob, hob']
  simp only [hmodel]
  cases hm : ob.model with
  | error e => rfl
  | ok t =>
    simp only [bind, Except.bind]
    have : t.sampleset thr bbss h' = t.sampleset thr bbss h := by
      apply sampleset_congr
      intro m hmem
      rw [model_tables ob t hm] at hmem
      exact htab m hmem
    rw [this]

/-- **sampling any live object before and after any history gives identical values**, provided the
history's documented mutators and (for unrepaired code) hidden writes stay off what the object reads -/
theorem sample_stable (fx : Fixes) (env : HEnv K) (h : Heap K) (cs : List (Call K)) (o : Nat)
    (xs : List K) (ho : (h.objs[o]?).isSome)
    (hlive : ∀ l ∈ reads h o, (h.get l).isSome)
    (hd : ∀ l ∈ reads h o, l ∉ documentedAlong fx env h cs)
    (hh : ∀ l ∈ reads h o, l ∉ hiddenAlong fx env h cs) :
    sample env (run fx env h cs) o xs = sample env h o xs := by
  apply sample_congr env h _ o xs ho
  intro l hl
  obtain ⟨c, hc⟩ := Option.isSome_iff_exists.mp (hlive l hl)
  rw [hc]
  exact frame_partial fx env h cs l c
    (fun hm => by
      rcases List.mem_append.mp hm with hm | hm
      · exact hd l hl hm
      · exact hh l hl hm) hc

/-- repaired code: a history without documented mutators (arithmetic, normalisation on the
full-overlap path, tapering, observations, integration, parameter queries, file output, calls that
raise, …) leaves the samples of every live object bit-identical -/
theorem sample_stable_repaired (env : HEnv K) (h : Heap K) (cs : List (Call K)) (o : Nat)
    (xs : List K) (ho : (h.objs[o]?).isSome)
    (hlive : ∀ l ∈ reads h o, (h.get l).isSome)
    (hpure : documentedAlong Fixes.repaired env h cs = []) :
    sample env (run Fixes.repaired env h cs) o xs = sample env h o xs :=
  sample_stable Fixes.repaired env h cs o xs ho hlive
    (fun l _ hm => by rw [hpure] at hm; simp at hm)
    (fun l _ hm => by rw [hiddenAlong_repaired] at hm; simp at hm)

/-- **the default-wavelength readings of a live object (`waveset`, hence `waverange`, `integrate()`,
`avgwave()` …) are the same before and after any history** whose documented mutators and hidden
writes stay off what the object reads; and after an assignment to the object itself they are those of
its *current* state: `waveset` is a function of the store, it has no memory -/
theorem waveset_stable (fx : Fixes) (env : HEnv K) (thr : K) (bbss : K → Option (List K)) (h : Heap K)
    (cs : List (Call K)) (o : Nat) (ho : (h.objs[o]?).isSome)
    (hlive : ∀ l ∈ reads h o, (h.get l).isSome)
    (hd : ∀ l ∈ reads h o, l ∉ documentedAlong fx env h cs)
    (hh : ∀ l ∈ reads h o, l ∉ hiddenAlong fx env h cs) :
    waveset thr bbss (run fx env h cs) o = waveset thr bbss h o := by
  apply waveset_congr thr bbss h _ o ho
  intro l hl
  obtain ⟨c, hc⟩ := Option.isSome_iff_exists.mp (hlive l hl)
  rw [hc]
  exact frame_partial fx env h cs l c
    (fun hm => by
      rcases List.mem_append.mp hm with hm | hm
      · exact hd l hl hm
      · exact hh l hl hm) hc

/-- every store reached by a history from the caller's initial pool is well-formed, so every one of
its objects is live: the hypotheses `hlive` above hold for whatever a history has built -/
theorem live_reachable (fx : Fixes) (env : HEnv K) (arrays : List (ArrCell K)) (dicts : List Dict)
    (pre : List (Call K)) (o : Nat) :
    ∀ l ∈ reads (run fx env (Heap.init arrays dicts) pre) o,
      ((run fx env (Heap.init arrays dicts) pre).get l).isSome :=
  live_of_wf _ (wf_run fx env _ (wf_init arrays dicts) pre) o

/-- **history independence of sampling, repaired code, stated for reachable stores**: build anything with
a history `pre`; then any further history `cs` without documented mutators (arithmetic, normalisation on
the full-overlap path, tapering, observations, integration, queries, file output, failing calls)
leaves the samples of every object that `pre` built bit-identical -/
theorem sample_stable_reachable (env : HEnv K) (arrays : List (ArrCell K)) (dicts : List Dict)
    (pre cs : List (Call K)) (o : Nat) (xs : List K)
    (ho : ((run Fixes.repaired env (Heap.init arrays dicts) pre).objs[o]?).isSome)
    (hpure : documentedAlong Fixes.repaired env (run Fixes.repaired env (Heap.init arrays dicts) pre) cs = []) :
    sample env (run Fixes.repaired env (run Fixes.repaired env (Heap.init arrays dicts) pre) cs) o xs =
      sample env (run Fixes.repaired env (Heap.init arrays dicts) pre) o xs :=
  sample_stable_repaired env _ cs o xs ho (live_reachable Fixes.repaired env arrays dicts pre o) hpure

/-- the same for any code version: the hidden writes of the history must stay off what the object reads
(for the code as found: no later constructor clips an array the object's table is a view of) -/
theorem sample_stable_reachable_partial (fx : Fixes) (env : HEnv K) (arrays : List (ArrCell K))
    (dicts : List Dict) (pre cs : List (Call K)) (o : Nat) (xs : List K)
    (ho : ((run fx env (Heap.init arrays dicts) pre).objs[o]?).isSome)
    (hd : ∀ l ∈ reads (run fx env (Heap.init arrays dicts) pre) o,
      l ∉ documentedAlong fx env (run fx env (Heap.init arrays dicts) pre) cs)
    (hh : ∀ l ∈ reads (run fx env (Heap.init arrays dicts) pre) o,
      l ∉ hiddenAlong fx env (run fx env (Heap.init arrays dicts) pre) cs) :
    sample env (run fx env (run fx env (Heap.init arrays dicts) pre) cs) o xs =
      sample env (run fx env (Heap.init arrays dicts) pre) o xs :=
  sample_stable fx env _ cs o xs ho (live_reachable fx env arrays dicts pre o) hd hh

/-! ### an assignment to one object never changes another -/

/-- the only redshift state / metadata a sample of `d` reads is `d`'s own: a derived object never reads
the attributes of the operand it was built from (operators copy the operand's `model` — redshift
included — into a new compound model; the `z` setter builds a *new* `RedshiftScaleFactor` / `Scale`,
so compound models built earlier keep the old instances) -/
theorem reads_attrs (h : Heap K) (d o : Nat) :
    (Loc.objZ o ∈ reads h d → o = d) ∧ Loc.objMeta o ∉ reads h d := by
  unfold reads
  cases h.objs[d]? with
  | none => simp
  | some ob =>
    constructor
    · intro hm
      simp only [List.mem_append, List.mem_cons, List.mem_flatMap] at hm
      rcases hm with (hm | hm | hm) | ⟨m, _, hm⟩
      · cases hm
      · cases hm; rfl
      · simp at hm
      · rcases hm with hm | hm
        · cases hm
        · split at hm <;> simp at hm
    · intro hm
      simp only [List.mem_append, List.mem_cons, List.mem_flatMap] at hm
      rcases hm with (hm | hm | hm) | ⟨m, _, hm⟩
      · cases hm
      · cases hm
      · simp at hm
      · rcases hm with hm | hm
        · cases hm
        · split at hm <;> simp at hm

/-- **assigning `z`, `z_type`, warnings or metadata on one object leaves the samples of every other
live object bit-identical** — in particular of everything derived from it earlier (`sp * k`,
`sp * bp`, `sp + other`, `Observation(sp, bp)`, normalised / tapered copies): a derived object is
never in the write-set of an assignment to its operand.  Any code version. -/
theorem assign_keeps_others (fx : Fixes) (env : HEnv K) (h : Heap K) (o d : Nat) (xs : List K)
    (hne : d ≠ o) (hd : (h.objs[d]?).isSome) (hlive : ∀ l ∈ reads h d, (h.get l).isSome) :
    (∀ z, sample env (step fx env h (.setZ o z)).1 d xs = sample env h d xs) ∧
    (∀ t, sample env (step fx env h (.setZType o t)).1 d xs = sample env h d xs) ∧
    (∀ w, sample env (step fx env h (.setWarnings o w)).1 d xs = sample env h d xs) ∧
    (∀ k v, sample env (step fx env h (.setMeta o k v)).1 d xs = sample env h d xs) := by
  have key : ∀ c : Call K, (documented h c = [.objZ o] ∨ documented h c = [.objMeta o]) →
      HeapModel.hidden fx h c = [] → sample env (step fx env h c).1 d xs = sample env h d xs := by
    intro c hdoc hhid
    have := sample_stable fx env h [c] d xs hd hlive
      (fun l hl hm => by
        simp only [documentedAlong, List.append_nil] at hm
        rcases hdoc with e | e <;> rw [e] at hm <;> simp only [List.mem_singleton] at hm <;> subst hm
        · exact hne ((reads_attrs h d o).1 hl).symm
        · exact (reads_attrs h d o).2 hl)
      (fun l hl hm => by
        simp only [hiddenAlong, List.append_nil] at hm
        rw [hhid] at hm; simp at hm)
    simpa [run] using this
  exact ⟨fun z => key _ (Or.inl rfl) rfl, fun t => key _ (Or.inl rfl) rfl,
         fun w => key _ (Or.inr rfl) rfl, fun k v => key _ (Or.inr rfl) rfl⟩

/-- the same for every store a history builds from the caller's pool (liveness is then automatic):
build `sp`, derive anything from it, assign `sp.z` — the derived objects sample as before -/
theorem assign_keeps_derived (fx : Fixes) (env : HEnv K) (arrays : List (ArrCell K)) (dicts : List Dict)
    (pre : List (Call K)) (o d : Nat) (xs : List K) (hne : d ≠ o)
    (hd : ((run fx env (Heap.init arrays dicts) pre).objs[d]?).isSome) (z : K) (t : ZType) :
    sample env (step fx env (run fx env (Heap.init arrays dicts) pre) (.setZ o z)).1 d xs =
      sample env (run fx env (Heap.init arrays dicts) pre) d xs ∧
    sample env (step fx env (run fx env (Heap.init arrays dicts) pre) (.setZType o t)).1 d xs =
      sample env (run fx env (Heap.init arrays dicts) pre) d xs := by
  have A := assign_keeps_others fx env _ o d xs hne hd (live_reachable fx env arrays dicts pre d)
  exact ⟨A.1 z, A.2.1 t⟩

/-! ### evaluating twice -/

theorem applyAll_evalEffects (fx : Fixes) (h : Heap K) (t : HTree K) :
    (h.applyAll (evalEffects fx t)).objs = h.objs ∧ (h.applyAll (evalEffects fx t)).arrays = h.arrays ∧
    (h.applyAll (evalEffects fx t)).tables = h.tables := by
  unfold evalEffects
  split <;> simp [Heap.applyAll, Heap.apply]

theorem sampleCall_effects (fx : Fixes) (env : HEnv K) (h : Heap K) (o w : Nat) (conv : List K) :
    (sampleCall fx env h o w conv).1 = [] ∨ ∃ t, (sampleCall fx env h o w conv).1 = evalEffects fx t := by
  unfold sampleCall
  split
  · simp only
    split
    · exact Or.inl rfl
    · split
      · exact Or.inl rfl
      · exact Or.inr ⟨_, rfl⟩
  · exact Or.inl rfl

theorem sampleCall_congr (fx : Fixes) (env : HEnv K) (h h' : Heap K) (o w : Nat) (conv : List K)
    (h1 : h'.objs = h.objs) (h2 : h'.arrays = h.arrays) (h3 : h'.tables = h.tables) :
    sampleCall fx env h' o w conv = sampleCall fx env h o w conv := by
  have hst : ∀ t xs, sampleTree env h' t xs = sampleTree env h t xs := by
    intro t xs
    apply sampleTree_congr
    intro m _
    unfold Heap.table
    rw [h2, h3]
  unfold sampleCall
  rw [h1, h2]
  simp only [hst]

/-- **sampling twice gives the same outcome** (any code version; also when the call raises) -/
theorem eval_twice (fx : Fixes) (env : HEnv K) (h : Heap K) (o w : Nat) (conv : List K) :
    (step fx env (step fx env h (.sample o w conv)).1 (.sample o w conv)).2 =
      (step fx env h (.sample o w conv)).2 := by
  simp only [step, effects]
  have key : sampleCall fx env (h.applyAll (sampleCall fx env h o w conv).1) o w conv =
      sampleCall fx env h o w conv := by
    rcases sampleCall_effects fx env h o w conv with he | ⟨t, he⟩
    · rw [he]; rfl
    · rw [he]
      obtain ⟨a, b, c⟩ := applyAll_evalEffects fx h t
      exact sampleCall_congr fx env h _ o w conv a b c
  rw [key]

/-- a successful operator allocates exactly one object — the fresh result — and stores nowhere -/
theorem arith_ok (h : Heap K) (op : BinOp) (a : Nat) (b : Arg K) (i : Nat)
    (hr : (arith h op a b).2 = .ok (.obj i)) :
    ∃ A bv k t, h.objs[a]? = some A ∧ resolveArg h b = some bv ∧ A.kind ≠ .observation ∧
      typing op A.kind bv.tag = .ok k ∧ arithTree op A bv = .ok t ∧ i = h.objs.length ∧
      arith h op a b = ([.allocObj (freshObj k t (arithMeta A bv))], .ok (.obj h.objs.length)) := by
  unfold arith at hr ⊢
  cases hA : h.objs[a]? with
  | none => simp [hA] at hr
  | some A =>
    cases hb : resolveArg h b with
    | none => simp [hA, hb] at hr
    | some bv =>
      simp only [hA, hb] at hr ⊢
      by_cases hk : A.kind = .observation
      · simp [hk] at hr
      · simp only [if_neg hk] at hr ⊢
        cases ht : typing op A.kind bv.tag with
        | error e => simp [ht] at hr
        | ok k =>
          simp only [ht] at hr ⊢
          cases hm : arithTree op A bv with
          | error e => simp [hm] at hr
          | ok t =>
            simp only [hm] at hr ⊢
            simp only [Outcome.ok.injEq, Res.obj.injEq] at hr
            exact ⟨A, bv, k, t, rfl, rfl, hk, ht, hm, hr.symm, rfl⟩

/-- **evaluating the same expression twice gives objects that sample identically**: the second
evaluation builds the same object as the first -/
theorem expr_twice (fx : Fixes) (env : HEnv K) (h : Heap K) (op : BinOp) (a : Nat) (b : Arg K) (i : Nat)
    (hr : (step fx env h (.arith op a b)).2 = .ok (.obj i)) (xs : List K) :
    let h1 := (step fx env h (.arith op a b)).1
    let h2 := (step fx env h1 (.arith op a b)).1
    (step fx env h1 (.arith op a b)).2 = .ok (.obj (i + 1)) ∧
      sample env h2 (i + 1) xs = sample env h2 i xs := by
  simp only [step, effects] at hr ⊢
  obtain ⟨A, bv, k, t, hA, hb, hk, ht, hm, hi, he⟩ := arith_ok h op a b i hr
  subst hi
  rw [he]
  simp only [Heap.applyAll, List.foldl_cons, List.foldl_nil, Heap.apply]
  -- the second evaluation sees the same operands
  have hsame : arith ({ h with objs := h.objs ++ [freshObj k t (arithMeta A bv)] } : Heap K) op a b =
      ([.allocObj (freshObj k t (arithMeta A bv))], .ok (.obj (h.objs.length + 1))) := by
    have hA' : (h.objs ++ [freshObj k t (arithMeta A bv)])[a]? = some A :=
      getElem?_append_of_some _ _ _ _ hA
    have hb' : resolveArg ({ h with objs := h.objs ++ [freshObj k t (arithMeta A bv)] } : Heap K) b
        = some bv := by
      cases b with
      | obj j =>
        simp only [resolveArg, Option.map_eq_some_iff] at hb ⊢
        obtain ⟨B, hB, e⟩ := hb
        exact ⟨B, getElem?_append_of_some _ _ _ _ hB, e⟩
      | real v => exact hb
      | quantity v => exact hb
      | bad t => exact hb
    unfold arith
    simp only [hA', hb', if_neg hk, ht, hm, List.length_append, List.length_cons, List.length_nil]
  rw [hsame]
  refine ⟨rfl, ?_⟩
  simp only [List.foldl_cons, List.foldl_nil, Heap.apply]
  unfold sample
  have e1 : (h.objs ++ [freshObj k t (arithMeta A bv)] ++ [freshObj k t (arithMeta A bv)])[h.objs.length + 1]?
      = some (freshObj k t (arithMeta A bv)) := by
    rw [List.getElem?_append_right (by simp)]; simp
  have e2 : (h.objs ++ [freshObj k t (arithMeta A bv)] ++ [freshObj k t (arithMeta A bv)])[h.objs.length]?
      = some (freshObj k t (arithMeta A bv)) := by
    rw [List.append_assoc, List.getElem?_append_right (by simp)]; simp
  simp only [e1, e2]

/-! ### metadata -/

/-- **result metadata = merge of the operands' metadata minus `header` / `expr`** -/
theorem meta_merge_spec (fx : Fixes) (env : HEnv K) (h : Heap K) (op : BinOp) (a : Nat) (b : Arg K)
    (A : Obj K) (bv : ArgV K) (i : Nat) (hA : h.objs[a]? = some A) (hb : resolveArg h b = some bv)
    (hr : (step fx env h (.arith op a b)).2 = .ok (.obj i)) :
    ∃ ob, (step fx env h (.arith op a b)).1.objs[i]? = some ob ∧ ob.md = arithMeta A bv := by
  simp only [step, effects] at hr ⊢
  obtain ⟨A', bv', k, t, hA', hb', hk, ht, hm, hi, he⟩ := arith_ok h op a b i hr
  rw [hA] at hA'; cases hA'
  rw [hb] at hb'; cases hb'
  subst hi
  rw [he]
  exact ⟨freshObj k t (arithMeta A bv), by simp [Heap.applyAll, Heap.apply], rfl⟩

/-- what the merge contains: no `header`, no `expr` … -/
theorem clean_drops (m : Meta) :
    m.clean.entries.lookup "header" = none ∧ m.clean.entries.lookup "expr" = none := by
  constructor
  · simp only [Meta.clean]
    rw [Dict.lookup_del_ne _ _ _ (by decide)]
    exact Dict.lookup_del_self _ _
  · exact Dict.lookup_del_self _ _

/-- … and every other key as the operand had it -/
theorem clean_keeps (m : Meta) (k : String) (h1 : k ≠ "header") (h2 : k ≠ "expr") :
    m.clean.entries.lookup k = m.entries.lookup k ∧ m.clean.warnings = m.warnings := by
  constructor
  · simp only [Meta.clean]
    rw [Dict.lookup_del_ne _ _ _ h2, Dict.lookup_del_ne _ _ _ h1]
  · rfl

/-- `merge`: a key is looked up in the right operand first (its last binding), then in the left -/
theorem merge_lookup (a b : Meta) (k : String) :
    (Meta.merge a b).entries.lookup k = (b.entries.reverse.lookup k).or (a.entries.lookup k) ∧
    (Meta.merge a b).warnings.lookup k = (b.warnings.reverse.lookup k).or (a.warnings.lookup k) :=
  ⟨Dict.lookup_update _ _ _, Dict.lookup_update _ _ _⟩

theorem del_reverse (d : Dict) (k : String) : (Dict.del d k).reverse = Dict.del d.reverse k := by
  simp [Dict.del, List.filter_reverse]

/-- the merged metadata of an operator's result never carries `header` or `expr` -/
theorem arithMeta_drops (A : Obj K) (bv : ArgV K) :
    (arithMeta A bv).entries.lookup "header" = none ∧ (arithMeta A bv).entries.lookup "expr" = none := by
  have key : ∀ a b : Meta, (Meta.merge a.clean b.clean).entries.lookup "header" = none ∧
      (Meta.merge a.clean b.clean).entries.lookup "expr" = none := by
    intro a b
    have ha := clean_drops a
    constructor
    · rw [(merge_lookup _ _ _).1, ha.1]
      simp only [Meta.clean, del_reverse]
      rw [Dict.lookup_del_ne _ _ _ (by decide), Dict.lookup_del_self]; rfl
    · rw [(merge_lookup _ _ _).1, ha.2]
      simp only [Meta.clean, del_reverse]
      rw [Dict.lookup_del_self]; rfl
  unfold arithMeta
  split
  · split <;> exact key _ _
  · have := key A.md Meta.empty
    exact this

/-- every other key and every warning: the right operand's binding if it has one, else the left's -/
theorem arithMeta_lookup (A B : Obj K) (hns : ¬ (A.kind.isUnitless ∧ B.kind = .source)) (k : String)
    (h1 : k ≠ "header") (h2 : k ≠ "expr") :
    (arithMeta A (.obj B)).entries.lookup k = (B.md.entries.reverse.lookup k).or (A.md.entries.lookup k) ∧
    (arithMeta A (.obj B)).warnings.lookup k =
      (B.md.warnings.reverse.lookup k).or (A.md.warnings.lookup k) := by
  simp only [arithMeta, if_neg hns]
  constructor
  · rw [(merge_lookup _ _ _).1, (clean_keeps A.md k h1 h2).1]
    simp only [Meta.clean, del_reverse]
    rw [Dict.lookup_del_ne _ _ _ h2, Dict.lookup_del_ne _ _ _ h1]
  · rw [(merge_lookup _ _ _).2]; rfl

/-- **editing an object's metadata leaves every other object's metadata unchanged** -/
theorem meta_no_alias (fx : Fixes) (env : HEnv K) (h : Heap K) (r a : Nat) (hne : a ≠ r) (c : Cell K)
    (hc : h.get (.objMeta a) = some c) :
    (∀ k v, (step fx env h (.setMeta r k v)).1.get (.objMeta a) = some c) ∧
    (∀ w, (step fx env h (.setWarnings r w)).1.get (.objMeta a) = some c) := by
  constructor
  · intro k v
    refine step_frame fx env h _ _ c (fun hm => ?_) hc
    rcases writes_classified fx env h _ _ hm with h1 | h1
    · simp [documented] at h1; exact hne h1
    · simp [HeapModel.hidden] at h1
  · intro w
    refine step_frame fx env h _ _ c (fun hm => ?_) hc
    rcases writes_classified fx env h _ _ hm with h1 | h1
    · simp [documented] at h1; exact hne h1
    · simp [HeapModel.hidden] at h1

/-- in particular for the result of an operator: it is a new object, so editing its metadata leaves
the operands' (and everybody else's) unchanged -/
theorem meta_no_alias_result (fx : Fixes) (env : HEnv K) (h : Heap K) (op : BinOp) (a : Nat) (b : Arg K)
    (i : Nat) (hr : (step fx env h (.arith op a b)).2 = .ok (.obj i)) (j : Nat) (ob : Obj K)
    (hj : h.objs[j]? = some ob) (k v : String) :
    (step fx env (step fx env h (.arith op a b)).1 (.setMeta i k v)).1.get (.objMeta j) = some (.md ob.md) := by
  have hi : i = h.objs.length := by
    simp only [step, effects] at hr
    obtain ⟨_, _, _, _, _, _, _, _, _, hi, _⟩ := arith_ok h op a b i hr
    exact hi
  have hjl : j < h.objs.length := by
    by_contra hc
    rw [List.getElem?_eq_none (Nat.le_of_not_lt hc)] at hj
    cases hj
  have h0 : h.get (.objMeta j) = some (.md ob.md) := by simp [Heap.get, hj]
  have h1 := step_frame fx env h (.arith op a b) (.objMeta j) _ (fun hm => by
    rcases writes_classified fx env h _ _ hm with h1 | h1
    · simp [documented] at h1
    · simp [HeapModel.hidden] at h1) h0
  exact (meta_no_alias fx env _ i j (by omega) _ h1).1 k v

/-! ### why the three fixes exist: the hidden write-sets were really written (code as found) -/

/-- a store with two caller-owned float ndarrays `x = [1, 2]`, `y = [1, -1]` -/
def w1 : Heap K := Heap.init [⟨[1, 2], .ndarray, true⟩, ⟨[1, -1], .ndarray, true⟩] []

/-- `SourceSpectrum(Empirical1D, points=x, lookup_table=y)` is not a documented mutator of
anything, yet the code as found **zeroes the negative entry in the caller's `y`**: the full frame
property fails at `.arr 1`.  The repaired code leaves `y` alone. -/
theorem clip_writes_caller_array (env : HEnv K) :
    let c : Call K := .newEmpirical .source 0 1 [] [] false none .default none
    documented (w1 : Heap K) c = [] ∧
    ((step Fixes.asFound env w1 c).1.arrays[1]?).map (fun a : ArrCell K => a.data) = some ([1, 0] : List K) ∧
    ((step Fixes.repaired env w1 c).1.arrays[1]?).map (fun a : ArrCell K => a.data) = some ([1, -1] : List K) ∧
    HeapModel.hidden Fixes.asFound (w1 : Heap K) c = [.arr 1] := by
  have hneg : ((-1 : K) < 0) := by norm_num
  have hpos : ¬ ((1 : K) < 0) := by norm_num
  have h21 : ¬ ((2 : K) < 1) := by norm_num
  refine ⟨rfl, ?_, ?_, ?_⟩
  · simp [step, effects, newEmpirical, w1, Heap.init, cellData, Container.aliased, clipNeg, isDesc,
      Heap.applyAll, Heap.apply, upd, Fixes.asFound, hneg, hpos, h21, endsZero]
  · simp [step, effects, newEmpirical, w1, Heap.init, cellData, Container.aliased, clipNeg, isDesc,
      Heap.applyAll, Heap.apply, upd, Fixes.repaired, hneg, hpos, h21, endsZero]
  · simp [HeapModel.hidden, w1, Heap.init, Container.aliased, Fixes.asFound, hneg, hpos]

/-- hence the full frame property is false of the code as found -/
theorem frame_fails_asFound (env : HEnv K) :
    ¬ (∀ (h : Heap K) (cs : List (Call K)),
        Frame (documentedAlong Fixes.asFound env h cs) h (run Fixes.asFound env h cs)) := by
  intro hf
  have h10 : ((1 : K) :: [-1]) ≠ [1, 0] := by
    intro e
    have : (-1 : K) = 0 := by simp at e
    norm_num at this
  have F := hf w1 [.newEmpirical .source 0 1 [] [] false none .default none] (.arr 1)
    (.arr ⟨[1, -1], .ndarray, true⟩) (by simp [documentedAlong, documented]) (by simp [Heap.get, w1, Heap.init])
  have W := (clip_writes_caller_array (K := K) env).2.1
  simp only [run] at F
  simp only [Heap.get, Option.map_eq_some_iff] at F
  obtain ⟨a, ha, e⟩ := F
  rw [ha] at W
  simp only [Option.map_some, Option.some.injEq] at W
  cases e
  exact h10 W

/-- a store with one caller-owned dictionary and one box-shaped source carrying an `expr` -/
def w2 : Heap K :=
  { (Heap.init [] [[("history", "\"mine\"")]] : Heap K) with
    objs := [freshObj .source (.ana (.box 1 1 1 none)) ⟨[], [("expr", "\"em(1)\"")]⟩] }

/-- `sp.to_fits(f, ext_header=d)`: the code as found adds `tdisp1`, `tdisp2`, `expr` **to the
caller's dictionary**, also when writing the file then fails; the repaired code does not -/
theorem to_fits_writes_caller_dict (env : HEnv K) (ioErr : Option Err) :
    let c : Call K := .toFits 0 .default (some 0) ioErr
    documented (w2 : Heap K) c = [] ∧
    (step Fixes.asFound env w2 c).1.dicts[0]? =
      some [("history", "\"mine\""), ("tdisp1", "\"G15.7\""), ("tdisp2", "\"G15.7\""),
            ("expr", "[\"em(1)\", \"synphot expression\"]")] ∧
    (step Fixes.repaired env w2 c).1.dicts[0]? = some [("history", "\"mine\"")] := by
  refine ⟨rfl, ?_, ?_⟩
  · simp [step, effects, toFits, w2, Heap.init, freshObj, Obj.model, ZState.init, resolveWaves, HTree.ws,
      leafHasWaveset, HTree.hasBadBB, Fixes.asFound, fitsKeys, exprCard, Dict.update, Dict.set,
      Heap.applyAll, Heap.apply, upd, List.lookup]
  · simp [step, effects, toFits, w2, Heap.init, freshObj, Obj.model, ZState.init, resolveWaves, HTree.ws,
      leafHasWaveset, HTree.hasBadBB, Fixes.repaired, Heap.applyAll]

/-- a store with a black body of negative temperature and a caller-owned wavelength array -/
def w3 : Heap K :=
  { (Heap.init [⟨[1, 2], .ndarray, true⟩] [] : Heap K) with
    objs := [freshObj .source (.bb (-1)) Meta.empty] }

/-- sampling it raises `ValueError` inside `BlackBody1D.evaluate`; the code as found **leaves
`np.geterr()` at all-`'ignore'`**, the repaired code restores it -/
theorem blackbody_leaves_errstate (env : HEnv K) :
    let c : Call K := .sample 0 0 []
    documented (w3 : Heap K) c = [] ∧
    (step Fixes.asFound env w3 c).2 = .err .valueError ∧
    (step Fixes.asFound env w3 c).1.npErr = NpErr.allIgnore ∧
    (step Fixes.repaired env w3 c).1.npErr = NpErr.default := by
  have h1 : ¬ ((1 : K) ≤ 0) := by norm_num
  have h2 : ¬ ((2 : K) ≤ 0) := by norm_num
  have h12 : (1 : K) ≤ 2 := by norm_num
  have h12' : ¬ ((1 : K) = 2) := by norm_num
  have hneg : ((-1 : K) < 0) := by norm_num
  have hz : ¬ ((0 : K) = 0 → False) := by simp
  refine ⟨rfl, ?_, ?_, ?_⟩
  · simp [step, effects, sampleCall, w3, Heap.init, freshObj, Obj.model, ZState.init, cellData,
      validateWavelengths, WeakAsc, WeakDesc, HasAdjEq, sampleTree, HTree.hasBadBB, h1, h2, h12, h12', hneg]
  · simp [step, effects, sampleCall, w3, Heap.init, freshObj, Obj.model, ZState.init, cellData,
      validateWavelengths, WeakAsc, WeakDesc, HasAdjEq, evalEffects, HTree.hasBadBB, h1, h2, h12, h12',
      hneg, Fixes.asFound, Heap.applyAll, Heap.apply]
  · simp [step, effects, sampleCall, w3, Heap.init, freshObj, Obj.model, ZState.init, cellData,
      validateWavelengths, WeakAsc, WeakDesc, HasAdjEq, evalEffects, HTree.hasBadBB, h1, h2, h12, h12',
      hneg, Fixes.repaired, Heap.applyAll]

/-! ### non-vacuity -/

/-- a documented mutator does write: `force_extrapolation()` on a table built with `fill_value=0`
flips the extrapolation flag, and a composite built earlier from the same `Empirical1D` sees it -/
example (env : HEnv K) :
    let h0 : Heap K :=
      { (Heap.init [⟨[1, 2], .ndarray, true⟩, ⟨[0, 0], .ndarray, true⟩] [] : Heap K) with
        tables := [⟨0, 1, false, false, false, 0⟩],
        objs := [freshObj .source (.tab 0) Meta.empty, freshObj .source (.scale (.tab 0) 2) Meta.empty] }
    documented h0 (.forceExtrap 0 : Call K) = [.table 0] ∧
      ((step Fixes.repaired env h0 (.forceExtrap 0)).1.tables[0]?).map (fun t : TableCell K => t.fillNaN) = some true ∧
      reads h0 1 = [.objModel 1, .objZ 1, .table 0, .arr 0, .arr 1] := by
  refine ⟨rfl, ?_, ?_⟩
  · simp [step, effects, forceExtrap, forceEffects, HTree.rootTab?, freshObj, Heap.init, Heap.applyAll,
      Heap.apply, upd]
  · simp [reads, freshObj, Heap.init, HTree.tables]

end Synphot.C19
