import Synphot.Driver.Main
def main : IO Unit := Synphot.Driver.main
