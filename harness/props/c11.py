"""C11  Bandpass photometric parameters equal their formulae and mutual identities.

One case = one bandpass (table / box / Gaussian / product, optionally times a number) x one sampling grid
(explicit, in the caller's order and unit, or the default waveset) x one threshold x one area x one scale
factor; all 14 methods are called on it.

* correspondence: every method against the Lean model (`bandpar` op, exact rationals, rtol 1e-9);
* oracle on the implementation alone: every method against its documented formula recomputed from the
  implementation's own samples with scipy's trapezoid, the three identities, the scale laws on `bp * k`,
  the in-range and ordering claims, and invariance under the unit and the order of the wavelength argument.
"""
import math
from fractions import Fraction as F

from ..core import NP as np

from .. import core, objects as O
from ..core import q, qs, guarded, same, unq

BASE = ['avgwave', 'barlam', 'pivot', 'unit_response', 'rmswidth', 'photbw', 'fwhm', 'tlambda', 'tpeak',
        'wpeak', 'equivwidth', 'rectwidth', 'efficiency', 'emflx']
THR = ['rmswidth_thr', 'photbw_thr', 'fwhm_thr']
METHODS = BASE + THR
WIDTHS = {'rmswidth', 'photbw', 'fwhm', 'rmswidth_thr', 'photbw_thr', 'fwhm_thr'}
# behaviour under bp -> bp * k
SCALE = {'avgwave': 0, 'barlam': 0, 'pivot': 0, 'rmswidth': 0, 'photbw': 0, 'fwhm': 0, 'rmswidth_thr': 0,
         'photbw_thr': 0, 'fwhm_thr': 0, 'wpeak': 0, 'rectwidth': 0, 'tpeak': 1, 'equivwidth': 1, 'efficiency': 1,
         'tlambda': 1, 'unit_response': -1, 'emflx': -1}
SIGNED_OK = ['tpeak', 'wpeak', 'equivwidth', 'rectwidth']      # division-free: exact on dyadic tables
FWHM_C = math.sqrt(8 * math.log(2))
UNITS = {'nm': 'nm', 'micron': 'micron', 'hz': 'Hz', 'angstrom': 'AA'}


# ------------------------------------------------------------------ implementation
def wave_arg(case, which):
    """the wavelength argument of a call: None (default waveset), bare array (Angstrom) or Quantity"""
    import astropy.units as u
    if case['grid'] is None:
        return None
    if which == 'unit':
        d = case['grid_unit']
        return np.array([O.fl(v) for v in d['vals']]) * u.Unit(UNITS[d['unit']])
    x = np.array([O.fl(v) for v in case['grid']])
    if which == 'rev':
        x = x[::-1]
    if case.get('grid_as_quantity'):
        return x * u.AA
    return x


def call_one(bp, m, wl, thr, area):
    kw = {} if wl is None else {'wavelengths': wl}
    if m in ('unit_response', 'emflx'):
        return guarded(lambda: getattr(bp, m)(area, **kw))
    if m.endswith('_thr'):
        return guarded(lambda: getattr(bp, m[:-4])(threshold=thr, **kw))
    if m == 'equivwidth':
        # equivwidth() by itself follows conf.default_integrator (documented: "see integrate"); the trapezoid quantity
        # the property speaks of is asked for by name when a configuration twin has switched the default
        from synphot import conf
        if conf.default_integrator != 'trapezoid':
            kw = dict(kw, integration_type='trapezoid')
    return guarded(lambda: getattr(bp, m)(**kw))


def call_all(bp, wl, thr, area, order=None):
    """all 14 methods (17 calls), in the given order (the results must not depend on it)"""
    R = {}
    for m in (order or METHODS):
        if m.endswith('_thr') and thr is None:
            continue
        R[m] = call_one(bp, m, wl, thr, area)
    for m in THR:
        if m not in R:
            # threshold=None is the default argument: the plain call already made it
            R[m] = R[m[:-4]]
    return R


def spell(case, vals, how):
    """one sampling grid (Angstrom values) in one of the spellings the API accepts; 'unit' is the case's own grid in
    its other unit (values that astropy converts to exactly the Angstrom grid)"""
    import astropy.units as u
    if how == 'unit' and case.get('grid_unit'):
        d = case['grid_unit']
        return np.array([O.fl(v) for v in d['vals']]) * u.Unit(UNITS[d['unit']])
    x = [O.fl(v) for v in vals]
    if how == 'list':
        return x
    if how == 'quantity':
        return np.array(x) * u.AA
    return np.array(x)


def run_history(case, bp, thr, area):
    """what happened earlier in the process: other bandpasses (or this very object) asked for some parameters on the
    same / a related sampling grid.  Outcomes are not looked at; the measured call must not depend on them."""
    for st in case.get('history', ()):
        try:
            other = bp if st['expr'] == 'self' else O.eval_expr(st['expr'])
            g = st['grid']
            if g == 'same':
                wl = None if case['grid'] is None else spell(case, case['grid'], st['spelling'])
            elif g == 'waveset':
                w = bp.waveset
                wl = None if w is None else np.array(w.value, dtype=float)
            else:
                wl = spell(case, g, st['spelling'] if st['spelling'] != 'unit' else 'ndarray')
            for m in st['methods']:
                call_one(other, m, wl, thr, area)
        except Exception:  # noqa
            pass


def formulas(bp, wl, thr_value, area_cm2):
    """the documented formulae, recomputed from the implementation's own samples (ascending order: the
    integrals of the documentation run over increasing wavelength)"""
    from scipy.integrate import trapezoid
    from synphot import units
    xq = bp._validate_wavelengths(wl)
    x0 = np.asarray(xq.value, dtype=float)
    y0 = np.asarray(bp(xq).value, dtype=float)
    out = {'x': x0, 'y': y0}
    if len(x0) == 0:
        return out

    def sqrt(v):
        return math.sqrt(v) if v >= 0 else float('nan')
    x, y = (x0[::-1], y0[::-1]) if len(x0) > 1 and x0[-1] < x0[0] else (x0, y0)
    F_ = {}
    with np.errstate(all='ignore'):
        eq = trapezoid(y, x=x)
        yx = trapezoid(y * x, x=x)
        yox = trapezoid(y / x, x=x)
        F_['equivwidth'] = eq
        F_['efficiency'] = yox
        F_['tpeak'] = y0.max()
        F_['wpeak'] = x0[int(np.argmax(y0))]        # first match, caller's order
        if y0.max() != 0:
            F_['rectwidth'] = eq / y0.max()
        if eq != 0:
            a = yx / eq
            F_['avgwave'] = a
            t = guarded(lambda: bp(a))
            if 'ok' in t:
                F_['tlambda'] = t['ok']
        if yox != 0:
            F_['pivot'] = sqrt(yx / yox)
            bl = float(np.exp(trapezoid(y * np.log(x) / x, x=x) / yox))
            F_['barlam'] = bl
        if yx != 0 and area_cm2 != 0:
            F_['unit_response'] = units.HC.value / (area_cm2 * yx)
            if F_.get('tlambda'):
                F_['emflx'] = F_['unit_response'] * eq / F_['tlambda']
        for suffix, t in (('', None), ('_thr', thr_value)):
            if t is None:
                xm, ym = x, y
            else:
                keep = y >= t
                xm, ym = x[keep], y[keep]
            if len(xm) < 2:
                continue
            den = trapezoid(ym, x=xm)
            if den != 0 and 'avgwave' in F_:
                F_['rmswidth' + suffix] = sqrt(trapezoid(ym * (xm - F_['avgwave']) ** 2, x=xm) / den)
            den = trapezoid(ym / xm, x=xm)
            if den != 0 and 'barlam' in F_:
                F_['photbw' + suffix] = F_['barlam'] * sqrt(
                    trapezoid(ym / xm * np.log(xm / F_['barlam']) ** 2, x=xm) / den)
                F_['fwhm' + suffix] = FWHM_C * F_['photbw' + suffix]
    out['formula'] = {k: float(v) for k, v in F_.items() if math.isfinite(float(v))}
    return out


def impl_call(case):
    import astropy.units as u

    try:
        bp = O.eval_expr(case['expr'])
    except Exception as e:  # noqa
        return finish(case, {'ok': {m: {'err': core.exc_name(e)} for m in METHODS}, '_build_err': core.exc_name(e)})
    area_v = O.fl(case['area'])
    area = area_v * u.m ** 2 if case['area_unit'] == 'm2' else (area_v * u.cm ** 2 if case.get('area_as_quantity') else area_v)
    area_cm2 = area_v * 1e4 if case['area_unit'] == 'm2' else area_v
    thr_v = None if case['threshold'] is None else O.fl(case['threshold'])
    thr = thr_v if (thr_v is None or not case.get('threshold_as_quantity')) else thr_v * u.dimensionless_unscaled
    if thr_v is not None and case.get('threshold_scale'):
        # the same fraction spelled in a scaled dimensionless unit (1/8, 4, 1/1024: the conversion back is exact)
        sc = O.fl(case['threshold_scale'])
        thr = u.Quantity(thr_v / sc, u.Unit(sc))
        assert float(thr.to(u.dimensionless_unscaled).value) == thr_v
    wl = wave_arg(case, 'main')
    run_history(case, bp, thr, area)
    out = {'ok': call_all(bp, wl, thr, area, case.get('order'))}
    # the same object asked again: same answers
    if case.get('again'):
        out['_again'] = {m: call_one(bp, m, wl, thr, area) for m in case['again']}
    fo = guarded(lambda: formulas(bp, wl, thr_v, area_cm2))
    if 'ok' in fo:
        out['_x'], out['_y'] = fo['ok']['x'], fo['ok']['y']
        out['_formula'] = fo['ok'].get('formula')
    else:
        out['_sample_err'] = fo['err']
    # variation of the bandpass around the average wavelength (see compare): at a jump, tlambda depends on the last bit
    av = out['ok']['avgwave'].get('ok')
    if av:
        sp = guarded(lambda: bp(np.array([av * (1 - 1e-13), av, av * (1 + 1e-13)])).value)
        if 'ok' in sp:
            out['_tl_spread'] = max(sp['ok']) - min(sp['ok'])
    # scale law: bp * k with the threshold scaled alongside
    k = O.fl(case['k'])
    if case.get('do_scaled', True):
        out['_scaled'] = call_all(bp * k, wl, None if thr is None else thr * k, area)
    if case['grid'] is not None:
        if case.get('do_rev', True):
            out['_rev'] = call_all(bp, wave_arg(case, 'rev'), thr, area)
        if case.get('grid_unit') and case.get('do_unit', True):
            wu = wave_arg(case, 'unit')
            out['_unit'] = call_all(bp, wu, thr, area)
            out['_unit_x'] = guarded(lambda: bp._validate_wavelengths(wu).value)
    return finish(case, out)


class Collector:
    """stands in for the Report inside a worker process"""

    def __init__(self):
        self.fails, self.dist = [], {}

    def oracle_fail(self, sig, msg, case, impl=None):
        self.fails.append((sig, msg))

    def bump(self, key):
        self.dist[key] = self.dist.get(key, 0) + 1


def finish(case, out):
    """evaluate the property oracle where the outcome was produced (worker process) and keep only what the parent
    needs: the method outcomes, the verdicts and the sample count"""
    col = Collector()
    oracle(col, case, out)
    keep = {'ok': out['ok'], '_oracle': col.fails, '_dist': col.dist, '_n': len(out.get('_x', ())),
            '_tl_spread': out.get('_tl_spread', 0.0)}
    if '_build_err' in out:
        keep['_build_err'] = out['_build_err']
    return keep


def oracle_parent(rep, case, out):
    for sig, msg in out.get('_oracle', ()):
        rep.oracle_fail(sig, msg, case, out['ok'])
    for k, v in out.get('_dist', {}).items():
        rep.dist[k] += v


def model_case(case):
    return {'op': 'bandpar', 'const': case['const'], 'thr': q(O.THR), 'expr': case['expr'], 'grid': case['grid'],
            'threshold': case['threshold'], 'area': case['area'], 'area_unit': case['area_unit']}


# ------------------------------------------------------------------ comparison with the model
def is_exact_table(case):
    e = case['expr']
    return case['grid'] is None and 'prim' in e and e['leaf']['leaf'] == 'empirical'


def compare(case, o, m):
    R = o['ok']
    if 'err' in m:
        for meth in METHODS:
            if R[meth].get('err') != m['err']:
                return '%s: impl %s vs model error %s' % (meth, core._short(R[meth]), m['err'])
        return None
    mm = m['ok']
    scale = max([abs(O.fl(v)) for v in case['grid']] or [0.0]) if case['grid'] is not None else \
        max(abs(R['avgwave'].get('ok', 0.0) or 0.0), abs(R['barlam'].get('ok', 0.0) or 0.0))
    meths = SIGNED_OK if case.get('signed') else METHODS
    for meth in meths:
        a, b = R[meth], mm[meth]
        if meth in THR:
            if case['threshold'] is None:
                pass
            elif mm['thr_tie'] and not is_exact_table(case):
                continue        # a sample sits exactly on the threshold and is itself rounded: the mask is not determined
            elif mm['thr_margin'] is not None and unq(mm['thr_margin']) <= F(1, 10 ** 11) * abs(unq(case['threshold'])):
                continue
        if meth == 'wpeak' and 'ok' in a and 'ok' in b:
            if q(a['ok']) != b['ok'] and q(a['ok']) in mm['wpeak_ties'] and not is_exact_table(case):
                continue        # several (rounded) samples within 1e-12 of the peak: binary64 picks another first match
        atol = 1e-11 * scale if meth in WIDTHS else 0.0
        rtol = 1e-9
        if meth in ('tlambda', 'emflx') and mm.get('tl_spread') is not None:
            # binary64 places avgwave within ~1e-13 of its exact value: tlambda is compared up to the variation of the
            # bandpass over that neighbourhood (at a jump - box edge, end of a table - it is not determined at all)
            spread = float(unq(mm['tl_spread']))
            tlm = abs(float(unq(mm['tlambda']['ok']))) if 'ok' in mm['tlambda'] else 0.0
            if spread > 0 and spread > 0.1 * tlm:
                continue
            if meth == 'tlambda':
                atol = 2 * spread
            elif tlm > 0:
                rtol = 1e-9 + 4 * spread / tlm
        r = same(a, b, rtol=rtol, atol=atol, path=meth)
        if r:
            return r
    return None


# ------------------------------------------------------------------ oracle
def rel_close(a, b, rtol, atol=0.0):
    return abs(a - b) <= atol + rtol * max(abs(a), abs(b))


def oracle(rep, case, out):
    if '_build_err' in out:
        rep.oracle_fail('build:%s' % out['_build_err'], 'the bandpass could not be built', case, out['ok'])
        return
    R = out['ok']
    signed = bool(case.get('signed'))
    if '_sample_err' in out:
        # no sampling wavelengths (undefined waveset, invalid grid): every method must refuse the same way
        for meth in METHODS:
            if R[meth].get('err') != out['_sample_err']:
                rep.oracle_fail('%s:unsampled:%s' % (meth, R[meth].get('err', 'value')),
                                'sampling raises %s but %s gives %s' % (out['_sample_err'], meth, core._short(R[meth])), case, R)
        return
    x, y = np.asarray(out['_x'], dtype=float), np.asarray(out['_y'], dtype=float)
    n = len(x)
    Fm = out.get('_formula') or {}
    xs = float(np.max(np.abs(x))) if n else 0.0
    nonneg = n > 0 and bool(np.all(y >= 0))
    # condition class of a failure (no region is excluded: bands at and below 1 Angstrom are generated and checked
    # like all others; the class only names where a failure of the barlam family sits)
    doc_bl = Fm.get('barlam')
    cond = 'barlam_le_1A' if (doc_bl is not None and doc_bl <= 1.0) else 'regular'

    def val(D, meth):
        o = D[meth]
        return o['ok'] if 'ok' in o and isinstance(o['ok'], float) else None

    spread = out.get('_tl_spread', 0.0)
    tl0 = abs(val(R, 'tlambda') or 0.0)
    tl_jump = spread > 0 and spread > 0.1 * tl0

    def tol(meth, rtol, factor=1.0):
        """(rtol, atol) for comparing two evaluations of `meth`, or None when the comparison is void: tlambda (and
        emflx through it) is the bandpass at avgwave, which binary64 places within ~1e-13 of its exact value"""
        if meth in ('tlambda', 'emflx'):
            if tl_jump:
                return None
            if meth == 'tlambda':
                return rtol, 2 * spread * factor
            return rtol + (4 * spread / tl0 if tl0 else 0.0), 0.0
        return rtol, (1e-11 * xs if meth in WIDTHS else 0.0)

    # 1. formulae
    if not signed and nonneg:
        for meth, want in Fm.items():
            got = val(R, meth)
            c = cond if meth in ('barlam', 'photbw', 'fwhm', 'photbw_thr', 'fwhm_thr') else 'regular'
            if got is None:
                rep.oracle_fail('%s:formula:%s:%s' % (meth, R[meth].get('err', 'novalue'), c),
                                '%s has a documented value %r but returned %s' % (meth, want, core._short(R[meth])), case, R)
            elif tol(meth, 1e-9) is not None and not rel_close(got, want, *tol(meth, 1e-9)):
                rep.oracle_fail('%s:formula:%s' % (meth, c), '%s = %r, documented formula on the same samples gives %r'
                                % (meth, got, want), case, R)
    # 1b. the same object asked twice gives the same answer (same arithmetic: to the last bit)
    for meth, o2 in (out.get('_again') or {}).items():
        if o2 != R[meth] and not (('err' in o2) and o2.get('err') == R[meth].get('err')):
            rep.oracle_fail('history:asked_twice:%s' % meth, '%s first %s, asked again %s' % (
                meth, core._short(R[meth]), core._short(o2)), case, R)
    # 2. identities
    rw, tp, ew = val(R, 'rectwidth'), val(R, 'tpeak'), val(R, 'equivwidth')
    if None not in (rw, tp, ew) and tp != 0 and not rel_close(rw * tp, ew, 1e-12):
        rep.oracle_fail('identity:rectw_mul_tpeak', 'rectwidth*tpeak = %r, equivwidth = %r' % (rw * tp, ew), case, R)
    for sfx in ('', '_thr'):
        fw, pb = val(R, 'fwhm' + sfx), val(R, 'photbw' + sfx)
        if (fw is None) != (pb is None) or (fw is not None and not rel_close(fw, FWHM_C * pb, 1e-12)):
            rep.oracle_fail('identity:fwhm_photbw', 'fwhm = %r, photbw = %r' % (fw, pb), case, R)
    em, ur, tl = val(R, 'emflx'), val(R, 'unit_response'), val(R, 'tlambda')
    if None not in (em, ur, tl, ew) and tl != 0 and not rel_close(em, ur * ew / tl, 1e-12):
        rep.oracle_fail('identity:emflx', 'emflx = %r, uresp*equvw/tlambda = %r' % (em, ur * ew / tl), case, R)
    if signed:
        return
    # with several samples within rounding of the peak, "first match" is decided by the last bit
    uniq = n > 0 and int(np.sum(y >= y.max() * (1 - 1e-12) - 1e-300)) == 1
    # 3. scale laws
    k = O.fl(case['k'])
    S = out.get('_scaled')
    for meth, p in (SCALE.items() if S is not None else ()):
        if meth == 'wpeak' and not uniq:
            continue
        a, b = val(R, meth), val(S, meth)
        if tol(meth, 1e-9) is None:
            continue
        if a is None and b is None:
            if R[meth].get('err') != S[meth].get('err'):
                rep.oracle_fail('scale:%s:outcome' % meth, 'bp: %s, bp*k: %s' % (core._short(R[meth]), core._short(S[meth])), case, R)
            continue
        if a is None or b is None:
            rep.oracle_fail('scale:%s:outcome' % meth, 'bp: %s, bp*k: %s' % (core._short(R[meth]), core._short(S[meth])), case, R)
            continue
        if meth in THR and case['threshold'] is not None and case.get('_thr_fragile'):
            continue
        want = a * k ** p
        if not rel_close(b, want, *tol(meth, 1e-9, k ** p)):
            rep.oracle_fail('scale:%s' % meth, '%s(bp*k) = %r, expected %s = %r' % (
                meth, b, {0: 'the same', 1: 'k times', -1: '1/k times'}[p], want), case, R)
    # 4. in range, 5. ordering
    admissible = nonneg and n >= 2 and Fm.get('equivwidth', 0.0) > 0
    if admissible:
        lo, hi = float(np.min(x)), float(np.max(x))
        vals = {}
        for meth in ('avgwave', 'pivot', 'barlam'):
            v = val(R, meth)
            vals[meth] = v
            c = cond if meth == 'barlam' else 'regular'
            if v is None or not (lo * (1 - 1e-9) <= v <= hi * (1 + 1e-9)):
                rep.oracle_fail('%s:in_range:%s' % (meth, c), '%s = %r is outside the sampled range [%r, %r]' % (meth, v, lo, hi), case, R)
        if None not in vals.values():
            if vals['barlam'] > vals['pivot'] * (1 + 1e-9):
                rep.oracle_fail('order:barlam_le_pivot:%s' % cond, 'barlam %r > pivot %r' % (vals['barlam'], vals['pivot']), case, R)
            if vals['pivot'] > vals['avgwave'] * (1 + 1e-9):
                rep.oracle_fail('order:pivot_le_avgwave:regular', 'pivot %r > avgwave %r' % (vals['pivot'], vals['avgwave']), case, R)
    # 6. order and unit of the wavelength argument
    for name, rtol in (('_rev', 1e-9), ('_unit', 1e-12)):
        V = out.get(name)
        if V is None:
            continue
        if name == '_unit':
            ux = out.get('_unit_x', {})
            if 'ok' not in ux or list(ux['ok']) != list(x):
                # the harness converted the grid differently from the implementation: nothing to compare
                rep.bump('unit_grid_differs')
                continue
        for meth in METHODS:
            if meth == 'wpeak' and not uniq:
                continue
            if meth in THR and name == '_rev' and case.get('_thr_fragile'):
                continue
            if tol(meth, rtol) is None:
                continue
            a, b = R[meth], V[meth]
            if ('ok' in a) != ('ok' in b) or ('err' in a and a['err'] != b.get('err')):
                rep.oracle_fail('invariance:%s:%s:outcome' % (name[1:], meth), 'given order/unit: %s, other: %s' % (
                    core._short(a), core._short(b)), case, R)
            elif 'ok' in a and isinstance(a['ok'], float) and not rel_close(a['ok'], b['ok'], *tol(meth, rtol)):
                rep.oracle_fail('invariance:%s:%s' % (name[1:], meth), '%s = %r, with the wavelengths %s: %r' % (
                    meth, a['ok'], 'reversed' if name == '_rev' else 'in ' + case['grid_unit']['unit'], b['ok']), case, R)


# ------------------------------------------------------------------ generators
def dyf(rng, lo, hi, bits):
    return O.dy(rng, lo, hi, bits)


def gen_table(rng, nmax, centre=None, signed=False):
    """2..nmax points, arbitrary dyadic spacing (gaps over four decades), zeros among the values"""
    n = rng.randint(2, nmax)
    r = rng.random()
    if r < 0.03:
        # hard X-rays: below and around 1 Angstrom
        x = F(rng.randint(1, 24), 16)
        gaps = [F(rng.randint(1, 16), 64) for _ in range(n - 1)]
    elif r < 0.05:
        x = F(1)
        gaps = [F(rng.randint(1, 64), 16) for _ in range(n - 1)]
    else:
        span = F(2) ** rng.randint(3, 11)
        x = (centre - span / 2 if centre is not None and centre > span else dyf(rng, 1.5, 20000, 3))
        x = max(x, F(3, 2))
        gaps = []
        for _ in range(n - 1):
            e = rng.randint(-4, 8)
            gaps.append(F(rng.randint(1, 31)) * F(2) ** e * span / 2 ** 9)
    xs = [x]
    for g in gaps:
        xs.append(xs[-1] + g)
    r = rng.random()
    vals = []
    for _ in xs:
        t = rng.random()
        if r < 0.02 or t < 0.2:
            vals.append(F(0))
        elif signed and t < 0.45:
            vals.append(-dyf(rng, 0, 2, 4) - F(1, 16))
        else:
            vals.append(dyf(rng, 0, 2, 4) + F(1, 16))
    if rng.random() < 0.25:
        vals[0] = vals[-1] = F(0)
    if rng.random() < 0.3:
        # flat top: several samples share the peak
        i = rng.randrange(len(vals))
        j = rng.randrange(len(vals))
        vals[i] = vals[j] = max(vals) if max(vals) > 0 else F(1)
    if rng.random() < 0.15:
        xs, vals = xs[::-1], vals[::-1]
    return {'leaf': 'empirical', 'pts': qs(xs), 'vals': qs(vals), 'keep_neg': True if signed else rng.random() < 0.5}


def gen_box(rng, centre=None):
    w = dyf(rng, 10, 2000, 2)
    x0 = centre if centre is not None else dyf(rng, 3000, 7000, 2)
    return {'leaf': 'box', 'amp': q(dyf(rng, 0.0625, 1, 4)), 'x0': q(x0), 'width': q(w),
            'step': q(w / rng.choice([4, 8, 16, 32]))}


def gen_gauss(rng, centre=None):
    x0 = centre if centre is not None else dyf(rng, 3000, 7000, 2)
    return {'leaf': 'gaussian', 'amp': q(dyf(rng, 0.0625, 1, 4)), 'mean': q(x0), 'sd': q(dyf(rng, 5, 300, 2))}


def band(leaf):
    return {'prim': 'bandpass', 'leaf': leaf}


def gen_expr(rng, nmax):
    r = rng.random()
    signed = False
    if r < 0.45:
        signed = rng.random() < 0.06
        e = band(gen_table(rng, nmax, signed=signed))
    elif r < 0.58:
        e = band(gen_box(rng))
    elif r < 0.70:
        e = band(gen_gauss(rng))
    else:
        c = dyf(rng, 3000, 7000, 2)
        kinds = rng.choice([('t', 't'), ('t', 'b'), ('t', 'g'), ('b', 'g'), ('g', 'g'), ('b', 'b'), ('g', 't')])
        mk = {'t': lambda: gen_table(rng, nmax, centre=c + dyf(rng, -100, 100, 2)),
              'b': lambda: gen_box(rng, centre=c + dyf(rng, -100, 100, 2)),
              'g': lambda: gen_gauss(rng, centre=c + dyf(rng, -100, 100, 2))}
        e = {'op': 'mul', 'l': band(mk[kinds[0]]()), 'r': band(mk[kinds[1]]())}
    if rng.random() < 0.2 and not signed:
        kv = rng.choice([F(2) ** rng.randint(-20, 20), F(*float(10 ** rng.uniform(-6, 6)).as_integer_ratio())])
        e = {'op': 'mul', 'l': e, 'r': {'scalar': rng.choice(['float', 'npfloat']), 'v': q(kv)}}
    O.fill_ss(e, with_ss=True)
    return e, signed


def support(e):
    """a wavelength interval covering where the bandpass is non-zero (for placing explicit grids)"""
    los, his = [], []
    for p in O.walk_prims(e):
        lf = p['leaf']
        if lf['leaf'] == 'empirical':
            v = [unq(t) for t in lf['pts']]
            los.append(min(v)); his.append(max(v))
        elif lf['leaf'] == 'box':
            los.append(unq(lf['x0']) - unq(lf['width'])); his.append(unq(lf['x0']) + unq(lf['width']))
        else:
            los.append(unq(lf['mean']) - 5 * unq(lf['sd'])); his.append(unq(lf['mean']) + 5 * unq(lf['sd']))
    return min(los), max(his)


def gen_grid(rng, e, nmax):
    """explicit sampling wavelengths: arbitrary dyadic points over (and a little beyond) the support"""
    lo, hi = support(e)
    pad = (hi - lo) / 8
    lo2 = max(lo - pad, min(lo, F(1, 16)))
    hi2 = hi + pad
    r = rng.random()
    n = 1 if r < 0.01 else 0 if r < 0.015 else rng.randint(2, nmax)
    bits = 3 if hi2 - lo2 > 64 else 10
    pts = sorted({dyf(rng, float(lo2), float(hi2), bits) for _ in range(n)})
    pts = [p for p in pts if p > 0]
    return pts


def to_unit(pts, unit):
    """express an Angstrom lattice grid in another unit on a lattice of that unit, and return
    (values in the unit, the Angstrom values astropy converts them to)"""
    import astropy.units as u
    if unit == 'nm':
        vals = [float(p) / 8 for p in pts]          # nm lattice: p/8 nm
    elif unit == 'micron':
        vals = [float(p) / 8192 for p in pts]
    elif unit == 'hz':
        vals = [float(F(2997924580000000000) / p // 2 ** 20 * 2 ** 20) for p in pts]
    else:
        vals = [float(p) for p in pts]
    ang = (np.array(vals) * u.Unit(UNITS[unit])).to_value(u.AA, u.spectral())
    return vals, [float(v) for v in ang]


def underflow_risk(c):
    """binary64 cannot carry 9 digits through its subnormal range: a case is regenerated when some sample of a
    Gaussian factor falls where exp(-(x-mean)^2/2sd^2) (times the other factors, k, 1/x) is subnormal, i.e. about
    36..39 standard deviations out (beyond that it is exactly 0, which is fine)"""
    e = c['expr']
    gs = [(unq(p['leaf']['mean']), unq(p['leaf']['sd'])) for p in O.walk_prims(e) if p['leaf']['leaf'] == 'gaussian']
    if not gs:
        return False
    if c['grid'] is not None:
        xs = [unq(v) for v in c['grid']]
    else:
        xs = []
        for p in O.walk_prims(e):
            xs += [unq(v) for v in p['leaf'].get('pts', [])] + [unq(v) for v in p['leaf'].get('ss', [])]
    for x in xs:
        Es = [float(((x - m) / sd) ** 2) / 2 for m, sd in gs]
        # beyond ~745 a single factor is exactly 0 on both sides; a product of two small non-zero factors underflows
        # in binary64 only
        if sum(Es) >= 600 and max(Es) <= 790:
            return True
    return False


def gen_case(rng, K, nmax_t, nmax_g, sparse=False):
    """sparse (thorough tier): each of the three companion evaluations (bp*k, reversed grid, other unit) is made
    for a quarter of the cases only, which keeps 4e4 cases x 17 method calls inside the time budget"""
    while True:
        c = gen_case1(rng, K, nmax_t, nmax_g)
        if not underflow_risk(c):
            break
    if sparse:
        for f in ('do_scaled', 'do_rev', 'do_unit'):
            c[f] = rng.random() < 1 / 4
    return c


def gen_case1(rng, K, nmax_t, nmax_g):
    e, signed = gen_expr(rng, nmax_t)
    c = {'op': 'bandpar', 'const': K, 'expr': e, 'signed': signed, 'grid': None}
    analytic_only = all(p['leaf']['leaf'] != 'empirical' for p in O.walk_prims(e))
    if rng.random() < (0.45 if not analytic_only else 0.3):
        pts = gen_grid(rng, e, nmax_g)
        r = rng.random()
        if r < 0.45 and len(pts) >= 1:
            unit = rng.choice(['nm', 'micron', 'hz', 'angstrom'])
            vals, ang = to_unit(pts, unit)
            if len(set(ang)) == len(ang) and all(v > 0 for v in ang):
                c['grid_unit'] = {'unit': unit, 'vals': qs(vals)}
                pts = ang
        if rng.random() < 0.25:
            pts = pts[::-1]
            if 'grid_unit' in c:
                c['grid_unit']['vals'] = c['grid_unit']['vals'][::-1]
        c['grid'] = qs(pts)
        c['grid_as_quantity'] = rng.random() < 0.5
    # threshold
    r = rng.random()
    tables = [p['leaf'] for p in O.walk_prims(e) if p['leaf']['leaf'] == 'empirical']
    if r < 0.3:
        c['threshold'] = None
    elif r < 0.55 and tables and c['grid'] is None and 'prim' in e:
        c['threshold'] = rng.choice(tables[0]['vals'])      # exactly a sampled value: `>=` keeps it
    else:
        c['threshold'] = q(dyf(rng, 0, 2, 4) / rng.choice([1, 2, 4, 16]) + F(2 * rng.randint(0, 7) + 1, 1024))
    c['threshold_as_quantity'] = rng.random() < 0.3
    if c['threshold'] is not None and c['threshold_as_quantity'] and rng.random() < 0.5:
        c['threshold_scale'] = rng.choice(['1/8', '4', '1/1024'])
    # with a threshold within an ulp-scale distance of a (rounded) sample, scaled/reversed masks may differ
    c['_thr_fragile'] = False
    # area
    c['area'] = q(float(10 ** rng.uniform(-2, 6)))
    c['area_unit'] = rng.choice(['cm2', 'cm2', 'm2'])
    c['area_as_quantity'] = rng.random() < 0.3
    # scale factor over 12 decades
    c['k'] = q(rng.choice([F(2) ** rng.randint(-20, 20), F(*float(10 ** rng.uniform(-6, 6)).as_integer_ratio())]))
    # the process before the measured call, the order of the measured calls, and what is asked a second time
    c['history'] = gen_history(rng, c)
    order = list(METHODS)
    rng.shuffle(order)
    c['order'] = order
    c['again'] = sorted({rng.choice(HIST_METHODS) for _ in range(rng.randint(1, 3))})
    return c


def gen_other(rng, lo, hi):
    """another bandpass living on (or far from) the wavelength range [lo, hi]"""
    r = rng.random()
    span = max(hi - lo, F(1))
    c = lo + span * F(rng.randint(0, 16), 16)
    if r < 0.3:
        w = max(span * F(rng.randint(1, 8), 16), F(1, 4))
        return band({'leaf': 'box', 'amp': q(dyf(rng, 0.0625, 1, 4)), 'x0': q(c), 'width': q(w), 'step': q(w / 8)})
    if r < 0.5:
        return band({'leaf': 'gaussian', 'amp': q(dyf(rng, 0.0625, 1, 4)), 'mean': q(c), 'sd': q(max(span / rng.choice([4, 8, 32]), F(1, 8)))})
    if r < 0.85:
        n = rng.randint(2, 6)
        xs = sorted({lo + span * F(rng.randint(0, 64), 64) for _ in range(n)} | {c})
        if len(xs) < 2:
            xs = [lo, lo + span]
        vals = [F(0) if rng.random() < 0.25 else dyf(rng, 0, 2, 4) + F(1, 16) for _ in xs]
        return band({'leaf': 'empirical', 'pts': qs(xs), 'vals': qs(vals), 'keep_neg': True})
    return gen_expr(rng, 8)[0]


HIST_METHODS = ['tlambda', 'emflx', 'avgwave', 'tlambda', 'emflx'] + METHODS


def related_grid(rng, g):
    """same length and end points, other interior points"""
    if len(g) < 3:
        return list(g)
    a, b = g[0], g[-1]
    lo, hi = min(a, b), max(a, b)
    inner = set()
    tries = 0
    while len(inner) < len(g) - 2 and tries < 200:
        tries += 1
        v = lo + (hi - lo) * F(rng.randint(1, 2 ** 12 - 1), 2 ** 12)
        if lo < v < hi:
            inner.add(v)
    out = sorted({lo, hi} | inner)
    return out if a < b else out[::-1]


def gen_history(rng, c):
    """1-3 earlier requests in the same process (explicit grids), 0-2 for the default waveset"""
    g = None if c['grid'] is None else [unq(v) for v in c['grid']]
    if g is not None and len(g) >= 1:
        lo, hi = min(g), max(g)
        n = rng.randint(1, 3)
    else:
        lo, hi = support(c['expr']) if all(p['leaf']['leaf'] != 'const1' for p in O.walk_prims(c['expr'])) else (F(1000), F(9000))
        n = rng.randint(0, 2)
    steps = []
    for _ in range(n):
        st = {'expr': 'self' if rng.random() < 0.25 else gen_other(rng, lo, hi),
              'methods': [rng.choice(HIST_METHODS) for _ in range(rng.randint(1, 4))]}
        r = rng.random()
        if g is None:
            st['grid'], st['spelling'] = ('waveset' if r < 0.6 else 'same'), 'ndarray'
        elif r < 0.6 or st['expr'] == 'self' and r < 0.3:
            st['grid'] = 'same'
            st['spelling'] = rng.choice(['list', 'ndarray', 'quantity'] + (['unit', 'unit'] if c.get('grid_unit') else []))
        elif r < 0.8:
            st['grid'], st['spelling'] = qs(related_grid(rng, g)), rng.choice(['list', 'ndarray', 'quantity'])
        else:
            st['grid'], st['spelling'] = qs(g[::-1]), rng.choice(['list', 'ndarray', 'quantity'])
        steps.append(st)
    return steps


FIXED = [
    # all-zero throughput: every guard
    {'expr': band({'leaf': 'empirical', 'pts': qs([1000, 2000, 3000]), 'vals': qs([0, 0, 0]), 'keep_neg': True}), 'grid': None},
    # weight at exactly 1 Angstrom (mean ln = 0), and below 1 Angstrom (mean ln < 0): regression for ca9035f
    {'expr': band({'leaf': 'empirical', 'pts': qs([1, 2]), 'vals': qs([1, 0]), 'keep_neg': True}), 'grid': None},
    {'expr': band({'leaf': 'empirical', 'pts': qs([F(1, 8), F(1, 4), F(1, 2)]), 'vals': qs([0, 1, F(1, 2)]), 'keep_neg': True}), 'grid': None},
    # no sampling set at all
    {'expr': band({'leaf': 'const1', 'amp': '1/2'}), 'grid': None},
    {'expr': band({'leaf': 'const1', 'amp': '1/2'}), 'grid': qs([1000, 1500, 4000])},
    # invalid grids
    {'expr': band({'leaf': 'empirical', 'pts': qs([1000, 2000, 3000]), 'vals': qs([0, 1, 0]), 'keep_neg': True}), 'grid': qs([1500, 1200, 2500])},
    {'expr': band({'leaf': 'empirical', 'pts': qs([1000, 2000, 3000]), 'vals': qs([0, 1, 0]), 'keep_neg': True}), 'grid': qs([1500, 1500, 2500])},
    {'expr': band({'leaf': 'empirical', 'pts': qs([1000, 2000, 3000]), 'vals': qs([0, 1, 0]), 'keep_neg': True}), 'grid': qs([0, 1500, 2500])},
    # throughput zero at the average wavelength (two separated peaks): emflx guard
    {'expr': band({'leaf': 'empirical', 'pts': qs([1000, 1100, 1200, 2800, 2900, 3000]), 'vals': qs([0, 1, 0, 0, 1, 0]), 'keep_neg': True}), 'grid': None},
]


def fixed_cases(K):
    out = []
    for f in FIXED:
        c = {'op': 'bandpar', 'const': K, 'signed': False, 'threshold': '1/2', 'threshold_as_quantity': False,
             'area': '100', 'area_unit': 'cm2', 'k': '3', '_thr_fragile': False}
        c.update(f)
        out.append(c)
    return out


# ------------------------------------------------------------------ run
def tags(c, o):
    e = c['expr']
    inner = e['l'] if ('op' in e and 'scalar' in e.get('r', {})) else e
    kind = inner['leaf']['leaf'] if 'prim' in inner else 'product:%s*%s' % (inner['l']['leaf']['leaf'], inner['r']['leaf']['leaf'])
    t = ['band:' + kind, 'scaled_expr:%s' % (inner is not e)]
    if c['grid'] is None:
        t.append('grid:default_waveset')
    else:
        g = [unq(v) for v in c['grid']]
        t.append('grid:explicit:%s:%s' % ((c.get('grid_unit') or {}).get('unit', 'angstrom'),
                                          'desc' if len(g) > 1 and g[-1] < g[0] else 'asc'))
    n = o.get('_n', 0)
    t.append('n:%s' % ('0-1' if n < 2 else '2-4' if n < 5 else '5-12' if n < 13 else '13-50' if n < 51 else '51+'))
    t.append('threshold:%s' % ('none' if c['threshold'] is None else 'quantity' if c.get('threshold_as_quantity') else 'number'))
    t.append('area:%s' % c['area_unit'])
    h = c.get('history', [])
    t.append('history:%d earlier requests' % len(h))
    for st in h:
        t.append('history:%s bandpass on %s grid' % ('same' if st['expr'] == 'self' else 'other',
                                                     st['grid'] if isinstance(st['grid'], str) else 'related/reversed'))
    if c.get('signed'):
        t.append('signed_table')
    R = o['ok']
    if 'err' in R['avgwave']:
        t.append('outcome:' + R['avgwave']['err'])
    elif R['avgwave'].get('ok') == 0:
        t.append('outcome:degenerate(den==0)')
    else:
        t.append('outcome:ok')
    sp, tl = o.get('_tl_spread', 0.0), abs(R['tlambda'].get('ok') or 0.0)
    if sp > 0 and sp > 0.1 * tl:
        t.append('tlambda:avgwave_at_a_jump(not compared)')
    if 'err' in R['tlambda'] and 'err' not in R['avgwave']:
        t.append('tlambda:' + R['tlambda']['err'])
    elif R['tlambda'].get('ok') == 0:
        t.append('tlambda:zero')
    return t


def nontrivial(c, o):
    return 'ok' in o['ok']['avgwave'] and o['ok']['avgwave']['ok'] != 0


def budget(rep):
    thorough = rep.tier == 'thorough'
    return (40000, 200, 200) if thorough else (2500, 12, 12)


GEN_CHUNK = 500


def gen_chunk(args):
    """cases i*GEN_CHUNK .. of the run: every chunk has its own random stream derived from (seed, chunk index)"""
    seed, tier, i, count = args
    rep = core.Report('C11', tier, seed)
    rng = rep.rng('c11/%d' % i)
    K = O.consts()
    thorough = tier == 'thorough'
    _, nmax_t, nmax_g = budget(rep)
    out = []
    for _ in range(count):
        # most tables stay small; the long ones exercise the sums
        big = (not thorough) or rng.random() < 0.1
        out.append(gen_case(rng, K, nmax_t if big else 16, nmax_g if big else 24, sparse=thorough))
    return out


def run(rep):
    ncase, nmax_t, nmax_g = budget(rep)
    K = O.consts()
    cases = core.load_corpus('C11')
    for c in cases:
        c['const'] = K
    cases += fixed_cases(K)
    chunks = [(rep.seed, rep.tier, i, min(GEN_CHUNK, ncase - i * GEN_CHUNK)) for i in range((ncase + GEN_CHUNK - 1) // GEN_CHUNK)]
    for ch in core.pmap(gen_chunk, chunks, chunksize=1):
        cases += ch
    rep.rule = ('non-negative bandpasses: tables of 2..%d points with arbitrary dyadic spacing (gaps over four decades, zeros, flat tops, '
                'ascending or descending, a few below/at 1 Angstrom and a few with negative values for the division-free methods), boxes with '
                'a coarse step, Gaussians, products of two, each optionally times a number; sampled on the default waveset or on explicit grids '
                'of 0..%d dyadic points (ascending/descending; Angstrom arrays or Quantities; nm, micron, Hz) x threshold (none, exactly a sampled '
                'value, off-lattice; number or Quantity) x area (cm2 number, cm2/m2 Quantity, 1e-2..1e6) x scale factor k (2^-20..2^20, 1e-6..1e6). '
                'All 14 methods per case (17 calls: the three width methods with and without threshold; call order shuffled)%s. Every case is a short history in one '
                'process: 0-3 earlier requests (other bandpasses, or the same object; random subsets of the methods) on the same grid in another spelling '
                '(list / ndarray / Quantity in Angstrom or the other unit), on a related grid (same length and end points) or on the reversed grid, then '
                'the measured calls, then some of them again; the model is a function of the measured request only. '
                'Non-trivial: the average wavelength is defined and non-zero.' % (
                    nmax_t, nmax_g, '; thorough tier: 10 %% of the cases use the long tables/grids, and each companion evaluation '
                    '(bp*k, reversed grid, other unit) is made for a quarter of the cases' if rep.tier == 'thorough' else ''))
    # in chunks, to bound memory in the thorough tier
    step = 20000
    for i in range(0, len(cases), step):
        core.run_cases(rep, cases[i:i + step], impl_call, model_case, oracle_parent, tags_fn=tags, nontrivial_fn=nontrivial,
                       compare_fn=compare)
    rep.samples = [s if not isinstance(s, dict) else {k: v for k, v in s.items() if k != 'const'} for s in rep.samples]


def search(rep, mismatches):
    sub = core.Report(rep.pid, 'thorough', rep.seed + 1)
    rng = sub.rng('c11-search')
    K = O.consts()
    cases = []
    for op, msg, case, impl, model in mismatches[:20]:
        cases.append(case)
        # the same bandpass on its default waveset and on a reversed grid
        c2 = dict(case); c2['grid'] = None; c2.pop('grid_unit', None)
        cases.append(c2)
        if case['grid'] is not None:
            c3 = dict(case); c3['grid'] = case['grid'][::-1]; c3.pop('grid_unit', None)
            cases.append(c3)
    cases += [gen_case(rng, K, 12, 12) for _ in range(6000)]
    impl = core.pmap(impl_call, cases)
    for c, o in zip(cases, impl):
        oracle_parent(sub, c, o)
    rep.notes.append('directed search after mismatch: %d cases, %d oracle failures' % (len(cases), len(sub.oracle_failures)))
    return sub.oracle_failures


def replay(rep, payload):
    c = payload['case']
    c['const'] = O.consts()
    core.run_cases(rep, [c], impl_call, model_case, oracle_parent, compare_fn=compare)
