"""C13  Sampling sets are valid and a composite samples every component."""
import math
from fractions import Fraction as F

from ..core import NP as np

from .. import core, objects as O
from ..core import q, qs, guarded, same, unq
from . import c02

THR = 1e-12


# ------------------------------------------------------------------ implementation
def impl_call(case):
    op = case['op']
    if op == 'merge':
        from synphot.utils import merge_wavelengths
        a = None if case['a'] is None else np.array([O.fl(x) for x in case['a']])
        b = None if case['b'] is None else np.array([O.fl(x) for x in case['b']])
        dt = case.get('dt')
        if dt:      # the same numbers held in a narrower type (every value is exactly representable in it)
            a, b = np.asarray(a).astype(dt[0]), np.asarray(b).astype(dt[1])
            assert [float(v) for v in a] == [O.fl(x) for x in case['a']] and [float(v) for v in b] == [O.fl(x) for x in case['b']]
        out = guarded(lambda: merge_wavelengths(a, b))
        if 'ok' in out:
            out['_swap'] = guarded(lambda: merge_wavelengths(b, a))
            m = None if out['ok'] is None else np.array(out['ok'])
            out['_twice'] = guarded(lambda: merge_wavelengths(m, m))
        return out
    if op == 'expr_waveset':
        def f():
            obj = O.eval_expr(case['expr'])
            w = obj.waveset
            for _ in range(case.get('repeat', 0)):
                w = obj.waveset          # asking again must give the same set
            return None if w is None else w.value
        out = guarded(f)
        zroot = 1 + O.fl(case['expr']['setz']['z']) if 'setz' in case['expr'] else 1.0
        replaced = 'setz' in case['expr'] and 'prim' in case['expr']['e']     # assignment replaces the operand's own z
        # component sampling sets for the containment oracle
        comps = []
        for p in O.walk_prims(case['expr']):
            def g(p=p):
                # the statement's reference: the rest-frame set multiplied by (1+z)
                rest = {k: v for k, v in p.items() if k not in ('z', 'ztype')}
                w = O.build_prim(rest).waveset
                own = 0.0 if replaced or 'z' not in p else O.fl(p['z'])
                return None if w is None else w.value * (1 + own) * zroot
            comps.append((p['prim'], p['leaf']['leaf'], guarded(g)))
        out['_comps'] = comps
        return out
    if op == 'gen_waves':
        from synphot.utils import generate_wavelengths
        kw = dict(minwave=O.fl(case['min']), maxwave=O.fl(case['max']), num=case['num'], log=case['log'])
        if case.get('delta') is not None:
            kw['delta'] = O.fl(case['delta'])
        if case.get('unit'):
            kw['wave_unit'] = case['unit']
        return guarded(lambda: generate_wavelengths(**kw)[0].value)
    if op == 'default_set':
        return default_set(case)
    raise KeyError(op)


def default_set(case):
    """resolution of the default sampling set of an analytic profile: trapezoid over it vs analytic integral"""
    from synphot import SourceSpectrum, SpectralElement
    from synphot import models as M

    def f():
        k = case['kind']
        if k == 'gaussian':
            sp = SourceSpectrum(M.Gaussian1D, amplitude=O.fl(case['amp']), mean=O.fl(case['x0']), stddev=O.fl(case['w']))
        elif k == 'ricker':
            sp = SourceSpectrum(M.RickerWavelet1D, amplitude=O.fl(case['amp']), x_0=O.fl(case['x0']), sigma=O.fl(case['w']))
        elif k == 'trapezoid':
            sp = SourceSpectrum(M.Trapezoid1D, amplitude=O.fl(case['amp']), x_0=O.fl(case['x0']), width=O.fl(case['w']),
                                slope=O.fl(case['slope']))
        elif k == 'box':
            sp = SpectralElement(M.Box1D, amplitude=O.fl(case['amp']), x_0=O.fl(case['x0']), width=O.fl(case['w']),
                                 step=O.fl(case['step']))
        elif k == 'blackbody':
            sp = SourceSpectrum(M.BlackBodyNorm1D, temperature=O.fl(case['w']))
        w = sp.waveset.value
        if k != 'blackbody':
            grid = np.asarray(sp.model.sampleset(), dtype=float)
        t = sp.integrate(integration_type='trapezoid')
        a = sp.integrate(integration_type='analytical')
        if k == 'blackbody':
            # analytic integral is bolometric energy; trapezoid of the photon curve needs the energy unit
            import astropy.units as u
            from synphot import units
            t = sp.integrate(integration_type='trapezoid', flux_unit=units.FLAM)
            a = a.to(u.erg / u.cm ** 2 / u.s)
        return {'n': len(w), 'first': float(w[0]), 'last': float(w[-1]), 'rel_err': abs(float(t.value) / float(a.value) - 1),
                'grid': None if k == 'blackbody' else grid}
    return guarded(f)


def model_case(case):
    op = case['op']
    if op == 'merge':
        return {'op': 'merge', 'a': case['a'], 'b': case['b'], 'thr': q(THR)}
    if op == 'expr_waveset':
        return {'op': 'expr_waveset', 'thr': q(THR), 'expr': case['expr']}
    if op == 'gen_waves':
        return {k: v for k, v in case.items() if k != 'unit'}
    if op == 'default_set' and case['kind'] != 'blackbody':
        return {'op': 'default_grid', 'kind': case['kind'], 'x0': case['x0'], 'w': case['w'],
                'step': case.get('step'), 'amp': case['amp'], 'slope': case.get('slope')}
    return None


def compare(case, o, m):
    o2 = {k: v for k, v in o.items() if not k.startswith('_')}
    if case['op'] == 'default_set':
        if 'ok' not in o2 or 'ok' not in m:
            return None if ('err' in o2) == ('err' in m) else 'default grid: impl %s vs model %s' % (o2, m)
        a, b = o2['ok']['grid'], m['ok']['pts']
        if len(a) != len(b):
            quot = float(unq(m['ok']['quot']))
            if abs(len(a) - len(b)) != 1 or abs(quot - round(quot)) > 1e-9 * max(1.0, quot):
                return 'default grid: %d points, rule gives %d' % (len(a), len(b))
        n = min(len(a), len(b))
        return same({'ok': a[:n]}, {'ok': b[:n]}, rtol=1e-9, atol=1e-9 * abs(O.fl(case['w'])))
    if case['op'] == 'gen_waves' and 'ok' in o2 and 'ok' in m and case.get('delta') is not None:
        a, b = o2['ok'], m['ok']
        if abs(len(a) - len(b)) == 1:
            # np.arange decides its length in binary64: accept a one-point difference only when the exact
            # quotient is (numerically) an integer and all common points agree (DESIGN 1.2a)
            lo, hi = (math.log10(O.fl(case['min'])), math.log10(O.fl(case['max']))) if case['log'] else (O.fl(case['min']), O.fl(case['max']))
            quot = (hi - lo) / O.fl(case['delta'])
            if abs(quot - round(quot)) < 1e-9 * max(1.0, abs(quot)):
                n = min(len(a), len(b))
                return same({'ok': a[:n]}, {'ok': b[:n]}, rtol=1e-9)
    return same(o2, m, rtol=1e-9 if case['op'] != 'merge' else 0.0)


# ------------------------------------------------------------------ oracle
def oracle(rep, case, out):
    op = case['op']
    if op == 'merge':
        oracle_merge(rep, case, out)
    elif op == 'expr_waveset':
        oracle_waveset(rep, case, out)
    elif op == 'gen_waves':
        oracle_gen(rep, case, out)
    elif op == 'default_set':
        oracle_default(rep, case, out)


def oracle_merge(rep, case, out):
    if 'err' in out:
        rep.oracle_fail('merge:%s' % out['err'], 'merge raised', case, out)
        return
    m = out['ok']
    a = None if case['a'] is None else [O.fl(x) for x in case['a']]
    b = None if case['b'] is None else [O.fl(x) for x in case['b']]
    if a is None or b is None:
        want = a if b is None else b
        if (m is None) != (want is None) or (m is not None and list(m) != list(want)):
            rep.oracle_fail('merge:none_rule', 'merging with an undefined set must return the other set', case, out)
        return
    if any(m[i + 1] - m[i] <= 0 for i in range(len(m) - 1)):
        rep.oracle_fail('merge:not_sorted', 'merged set is not strictly increasing', case, out)
    if any(m[i + 1] - m[i] <= THR for i in range(len(m) - 1)):
        rep.oracle_fail('merge:gap', 'neighbours closer than the threshold survive', case, out)
    both = sorted(set(a) | set(b))
    ms = set(m)
    if not ms <= set(both):
        rep.oracle_fail('merge:invented_point', 'merged set contains a point of neither input', case, out)
    for i, x in enumerate(both):
        if x not in ms:
            if i + 1 >= len(both) or both[i + 1] - x > THR:
                rep.oracle_fail('merge:dropped', 'a point without a close larger neighbour was dropped', case, out)
                break
    sw = out.get('_swap', {})
    if sw.get('ok') != m:
        rep.oracle_fail('merge:order', 'result depends on the argument order', case, out)
    tw = out.get('_twice', {})
    if tw.get('ok') != m:
        rep.oracle_fail('merge:twice', 'merging the result with itself changes it', case, out)


def expr_z_free(d):
    return all('z' not in p or unq(p['z']) == 0 for p in O.walk_prims(d))


def oracle_waveset(rep, case, out):
    if 'err' in out:
        if out['err'] not in ('ZeroWavelength', 'IncompatibleSources', 'NotImplementedError', 'TypeError'):
            rep.oracle_fail('waveset:%s' % out['err'], 'waveset raised %s' % out['err'], case, out)
        return
    w = out['ok']
    if w is None:
        # undefined only if no component (other than extinction curves) has a sampling set
        for kind, leaf, c in out['_comps']:
            if 'ok' in c and c['ok'] is not None and kind != 'extcurve':
                rep.oracle_fail('waveset:undefined_although_component_has_one', 'composite has no waveset', case, out)
                break
        return
    if not all(x > 0 for x in w) or any(w[i + 1] <= w[i] for i in range(len(w) - 1)):
        rep.oracle_fail('waveset:invalid', 'waveset is not strictly increasing and positive', case, out)
        return
    wa = np.array(w)
    for kind, leaf, c in out['_comps']:
        if 'ok' not in c or c['ok'] is None or kind == 'extcurve':
            continue
        for x in c['ok']:
            i = np.searchsorted(wa, x)
            near = min(abs(wa[j] - x) for j in (i - 1, i) if 0 <= j < len(wa))
            # threshold stretched by the number of merges along a chain of near-coincident points
            if near > 50 * THR * max(1.0, x / 1000.0):
                rep.oracle_fail('waveset:component_point_missing:%s' % leaf,
                                'sampling point %r of a component is %g away from the composite set' % (x, near), case, out)
                return


def oracle_gen(rep, case, out):
    if 'err' in out:
        rep.oracle_fail('gen:%s' % out['err'], 'generate_wavelengths raised', case, out)
        return
    w = out['ok']
    lo, hi = O.fl(case['min']), O.fl(case['max'])
    if not all(lo * (1 - 1e-12) <= x < hi * (1 + 1e-12) for x in w):
        rep.oracle_fail('gen:range', 'point outside [min, max)', case, out)
    if case.get('exact_steps') and any(x >= hi for x in w):
        rep.oracle_fail('gen:range:end_point_included', 'the grid reaches max (%r) although [min, max) is half-open' % hi, case, out)
    v = [math.log10(x) for x in w] if case['log'] else list(w)
    if case.get('delta') is None:
        if len(w) != case['num']:
            rep.oracle_fail('gen:count', '%d points for num=%d' % (len(w), case['num']), case, out)
    else:
        d = O.fl(case['delta'])
        if any(abs((v[i + 1] - v[i]) - d) > 1e-9 * max(abs(d), abs(v[i]) * 1e-3) for i in range(len(v) - 1)):
            rep.oracle_fail('gen:step', 'spacing differs from delta', case, out)
    if len(v) > 2:
        d0 = v[1] - v[0]
        if any(abs((v[i + 1] - v[i]) - d0) > 1e-7 * abs(d0) + 1e-12 * abs(v[i]) for i in range(len(v) - 1)):
            rep.oracle_fail('gen:uniform', 'grid is not uniform in %s space' % ('log' if case['log'] else 'linear'), case, out)


BOUNDS = {'gaussian': 2e-6, 'ricker': 2e-3, 'blackbody': 5e-3, 'trapezoid': 1e-12}


def oracle_default(rep, case, out):
    if 'err' in out:
        rep.oracle_fail('default_set:%s:%s' % (case['kind'], out['err']), 'default sampling set unusable', case, out)
        return
    k = case['kind']
    e = out['ok']['rel_err']
    bound = O.fl(case['step']) / O.fl(case['w']) * (1 + 1e-9) if k == 'box' else BOUNDS[k]
    if e > bound:
        rep.oracle_fail('default_set:%s:resolution' % k, 'relative quadrature error %g exceeds %g' % (e, bound), case, out)
    rep.extra.setdefault('resolution_' + k, [1e9, 0.0])
    r = rep.extra['resolution_' + k]
    r[0], r[1] = min(r[0], e), max(r[1], e)


# ------------------------------------------------------------------ generators
def gen_merge(rng, nmax):
    """a pair of sets in every arrangement a caller may hold them in: the function is documented for array-likes "in the
    same unit", not for sorted ones, so either input may arrive descending, in arbitrary order or with repeated points"""
    if rng.random() < 0.12:
        # one set held as integers or in single precision (a grid from np.arange, a FITS column), of either relative
        # length, the other in double precision with points the narrow type cannot hold
        n1, n2 = rng.randint(1, nmax), rng.randint(1, nmax)
        lo = rng.randint(100, 9000)
        kind = rng.choice(['i8', 'i4', 'u2', 'f4'])
        if kind == 'f4':
            narrow = sorted({float(lo + i) + rng.choice([0.0, 0.25, 0.5]) for i in range(n1)})
        else:
            narrow = sorted({float(lo + rng.randint(0, 2 * n1)) for _ in range(n1)})
        wide = sorted({float(lo - 2 + rng.randint(0, 2 * n1 + 4)) + rng.choice([0.0, 2.0 ** -20, 0.3, 0.5, 0.7, 1 - 2.0 ** -30])
                       for _ in range(n2)})
        c = {'op': 'merge', 'a': qs(narrow), 'b': qs(wide), 'dt': [kind, 'f8'], '_nospell': 1}
        if rng.random() < 0.5:
            c['a'], c['b'], c['dt'] = c['b'], c['a'], c['dt'][::-1]
        return c
    c = gen_merge_sorted(rng, nmax)
    if c['a'] is None or c['b'] is None:
        return c
    for k in ('a', 'b'):
        r = rng.random()
        if r < 0.15:
            c[k] = c[k][::-1]
        elif r < 0.25:
            v = list(c[k]) + ([rng.choice(c[k])] if rng.random() < 0.5 else [])
            rng.shuffle(v)
            c[k] = v
    return c


def gen_merge_sorted(rng, nmax):
    if rng.random() < 0.06:
        a = None if rng.random() < 0.5 else sorted({float(rng.randint(1, 50)) for _ in range(rng.randint(1, 4))})
        b = None if (a is not None or rng.random() < 0.5) else [1.0, 2.0]
        return {'op': 'merge', 'a': None if a is None else qs(a), 'b': None if b is None else qs(b)}
    if rng.random() < 0.05:
        # differences exactly equal to the threshold (k*t and (k+1)*t are exact for t = float(1e-12))
        k = 2 ** rng.randint(0, 8)
        return {'op': 'merge', 'a': qs([k * THR, 1.0]), 'b': qs([(k + 1) * THR, (k + 2) * THR + THR / 4, 2.0])}
    if rng.random() < 0.1:
        # two sets whose ranges do not overlap, abutting at a near-coincident junction (or with a too-close pair inside
        # one of them): the thinning and the ordering must not depend on how the sets are placed
        lo = sorted({float(O.dy(rng, 100, 4000, 3)) for _ in range(rng.randint(1, 5))})
        hi0 = lo[-1] + rng.choice([0.0, 10 ** rng.uniform(-15.5, -12.3), 4e-13, 1.0, 50.0])
        hi = sorted({hi0} | {hi0 + float(O.dy(rng, 1, 3000, 3)) for _ in range(rng.randint(0, 4))})
        if rng.random() < 0.4 and len(hi) >= 2:
            hi.insert(1, hi[0] + 10 ** rng.uniform(-15.5, -12.3))
            hi = sorted(set(hi))
        a_, b_ = (lo, hi) if rng.random() < 0.5 else (hi, lo)
        return {'op': 'merge', 'a': qs(a_), 'b': qs(b_)}
    if rng.random() < 0.15:
        # the same nominal grid twice, every point of the second set within the threshold of its partner (or equal to
        # it), on either side: same length, pairwise close, not identical
        base = sorted({float(O.dy(rng, 100, 10000, 3)) for _ in range(rng.randint(2, nmax))})
        other = []
        for x in base:
            r = rng.random()
            d = 10 ** rng.uniform(-15.5, -12.3)
            other.append(x if r < 0.4 else x + d if r < 0.7 else x - d)
        if other == base:
            other[-1] = base[-1] + 4e-13
        if rng.random() < 0.5:
            base, other = other, base
        return {'op': 'merge', 'a': qs(base), 'b': qs(sorted(set(other)))}
    base = sorted({float(O.dy(rng, 100, 10000, 3)) for _ in range(rng.randint(1, nmax))})
    a, b = [], []
    for x in base:
        r = rng.random()
        if r < 0.3:
            a.append(x)
        elif r < 0.6:
            b.append(x)
        elif r < 0.75:
            a.append(x); b.append(x)
        else:
            # near-coincident companions, differences 1e-16 .. 1e-9 (relative to the ulp of x where needed)
            d = 10 ** rng.uniform(-16, -9) * rng.choice([1, 1, 1000])
            a.append(x); b.append(x + d)
            if rng.random() < 0.3:
                a.append(x + 2 * d)
    a, b = sorted(set(a)), sorted(set(b))
    if not a:
        a = [base[0]]
    if not b:
        b = [base[-1]]
    return {'op': 'merge', 'a': qs(a), 'b': qs(b)}


def gen_waveset_case(rng, depth):
    e = c02.gen_tree(rng, rng.randint(0, depth), 'source' if rng.random() < 0.7 else 'unitless')
    if rng.random() < 0.4 and c02.static_kind(e) == 'source':
        # the redshift assigned on the result (a composite, or an operand that already carries one)
        e = {'setz': {'z': q(rng.choice([F(1), F(3), F(1, 2), F(-1, 2), F(1, 4), F(7), F(-3, 2), F(-2)])),     # 1+z < 0: the set must be refused
                      'ztype': rng.choice([None, 'wavelength_only', 'conserve_flux']),
                      'pre_waveset': rng.random() < 0.5}, 'e': e}
    O.fill_ss(e, with_ss=True)
    c = {'op': 'expr_waveset', 'expr': e}
    if rng.random() < 0.6:
        c['repeat'] = rng.randint(1, 3)
    return c


def gen_gen(rng):
    if rng.random() < 0.3:
        # spans that are an exact whole number of steps (everything the code computes before deciding the count is
        # exact in binary64): the half-open end is decided without rounding
        log = rng.random() < 0.5
        m = rng.choice([1, 2, 4, 8, 16, 40])
        if log:
            lo = float(rng.choice([1, 10, 100, 1000]))
            dec = rng.choice([1, 2])
            hi = lo * 10 ** dec
            delta = F(dec, m)
            if delta.denominator & (delta.denominator - 1):      # keep the step dyadic
                delta = F(dec, 8)
        else:
            lo = float(O.dy(rng, 500, 5000, 2))
            delta = O.dy(rng, 1, 300, 3)
            hi = lo + float(delta) * m
        c = {'op': 'gen_waves', 'min': q(lo), 'max': q(hi), 'num': 10, 'log': log, 'delta': q(delta), 'exact_steps': True}
        if rng.random() < 0.2:
            c['min'], c['max'] = c['max'], c['max']          # empty request: min == max
        return c
    log = rng.random() < 0.5
    if rng.random() < 0.4:
        # a grid asked for by its count between arbitrary (not round) limits: the count and the half-open end must
        # not depend on how the span divides
        lo = round(10 ** rng.uniform(-1, 3.5), rng.choice([1, 2, 3]))
        hi = round(lo * 10 ** rng.uniform(0.05, 1.5) + rng.random(), rng.choice([1, 2, 3]))
        if hi > lo > 0:
            return {'op': 'gen_waves', 'min': q(lo), 'max': q(hi), 'num': rng.choice([1, 2, 3, 7, 10, 37, 49, 100, 999, 1000]),
                    'log': log, 'delta': None}
    lo = float(rng.choice([500, 1000, 1, 10, 2000.5]))
    hi = lo * rng.choice([2, 10, 52, 1.5])
    c = {'op': 'gen_waves', 'min': q(lo), 'max': q(hi), 'num': rng.choice([1, 2, 10, 37, 100, 1000]), 'log': log, 'delta': None}
    if rng.random() < 0.5:
        span = (math.log10(hi) - math.log10(lo)) if log else (hi - lo)
        c['delta'] = q(span / rng.choice([3.7, 10.3, 99.5, 7.25, 41.9]))
    if rng.random() < 0.3:
        c['unit'] = rng.choice(['angstrom', 'nm', 'micron'])
    return c


def gen_default(rng):
    k = rng.choice(['gaussian', 'ricker', 'trapezoid', 'box', 'blackbody'])
    c = {'op': 'default_set', 'kind': k, 'amp': q(10 ** rng.uniform(-10, 10)), 'x0': q(10 ** rng.uniform(3.5, 5))}
    x0 = O.fl(c['x0'])
    if k in ('gaussian', 'ricker'):
        c['w'] = q(x0 * 10 ** rng.uniform(-4, -1.2))
    elif k == 'trapezoid':
        c['amp'] = q(10 ** rng.uniform(-2, 2))
        c['w'] = q(x0 * 10 ** rng.uniform(-3, -1))
        c['slope'] = q(O.fl(c['amp']) / (x0 * 10 ** rng.uniform(-4, -1.5)))
    elif k == 'box':
        c['w'] = q(x0 * 10 ** rng.uniform(-3, -1))
        c['step'] = q(O.fl(c['w']) / rng.choice([7.3, 50.5, 333.3]))
    else:
        c['w'] = q(10 ** rng.uniform(math.log10(3), 6))
    return c


def run(rep):
    thorough = rep.tier == 'thorough'
    rng = rep.rng('c13')
    cases = core.load_corpus('C13')
    cases += [gen_merge(rng, 60 if thorough else 10) for _ in range(60000 if thorough else 1500)]
    cases += [gen_waveset_case(rng, 5 if thorough else 3) for _ in range(30000 if thorough else 1200)]
    cases += [gen_gen(rng) for _ in range(6000 if thorough else 1500)]
    cases += [gen_default(rng) for _ in range(4000 if thorough else 400)]
    rep.rule = ('pairs of wavelength arrays with coincident and near-coincident points (differences 1e-16..1e-6), undefined sets; '
                'waveset of random expression trees over all leaf kinds (C02 generator, redshifted and composite operands); '
                'generate_wavelengths over min/max/num/delta/log/unit combinations; default sampling set of Gaussian, Ricker, '
                'trapezoid, box and blackbody profiles over 20 decades of amplitude and 2-3 of centre/width. '
                'Non-trivial: the operation returned a set (not undefined, not an error).')

    def tags(c, o):
        t = [c['op'], 'outcome:' + (o.get('err') or ('undefined' if o.get('ok') is None else 'ok'))]
        if c['op'] == 'default_set':
            t.append('profile:' + c['kind'])
        return t

    def nontrivial(c, o):
        return 'ok' in o and o['ok'] is not None
    core.run_cases(rep, cases, impl_call, model_case, oracle, tags_fn=tags, nontrivial_fn=nontrivial, compare_fn=compare)
    rep.extra = {k: ([float('%.3g' % v[0]), float('%.3g' % v[1])] if isinstance(v, list) else v) for k, v in rep.extra.items()}


def search(rep, mismatches):
    sub = core.Report(rep.pid, 'thorough', rep.seed + 1)
    rng = sub.rng('c13-search')
    cases = [gen_merge(rng, 12) for _ in range(6000)] + [gen_waveset_case(rng, 3) for _ in range(2000)] + \
        [gen_gen(rng) for _ in range(500)]
    impl = core.pmap(impl_call, cases)
    for c, o in zip(cases, impl):
        oracle(sub, c, o)
    rep.notes.append('directed search after mismatch: %d cases, %d oracle failures' % (len(cases), len(sub.oracle_failures)))
    return sub.oracle_failures


def replay(rep, payload):
    core.run_cases(rep, [payload['case']], impl_call, model_case, oracle, compare_fn=compare)
