/-
  C11 — Bandpass photometric parameters equal their formulae and mutual identities.

  `l` is the list of samples `(xᵢ, yᵢ)` (wavelength in Angstrom, throughput), in the caller's
  order.  `Bandpar.integ g l` is `trapezoid(g(x, y), x=x)`.
-/
import Synphot.Lemmas.Bandpar
import Synphot.Lemmas.TranscReal

set_option linter.unusedSectionVars false
set_option linter.unusedVariables false
set_option linter.unusedSimpArgs false

namespace Synphot.C11
open Synphot Synphot.Bandpar
variable {K : Type} [Field K] [LinearOrder K] [IsStrictOrderedRing K]

/-! ### 1. every parameter is its documented formula over `trapz`
(the definitions of `Core/Bandpar.lean` transcribe the code; these statements fix what they say) -/

theorem avgwave_formula (l : List (K × K)) (h : trapz l ≠ 0) :
    avgwave l = |trapz (l.map fun p => (p.1, p.2 * p.1)) / trapz l| := by
  have h' : integ (fun p => p.2) l ≠ 0 := by rwa [integ_snd]
  simp only [avgwave, integ_snd, if_neg h]
  rfl

theorem avgwave_degenerate (l : List (K × K)) (h : trapz l = 0) : avgwave l = 0 := by
  have h' : integ (fun p => p.2) l = 0 := by rwa [integ_snd]
  simp only [avgwave, if_pos h']

theorem pivot_formula (T : Transc K) (l : List (K × K))
    (h : trapz (l.map fun p => (p.1, p.2 / p.1)) ≠ 0) :
    pivot T l = T.sqrt |trapz (l.map fun p => (p.1, p.2 * p.1)) / trapz (l.map fun p => (p.1, p.2 / p.1))| := by
  have h' : integ (fun p => p.2 / p.1) l ≠ 0 := h
  simp only [pivot, if_neg h']
  rfl

theorem barlam_formula (T : Transc K) (l : List (K × K))
    (hd : trapz (l.map fun p => (p.1, p.2 / p.1)) ≠ 0) :
    barlam T l = T.exp (trapz (l.map fun p => (p.1, p.2 * T.ln p.1 / p.1)) /
                          trapz (l.map fun p => (p.1, p.2 / p.1))) := by
  have hd' : integ (fun p => p.2 / p.1) l ≠ 0 := hd
  simp only [barlam, if_neg hd']
  rfl

theorem barlam_degenerate (T : Transc K) (l : List (K × K))
    (hd : trapz (l.map fun p => (p.1, p.2 / p.1)) = 0) : barlam T l = 0 := by
  have hd' : integ (fun p => p.2 / p.1) l = 0 := hd
  simp only [barlam, if_pos hd']

theorem unit_response_formula (hc area : K) (l : List (K × K))
    (h : area * |trapz (l.map fun p => (p.1, p.2 * p.1))| ≠ 0) :
    unitResponse hc area l = .ok (hc / (area * |trapz (l.map fun p => (p.1, p.2 * p.1))|)) := by
  have h' : area * |integ (fun p => p.2 * p.1) l| ≠ 0 := h
  simp only [unitResponse, if_neg h']
  rfl

theorem unit_response_zero_divisor (hc area : K) (l : List (K × K))
    (h : area * |trapz (l.map fun p => (p.1, p.2 * p.1))| = 0) :
    unitResponse hc area l = .error .nan := by
  have h' : area * |integ (fun p => p.2 * p.1) l| = 0 := h
  simp only [unitResponse, if_pos h']

theorem rmswidth_formula (T : Transc K) (l : List (K × K)) (thr : Option K)
    (h : trapz (mask thr l) ≠ 0) :
    rmswidth T l thr =
      T.sqrt |trapz ((mask thr l).map fun p => (p.1, (p.1 - avgwave l) ^ 2 * p.2)) / trapz (mask thr l)| := by
  have h' : integ (fun p => p.2) (mask thr l) ≠ 0 := by rwa [integ_snd]
  simp only [rmswidth, integ_snd, if_neg h]
  rfl

theorem photbw_formula (T : Transc K) (l : List (K × K)) (thr : Option K)
    (ha : barlam T l ≠ 0) (h : trapz ((mask thr l).map fun p => (p.1, p.2 / p.1)) ≠ 0) :
    photbw T l thr = barlam T l *
      T.sqrt |trapz ((mask thr l).map fun p => (p.1, p.2 * T.ln (p.1 / barlam T l) ^ 2 / p.1)) /
               trapz ((mask thr l).map fun p => (p.1, p.2 / p.1))| := by
  have h' : integ (fun p => p.2 / p.1) (mask thr l) ≠ 0 := h
  simp only [photbw, if_neg ha, if_neg h']
  rfl

theorem mask_none (l : List (K × K)) : mask none l = l := rfl
theorem mem_mask (t : K) (l : List (K × K)) (p : K × K) : p ∈ mask (some t) l ↔ p ∈ l ∧ t ≤ p.2 := by
  simp [mask]

theorem equivwidth_formula (l : List (K × K)) :
    equivwidth l = |trapz (l.map fun p => (p.1, |p.2|))| := rfl

theorem efficiency_formula (l : List (K × K)) :
    efficiency l = |trapz (l.map fun p => (p.1, p.2 / p.1))| := rfl

/-- `tpeak` is the maximum of the samples -/
theorem tpeak_is_max (l : List (K × K)) (hl : l ≠ []) :
    (∀ p ∈ l, p.2 ≤ tpeak l) ∧ ∃ p ∈ l, p.2 = tpeak l :=
  ⟨le_tpeak l, tpeak_attained l hl⟩

/-- `wpeak` is the wavelength of the first sample attaining the maximum -/
theorem wpeak_first_match (l : List (K × K)) (hl : l ≠ []) :
    ∃ a p b, l = a ++ p :: b ∧ p.2 = tpeak l ∧ (∀ q ∈ a, q.2 ≠ tpeak l) ∧ wpeak l = p.1 := by
  obtain ⟨q, hq, hqv⟩ := tpeak_attained l hl
  cases hf : l.find? (fun p => decide (p.2 = tpeak l)) with
  | none =>
    rw [List.find?_eq_none] at hf
    have := hf q hq
    simp [hqv] at this
  | some p =>
    obtain ⟨hp, a, b, hab, hnot⟩ := List.find?_eq_some_iff_append.mp hf
    refine ⟨a, p, b, hab, by simpa using hp, ?_, ?_⟩
    · intro q hq; simpa using hnot q hq
    · simp only [wpeak, hf]

theorem tlambda_formula (f : K → Except Err K) (l : List (K × K)) (h : 0 < avgwave l) :
    tlambda f l = f (avgwave l) := by
  simp only [tlambda, if_neg (not_le.mpr h)]

theorem tlambda_degenerate (f : K → Except Err K) (l : List (K × K)) (h : trapz l = 0) :
    tlambda f l = .error .zeroWavelength := by
  simp only [tlambda, avgwave_degenerate l h, le_refl, if_true]

/-! ### 2. identities between the parameters -/

/-- rectangular width × peak = equivalent width -/
theorem rectw_mul_tpeak (l : List (K × K)) (h : tpeak l ≠ 0) :
    rectwidth l * tpeak l = equivwidth l := by
  simp only [rectwidth, if_neg h]
  exact div_mul_cancel₀ _ h

theorem rectw_degenerate (l : List (K × K)) (h : tpeak l = 0) : rectwidth l = 0 := by
  simp only [rectwidth, if_pos h]

/-- FWHM = sqrt(8 ln 2) × IRAF band width -/
theorem fwhm_photbw (T : Transc K) (l : List (K × K)) (thr : Option K) :
    fwhm T l thr = T.sqrt (8 * T.ln 2) * photbw T l thr := rfl

/-- equivalent monochromatic flux = unit response × equivalent width / throughput at the average
wavelength -/
theorem emflx_identity (f : K → Except Err K) (hc area : K) (l : List (K × K)) (t u : K)
    (ht : tlambda f l = .ok t) (ht0 : t ≠ 0) (hu : unitResponse hc area l = .ok u) :
    emflx f hc area l = .ok (u * equivwidth l / t) := by
  simp only [emflx, ht, hu, bind, Except.bind, if_neg ht0, pure, Except.pure]

theorem emflx_degenerate (f : K → Except Err K) (hc area : K) (l : List (K × K))
    (ht : tlambda f l = .ok 0) : emflx f hc area l = .ok 0 := by
  simp only [emflx, ht, bind, Except.bind, if_true, pure, Except.pure]

/-! ### 3. scale laws: `bp * k`, `k > 0` -/

private theorem guard_scale {k n d : K} (hk : k ≠ 0) (F : K → K) :
    (if k * d = 0 then 0 else F |k * n / (k * d)|) = (if d = 0 then 0 else F |n / d|) := by
  by_cases hd : d = 0
  · simp [hd]
  · have : k * d ≠ 0 := mul_ne_zero hk hd
    simp only [if_neg hd, if_neg this, mul_div_mul_left _ _ hk]

private theorem scale_yx (k : K) (l : List (K × K)) :
    integ (fun p => p.2 * p.1) (scaleY k l) = k * integ (fun p => p.2 * p.1) l := by
  rw [integ_scaleY, ← integ_smul]; exact integ_congr _ _ _ (fun p _ => by dsimp only; ring)

private theorem scale_y (k : K) (l : List (K × K)) :
    integ (fun p => p.2) (scaleY k l) = k * integ (fun p => p.2) l := by
  rw [integ_scaleY, ← integ_smul]

private theorem scale_yox (k : K) (l : List (K × K)) :
    integ (fun p => p.2 / p.1) (scaleY k l) = k * integ (fun p => p.2 / p.1) l := by
  rw [integ_scaleY, ← integ_smul]; exact integ_congr _ _ _ (fun p _ => by dsimp only; ring)

private theorem scale_ylnx (T : Transc K) (k : K) (l : List (K × K)) :
    integ (fun p => p.2 * T.ln p.1 / p.1) (scaleY k l) = k * integ (fun p => p.2 * T.ln p.1 / p.1) l := by
  rw [integ_scaleY, ← integ_smul]; exact integ_congr _ _ _ (fun p _ => by dsimp only; ring)

theorem avgwave_scale (k : K) (hk : 0 < k) (l : List (K × K)) : avgwave (scaleY k l) = avgwave l := by
  simp only [avgwave, scale_yx, scale_y]
  exact guard_scale hk.ne' id

theorem pivot_scale (T : Transc K) (k : K) (hk : 0 < k) (l : List (K × K)) :
    pivot T (scaleY k l) = pivot T l := by
  simp only [pivot, scale_yx, scale_yox]
  exact guard_scale hk.ne' T.sqrt

theorem barlam_scale (T : Transc K) (k : K) (hk : 0 < k) (l : List (K × K)) :
    barlam T (scaleY k l) = barlam T l := by
  simp only [barlam, scale_ylnx, scale_yox]
  by_cases hd : integ (fun p => p.2 / p.1) l = 0
  · simp [hd]
  · have : k * integ (fun p => p.2 / p.1) l ≠ 0 := mul_ne_zero hk.ne' hd
    simp only [if_neg hd, if_neg this, mul_div_mul_left _ _ hk.ne']

/-- the threshold mask of the scaled bandpass at the scaled threshold -/
theorem mask_scale (k : K) (hk : 0 < k) (thr : Option K) (l : List (K × K)) :
    mask (thr.map (k * ·)) (scaleY k l) = scaleY k (mask thr l) := by
  cases thr with
  | none => rfl
  | some t =>
    simp only [mask, Option.map_some, scaleY, List.filter_map]
    congr 1
    apply List.filter_congr
    intro p _
    simp only [Function.comp, decide_eq_decide]
    exact mul_le_mul_iff_right₀ hk

theorem rmswidth_scale (T : Transc K) (k : K) (hk : 0 < k) (l : List (K × K)) (thr : Option K) :
    rmswidth T (scaleY k l) (thr.map (k * ·)) = rmswidth T l thr := by
  simp only [rmswidth, mask_scale k hk, avgwave_scale k hk, scale_y]
  have : integ (fun p => (p.1 - avgwave l) ^ 2 * p.2) (scaleY k (mask thr l))
      = k * integ (fun p => (p.1 - avgwave l) ^ 2 * p.2) (mask thr l) := by
    rw [integ_scaleY, ← integ_smul]; exact integ_congr _ _ _ (fun p _ => by dsimp only; ring)
  rw [this]
  exact guard_scale hk.ne' T.sqrt

theorem photbw_scale (T : Transc K) (k : K) (hk : 0 < k) (l : List (K × K)) (thr : Option K) :
    photbw T (scaleY k l) (thr.map (k * ·)) = photbw T l thr := by
  simp only [photbw, mask_scale k hk, barlam_scale T k hk, scale_yox]
  by_cases ha : barlam T l = 0
  · simp only [if_pos ha]
  · simp only [if_neg ha]
    have : integ (fun p => p.2 * T.ln (p.1 / barlam T l) ^ 2 / p.1) (scaleY k (mask thr l))
        = k * integ (fun p => p.2 * T.ln (p.1 / barlam T l) ^ 2 / p.1) (mask thr l) := by
      rw [integ_scaleY, ← integ_smul]; exact integ_congr _ _ _ (fun p _ => by dsimp only; ring)
    rw [this]
    exact guard_scale hk.ne' (fun v => barlam T l * T.sqrt v)

theorem fwhm_scale (T : Transc K) (k : K) (hk : 0 < k) (l : List (K × K)) (thr : Option K) :
    fwhm T (scaleY k l) (thr.map (k * ·)) = fwhm T l thr := by
  simp only [fwhm, photbw_scale T k hk]

theorem tpeak_scale (k : K) (hk : 0 < k) (l : List (K × K)) : tpeak (scaleY k l) = k * tpeak l := by
  by_cases hl : l = []
  · subst hl; simp [scaleY, tpeak]
  · apply tpeak_unique
    · intro p hp
      simp only [scaleY, List.mem_map] at hp
      obtain ⟨q, hq, rfl⟩ := hp
      exact mul_le_mul_of_nonneg_left (le_tpeak l q hq) hk.le
    · obtain ⟨q, hq, hqv⟩ := tpeak_attained l hl
      refine ⟨(q.1, k * q.2), ?_, by rw [hqv]⟩
      simp only [scaleY, List.mem_map]
      exact ⟨q, hq, rfl⟩

theorem wpeak_scale (k : K) (hk : 0 < k) (l : List (K × K)) : wpeak (scaleY k l) = wpeak l := by
  simp only [wpeak, tpeak_scale k hk]
  simp only [scaleY, List.find?_map]
  have : ((fun p : K × K => decide (p.2 = k * tpeak l)) ∘ fun p : K × K => (p.1, k * p.2))
      = fun p : K × K => decide (p.2 = tpeak l) := by
    funext p
    simp only [Function.comp, decide_eq_decide]
    exact mul_right_inj' hk.ne'
  rw [this]
  cases l.find? (fun p => decide (p.2 = tpeak l)) <;> rfl

theorem equivwidth_scale (k : K) (hk : 0 < k) (l : List (K × K)) :
    equivwidth (scaleY k l) = k * equivwidth l := by
  simp only [equivwidth]
  have : integ (fun p => |p.2|) (scaleY k l) = k * integ (fun p => |p.2|) l := by
    rw [integ_scaleY, ← integ_smul]
    exact integ_congr _ _ _ (fun p _ => by dsimp only; rw [abs_mul, abs_of_pos hk])
  rw [this, abs_mul, abs_of_pos hk]

theorem efficiency_scale (k : K) (hk : 0 < k) (l : List (K × K)) :
    efficiency (scaleY k l) = k * efficiency l := by
  simp only [efficiency, scale_yox, abs_mul, abs_of_pos hk]

theorem rectwidth_scale (k : K) (hk : 0 < k) (l : List (K × K)) :
    rectwidth (scaleY k l) = rectwidth l := by
  simp only [rectwidth, tpeak_scale k hk, equivwidth_scale k hk]
  by_cases h : tpeak l = 0
  · simp [h]
  · have : k * tpeak l ≠ 0 := mul_ne_zero hk.ne' h
    simp only [if_neg h, if_neg this, mul_div_mul_left _ _ hk.ne']

/-- the unit response scales by `1/k` -/
theorem unit_response_scale (hc area k : K) (hk : 0 < k) (l : List (K × K)) :
    unitResponse hc area (scaleY k l) = (unitResponse hc area l).map (fun u => 1 / k * u) := by
  simp only [unitResponse, scale_yx, abs_mul, abs_of_pos hk]
  set iv := |integ (fun p => p.2 * p.1) l|
  by_cases h : area * iv = 0
  · have : area * (k * iv) = 0 := by rw [mul_left_comm, h, mul_zero]
    simp only [if_pos h, if_pos this]; rfl
  · have : area * (k * iv) ≠ 0 := by rw [mul_left_comm]; exact mul_ne_zero hk.ne' h
    simp only [if_neg h, if_neg this]
    show Except.ok _ = Except.ok _
    congr 1
    have hk' := hk.ne'
    field_simp

/-- the throughput at the average wavelength scales by `k` -/
theorem tlambda_scale (f : K → Except Err K) (k : K) (hk : 0 < k) (l : List (K × K)) :
    tlambda (fun x => (f x).map (k * ·)) (scaleY k l) = (tlambda f l).map (k * ·) := by
  simp only [tlambda, avgwave_scale k hk]
  by_cases h : avgwave l ≤ 0
  · simp only [if_pos h]; rfl
  · simp only [if_neg h]

/-- the equivalent monochromatic flux scales by `1/k` -/
theorem emflx_scale (f : K → Except Err K) (hc area k : K) (hk : 0 < k) (l : List (K × K)) :
    emflx (fun x => (f x).map (k * ·)) hc area (scaleY k l)
      = (emflx f hc area l).map (fun u => 1 / k * u) := by
  simp only [emflx, tlambda_scale f k hk, unit_response_scale hc area k hk, equivwidth_scale k hk]
  cases ht : tlambda f l with
  | error e => rfl
  | ok t =>
    simp only [Except.map, bind, Except.bind, pure, Except.pure]
    by_cases h0 : t = 0
    · subst h0; simp
    · have : k * t ≠ 0 := mul_ne_zero hk.ne' h0
      simp only [if_neg h0, if_neg this]
      cases hu : unitResponse hc area l with
      | error e => rfl
      | ok u =>
        simp only
        congr 1
        have hk' := hk.ne'
        field_simp

theorem sample_map (f : K → Except Err K) (g : K → K) (xs : List K) :
    sample (fun x => (f x).map g) xs = (sample f xs).map (List.map fun p => (p.1, g p.2)) := by
  induction xs with
  | nil => rfl
  | cons x xs ih =>
    simp only [sample, ih]
    cases f x with
    | error e => rfl
    | ok a =>
      simp only [Except.map]
      cases sample f xs with
      | error e => rfl
      | ok r => rfl

/-- `bp * k` (the compound model `m | Scale(k)`) sampled on a grid is the sampled `bp` scaled -/
theorem sampleTree_scale (E : Env K) (m : Tree K) (k : K) (xs : List K) :
    sampleTree E (.scale m k) xs = (sampleTree E m xs).map (scaleY k) := by
  unfold sampleTree
  have h1 : Tree.eval E (.scale m k) = fun x => (m.eval E x).map (k * ·) := by
    funext x
    simp only [Tree.eval]
    cases m.eval E x with
    | error e => rfl
    | ok a => simp [bind, Except.bind, pure, Except.pure, Except.map, mul_comm]
  rw [h1, sample_map]
  rfl

/-! ### 4. the sampling order does not matter -/

private theorem guard_neg {n d : K} (F : K → K) :
    (if -d = 0 then 0 else F |(-n) / (-d)|) = (if d = 0 then 0 else F |n / d|) := by
  simp only [neg_eq_zero, neg_div_neg_eq]

theorem mask_reverse (thr : Option K) (l : List (K × K)) : mask thr l.reverse = (mask thr l).reverse := by
  cases thr with
  | none => rfl
  | some t => simp only [mask, List.filter_reverse]

theorem avgwave_reverse (l : List (K × K)) : avgwave l.reverse = avgwave l := by
  simp only [avgwave, integ_reverse]; exact guard_neg id

theorem pivot_reverse (T : Transc K) (l : List (K × K)) : pivot T l.reverse = pivot T l := by
  simp only [pivot, integ_reverse]; exact guard_neg T.sqrt

theorem barlam_reverse (T : Transc K) (l : List (K × K)) : barlam T l.reverse = barlam T l := by
  simp only [barlam, integ_reverse, neg_eq_zero, neg_div_neg_eq]

theorem rmswidth_reverse (T : Transc K) (l : List (K × K)) (thr : Option K) :
    rmswidth T l.reverse thr = rmswidth T l thr := by
  simp only [rmswidth, mask_reverse, avgwave_reverse, integ_reverse]; exact guard_neg T.sqrt

theorem photbw_reverse (T : Transc K) (l : List (K × K)) (thr : Option K) :
    photbw T l.reverse thr = photbw T l thr := by
  simp only [photbw, mask_reverse, barlam_reverse, integ_reverse, neg_eq_zero, neg_div_neg_eq]

theorem fwhm_reverse (T : Transc K) (l : List (K × K)) (thr : Option K) :
    fwhm T l.reverse thr = fwhm T l thr := by
  simp only [fwhm, photbw_reverse]

theorem tpeak_reverse (l : List (K × K)) : tpeak l.reverse = tpeak l := by
  by_cases hl : l = []
  · subst hl; rfl
  · apply tpeak_unique
    · intro p hp; exact le_tpeak l p (List.mem_reverse.mp hp)
    · obtain ⟨q, hq, hqv⟩ := tpeak_attained l hl
      exact ⟨q, List.mem_reverse.mpr hq, hqv⟩

theorem equivwidth_reverse (l : List (K × K)) : equivwidth l.reverse = equivwidth l := by
  simp only [equivwidth, integ_reverse, abs_neg]

theorem efficiency_reverse (l : List (K × K)) : efficiency l.reverse = efficiency l := by
  simp only [efficiency, integ_reverse, abs_neg]

theorem rectwidth_reverse (l : List (K × K)) : rectwidth l.reverse = rectwidth l := by
  simp only [rectwidth, tpeak_reverse, equivwidth_reverse]

theorem unit_response_reverse (hc area : K) (l : List (K × K)) :
    unitResponse hc area l.reverse = unitResponse hc area l := by
  simp only [unitResponse, integ_reverse, abs_neg]

theorem tlambda_reverse (f : K → Except Err K) (l : List (K × K)) : tlambda f l.reverse = tlambda f l := by
  simp only [tlambda, avgwave_reverse]

theorem emflx_reverse (f : K → Except Err K) (hc area : K) (l : List (K × K)) :
    emflx f hc area l.reverse = emflx f hc area l := by
  simp only [emflx, tlambda_reverse, unit_response_reverse, equivwidth_reverse]

/-- the wavelength of the peak does not depend on the order when the peak is attained at one
wavelength only (with several maxima the code documents "first match", which does depend on it) -/
theorem wpeak_reverse_of_unique (l : List (K × K))
    (huniq : ∀ p ∈ l, ∀ q ∈ l, p.2 = tpeak l → q.2 = tpeak l → p.1 = q.1) :
    wpeak l.reverse = wpeak l := by
  by_cases hl : l = []
  · subst hl; rfl
  · obtain ⟨a, p, b, hab, hp, _, hw⟩ := wpeak_first_match l hl
    have hl' : l.reverse ≠ [] := by simpa using hl
    obtain ⟨a', p', b', hab', hp', _, hw'⟩ := wpeak_first_match l.reverse hl'
    rw [hw, hw']
    have hpm : p ∈ l := by rw [hab]; simp
    have hpm' : p' ∈ l := by
      apply List.mem_reverse.mp; rw [hab']; simp
    rw [tpeak_reverse] at hp'
    exact huniq p' hpm' p hpm hp' hp

/-! ### 5. the mean wavelengths lie inside the sampled range

Hypotheses: strictly ascending grid of at least two points (`validate_wavelengths` accepts
exactly strictly monotone positive grids; descending ones are covered by §4), every wavelength
in `[m, M]` with `0 < m`, non-negative throughput that is positive at some sample. -/

structure Admissible (m M : K) (l : List (K × K)) : Prop where
  asc : StrictAscX l
  len : 2 ≤ l.length
  lo : ∀ p ∈ l, m ≤ p.1
  hi : ∀ p ∈ l, p.1 ≤ M
  nonneg : ∀ p ∈ l, 0 ≤ p.2
  somepos : ∃ p ∈ l, 0 < p.2

section InRange
variable {m M : K} {l : List (K × K)}

theorem Admissible.xpos (h : Admissible m M l) (hm : 0 < m) : ∀ p ∈ l, 0 < p.1 :=
  fun p hp => lt_of_lt_of_le hm (h.lo p hp)

/-- `trapz(y) > 0` -/
theorem Admissible.den_y_pos (h : Admissible m M l) : 0 < integ (fun p => p.2) l :=
  integ_pos _ l h.asc h.nonneg h.somepos h.len

/-- `trapz(y/x) > 0` -/
theorem Admissible.den_yox_pos (h : Admissible m M l) (hm : 0 < m) : 0 < integ (fun p => p.2 / p.1) l := by
  apply integ_pos _ l h.asc _ _ h.len
  · intro p hp; exact div_nonneg (h.nonneg p hp) (h.xpos hm p hp).le
  · obtain ⟨p, hp, hpp⟩ := h.somepos
    exact ⟨p, hp, div_pos hpp (h.xpos hm p hp)⟩

/-- `trapz(y·x) > 0` -/
theorem Admissible.num_yx_pos (h : Admissible m M l) (hm : 0 < m) : 0 < integ (fun p => p.2 * p.1) l := by
  apply integ_pos _ l h.asc _ _ h.len
  · intro p hp; exact mul_nonneg (h.nonneg p hp) (h.xpos hm p hp).le
  · obtain ⟨p, hp, hpp⟩ := h.somepos
    exact ⟨p, hp, mul_pos hpp (h.xpos hm p hp)⟩

/-- for an admissible bandpass the average wavelength is the plain ratio (the `abs` is inert) -/
theorem avgwave_eq_ratio (h : Admissible m M l) (hm : 0 < m) :
    avgwave l = integ (fun p => p.2 * p.1) l / integ (fun p => p.2) l := by
  simp only [avgwave, if_neg h.den_y_pos.ne']
  exact abs_of_nonneg (div_nonneg (h.num_yx_pos hm).le h.den_y_pos.le)

theorem avgwave_in_range (h : Admissible m M l) (hm : 0 < m) : m ≤ avgwave l ∧ avgwave l ≤ M := by
  rw [avgwave_eq_ratio h hm]
  have hd := h.den_y_pos
  have hb := integ_weighted_bounds m M (fun p => p.1) (fun p => p.2) l (StrictAscX.ascX _ h.asc) h.nonneg
    (fun p hp => ⟨h.lo p hp, h.hi p hp⟩)
  have hc : integ (fun p => p.1 * p.2) l = integ (fun p => p.2 * p.1) l :=
    integ_congr _ _ _ (fun p _ => mul_comm _ _)
  rw [hc] at hb
  exact ⟨(le_div_iff₀ hd).mpr hb.1, (div_le_iff₀ hd).mpr hb.2⟩

/-- `m² ≤ trapz(y·x)/trapz(y/x) ≤ M²` -/
theorem pivot_ratio_bounds (h : Admissible m M l) (hm : 0 < m) :
    m * m ≤ integ (fun p => p.2 * p.1) l / integ (fun p => p.2 / p.1) l ∧
    integ (fun p => p.2 * p.1) l / integ (fun p => p.2 / p.1) l ≤ M * M := by
  have hd := h.den_yox_pos hm
  have hb := integ_weighted_bounds (m * m) (M * M) (fun p => p.1 * p.1) (fun p => p.2 / p.1) l
    (StrictAscX.ascX _ h.asc) (fun p hp => div_nonneg (h.nonneg p hp) (h.xpos hm p hp).le)
    (fun p hp => ⟨mul_le_mul (h.lo p hp) (h.lo p hp) hm.le (h.xpos hm p hp).le,
                  mul_le_mul (h.hi p hp) (h.hi p hp) (h.xpos hm p hp).le
                    (le_trans (h.xpos hm p hp).le (h.hi p hp))⟩)
  have hc : integ (fun p => p.1 * p.1 * (p.2 / p.1)) l = integ (fun p => p.2 * p.1) l :=
    integ_congr _ _ _ (fun p hp => by
      have := (h.xpos hm p hp).ne'
      field_simp)
  rw [hc] at hb
  exact ⟨(le_div_iff₀ hd).mpr hb.1, (div_le_iff₀ hd).mpr hb.2⟩

theorem pivot_eq_sqrt_ratio (T : Transc K) (h : Admissible m M l) (hm : 0 < m) :
    pivot T l = T.sqrt (integ (fun p => p.2 * p.1) l / integ (fun p => p.2 / p.1) l) := by
  simp only [pivot, if_neg (h.den_yox_pos hm).ne']
  rw [abs_of_nonneg (div_nonneg (h.num_yx_pos hm).le (h.den_yox_pos hm).le)]

theorem pivot_in_range (T : Transc K) (hT : T.Lawful) (h : Admissible m M l) (hm : 0 < m) :
    m ≤ pivot T l ∧ pivot T l ≤ M := by
  rw [pivot_eq_sqrt_ratio T h hm]
  obtain ⟨h1, h2⟩ := pivot_ratio_bounds h hm
  have hM : 0 ≤ M := by
    obtain ⟨p, hp, _⟩ := h.somepos
    exact le_trans (h.xpos hm p hp).le (h.hi p hp)
  constructor
  · have := hT.sqrt_mono _ _ (mul_nonneg hm.le hm.le) h1
    rwa [sqrt_mul_self_eq hT hm.le] at this
  · have := hT.sqrt_mono _ _ (le_trans (mul_nonneg hm.le hm.le) h1) h2
    rwa [sqrt_mul_self_eq hT hM] at this

/-- `ln m ≤ trapz(y ln x / x)/trapz(y/x) ≤ ln M` -/
theorem barlam_ratio_bounds (T : Transc K) (hT : T.Lawful) (h : Admissible m M l) (hm : 0 < m) :
    T.ln m ≤ integ (fun p => p.2 * T.ln p.1 / p.1) l / integ (fun p => p.2 / p.1) l ∧
    integ (fun p => p.2 * T.ln p.1 / p.1) l / integ (fun p => p.2 / p.1) l ≤ T.ln M := by
  have hd := h.den_yox_pos hm
  have hb := integ_weighted_bounds (T.ln m) (T.ln M) (fun p => T.ln p.1) (fun p => p.2 / p.1) l
    (StrictAscX.ascX _ h.asc) (fun p hp => div_nonneg (h.nonneg p hp) (h.xpos hm p hp).le)
    (fun p hp => ⟨ln_le_ln hT hm (h.lo p hp), ln_le_ln hT (h.xpos hm p hp) (h.hi p hp)⟩)
  have hc : integ (fun p => T.ln p.1 * (p.2 / p.1)) l = integ (fun p => p.2 * T.ln p.1 / p.1) l :=
    integ_congr _ _ _ (fun p hp => by ring)
  rw [hc] at hb
  exact ⟨(le_div_iff₀ hd).mpr hb.1, (div_le_iff₀ hd).mpr hb.2⟩

/-- for an admissible bandpass the mean-log wavelength is `exp` of the ratio (guard inert) -/
theorem barlam_eq_exp_ratio (T : Transc K) (h : Admissible m M l) (hm : 0 < m) :
    barlam T l = T.exp (integ (fun p => p.2 * T.ln p.1 / p.1) l / integ (fun p => p.2 / p.1) l) := by
  simp only [barlam, if_neg (h.den_yox_pos hm).ne']

/-- the mean-log wavelength lies in the sampled range -/
theorem barlam_in_range (T : Transc K) (hT : T.Lawful) (h : Admissible m M l) (hm : 0 < m) :
    m ≤ barlam T l ∧ barlam T l ≤ M := by
  rw [barlam_eq_exp_ratio T h hm]
  obtain ⟨h1, h2⟩ := barlam_ratio_bounds T hT h hm
  have hM : 0 < M := by
    obtain ⟨p, hp, _⟩ := h.somepos
    exact lt_of_lt_of_le (h.xpos hm p hp) (h.hi p hp)
  constructor
  · have := exp_mono hT h1
    rwa [hT.exp_ln m hm] at this
  · have := exp_mono hT h2
    rwa [hT.exp_ln M hM] at this

/-! ### 6. ordering of the three mean wavelengths -/

/-- Cauchy–Schwarz for the trapezoid sums: `trapz(y)² ≤ trapz(y·x) · trapz(y/x)` -/
theorem cauchy_schwarz (h : Admissible m M l) (hm : 0 < m) :
    integ (fun p => p.2) l * integ (fun p => p.2) l ≤
      integ (fun p => p.2 * p.1) l * integ (fun p => p.2 / p.1) l := by
  set A := integ (fun p => p.2 * p.1) l with hA
  set B := integ (fun p => p.2) l with hB
  set C := integ (fun p => p.2 / p.1) l with hC
  have hCpos : 0 < C := h.den_yox_pos hm
  -- 0 ≤ trapz((y/x)(x − t)²) = A − 2tB + t²C at t = B/C
  have hnn : 0 ≤ integ (fun p => p.2 / p.1 * (p.1 - B / C) ^ 2) l :=
    integ_nonneg _ l (StrictAscX.ascX _ h.asc)
      (fun p hp => mul_nonneg (div_nonneg (h.nonneg p hp) (h.xpos hm p hp).le) (sq_nonneg _))
  have hexp : integ (fun p => p.2 / p.1 * (p.1 - B / C) ^ 2) l
      = 1 * A + (-(2 * (B / C))) * B + (B / C) ^ 2 * C := by
    rw [hA, hB, hC, ← integ_lin3]
    exact integ_congr _ _ _ (fun p hp => by
      have := (h.xpos hm p hp).ne'
      field_simp
      ring)
  rw [hexp] at hnn
  have h2 : 1 * A + (-(2 * (B / C))) * B + (B / C) ^ 2 * C = A - B * B / C := by
    have := hCpos.ne'
    field_simp
    ring
  rw [h2] at hnn
  have h3 : B * B / C ≤ A := by linarith
  exact (div_le_iff₀ hCpos).mp h3

/-- pivot wavelength ≤ average wavelength -/
theorem pivot_le_avgwave (T : Transc K) (hT : T.Lawful) (h : Admissible m M l) (hm : 0 < m) :
    pivot T l ≤ avgwave l := by
  rw [pivot_eq_sqrt_ratio T h hm, avgwave_eq_ratio h hm]
  set A := integ (fun p => p.2 * p.1) l
  set B := integ (fun p => p.2) l
  set C := integ (fun p => p.2 / p.1) l
  have hA : 0 < A := h.num_yx_pos hm
  have hB : 0 < B := h.den_y_pos
  have hC : 0 < C := h.den_yox_pos hm
  have hcs : B * B ≤ A * C := cauchy_schwarz h hm
  have hle : A / C ≤ A / B * (A / B) := by
    rw [div_mul_div_comm, div_le_div_iff₀ hC (mul_pos hB hB)]
    calc A * (B * B) ≤ A * (A * C) := mul_le_mul_of_nonneg_left hcs hA.le
      _ = A * A * C := by ring
  have := hT.sqrt_mono _ _ (div_nonneg hA.le hC.le) hle
  rwa [sqrt_mul_self_eq hT (div_nonneg hA.le hB.le)] at this

end InRange

/-- Jensen for the logarithm on the trapezoid sums, over ℝ:
`exp(trapz(y ln x / x)/trapz(y/x)) ≤ sqrt(trapz(y·x)/trapz(y/x))` -/
theorem exp_meanlog_le_sqrt_ratio {m M : ℝ} {l : List (ℝ × ℝ)} (h : Admissible m M l) (hm0 : 0 < m) :
    Real.exp (integ (fun p => p.2 * Real.log p.1 / p.1) l / integ (fun p => p.2 / p.1) l) ≤
      Real.sqrt (integ (fun p => p.2 * p.1) l / integ (fun p => p.2 / p.1) l) := by
  set A := integ (fun p => p.2 * p.1) l with hA
  set C := integ (fun p => p.2 / p.1) l with hC
  set D := integ (fun p => p.2 * Real.log p.1 / p.1) l with hD
  have hApos : 0 < A := h.num_yx_pos hm0
  have hCpos : 0 < C := h.den_yox_pos hm0
  have hz : 0 < A / C := div_pos hApos hCpos
  -- pointwise: (y/x)·2·ln x ≤ (y/x)·(ln z₀ + x²/z₀ − 1), z₀ = A/C
  have hpt : ∀ p ∈ l, 2 * (p.2 * Real.log p.1 / p.1) ≤
      Real.log (A / C) * (p.2 / p.1) + (1 / (A / C)) * (p.2 * p.1) + (-1) * (p.2 / p.1) := by
    intro p hp
    have hx : 0 < p.1 := h.xpos hm0 p hp
    have hw : 0 ≤ p.2 / p.1 := div_nonneg (h.nonneg p hp) hx.le
    have hlog : Real.log (p.1 * p.1 / (A / C)) ≤ p.1 * p.1 / (A / C) - 1 :=
      Real.log_le_sub_one_of_pos (div_pos (mul_pos hx hx) hz)
    rw [Real.log_div (mul_pos hx hx).ne' hz.ne', Real.log_mul hx.ne' hx.ne'] at hlog
    have hmul := mul_le_mul_of_nonneg_left hlog hw
    have e1 : p.2 / p.1 * (Real.log p.1 + Real.log p.1 - Real.log (A / C))
        = 2 * (p.2 * Real.log p.1 / p.1) - Real.log (A / C) * (p.2 / p.1) := by ring
    have e2 : p.2 / p.1 * (p.1 * p.1 / (A / C) - 1)
        = (1 / (A / C)) * (p.2 * p.1) + (-1) * (p.2 / p.1) := by
      have := hx.ne'
      field_simp
      ring
    rw [e1, e2] at hmul
    linarith
  have hint := integ_mono _ _ l (StrictAscX.ascX _ h.asc) hpt
  rw [integ_smul, integ_lin3] at hint
  rw [← hA, ← hC, ← hD] at hint
  have h2D : 2 * D ≤ Real.log (A / C) * C := by
    have : 1 / (A / C) * A = C := by field_simp
    linarith
  have hDC : D / C ≤ Real.log (A / C) / 2 := by
    rw [div_le_iff₀ hCpos]; linarith
  calc Real.exp (D / C) ≤ Real.exp (Real.log (A / C) / 2) := Real.exp_le_exp.mpr hDC
    _ = Real.sqrt (A / C) := by
      symm
      rw [Real.sqrt_eq_iff_mul_self_eq hz.le (Real.exp_pos _).le, ← Real.exp_add]
      rw [add_halves, Real.exp_log hz]

/-- mean-log wavelength ≤ pivot wavelength, over ℝ with the real functions -/
theorem barlam_le_pivot {m M : ℝ} {l : List (ℝ × ℝ)} (h : Admissible m M l) (hm : 0 < m) :
    barlam Transc.real l ≤ pivot Transc.real l := by
  rw [barlam_eq_exp_ratio Transc.real h hm, pivot_eq_sqrt_ratio Transc.real h hm]
  simp only [Transc.real_exp, Transc.real_sqrt, Transc.real_ln]
  exact exp_meanlog_le_sqrt_ratio h hm

/-- the documented chain `barlam ≤ pivot ≤ avgwave`, over ℝ -/
theorem mean_wavelength_order {m M : ℝ} {l : List (ℝ × ℝ)} (h : Admissible m M l) (hm : 0 < m) :
    barlam Transc.real l ≤ pivot Transc.real l ∧ pivot Transc.real l ≤ avgwave l :=
  ⟨barlam_le_pivot h hm, pivot_le_avgwave Transc.real Transc.real_lawful h hm⟩

/-! ### 7. AS-FOUND WITNESSES (about the old formula `barlamAsFound`, not about the model)

Before /repo commit ca9035f `barlam` computed `exp(abs(num/den))` and returned 0 when `num == 0`.
These theorems record why the range and ordering claims were false of that code (wavelengths at or
below 1 Angstrom) and that the repair changes nothing above 1 Angstrom. -/

/-- whatever the samples, the as-found value is `0` or at least `1` -/
theorem asFound_zero_or_ge_one (T : Transc K) (hT : T.Lawful) (l : List (K × K)) :
    barlamAsFound T l = 0 ∨ 1 ≤ barlamAsFound T l := by
  simp only [barlamAsFound]
  split_ifs with h
  · left; rfl
  · right
    have := exp_mono hT (abs_nonneg (integ (fun p => p.2 * T.ln p.1 / p.1) l / integ (fun p => p.2 / p.1) l))
    rwa [hT.exp_zero] at this

/-- hence for every bandpass sampled below 1 Angstrom it lay outside the sampled range -/
theorem asFound_out_of_range_below_one (T : Transc K) (hT : T.Lawful) {m M : K} {l : List (K × K)}
    (h : Admissible m M l) (hm : 0 < m) (hM : M < 1) :
    ¬ (m ≤ barlamAsFound T l ∧ barlamAsFound T l ≤ M) := by
  rintro ⟨h1, h2⟩
  rcases asFound_zero_or_ge_one T hT l with h0 | h0
  · rw [h0] at h1; exact absurd hm (not_lt.mpr h1)
  · exact absurd (lt_of_le_of_lt (le_trans h0 h2) hM) (lt_irrefl _)

/-- the `num == 0` guard: a bandpass on `[1, 2]` Angstrom whose mean-log wavelength is 1 got 0 -/
theorem asFound_guard_witness (T : Transc K) (hT : T.Lawful) :
    barlamAsFound T [((1 : K), 1), (2, 0)] = 0 ∧ Admissible (1 : K) 2 [((1 : K), 1), (2, 0)] := by
  constructor
  · have : integ (fun p => p.2 * T.ln p.1 / p.1) [((1 : K), 1), (2, 0)] = 0 := by
      simp [integ_cons_cons, ln_one hT]
    simp only [barlamAsFound, this, true_or, if_true]
  · refine ⟨⟨by norm_num, trivial⟩, by simp, ?_, ?_, ?_, ⟨(1, 1), by simp, by norm_num⟩⟩
    · intro p hp; simp at hp; rcases hp with rfl | rfl <;> norm_num
    · intro p hp; simp at hp; rcases hp with rfl | rfl <;> norm_num
    · intro p hp; simp at hp; rcases hp with rfl | rfl <;> norm_num

/-- above 1 Angstrom the as-found code computed the documented value: the repair is inert there -/
theorem asFound_eq_barlam_above_one (T : Transc K) (hT : T.Lawful) {m M : K} {l : List (K × K)}
    (h : Admissible m M l) (hm : 1 < m) : barlamAsFound T l = barlam T l := by
  have hm0 : (0 : K) < m := lt_trans one_pos hm
  rw [barlam_eq_exp_ratio T h hm0]
  have hd := h.den_yox_pos hm0
  have hr := (barlam_ratio_bounds T hT h hm0).1
  have hpos : 0 < integ (fun p => p.2 * T.ln p.1 / p.1) l / integ (fun p => p.2 / p.1) l :=
    lt_of_lt_of_le (ln_pos hT hm) hr
  have hn : integ (fun p => p.2 * T.ln p.1 / p.1) l ≠ 0 := by
    intro h0; rw [h0, zero_div] at hpos; exact lt_irrefl _ hpos
  have : ¬ (integ (fun p => p.2 * T.ln p.1 / p.1) l = 0 ∨ integ (fun p => p.2 / p.1) l = 0) := by
    rintro (h' | h')
    · exact hn h'
    · exact hd.ne' h'
  simp only [barlamAsFound, if_neg this]
  rw [abs_of_pos hpos]

/-! ### non-vacuity -/

/-- the hypotheses of §5/§6 are satisfiable, and the parameters take the expected values on a
two-point bandpass -/
example : Admissible (2 : ℚ) 4 [((2 : ℚ), 1), (4, 1)] := by
  refine ⟨⟨by norm_num, trivial⟩, by simp, ?_, ?_, ?_, ⟨(2, 1), by simp, by norm_num⟩⟩
  · intro p hp; simp at hp; rcases hp with rfl | rfl <;> norm_num
  · intro p hp; simp at hp; rcases hp with rfl | rfl <;> norm_num
  · intro p hp; simp at hp; rcases hp with rfl | rfl <;> norm_num

example : avgwave [((2 : ℚ), 1), (4, 1)] = 3 := by
  simp [avgwave, integ_cons_cons]; norm_num

example : equivwidth [((2 : ℚ), 1), (4, 1)] = 2 ∧ tpeak [((2 : ℚ), 1), (4, 1)] = 1 := by
  constructor
  · norm_num [equivwidth, integ_cons_cons]
  · simp [tpeak]

end Synphot.C11
