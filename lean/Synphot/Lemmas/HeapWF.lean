/-
  Well-formedness of the store (`Core/Heap.lean`): every table refers to allocated arrays, every
  object to allocated tables.  It holds initially, every call preserves it, hence every object of a
  reachable store is *live* (all the locations sampling it reads are allocated) — the hypothesis of
  `C19.sample_stable`.
-/
import Synphot.Lemmas.HeapCalls

set_option linter.unusedSectionVars false
set_option linter.unusedVariables false
set_option linter.unusedSimpArgs false

namespace Synphot.HeapModel
open Synphot
variable {K : Type} [Field K] [LinearOrder K] [IsStrictOrderedRing K]

structure WF (h : Heap K) : Prop where
  tables : ∀ (m : Nat) (c : TableCell K), h.tables[m]? = some c →
    c.pts < h.arrays.length ∧ c.vals < h.arrays.length
  objs : ∀ (o : Nat) (ob : Obj K), h.objs[o]? = some ob → ∀ m ∈ ob.tree.tables, m < h.tables.length

theorem wf_init (arrays : List (ArrCell K)) (dicts : List Dict) : WF (Heap.init arrays dicts) :=
  ⟨fun m c hc => by simp [Heap.init] at hc, fun o ob ho => by simp [Heap.init] at ho⟩

/-- what an allocation must refer to -/
def Effect.ok (h : Heap K) : Effect K → Prop
  | .allocTable t => t.pts < h.arrays.length ∧ t.vals < h.arrays.length
  | .allocObj ob => ∀ m ∈ ob.tree.tables, m < h.tables.length
  | _ => True

theorem getElem?_append_singleton {α : Type} (l : List α) (a b : α) (i : Nat)
    (h : (l ++ [a])[i]? = some b) : l[i]? = some b ∨ (i = l.length ∧ b = a) := by
  by_cases hi : i < l.length
  · rw [List.getElem?_append_left hi] at h; exact Or.inl h
  · rw [List.getElem?_append_right (Nat.le_of_not_lt hi)] at h
    have : i - l.length = 0 := by
      by_contra hc
      have : 1 ≤ i - l.length := Nat.one_le_iff_ne_zero.mpr hc
      rw [List.getElem?_eq_none (by simpa using this)] at h
      cases h
    rw [this] at h
    simp only [List.getElem?_cons_zero, Option.some.injEq] at h
    exact Or.inr ⟨by omega, h.symm⟩

theorem getElem?_upd_some {α : Type} (l : List α) (i j : Nat) (f : α → α) (b : α)
    (h : (upd l i f)[j]? = some b) : ∃ a, l[j]? = some a ∧ (b = a ∨ b = f a) := by
  rw [getElem?_upd] at h
  split at h
  · cases ha : l[j]? with
    | none => simp [ha] at h
    | some a => simp [ha] at h; exact ⟨a, rfl, Or.inr h.symm⟩
  · exact ⟨b, h, Or.inl rfl⟩

theorem apply_wf (h : Heap K) (e : Effect K) (hw : WF h) (he : e.ok h) : WF (h.apply e) := by
  cases e with
  | allocArr c =>
    refine ⟨fun m t ht => ?_, fun o ob ho => hw.objs o ob ho⟩
    have := hw.tables m t ht
    simp only [Heap.apply, List.length_append, List.length_cons, List.length_nil]
    omega
  | allocTable t =>
    refine ⟨fun m c hc => ?_, fun o ob ho m hm => ?_⟩
    · simp only [Heap.apply] at hc ⊢
      rcases getElem?_append_singleton _ _ _ _ hc with h1 | ⟨_, rfl⟩
      · exact hw.tables m c h1
      · exact he
    · have := hw.objs o ob ho m hm
      simp only [Heap.apply, List.length_append, List.length_cons, List.length_nil]
      omega
  | allocObj ob' =>
    refine ⟨fun m c hc => hw.tables m c hc, fun o ob ho m hm => ?_⟩
    simp only [Heap.apply] at ho ⊢
    rcases getElem?_append_singleton _ _ _ _ ho with h1 | ⟨_, rfl⟩
    · exact hw.objs o ob h1 m hm
    · exact he m hm
  | writeArr i d =>
    refine ⟨fun m c hc => ?_, fun o ob ho => hw.objs o ob ho⟩
    have := hw.tables m c hc
    simpa [Heap.apply, length_upd] using this
  | writeDict i d => exact ⟨fun m c hc => hw.tables m c hc, fun o ob ho => hw.objs o ob ho⟩
  | setFill i =>
    refine ⟨fun m c hc => ?_, fun o ob ho m hm => ?_⟩
    · simp only [Heap.apply] at hc ⊢
      obtain ⟨a, ha, hb⟩ := getElem?_upd_some _ _ _ _ _ hc
      have := hw.tables m a ha
      rcases hb with rfl | rfl
      · exact this
      · exact this
    · have := hw.objs o ob ho m hm
      simpa [Heap.apply, length_upd] using this
  | setZ i zs =>
    refine ⟨fun m c hc => hw.tables m c hc, fun o ob ho m hm => ?_⟩
    simp only [Heap.apply] at ho ⊢
    obtain ⟨a, ha, hb⟩ := getElem?_upd_some _ _ _ _ _ ho
    rcases hb with rfl | rfl
    · exact hw.objs o _ ha m hm
    · exact hw.objs o a ha m hm
  | setMeta i md =>
    refine ⟨fun m c hc => hw.tables m c hc, fun o ob ho m hm => ?_⟩
    simp only [Heap.apply] at ho ⊢
    obtain ⟨a, ha, hb⟩ := getElem?_upd_some _ _ _ _ _ ho
    rcases hb with rfl | rfl
    · exact hw.objs o _ ha m hm
    · exact hw.objs o a ha m hm
  | setNpErr g => exact ⟨fun m c hc => hw.tables m c hc, fun o ob ho => hw.objs o ob ho⟩

/-- an effect list whose allocations are well-formed in the state each is applied in -/
def okAll : Heap K → List (Effect K) → Prop
  | _, [] => True
  | h, e :: es => e.ok h ∧ okAll (h.apply e) es

theorem applyAll_wf (h : Heap K) (es : List (Effect K)) (hw : WF h) (ho : okAll h es) :
    WF (h.applyAll es) := by
  induction es generalizing h with
  | nil => exact hw
  | cons e es ih => exact ih (h.apply e) (apply_wf h e hw ho.1) ho.2

theorem okAll_append (h : Heap K) (a b : List (Effect K)) (ha : okAll h a)
    (hb : okAll (h.applyAll a) b) : okAll h (a ++ b) := by
  induction a generalizing h with
  | nil => exact hb
  | cons e es ih => exact ⟨ha.1, ih (h.apply e) ha.2 hb⟩

/-- effects that allocate nothing but arrays and store into existing cells are always fine -/
def Effect.plain : Effect K → Bool
  | .allocTable _ | .allocObj _ => false
  | _ => true

theorem okAll_plain (h : Heap K) (es : List (Effect K)) (hp : ∀ e ∈ es, e.plain = true) : okAll h es := by
  induction es generalizing h with
  | nil => trivial
  | cons e es ih =>
    refine ⟨?_, ih _ (fun e' he' => hp e' (List.mem_cons_of_mem _ he'))⟩
    have := hp e (List.mem_cons_self ..)
    cases e <;> simp [Effect.plain] at this <;> trivial

/-- sizes after applying effects -/
def nArr (es : List (Effect K)) : Nat := (es.filter fun e => match e with | .allocArr _ => true | _ => false).length
def nTab (es : List (Effect K)) : Nat := (es.filter fun e => match e with | .allocTable _ => true | _ => false).length

theorem applyAll_lengths (h : Heap K) (es : List (Effect K)) :
    (h.applyAll es).arrays.length = h.arrays.length + nArr es ∧
    (h.applyAll es).tables.length = h.tables.length + nTab es := by
  induction es generalizing h with
  | nil => simp [Heap.applyAll, nArr, nTab]
  | cons e es ih =>
    have := ih (h.apply e)
    simp only [Heap.applyAll, List.foldl_cons] at this ⊢
    rw [this.1, this.2]
    cases e <;> simp [Heap.apply, nArr, nTab, List.filter_cons, length_upd] <;> omega

theorem model_tables_lt (h : Heap K) (hw : WF h) (o : Nat) (A : Obj K) (t : HTree K)
    (hA : h.objs[o]? = some A) (hm : A.model = .ok t) : ∀ m ∈ t.tables, m < h.tables.length := by
  intro m hmem
  rw [model_tables A t hm] at hmem
  exact hw.objs o A hA m hmem

theorem lt_of_getElem? {α : Type} (l : List α) (i : Nat) (a : α) (h : l[i]? = some a) : i < l.length := by
  by_contra hc
  rw [List.getElem?_eq_none (Nat.le_of_not_lt hc)] at h
  cases h

theorem arithTree_tables_lt (h : Heap K) (hw : WF h) (op : BinOp) (a : Nat) (A : Obj K) (b : Arg K)
    (bv : ArgV K) (t : HTree K) (hA : h.objs[a]? = some A) (hb : resolveArg h b = some bv)
    (ht : arithTree op A bv = .ok t) : ∀ m ∈ t.tables, m < h.tables.length := by
  have hAm : ∀ mA, A.model = .ok mA → ∀ m ∈ mA.tables, m < h.tables.length :=
    fun mA hm => model_tables_lt h hw a A mA hA hm
  cases bv with
  | real v =>
    cases op <;> simp only [arithTree] at ht
    · cases ht
    · cases ht
    · cases hm : A.model with
      | error e => simp [hm, bind, Except.bind] at ht
      | ok mA =>
        simp only [hm, bind, Except.bind, pure, Except.pure, Except.ok.injEq] at ht
        subst ht; simpa [HTree.tables] using hAm mA hm
    · cases hm : A.model with
      | error e => simp [hm, bind, Except.bind] at ht
      | ok mA =>
        simp only [hm, bind, Except.bind, pure, Except.pure] at ht
        split at ht
        · cases ht
        · simp only [Except.ok.injEq] at ht
          subst ht; simpa [HTree.tables] using hAm mA hm
  | quantity v =>
    cases op <;> simp only [arithTree] at ht
    · cases ht
    · cases ht
    · cases hm : A.model with
      | error e => simp [hm, bind, Except.bind] at ht
      | ok mA =>
        simp only [hm, bind, Except.bind, pure, Except.pure, Except.ok.injEq] at ht
        subst ht; simpa [HTree.tables] using hAm mA hm
    · cases hm : A.model with
      | error e => simp [hm, bind, Except.bind] at ht
      | ok mA =>
        simp only [hm, bind, Except.bind, pure, Except.pure] at ht
        split at ht
        · cases ht
        · simp only [Except.ok.injEq] at ht
          subst ht; simpa [HTree.tables] using hAm mA hm
  | bad tg => simp [arithTree] at ht
  | obj B =>
    cases b with
    | obj j =>
      simp only [resolveArg, Option.map_eq_some_iff] at hb
      obtain ⟨B', hB, e⟩ := hb
      have e' : B' = B := by injection e
      subst e'
      have hBm : ∀ mB, B'.model = .ok mB → ∀ m ∈ mB.tables, m < h.tables.length :=
        fun mB hm => model_tables_lt h hw j B' mB hB hm
      simp only [arithTree] at ht
      cases hmA : A.model with
      | error e => split at ht <;> (cases hmB : B'.model <;> simp [hmA, hmB, bind, Except.bind] at ht)
      | ok mA =>
        cases hmB : B'.model with
        | error e => split at ht <;> simp [hmA, hmB, bind, Except.bind] at ht
        | ok mB =>
          split at ht <;>
            (simp only [hmA, hmB, bind, Except.bind, pure, Except.pure, Except.ok.injEq] at ht
             subst ht
             intro m hm
             simp only [HTree.tables, List.mem_append] at hm
             rcases hm with hm | hm
             · first | exact hAm mA hmA m hm | exact hBm mB hmB m hm
             · first | exact hAm mA hmA m hm | exact hBm mB hmB m hm)
    | real v => simp [resolveArg] at hb
    | quantity v => simp [resolveArg] at hb
    | bad tg => simp [resolveArg] at hb

theorem forceEffects_plain (A : Obj K) : ∀ e ∈ forceEffects A, e.plain = true := by
  intro e he
  unfold forceEffects at he
  split at he
  · simp only [List.mem_singleton] at he; subst he; rfl
  · simp at he

theorem evalEffects_plain (fx : Fixes) (t : HTree K) : ∀ e ∈ evalEffects fx t, e.plain = true := by
  intro e he
  unfold evalEffects at he
  split at he
  · simp only [List.mem_singleton] at he; subst he; rfl
  · simp at he

theorem applyAll_plain_lengths (h : Heap K) (es : List (Effect K)) (hp : ∀ e ∈ es, e.plain = true)
    (hn : ∀ e ∈ es, e.isAlloc = false) :
    (h.applyAll es).tables.length = h.tables.length ∧ (h.applyAll es).arrays.length = h.arrays.length := by
  induction es generalizing h with
  | nil => exact ⟨rfl, rfl⟩
  | cons e es ih =>
    have := ih (h.apply e) (fun e' he' => hp e' (List.mem_cons_of_mem _ he'))
      (fun e' he' => hn e' (List.mem_cons_of_mem _ he'))
    simp only [Heap.applyAll, List.foldl_cons] at this ⊢
    rw [this.1, this.2]
    have h1 := hn e (List.mem_cons_self ..)
    cases e <;> simp [Effect.isAlloc] at h1 <;> simp [Heap.apply, length_upd]

theorem forceEffects_noalloc (A : Obj K) : ∀ e ∈ forceEffects A, e.isAlloc = false := by
  intro e he
  unfold forceEffects at he
  split at he
  · simp only [List.mem_singleton] at he; subst he; rfl
  · simp at he

/-- the four effects of a taper: two arrays, a table on them, the object on the table -/
theorem taperBuild_ok (h : Heap K) (A : Obj K) (d : TaperData K) (f b k : Bool) :
    okAll h ((taperBuild A d f b k h.arrays.length h.tables.length).1 ++
      [.allocObj (taperBuild A d f b k h.arrays.length h.tables.length).2]) := by
  simp [taperBuild, okAll, Effect.ok, Heap.apply, freshObj, HTree.tables]

theorem taperBuild_lengths (h : Heap K) (A : Obj K) (d : TaperData K) (f b k : Bool) (n m : Nat) :
    (h.applyAll (taperBuild A d f b k n m).1).tables.length = h.tables.length + 1 := by
  simp [taperBuild, Heap.applyAll, Heap.apply]

theorem evalEffects_ok (fx : Fixes) (h : Heap K) (t : HTree K) : okAll h (evalEffects fx t) :=
  okAll_plain _ _ (evalEffects_plain fx t)

theorem sampleCall_ok (fx : Fixes) (env : HEnv K) (h : Heap K) (o w : Nat) (conv : List K) :
    okAll h (sampleCall fx env h o w conv).1 := by
  unfold sampleCall
  split
  · simp only []
    split
    · trivial
    · split
      · trivial
      · exact evalEffects_ok _ _ _
  · trivial

theorem integrate_ok (fx : Fixes) (h : Heap K) (o : Nat) (w : WaveArg K) (t : IntegType)
    (numErr : Option Err) : okAll h (integrate fx h o w t numErr).1 := by
  unfold integrate
  split
  · trivial
  · split
    · trivial
    · split
      · trivial
      · simp only []
        split
        · trivial
        · trivial
        · trivial
        · split
          · exact evalEffects_ok _ _ _
          · trivial

theorem query_ok (fx : Fixes) (h : Heap K) (o : Nat) (w : WaveArg K) (numErr : Option Err) :
    okAll h (query fx h o w numErr).1 := by
  unfold query
  split
  · trivial
  · split
    · trivial
    · split
      · trivial
      · split
        · exact evalEffects_ok _ _ _
        · trivial

theorem toFits_ok (fx : Fixes) (h : Heap K) (o : Nat) (w : WaveArg K) (d : Option Nat)
    (ioErr : Option Err) : okAll h (toFits fx h o w d ioErr).1 := by
  unfold toFits
  split
  · trivial
  · split
    · trivial
    · split
      · trivial
      · split
        · trivial
        · split
          · exact evalEffects_ok _ _ _
          · simp only []
            cases d with
            | none => trivial
            | some d =>
              simp only []
              split
              · trivial
              · split
                · exact ⟨trivial, trivial⟩
                · trivial

theorem newEmpirical_ok (fx : Fixes) (h : Heap K) (hw : WF h) (kind : Kind) (x y : Nat) (xc yc : List K)
    (keep : Bool) (md : Option Nat) (f0 : FillArg K) (zi : Option (K × ZType)) :
    okAll h (newEmpirical fx h kind x y xc yc keep md f0 zi).1 := by
  unfold newEmpirical
  split
  · rename_i cx cy hx hy
    have hxl := lt_of_getElem? _ _ _ hx
    have hyl := lt_of_getElem? _ _ _ hy
    simp only
    split
    · trivial
    · split
      · split <;> simp [okAll, Effect.ok]
      · split
        · -- one-point table: arrays only
          apply okAll_plain
          intro e he
          simp only [List.mem_append] at he
          rcases he with he | he
          · split at he
            · simp at he
            · simp only [List.mem_singleton] at he; subst he; rfl
          · repeat' split at he
            all_goals first | (simp at he; done) | (simp only [List.mem_singleton] at he; subst he; rfl)
        · cases hax : cx.container.aliased <;> cases hay : cy.container.aliased <;>
            cases hc : (!keep && (cellData cy yc).any fun v => decide (v < 0)) <;>
            cases hf : fx.copyBeforeClip <;>
            simp [okAll, Effect.ok, Heap.apply, freshObjZ, HTree.tables, length_upd, hax, hay, hc, hf] <;>
            omega
  · trivial

theorem arith_ok' (h : Heap K) (hw : WF h) (op : BinOp) (a : Nat) (b : Arg K) :
    okAll h (arith h op a b).1 := by
  unfold arith
  cases hA : h.objs[a]? with
  | none => simp [okAll]
  | some A =>
    cases hb : resolveArg h b with
    | none => simp [okAll]
    | some bv =>
      simp only
      split
      · trivial
      · split
        · trivial
        · split
          · trivial
          · rename_i t ht
            refine ⟨?_, trivial⟩
            simp only [Effect.ok, freshObj]
            exact arithTree_tables_lt h hw op a A b bv t hA hb ht

theorem normalize_ok (h : Heap K) (hw : WF h) (o band : Nat) (force : Bool) (stat : Overlap) (k : K)
    (numErr : Option Err) : okAll h (normalize h o band force stat k numErr).1 := by
  unfold normalize
  split
  · rename_i A B hA hB
    split
    · trivial
    · split
      · trivial
      · split
        · trivial
        · rename_i mA hm
          have hlt := model_tables_lt h hw o A mA hA hm
          split
          · trivial
          · split
            · trivial
            · split
              · trivial
              · refine ⟨?_, trivial⟩
                simpa [Effect.ok, freshObj, HTree.tables] using hlt
            · split
              · trivial
              · split
                · exact okAll_plain _ _ (forceEffects_plain A)
                · apply okAll_append _ _ _ (okAll_plain _ _ (forceEffects_plain A))
                  refine ⟨?_, trivial⟩
                  simp only [Effect.ok, freshObj, HTree.tables]
                  rw [(applyAll_plain_lengths h _ (forceEffects_plain A) (forceEffects_noalloc A)).1]
                  exact hlt
  · trivial

theorem taperCore_some (h : Heap K) (A : Obj K) (d : TaperData K) (n m : Nat) (es : List (Effect K))
    (ob : Obj K) (he : taperCore h A d n m = some (es, ob)) :
    ∃ f b k, es = (taperBuild A d f b k n m).1 ∧ ob = (taperBuild A d f b k n m).2 := by
  unfold taperCore at he
  simp only at he
  split at he
  · cases he
  · simp only [Option.some.injEq] at he
    exact ⟨_, _, _, by rw [he], by rw [he]⟩

theorem taper_ok (h : Heap K) (hw : WF h) (o : Nat) (d : TaperData K) : okAll h (taper h o d).1 := by
  unfold taper
  split
  · trivial
  · split
    · trivial
    · split
      · trivial
      · split
        · trivial
        · trivial
        · split
          · trivial
          · split
            · trivial
            · rename_i es ob htc
              obtain ⟨f, b, k, rfl, rfl⟩ := taperCore_some h _ d _ _ es ob htc
              exact taperBuild_ok h _ d f b k

theorem filter_plain (es : List (Effect K)) :
    ∀ e ∈ es.filter (fun e => !e.isAlloc), e.plain = true := by
  intro e he
  have := (List.mem_filter.mp he).2
  cases e <;> simp [Effect.isAlloc] at this <;> rfl

theorem freshObj_model (k : Kind) (t : HTree K) (m : Meta) : (freshObj k t m).model = .ok t := by
  unfold Obj.model freshObj
  cases k <;> simp [ZState.init]

theorem observation_ok (h : Heap K) (hw : WF h) (src band : Nat) (force : Force) (stat : Overlap)
    (binset : Option (Nat × List K)) (d : TaperData K) (numErr : Option Err) :
    okAll h (observation h src band force stat binset d numErr).1 := by
  unfold observation
  split
  · rename_i S B hS hB
    split
    · trivial
    · split
      · trivial
      · split
        · trivial
        · rename_i mS hmS
          split
          · trivial
          · simp only
            split
            · trivial
            · rename_i es sid S' warn tapered hadm
              have hBt : ∀ m ∈ B.tree.tables, m < h.tables.length := hw.objs band B hB
              -- the admission step: either it allocates nothing and keeps the source, or it is a taper
              have hes : ((∀ e ∈ es, e.plain = true) ∧ (∀ e ∈ es, e.isAlloc = false) ∧ S' = S) ∨
                  (∃ f b k, es = (taperBuild S d f b k h.arrays.length h.tables.length).1 ++
                      [.allocObj (taperBuild S d f b k h.arrays.length h.tables.length).2] ∧
                    S' = (taperBuild S d f b k h.arrays.length h.tables.length).2) := by
                cases stat with
                | none => simp at hadm
                | full =>
                  simp only [Except.ok.injEq, Prod.mk.injEq] at hadm
                  obtain ⟨rfl, _, rfl, _⟩ := hadm
                  exact Or.inl ⟨by simp, by simp, rfl⟩
                | partialMost =>
                  cases force with
                  | none => simp at hadm
                  | bogus => simp at hadm
                  | extrap =>
                    simp only [Except.ok.injEq, Prod.mk.injEq] at hadm
                    obtain ⟨rfl, _, rfl, _⟩ := hadm
                    exact Or.inl ⟨forceEffects_plain S, forceEffects_noalloc S, rfl⟩
                  | taper =>
                    simp only at hadm
                    split at hadm
                    · simp at hadm
                    · split at hadm
                      · simp only [Except.ok.injEq, Prod.mk.injEq] at hadm
                        obtain ⟨rfl, _, rfl, _⟩ := hadm
                        exact Or.inl ⟨by simp, by simp, rfl⟩
                      · rename_i es' ob htc
                        simp only [Except.ok.injEq, Prod.mk.injEq] at hadm
                        obtain ⟨rfl, _, rfl, _⟩ := hadm
                        obtain ⟨f, b, k, rfl, rfl⟩ := taperCore_some h S d _ _ es' ob htc
                        exact Or.inr ⟨f, b, k, rfl, rfl⟩
                | partialNotMost =>
                  cases force with
                  | none => simp at hadm
                  | bogus => simp at hadm
                  | extrap =>
                    simp only [Except.ok.injEq, Prod.mk.injEq] at hadm
                    obtain ⟨rfl, _, rfl, _⟩ := hadm
                    exact Or.inl ⟨forceEffects_plain S, forceEffects_noalloc S, rfl⟩
                  | taper =>
                    simp only at hadm
                    split at hadm
                    · simp at hadm
                    · split at hadm
                      · simp only [Except.ok.injEq, Prod.mk.injEq] at hadm
                        obtain ⟨rfl, _, rfl, _⟩ := hadm
                        exact Or.inl ⟨by simp, by simp, rfl⟩
                      · rename_i es' ob htc
                        simp only [Except.ok.injEq, Prod.mk.injEq] at hadm
                        obtain ⟨rfl, _, rfl, _⟩ := hadm
                        obtain ⟨f, b, k, rfl, rfl⟩ := taperCore_some h S d _ _ es' ob htc
                        exact Or.inr ⟨f, b, k, rfl, rfl⟩
              split
              · exact okAll_plain _ _ (filter_plain es)
              · rename_i mS' hmS'
                split
                · exact okAll_plain _ _ (filter_plain es)
                · exact okAll_plain _ _ (filter_plain es)
                · -- success: the admission effects, then the observation object
                  rcases hes with ⟨hp, hn, rfl⟩ | ⟨f, b, k, rfl, rfl⟩
                  · apply okAll_append _ _ _ (okAll_plain _ _ hp)
                    refine ⟨?_, trivial⟩
                    simp only [Effect.ok, HTree.tables]
                    rw [(applyAll_plain_lengths h _ hp hn).1]
                    intro m hm
                    rcases List.mem_append.mp hm with hm | hm
                    · exact model_tables_lt h hw src S' mS' hS hmS' m hm
                    · exact hBt m hm
                  · apply okAll_append _ _ _ (taperBuild_ok h S d f b k)
                    refine ⟨?_, trivial⟩
                    simp only [Effect.ok, HTree.tables]
                    have hl : (h.applyAll ((taperBuild S d f b k h.arrays.length h.tables.length).1 ++
                        [.allocObj (taperBuild S d f b k h.arrays.length h.tables.length).2])).tables.length
                        = h.tables.length + 1 := by
                      simp [taperBuild, Heap.applyAll, Heap.apply]
                    rw [hl]
                    have hm' : mS' = .tab h.tables.length := by
                      simp only [taperBuild] at hmS'
                      rw [freshObj_model] at hmS'
                      exact (Except.ok.inj hmS').symm
                    subst hm'
                    intro m hm
                    rcases List.mem_append.mp hm with hm | hm
                    · simp only [HTree.tables, List.mem_singleton] at hm; omega
                    · have := hBt m hm; omega
  · trivial

/-- every call's allocations are well-formed in the state they are made in -/
theorem effects_ok (fx : Fixes) (env : HEnv K) (h : Heap K) (hw : WF h) (c : Call K) :
    okAll h (effects fx env h c).1 := by
  cases c with
  | newEmpirical kind x y xc yc keep md f0 zi => exact newEmpirical_ok fx h hw kind x y xc yc keep md f0 zi
  | newAnalytic kind l zi => simp [effects, okAll, Effect.ok, freshObjZ, HTree.tables]
  | newBlackBody t lab zi => simp [effects, okAll, Effect.ok, freshObjZ, HTree.tables]
  | sample o w conv => exact sampleCall_ok fx env h o w conv
  | arith op a b => exact arith_ok' h hw op a b
  | rmul v a => exact arith_ok' h hw .mul a (.real v)
  | normalize o band force stat k numErr => exact normalize_ok h hw o band force stat k numErr
  | taper o d => exact taper_ok h hw o d
  | observation src band force stat binset d numErr => exact observation_ok h hw src band force stat binset d numErr
  | integrate o w t numErr => exact integrate_ok fx h o w t numErr
  | query o w numErr => exact query_ok fx h o w numErr
  | toFits o w d ioErr => exact toFits_ok fx h o w d ioErr
  | utility arrs dicts out => trivial
  | setZ o z => simp only [effects, setZ]; split; trivial; split <;> simp [okAll, Effect.ok]
  | setZBad o => simp only [effects, setZBad]; split; trivial; split <;> trivial
  | setZType o t => simp only [effects, setZType]; split; trivial; split <;> simp [okAll, Effect.ok]
  | setZTypeBad o => simp only [effects, setZBad]; split; trivial; split <;> trivial
  | forceExtrap o =>
    simp only [effects, forceExtrap]; split; trivial
    exact okAll_plain _ _ (forceEffects_plain _)
  | setWarnings o w => simp only [effects, setWarnings]; split; trivial; simp [okAll, Effect.ok]
  | setMeta o k v => simp only [effects, setMeta]; split; trivial; simp [okAll, Effect.ok]

/-- **every call preserves well-formedness** -/
theorem wf_step (fx : Fixes) (env : HEnv K) (h : Heap K) (hw : WF h) (c : Call K) :
    WF (step fx env h c).1 :=
  applyAll_wf h _ hw (effects_ok fx env h hw c)

theorem wf_run (fx : Fixes) (env : HEnv K) (h : Heap K) (hw : WF h) (cs : List (Call K)) :
    WF (run fx env h cs) := by
  induction cs generalizing h with
  | nil => exact hw
  | cons c cs ih => exact ih _ (wf_step fx env h hw c)

/-- in a well-formed store every object is live: all the locations sampling it reads are allocated -/
theorem live_of_wf (h : Heap K) (hw : WF h) (o : Nat) : ∀ l ∈ reads h o, (h.get l).isSome = true := by
  intro l hl
  unfold reads at hl
  cases ho : h.objs[o]? with
  | none => simp [ho] at hl
  | some ob =>
    simp only [ho, List.mem_append, List.mem_cons, List.mem_flatMap] at hl
    rcases hl with (rfl | rfl | hl) | ⟨m, hm, hl⟩
    · simp [Heap.get, ho]
    · simp [Heap.get, ho]
    · simp at hl
    · have hml := hw.objs o ob ho m hm
      obtain ⟨c, hc⟩ : ∃ c, h.tables[m]? = some c := ⟨h.tables[m], List.getElem?_eq_getElem hml⟩
      simp only [hc, List.mem_cons] at hl
      have := hw.tables m c hc
      rcases hl with rfl | rfl | rfl | hl
      · simp [Heap.get, hc]
      · simp [Heap.get, List.getElem?_eq_getElem this.1]
      · simp [Heap.get, List.getElem?_eq_getElem this.2]
      · simp at hl

end Synphot.HeapModel
