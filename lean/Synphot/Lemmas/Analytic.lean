/-
  Synphot.Lemmas.Analytic — real-analysis lemmas behind C12: the closed forms coded in the
  `integrate` methods of synphot/models.py are the integrals of the closed forms of the
  corresponding `evaluate` methods (Mathlib interval / Bochner integrals), and the
  `min`/`max` of a wavelength list.
-/
import Mathlib.Analysis.SpecialFunctions.Integrals.Basic
import Mathlib.Analysis.SpecialFunctions.Gaussian.GaussianIntegral
import Mathlib.MeasureTheory.Integral.IntervalIntegral.FundThmCalculus
import Synphot.Lemmas.TranscReal
import Synphot.Core.Analytic

set_option linter.unusedVariables false
set_option linter.unusedSectionVars false

open MeasureTheory intervalIntegral Real Set
namespace Synphot

section lists
variable {K : Type} [Field K] [LinearOrder K] [IsStrictOrderedRing K]

theorem minL_mem : ∀ {x : List K}, x ≠ [] → minL x ∈ x
  | [], h => absurd rfl h
  | [a], _ => by simp [minL]
  | a :: b :: t, _ => by
      have ih : minL (b :: t) ∈ b :: t := minL_mem (by simp)
      show min a (minL (b :: t)) ∈ a :: b :: t
      rcases min_choice a (minL (b :: t)) with h | h
      · rw [h]; exact List.mem_cons_self
      · rw [h]; exact List.mem_cons_of_mem _ ih

theorem maxL_mem : ∀ {x : List K}, x ≠ [] → maxL x ∈ x
  | [], h => absurd rfl h
  | [a], _ => by simp [maxL]
  | a :: b :: t, _ => by
      have ih : maxL (b :: t) ∈ b :: t := maxL_mem (by simp)
      show max a (maxL (b :: t)) ∈ a :: b :: t
      rcases max_choice a (maxL (b :: t)) with h | h
      · rw [h]; exact List.mem_cons_self
      · rw [h]; exact List.mem_cons_of_mem _ ih

theorem minL_le : ∀ {x : List K} {c : K}, c ∈ x → minL x ≤ c
  | [], _, h => by simp at h
  | [a], c, h => by
      have : c = a := by simpa using h
      rw [this]; exact le_refl _
  | a :: b :: t, c, h => by
      show min a (minL (b :: t)) ≤ c
      rcases List.mem_cons.mp h with h | h
      · rw [h]; exact min_le_left _ _
      · exact (min_le_right _ _).trans (minL_le h)

theorem le_maxL : ∀ {x : List K} {c : K}, c ∈ x → c ≤ maxL x
  | [], _, h => by simp at h
  | [a], c, h => by
      have : c = a := by simpa using h
      rw [this]; exact le_refl _
  | a :: b :: t, c, h => by
      show c ≤ max a (maxL (b :: t))
      rcases List.mem_cons.mp h with h | h
      · rw [h]; exact le_max_left _ _
      · exact (le_maxL h).trans (le_max_right _ _)

theorem minL_le_maxL {x : List K} (hx : x ≠ []) : minL x ≤ maxL x := minL_le (maxL_mem hx)

theorem minL_pos {x : List K} (hx : x ≠ []) (hp : ∀ w ∈ x, 0 < w) : 0 < minL x := hp _ (minL_mem hx)

/-- validated wavelengths are positive -/
theorem validate_pos {x : List K} (hv : validateWavelengths x = .ok ()) : ∀ w ∈ x, 0 < w := by
  unfold validateWavelengths at hv
  split_ifs at hv with h1
  intro w hw
  by_contra hle
  exact h1 (List.any_eq_true.mpr ⟨w, hw, by simpa using not_lt.mp hle⟩)

end lists

/-! ## Lorentz, Gaussian -/

theorem lorentz_hasDerivAt (x0 g : ℝ) (hg : g ≠ 0) (t : ℝ) :
    HasDerivAt (fun t => g * Real.arctan ((t - x0) / g)) (g ^ 2 / ((t - x0) ^ 2 + g ^ 2)) t := by
  have h1 : HasDerivAt (fun t => (t - x0) / g) (1 / g) t :=
    ((hasDerivAt_id t).sub_const x0).div_const g
  have h3 := h1.arctan.const_mul g
  have : (t - x0) ^ 2 + g ^ 2 ≠ 0 := by positivity
  refine h3.congr_deriv ?_
  field_simp
  ring

theorem integral_lorentz (amp x0 g a b : ℝ) (hg : g ≠ 0) :
    ∫ t in a..b, amp * g ^ 2 / ((t - x0) ^ 2 + g ^ 2)
      = amp * g * (Real.arctan ((b - x0) / g) - Real.arctan ((a - x0) / g)) := by
  have hc : Continuous fun t : ℝ => g ^ 2 / ((t - x0) ^ 2 + g ^ 2) := by
    refine continuous_const.div (by fun_prop) (fun t => ?_)
    positivity
  simp_rw [mul_div_assoc]
  rw [intervalIntegral.integral_const_mul,
    integral_eq_sub_of_hasDerivAt (fun t _ => lorentz_hasDerivAt x0 g hg t) (hc.intervalIntegrable _ _)]
  ring

theorem integral_gauss (amp m s : ℝ) (hs : 0 < s) :
    ∫ t : ℝ, amp * Real.exp (-(1 / 2) * (t - m) ^ 2 / s ^ 2) = amp * s * Real.sqrt (2 * Real.pi) := by
  rw [MeasureTheory.integral_const_mul]
  have h1 := integral_sub_right_eq_self (μ := volume) (fun t : ℝ => Real.exp (-(1 / 2) * t ^ 2 / s ^ 2)) m
  rw [h1]
  have h2 : (fun t : ℝ => Real.exp (-(1 / 2) * t ^ 2 / s ^ 2)) = fun t => Real.exp (-(1 / (2 * s ^ 2)) * t ^ 2) := by
    funext t; congr 1; field_simp
  rw [h2, integral_gaussian]
  have h3 : Real.pi / (1 / (2 * s ^ 2)) = s ^ 2 * (2 * Real.pi) := by field_simp
  rw [h3, Real.sqrt_mul (sq_nonneg s), Real.sqrt_sq hs.le]
  ring

/-! ## power law, box -/

theorem integral_powerLaw (amp x0 al a b : ℝ) (hx0 : 0 < x0) (ha : 0 < a) (hab : a ≤ b) (hal : al ≠ 1) :
    ∫ t in a..b, amp * (t / x0) ^ (-al)
      = amp * (b ^ (1 - al) - a ^ (1 - al)) / (x0 ^ (-al) * (1 - al)) := by
  have hcongr : EqOn (fun t : ℝ => amp * (t / x0) ^ (-al)) (fun t => amp / x0 ^ (-al) * t ^ (-al)) (uIcc a b) := by
    intro t ht
    rw [uIcc_of_le hab] at ht
    have ht0 : 0 ≤ t := (ha.trans_le ht.1).le
    simp only
    rw [Real.div_rpow ht0 hx0.le]
    ring
  rw [intervalIntegral.integral_congr hcongr, intervalIntegral.integral_const_mul, integral_rpow]
  · have h1 : x0 ^ (-al) ≠ 0 := (Real.rpow_pos_of_pos hx0 _).ne'
    have h2 : 1 - al ≠ 0 := sub_ne_zero.mpr (Ne.symm hal)
    have h3 : -al + 1 = 1 - al := by ring
    rw [h3]
    field_simp
  · right
    refine ⟨fun h => hal (by linarith), ?_⟩
    rw [uIcc_of_le hab]
    intro h
    exact absurd h.1 (not_le.mpr ha)

theorem integral_powerLaw_one (amp x0 a b : ℝ) (hx0 : 0 < x0) (ha : 0 < a) (hab : a ≤ b) :
    ∫ t in a..b, amp * (t / x0) ^ (-(1 : ℝ)) = amp * x0 * Real.log (b / a) := by
  have hcongr : EqOn (fun t : ℝ => amp * (t / x0) ^ (-(1 : ℝ))) (fun t => amp * x0 * t⁻¹) (uIcc a b) := by
    intro t ht
    rw [uIcc_of_le hab] at ht
    have ht0 : 0 < t := ha.trans_le ht.1
    simp only
    rw [Real.rpow_neg_one, inv_div]
    ring
  rw [intervalIntegral.integral_congr hcongr, intervalIntegral.integral_const_mul,
    integral_inv_of_pos ha (ha.trans_le hab)]

theorem boxEval_eq_indicator (amp x0 w : ℝ) :
    boxEval amp x0 w = (Icc (x0 - w / 2) (x0 + w / 2)).indicator (fun _ => amp) := by
  funext x
  simp [boxEval, indicator, mem_Icc]

theorem integral_box (amp x0 w : ℝ) (hw : 0 ≤ w) : ∫ t : ℝ, boxEval amp x0 w t = amp * w := by
  rw [boxEval_eq_indicator, integral_indicator_const _ measurableSet_Icc, Real.volume_real_Icc_of_le (by linarith)]
  simp only [smul_eq_mul]
  ring

/-! ## trapezoid -/

/-- the shape of `Trapezoid1D.evaluate` with the four knots as parameters -/
noncomputable def trapF (amp s x1 x2 x3 x4 t : ℝ) : ℝ :=
  if x1 ≤ t ∧ t < x2 then s * (t - x1)
  else if x2 ≤ t ∧ t < x3 then amp
  else if x3 ≤ t ∧ t < x4 then s * (x4 - t)
  else 0

theorem trapezoidEval_eq_trapF (amp x0 w s t : ℝ) :
    trapezoidEval amp x0 w s t
      = trapF amp s (x0 - w / 2 - amp / s) (x0 - w / 2) (x0 + w / 2) (x0 + w / 2 + amp / s) t := rfl

theorem integral_trapF (amp s x1 x2 x3 x4 : ℝ) (h12 : x1 ≤ x2) (h23 : x2 ≤ x3) (h34 : x3 ≤ x4)
    (hl : s * (x2 - x1) = amp) (hr : s * (x4 - x3) = amp) :
    ∫ t : ℝ, trapF amp s x1 x2 x3 x4 t = amp * (x3 - x2) + amp * (x2 - x1) / 2 + amp * (x4 - x3) / 2 := by
  have hA : ∀ t ∈ Icc x1 x2, trapF amp s x1 x2 x3 x4 t = s * (t - x1) := by
    intro t ht
    unfold trapF
    split_ifs with c1 c2 c3
    · rfl
    · have e : t = x2 := le_antisymm ht.2 c2.1
      rw [e, hl]
    · have e2 : x2 ≤ t := by
        by_contra h; exact c1 ⟨ht.1, not_le.mp h⟩
      have e : t = x2 := le_antisymm ht.2 e2
      have e3 : x3 = x2 := le_antisymm (e ▸ c3.1) h23
      rw [e, ← e3, hr, ← hl, e3]
    · have e2 : x2 ≤ t := by
        by_contra h; exact c1 ⟨ht.1, not_le.mp h⟩
      have e : t = x2 := le_antisymm ht.2 e2
      have e3 : x3 ≤ t := by
        by_contra h; exact c2 ⟨e2, not_le.mp h⟩
      have e4 : x4 ≤ t := by
        by_contra h; exact c3 ⟨e3, not_le.mp h⟩
      have e5 : x4 = x3 := le_antisymm (e4.trans (e ▸ h23)) h34
      have : amp = 0 := by rw [← hr, e5]; ring
      rw [e, hl, this]
  have hB : ∀ t ∈ Icc x2 x3, trapF amp s x1 x2 x3 x4 t = amp := by
    intro t ht
    unfold trapF
    split_ifs with c1 c2 c3
    · exact absurd ht.1 (not_le.mpr c1.2)
    · rfl
    · have e : t = x3 := le_antisymm ht.2 c3.1
      rw [e, hr]
    · have e3 : x3 ≤ t := by
        by_contra h; exact c2 ⟨ht.1, not_le.mp h⟩
      have e4 : x4 ≤ t := by
        by_contra h; exact c3 ⟨e3, not_le.mp h⟩
      have e5 : x4 = x3 := le_antisymm (e4.trans ht.2) h34
      rw [← hr, e5]; ring
  have hC : ∀ t ∈ Icc x3 x4, trapF amp s x1 x2 x3 x4 t = s * (x4 - t) := by
    intro t ht
    unfold trapF
    split_ifs with c1 c2 c3
    · exact absurd (h23.trans ht.1) (not_le.mpr c1.2)
    · exact absurd ht.1 (not_le.mpr c2.2)
    · rfl
    · have e4 : x4 ≤ t := by
        by_contra h; exact c3 ⟨ht.1, not_le.mp h⟩
      have e : t = x4 := le_antisymm ht.2 e4
      rw [e]; ring
  have h0 : ∀ t, t ∉ Ioc x1 x4 → trapF amp s x1 x2 x3 x4 t = 0 := by
    intro t ht
    unfold trapF
    split_ifs with c1 c2 c3
    · have hle : t ≤ x1 := by
        by_contra h; exact ht ⟨not_le.mp h, by linarith [c1.2]⟩
      have e : t = x1 := le_antisymm hle c1.1
      rw [e]; ring
    · have hle : t ≤ x1 := by
        by_contra h; exact ht ⟨not_le.mp h, by linarith [c2.2]⟩
      have e : x2 = x1 := by linarith [c2.1]
      rw [← hl, e]; ring
    · have hle : t ≤ x1 := by
        by_contra h; exact ht ⟨not_le.mp h, by linarith [c3.2]⟩
      have e : x2 = x1 := by linarith [c3.1]
      have e3 : t = x3 := by linarith [c3.1]
      have : amp = 0 := by rw [← hl, e]; ring
      rw [e3, hr, this]
    · rfl
  have i1 : IntervalIntegrable (trapF amp s x1 x2 x3 x4) volume x1 x2 := by
    have hc : Continuous fun t : ℝ => s * (t - x1) := by fun_prop
    refine (hc.intervalIntegrable x1 x2).congr ?_
    rw [uIoc_of_le h12]
    exact fun t ht => (hA t (Ioc_subset_Icc_self ht)).symm
  have i2 : IntervalIntegrable (trapF amp s x1 x2 x3 x4) volume x2 x3 := by
    have hc : Continuous fun _ : ℝ => amp := by fun_prop
    refine (hc.intervalIntegrable x2 x3).congr ?_
    rw [uIoc_of_le h23]
    exact fun t ht => (hB t (Ioc_subset_Icc_self ht)).symm
  have i3 : IntervalIntegrable (trapF amp s x1 x2 x3 x4) volume x3 x4 := by
    have hc : Continuous fun t : ℝ => s * (x4 - t) := by fun_prop
    refine (hc.intervalIntegrable x3 x4).congr ?_
    rw [uIoc_of_le h34]
    exact fun t ht => (hC t (Ioc_subset_Icc_self ht)).symm
  have eA : ∫ t in x1..x2, trapF amp s x1 x2 x3 x4 t = ∫ t in x1..x2, s * (t - x1) :=
    intervalIntegral.integral_congr (by rw [uIcc_of_le h12]; exact hA)
  have eB : ∫ t in x2..x3, trapF amp s x1 x2 x3 x4 t = ∫ _t in x2..x3, amp :=
    intervalIntegral.integral_congr (by rw [uIcc_of_le h23]; exact hB)
  have eC : ∫ t in x3..x4, trapF amp s x1 x2 x3 x4 t = ∫ t in x3..x4, s * (x4 - t) :=
    intervalIntegral.integral_congr (by rw [uIcc_of_le h34]; exact hC)
  rw [← setIntegral_eq_integral_of_forall_compl_eq_zero h0,
    ← intervalIntegral.integral_of_le (h12.trans (h23.trans h34)),
    ← integral_add_adjacent_intervals (i1.trans i2) i3, ← integral_add_adjacent_intervals i1 i2,
    eA, eB, eC]
  simp only [intervalIntegral.integral_const_mul, intervalIntegral.integral_const, smul_eq_mul]
  rw [intervalIntegral.integral_sub intervalIntegrable_id intervalIntegrable_const,
    intervalIntegral.integral_sub intervalIntegrable_const intervalIntegrable_id]
  simp only [integral_id, intervalIntegral.integral_const, smul_eq_mul]
  have e1 : amp * (x2 - x1) / 2 = s * (x2 - x1) * (x2 - x1) / 2 := by rw [← hl]
  have e2 : amp * (x4 - x3) / 2 = s * (x4 - x3) * (x4 - x3) / 2 := by rw [← hr]
  rw [e1, e2]
  ring

theorem integral_trapezoid (amp x0 w s : ℝ) (ha : 0 ≤ amp) (hs : 0 < s) (hw : 0 ≤ w) :
    ∫ t : ℝ, trapezoidEval amp x0 w s t = amp * (w + amp / s) := by
  have hd : 0 ≤ amp / s := div_nonneg ha hs.le
  have hsd : s * (amp / s) = amp := by field_simp
  simp only [trapezoidEval_eq_trapF]
  rw [integral_trapF amp s _ _ _ _ (by linarith) (by linarith) (by linarith)
    (by rw [show x0 - w / 2 - (x0 - w / 2 - amp / s) = amp / s by ring]; exact hsd)
    (by rw [show x0 + w / 2 + amp / s - (x0 + w / 2) = amp / s by ring]; exact hsd)]
  ring

/-! ## Ricker wavelet -/

/-- antiderivative of the Ricker wavelet (unit amplitude): `(t−x₀)·exp(−(t−x₀)²/(2σ²))` -/
noncomputable def rickerF (x0 s t : ℝ) : ℝ := (t - x0) * Real.exp (-((t - x0) ^ 2 / (2 * s ^ 2)))

/-- the Ricker wavelet of unit amplitude -/
noncomputable def rickerU (x0 s t : ℝ) : ℝ :=
  (1 - 2 * ((t - x0) ^ 2 / (2 * s ^ 2))) * Real.exp (-((t - x0) ^ 2 / (2 * s ^ 2)))

theorem rickerEval_real (amp x0 s t : ℝ) : rickerEval Transc.real amp x0 s t = amp * rickerU x0 s t := by
  simp only [rickerEval, rickerU, Transc.real_exp]
  ring

theorem rickerF_hasDerivAt (x0 s : ℝ) (hs : s ≠ 0) (t : ℝ) :
    HasDerivAt (rickerF x0 s) (rickerU x0 s t) t := by
  have h1 : HasDerivAt (fun t : ℝ => t - x0) 1 t := (hasDerivAt_id t).sub_const x0
  have h2 : HasDerivAt (fun t : ℝ => (t - x0) ^ 2 / (2 * s ^ 2)) (2 * (t - x0) / (2 * s ^ 2)) t := by
    have := (h1.pow 2).div_const (2 * s ^ 2)
    refine this.congr_deriv ?_
    simp
  have h3 : HasDerivAt (fun t : ℝ => Real.exp (-((t - x0) ^ 2 / (2 * s ^ 2))))
      (Real.exp (-((t - x0) ^ 2 / (2 * s ^ 2))) * -(2 * (t - x0) / (2 * s ^ 2))) t := h2.neg.exp
  have h4 : HasDerivAt (fun t : ℝ => (t - x0) * Real.exp (-((t - x0) ^ 2 / (2 * s ^ 2))))
      (1 * Real.exp (-((t - x0) ^ 2 / (2 * s ^ 2)))
        + (t - x0) * (Real.exp (-((t - x0) ^ 2 / (2 * s ^ 2))) * -(2 * (t - x0) / (2 * s ^ 2)))) t :=
    h1.mul h3
  unfold rickerF
  refine h4.congr_deriv ?_
  unfold rickerU
  field_simp
  ring

theorem rickerU_continuous (x0 s : ℝ) : Continuous (rickerU x0 s) := by
  unfold rickerU; fun_prop

theorem rickerU_nonpos (x0 s t : ℝ) (hs : 0 < s) (h : s ^ 2 ≤ (t - x0) ^ 2) : rickerU x0 s t ≤ 0 := by
  unfold rickerU
  refine mul_nonpos_of_nonpos_of_nonneg ?_ (Real.exp_pos _).le
  have : 1 / 2 ≤ (t - x0) ^ 2 / (2 * s ^ 2) := by
    rw [div_le_div_iff₀ (by norm_num) (by positivity)]
    linarith
  linarith

theorem rickerU_nonneg (x0 s t : ℝ) (hs : 0 < s) (h : (t - x0) ^ 2 ≤ s ^ 2) : 0 ≤ rickerU x0 s t := by
  unfold rickerU
  refine mul_nonneg ?_ (Real.exp_pos _).le
  have : (t - x0) ^ 2 / (2 * s ^ 2) ≤ 1 / 2 := by
    rw [div_le_div_iff₀ (by positivity) (by norm_num)]
    linarith
  linarith

theorem integral_rickerU (x0 s a b : ℝ) (hs : s ≠ 0) :
    ∫ t in a..b, rickerU x0 s t = rickerF x0 s b - rickerF x0 s a :=
  integral_eq_sub_of_hasDerivAt (fun t _ => rickerF_hasDerivAt x0 s hs t)
    ((rickerU_continuous x0 s).intervalIntegrable _ _)

/-- the unsigned area of the Ricker wavelet over a range that contains both roots -/
theorem integral_abs_ricker (amp x0 s a b : ℝ) (hamp : 0 ≤ amp) (hs : 0 < s) (ha : a ≤ x0 - s)
    (hb : x0 + s ≤ b) :
    ∫ t in a..b, |amp * rickerU x0 s t|
      = amp * (|rickerF x0 s (x0 - s) - rickerF x0 s a|
          + |rickerF x0 s (x0 + s) - rickerF x0 s (x0 - s)|
          + |rickerF x0 s b - rickerF x0 s (x0 + s)|) := by
  have hc : Continuous fun t => |amp * rickerU x0 s t| := ((rickerU_continuous x0 s).const_mul amp).abs
  have hrr : x0 - s ≤ x0 + s := by linarith
  have hs' : s ≠ 0 := hs.ne'
  -- left piece
  have sL : ∀ t ∈ Icc a (x0 - s), rickerU x0 s t ≤ 0 := fun t ht =>
    rickerU_nonpos x0 s t hs (by nlinarith [ht.2])
  have sM : ∀ t ∈ Icc (x0 - s) (x0 + s), 0 ≤ rickerU x0 s t := fun t ht =>
    rickerU_nonneg x0 s t hs (by nlinarith [ht.1, ht.2])
  have sR : ∀ t ∈ Icc (x0 + s) b, rickerU x0 s t ≤ 0 := fun t ht =>
    rickerU_nonpos x0 s t hs (by nlinarith [ht.1])
  have eL : ∫ t in a..(x0 - s), |amp * rickerU x0 s t| = -(amp * (rickerF x0 s (x0 - s) - rickerF x0 s a)) := by
    rw [intervalIntegral.integral_congr (g := fun t => -(amp * rickerU x0 s t))
      (by rw [uIcc_of_le ha]; exact fun t ht => abs_of_nonpos (mul_nonpos_of_nonneg_of_nonpos hamp (sL t ht))),
      intervalIntegral.integral_neg, intervalIntegral.integral_const_mul, integral_rickerU x0 s _ _ hs']
  have eM : ∫ t in (x0 - s)..(x0 + s), |amp * rickerU x0 s t|
      = amp * (rickerF x0 s (x0 + s) - rickerF x0 s (x0 - s)) := by
    rw [intervalIntegral.integral_congr (g := fun t => amp * rickerU x0 s t)
      (by rw [uIcc_of_le hrr]; exact fun t ht => abs_of_nonneg (mul_nonneg hamp (sM t ht))),
      intervalIntegral.integral_const_mul, integral_rickerU x0 s _ _ hs']
  have eR : ∫ t in (x0 + s)..b, |amp * rickerU x0 s t| = -(amp * (rickerF x0 s b - rickerF x0 s (x0 + s))) := by
    rw [intervalIntegral.integral_congr (g := fun t => -(amp * rickerU x0 s t))
      (by rw [uIcc_of_le hb]; exact fun t ht => abs_of_nonpos (mul_nonpos_of_nonneg_of_nonpos hamp (sR t ht))),
      intervalIntegral.integral_neg, intervalIntegral.integral_const_mul, integral_rickerU x0 s _ _ hs']
  have nL : rickerF x0 s (x0 - s) - rickerF x0 s a ≤ 0 := by
    rw [← integral_rickerU x0 s _ _ hs']
    have := intervalIntegral.integral_nonneg ha (fun t ht => neg_nonneg.mpr (sL t ht)) (μ := volume)
    rw [intervalIntegral.integral_neg] at this
    linarith
  have nM : 0 ≤ rickerF x0 s (x0 + s) - rickerF x0 s (x0 - s) := by
    rw [← integral_rickerU x0 s _ _ hs']
    exact intervalIntegral.integral_nonneg hrr sM
  have nR : rickerF x0 s b - rickerF x0 s (x0 + s) ≤ 0 := by
    rw [← integral_rickerU x0 s _ _ hs']
    have := intervalIntegral.integral_nonneg hb (fun t ht => neg_nonneg.mpr (sR t ht)) (μ := volume)
    rw [intervalIntegral.integral_neg] at this
    linarith
  rw [← integral_add_adjacent_intervals (hc.intervalIntegrable a (x0 - s)) (hc.intervalIntegrable (x0 - s) b),
    ← integral_add_adjacent_intervals (hc.intervalIntegrable (x0 - s) (x0 + s)) (hc.intervalIntegrable (x0 + s) b),
    eL, eM, eR, abs_of_nonpos nL, abs_of_nonneg nM, abs_of_nonpos nR]
  ring

theorem rickerSub_real (x0 s p q : ℝ) (hs : s ≠ 0) :
    rickerSub Transc.real x0 (s * s) p q = |rickerF x0 s q - rickerF x0 s p| := by
  simp only [rickerSub, rickerF, Transc.real_exp]
  have e : ∀ d : ℝ, -(1 / 2) * d * d / (s * s) = -(d ^ 2 / (2 * s ^ 2)) := by
    intro d; field_simp
  rw [e, e]

end Synphot
