/-
  Descriptions of spectrum objects and expression programs (JSON) → model objects.
  Shared by the ops of C02, C05, C06–C11, C13.
-/
import Synphot.Driver.Json
import Synphot.Driver.FloatTransc
import Synphot.Core.Spectrum

open Lean Synphot

namespace Synphot.Driver

def parseFluxUnitQ (j : Json) : M (FluxUnit Rat) := do
  match j with
  | .str "photlam" => pure .photlam | .str "photnu" => pure .photnu
  | .str "flam" => pure .flam | .str "fnu" => pure .fnu
  | .str "stmag" => pure .stmag | .str "abmag" => pure .abmag
  | .str "count" => pure .count | .str "obmag" => pure .obmag | .str "vegamag" => pure .vegamag
  | .str s => .error s!"unknown flux unit {s}"
  | o => do
      let k ← fRat o "jy"
      pure (.jy k)

def parseConstQ (j : Json) : M (PhysConst Rat) := do
  pure { h := ← fRat j "h", c := ← fRat j "c", stZero := ← fRat j "st", abZero := ← fRat j "ab",
         jyFnu := ← fRat j "jy" }

def envOf (j : Json) : M (Env Rat) := do
  let P ← getField j "const" >>= parseConstQ
  pure { P := P, T := transcQ }

def optRatsF (j : Json) (k : String) : M (Option (List Rat)) :=
  match fOpt j k with
  | none => pure none
  | some v => (asRats v).map some

/-- a leaf model description; second component: the constructor recorded a NegativeFlux warning -/
def parseLeaf (j : Json) : M (Leaf Rat × Bool) := do
  let kind ← fStr j "leaf"
  match kind with
  | "empirical" | "extinction" => do
      let pts ← fRats j "pts"
      let vals ← fRats j "vals"
      let keep ← fBool j "keep_neg"
      let (t, warn) := mkTable pts vals keep
      let t := match fOpt j "force_extrap" with
        | some (.bool true) => t.forceExtrap
        | _ => t
      pure (if kind == "empirical" then .table t else .extinction t, warn)
  | "box" => do pure (.box (← fRat j "amp") (← fRat j "x0") (← fRat j "width") (← optRatsF j "ss"), false)
  | "trapezoid" => do
      pure (.trapezoid (← fRat j "amp") (← fRat j "x0") (← fRat j "width") (← fRat j "slope")
              (← optRatsF j "ss"), false)
  | "const1" => do pure (.const1 (← fRat j "amp"), false)
  | "constflux" => do pure (.constFlux (← fRat j "amp") (← getField j "unit" >>= parseFluxUnitQ), false)
  | "powerlaw" => do
      pure (.powerLaw (← fRat j "amp") (← fRat j "x0") (← fRat j "alpha")
              (← getField j "unit" >>= parseFluxUnitQ), false)
  | "gaussian" => do
      pure (.gaussian (← fRat j "amp") (← fRat j "mean") (← fRat j "sd") (← optRatsF j "ss"), false)
  | "lorentz" => do
      pure (.lorentz (← fRat j "amp") (← fRat j "x0") (← fRat j "fwhm") (← optRatsF j "ss"), false)
  | "ricker" => do
      pure (.ricker (← fRat j "amp") (← fRat j "x0") (← fRat j "sigma") (← optRatsF j "ss"), false)
  | s => .error s!"unknown leaf {s}"

def parseKind (s : String) : M Kind :=
  match s with
  | "source" => pure .source | "unitless" => pure .unitless | "bandpass" => pure .bandpass
  | "reddening" => pure .reddening | "extcurve" => pure .extcurve | "thermal" => pure .thermal
  | "observation" => pure .observation
  | s => .error s!"unknown kind {s}"

def parseZType (j : Json) : ZType :=
  match fOpt j "ztype" with
  | some (.str "conserve_flux") => .conserveFlux
  | _ => .wavelengthOnly

/-- a primitive spectrum: one leaf model behind one public constructor; an observation is described by
its two primitive operands (its model is `source.model * band.model`; the admission logic of its
constructor is `Core/Observation.lean` — descriptions used in expression programs overlap fully) -/
partial def parsePrim (j : Json) : M (Spec Rat) := do
  let kind ← fStr j "prim" >>= parseKind
  if kind = .observation then do
    let src ← getField j "src" >>= parsePrim
    let band ← getField j "band" >>= parsePrim
    match src.model, band.model with
    | .ok a, .ok b => return { kind := .observation, tree := .bin .mul a b, zs := ZState.init 0 .wavelengthOnly }
    | _, _ => throw "observation operand with an unusable model"
  let (leaf, _) ← getField j "leaf" >>= parseLeaf
  let z ← match fOpt j "z" with
    | some v => asRat v
    | none => pure 0
  pure { kind := kind, tree := .leaf leaf, zs := ZState.init z (parseZType j) }

def parseOp (s : String) : M BinOp :=
  match s with
  | "add" => pure .add | "sub" => pure .sub | "mul" => pure .mul | "div" => pure .div
  | s => .error s!"unknown operator {s}"

/-- evaluate an expression program.  `Except String` = protocol error, inner `Except Err` = what the
operators do. -/
partial def evalExpr (j : Json) : M (Except Err (Operand Rat)) := do
  -- `{"setz": {"z": …, "ztype": …}, "e": expr}`: the redshift attributes assigned on the source `expr` yields
  -- (`sp.z_type = …; sp.z = …` on a composite or an already redshifted operand)
  if let some zj := fOpt j "setz" then
    let inner ← getField j "e" >>= evalExpr
    let z ← fRat zj "z"
    match inner with
    | .ok (.spec s) =>
        if s.kind = .source then
          let zs := match fOpt zj "ztype" with
            | some (.str _) => s.zs.setZType (parseZType zj)
            | _ => s.zs                     -- no z_type assignment: the object keeps its own
          return .ok (.spec { s with zs := zs.setZ z })
        else return .error .typeError
    | .ok _ => return .error .typeError
    | .error e => return .error e
  -- `{"wrapz": {"z": …, "ztype": …}, "e": expr}`: `SourceSpectrum(expr, z=…, z_type=…)` — a new source whose model is
  -- the (already redshifted) model of the source `expr` yields, carrying its own redshift on top
  if let some zj := fOpt j "wrapz" then
    let inner ← getField j "e" >>= evalExpr
    let z ← fRat zj "z"
    match inner with
    | .ok (.spec s) =>
        if s.kind = .source then
          match s.model with
          | .ok m => return .ok (.spec { kind := .source, tree := m, zs := ZState.init z (parseZType zj) })
          | .error e => return .error e
        else return .error .typeError
    | .ok _ => return .error .typeError
    | .error e => return .error e
  match fOpt j "prim", fOpt j "scalar", fOpt j "op" with
  | some _, _, _ => do
      let s ← parsePrim j
      pure (.ok (.spec s))
  | _, some cls, _ => do
      let c ← asStr cls
      match c with
      | "int" | "float" | "npfloat" | "npint" | "bool" => do pure (.ok (.real (← fRat j "v")))
      | "quantity" => do pure (.ok (.quantity (← fRat j "v")))
      | "dimq" | "percentq" | "arrayq" | "complexq" => pure (.ok .badQuantity)
      | "complex" => pure (.ok .complex)
      | _ => pure (.ok .other)
  | _, _, some o => do
      let op ← asStr o >>= parseOp
      let l ← getField j "l" >>= evalExpr
      let r ← getField j "r" >>= evalExpr
      match l, r with
      | .error e, _ => pure (.error e)
      | _, .error e => pure (.error e)
      | .ok (.spec s), .ok ro => pure ((specOp op s ro).map .spec)
      | .ok (.real v), .ok (.spec s) =>
          -- a plain number on the left: only `*` reaches the spectrum (`__rmul__`)
          match op with
          | .mul => pure ((rmul v s).map .spec)
          | _ => pure (.error .typeError)
      | .ok _, .ok _ => pure (.error .typeError)
  | _, _, _ => .error "bad expression"

def kindName : Kind → String
  | .source => "source" | .unitless => "unitless" | .bandpass => "bandpass"
  | .reddening => "reddening" | .extcurve => "extcurve" | .thermal => "thermal"
  | .observation => "observation"

/-- sample a spectrum at wavelengths (Angstrom): first failing wavelength fails the call -/
def sampleSpec (E : Env Rat) (s : Spec Rat) (xs : List Rat) : Except Err (List Rat) := do
  let m ← s.model
  xs.mapM (m.eval E)

end Synphot.Driver
