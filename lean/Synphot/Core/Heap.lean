/-
  Synphot.Core.Heap — a small store model of what synphot's public calls *write*.

  The store has
    * array cells: the ndarrays / lists / Quantities a caller hands to the API, and the arrays the
      library allocates itself.  An `Empirical1D` instance (`TableCell`) refers to array cells; whether
      it refers to the *caller's* cell or to a fresh one is decided the way NumPy decides it
      (`np.asarray` of a float ndarray and `Quantity.value` / `to_value` in the same unit are views,
      a list or a converted Quantity is a new array);
    * dictionary cells: the dicts a caller passes as `ext_header=` / `meta=`;
    * table cells: the mutable part of an `Empirical1D` (`fill_value`), shared by every spectrum
      object whose compound model contains that instance (astropy compound models hold references);
    * objects: class, `_model` (a tree over table cells and immutable analytic leaves), the redshift
      state, the metadata dictionary (always a private deep copy: `_merge_meta`, `get_metadata`);
    * three process-wide settings: `np.geterr()`, the astropy unit registry / enabled equivalencies
      (an opaque token) and `synphot.conf.default_integrator`.

  Every API call is compiled to a list of primitive `Effect`s computed from the pre-state
  (`effects`), and `step` applies them.  The set/restore pairs of the code (`np.seterr(all='ignore')`
  … `np.seterr(**old)`, `with u.add_enabled_equivalencies(...)`) are represented by their net
  effect: nothing on the normal path; on the exception path the context managers still restore,
  the hand-written `seterr` pair of `BlackBody1D.evaluate` does not (models.py:118-129).

  Numerical results that are not the subject of C19 enter the calls as data (`Call` parameters):
  the overlap verdict of `check_overlap` (C06), the renormalisation factor (C10), the samples
  `taper` takes of the spectrum (C03/C13), values converted from another unit (C01), and the error
  class, if any, of the purely numerical tail of a call.  The model decides everything about *where*
  a call writes.

  `Fixes` selects, write-site by write-site, between the code as found and the repaired code
  (/repo commits 0c2f796, 8588084, fa5dbd7); `Fixes.current` is what /repo's working tree contains
  now (= `Fixes.repaired`).

  Sources: synphot/models.py:35-135 (BlackBody1D), 315-451 (Empirical1D), 854-901 (metadata);
  synphot/spectrum.py:127-245 (construction, `_merge_meta`), 293-312 (warnings), 343-362 (`__call__`),
  416-538 (integrate), 624-702 (force_extrapolation, taper), 937-1112 (normalize), 1141-1256
  (redshift, operators), 1303-1351 and 1895-1931 (to_fits); synphot/reddening.py:93-135;
  synphot/observation.py:77-205; synphot/specio.py:231-398; synphot/units.py.
-/
import Synphot.Core.Spectrum

namespace Synphot.HeapModel
open Synphot
variable {K : Type} [Field K] [LinearOrder K] [IsStrictOrderedRing K]

/-! ### which repairs the modelled code contains -/

structure Fixes where
  /-- `Empirical1D._process_neg_flux` zeroes a copy, not the array it was given -/
  copyBeforeClip : Bool
  /-- `to_fits` copies `ext_header` before adding its own cards -/
  copyExtHeader : Bool
  /-- `BlackBody1D.evaluate` silences NumPy inside `with np.errstate(all='ignore')` -/
  errstate : Bool
  deriving DecidableEq, Repr

/-- the code as the checks found it, before the three fix commits (DESIGN §7 F8) -/
def Fixes.asFound : Fixes := ⟨false, false, false⟩
/-- all three repairs applied -/
def Fixes.repaired : Fixes := ⟨true, true, true⟩
/-- **what /repo's working tree contains now**: all three repairs have landed
(0c2f796 `Empirical1D` copies before zeroing, 8588084 `to_fits` copies `ext_header`,
fa5dbd7 `BlackBody1D.evaluate` uses `np.errstate`); the driver runs the model with this value.
A field set back to `false` models the code before the corresponding commit. -/
def Fixes.current : Fixes where
  copyBeforeClip := true
  copyExtHeader := true
  errstate := true

/-! ### process-wide settings -/

inductive ErrMode | ignore | warn | raise | call | print | log
  deriving DecidableEq, Repr

/-- `np.geterr()` -/
structure NpErr where
  divide : ErrMode
  over : ErrMode
  under : ErrMode
  invalid : ErrMode
  deriving DecidableEq, Repr

def NpErr.default : NpErr := ⟨.warn, .warn, .ignore, .warn⟩
/-- what `np.seterr(all='ignore')` leaves -/
def NpErr.allIgnore : NpErr := ⟨.ignore, .ignore, .ignore, .ignore⟩

/-- `synphot.conf.default_integrator` -/
inductive Integrator | trapezoid | analytical
  deriving DecidableEq, Repr

/-! ### dictionaries and metadata -/

/-- a Python `dict` with string keys, in insertion order; values are canonical strings -/
abbrev Dict := List (String × String)

/-- `d[k] = v`: an existing key keeps its position -/
def Dict.set : Dict → String → String → Dict
  | [], k, v => [(k, v)]
  | (k', v') :: t, k, v => if k' = k then (k, v) :: t else (k', v') :: Dict.set t k v

/-- `d.update(u)`; also `astropy.utils.metadata.merge(d, u, metadata_conflicts='silent')` on string
values (the right operand wins a conflict) -/
def Dict.update (d u : Dict) : Dict := u.foldl (fun acc kv => acc.set kv.1 kv.2) d

/-- `del d[k]` if present -/
def Dict.del (d : Dict) (k : String) : Dict := d.filter (fun kv => kv.1 ≠ k)

/-- `obj.meta`: the `'warnings'` sub-dictionary and every other entry (`'header'`, `'expr'`, user keys) -/
structure Meta where
  warnings : Dict
  entries : Dict
  deriving DecidableEq, Repr

def Meta.empty : Meta := ⟨[], []⟩

/-- `_merge_meta(..., clean=True)`: `'header'` and `'expr'` do not go into a result -/
def Meta.clean (m : Meta) : Meta := { m with entries := (m.entries.del "header").del "expr" }

/-- `metadata.merge(left, right, metadata_conflicts='silent')` (nested for `'warnings'`) -/
def Meta.merge (a b : Meta) : Meta := ⟨a.warnings.update b.warnings, a.entries.update b.entries⟩

/-- the `warnings` setter: `self.meta['warnings'].update(val)` -/
def Meta.addWarnings (m : Meta) (w : Dict) : Meta := { m with warnings := m.warnings.update w }

/-- text of a warning the library composes itself (the wording is not an observable) -/
def libText : String := "<lib>"

/-! ### cells -/

/-- what kind of Python object holds a caller's numbers -/
inductive Container
  | ndarray            -- float ndarray: `np.asarray` returns the array itself
  | list               -- Python list: `np.asarray` builds a new array
  | quantityInternal   -- Quantity already in the internal unit: `.value` / `to_value` is a view
  | quantityOther      -- Quantity in another unit: conversion builds a new array
  deriving DecidableEq, Repr

/-- does the library end up holding the caller's buffer? -/
def Container.aliased : Container → Bool
  | .ndarray | .quantityInternal => true
  | .list | .quantityOther => false

structure ArrCell (K : Type) where
  data : List K
  container : Container
  /-- owned by the caller (an input) rather than allocated by the library -/
  caller : Bool

/-- an `Empirical1D` instance: `points[0]` and `lookup_table` are (possibly reversed) views of two
array cells; `fill_value is np.nan` is the one field a public call re-assigns -/
structure TableCell (K : Type) where
  pts : Nat
  vals : Nat
  /-- descending input: the constructor keeps `x[::-1]`, `y[::-1]` (views) -/
  rev : Bool
  keepNeg : Bool
  /-- `fill_value is np.nan`: evaluate at the nearest end point outside the table -/
  fillNaN : Bool
  /-- the number `interpn` fills in outside the table when `fill_value` is not NaN (0 unless the
  constructor was given another `fill_value=`) -/
  fillVal : K

/-- `_model` of a spectrum object: a tree whose tabulated leaves are references -/
inductive HTree (K : Type)
  | tab (m : Nat)                      -- an `Empirical1D` instance
  | ana (l : Leaf K)                   -- an analytic model instance (no call writes its parameters)
  | bb (temp : K)                      -- `BlackBody1D`
  | bin (op : BinOp) (l r : HTree K)
  | scale (m : HTree K) (k : K)        -- `m | Scale(k)`
  | redshift (z : K) (m : HTree K)     -- `RedshiftScaleFactor(z).inverse | m`

structure Obj (K : Type) where
  kind : Kind
  tree : HTree K
  zs : ZState K
  md : Meta
  /-- `Observation._spec`, `Observation._band` -/
  spec : Option Nat := none
  band : Option Nat := none

structure Heap (K : Type) where
  arrays : List (ArrCell K)
  dicts : List Dict
  tables : List (TableCell K)
  objs : List (Obj K)
  npErr : NpErr
  /-- `astropy.units.get_current_unit_registry()`: enabled units and equivalencies, as a token -/
  units : Nat
  integrator : Integrator

/-- the store before the first call: the caller's arrays and dictionaries, default settings -/
def Heap.init (arrays : List (ArrCell K)) (dicts : List Dict) : Heap K :=
  { arrays := arrays, dicts := dicts, tables := [], objs := [], npErr := .default, units := 0,
    integrator := .trapezoid }

/-- addressable locations -/
inductive Loc
  | arr (i : Nat) | dict (i : Nat) | table (i : Nat)
  | objModel (i : Nat) | objZ (i : Nat) | objMeta (i : Nat)
  | npErr | units | integrator
  deriving DecidableEq, Repr

/-- contents of a location -/
inductive Cell (K : Type)
  | arr (c : ArrCell K)
  | dict (d : Dict)
  | table (t : TableCell K)
  | model (k : Kind) (t : HTree K) (spec band : Option Nat)
  | z (s : ZState K)
  | md (m : Meta)
  | npErr (g : NpErr)
  | units (tok : Nat)
  | integrator (i : Integrator)

def Heap.get (h : Heap K) : Loc → Option (Cell K)
  | .arr i => (h.arrays[i]?).map .arr
  | .dict i => (h.dicts[i]?).map .dict
  | .table i => (h.tables[i]?).map .table
  | .objModel i => (h.objs[i]?).map fun o => .model o.kind o.tree o.spec o.band
  | .objZ i => (h.objs[i]?).map fun o => .z o.zs
  | .objMeta i => (h.objs[i]?).map fun o => .md o.md
  | .npErr => some (.npErr h.npErr)
  | .units => some (.units h.units)
  | .integrator => some (.integrator h.integrator)

/-! ### primitive effects -/

/-- `l[i] = f l[i]` (nothing when `i` is out of range) -/
def upd {α : Type} : List α → Nat → (α → α) → List α
  | [], _, _ => []
  | a :: t, 0, f => f a :: t
  | a :: t, i + 1, f => a :: upd t i f

inductive Effect (K : Type)
  | allocArr (c : ArrCell K)
  | allocTable (t : TableCell K)
  | allocObj (o : Obj K)
  | writeArr (i : Nat) (data : List K)     -- store into an existing buffer
  | writeDict (i : Nat) (d : Dict)         -- mutate an existing dict
  | setFill (m : Nat)                      -- `model.fill_value = np.nan`
  | setZ (o : Nat) (zs : ZState K)         -- `_z`, `_z_type`, `_redshift_model`, `_redshift_flux_model`
  | setMeta (o : Nat) (m : Meta)
  | setNpErr (g : NpErr)

/-- the location an effect overwrites (`none`: it only allocates) -/
def Effect.loc : Effect K → Option Loc
  | .allocArr _ | .allocTable _ | .allocObj _ => none
  | .writeArr i _ => some (.arr i)
  | .writeDict i _ => some (.dict i)
  | .setFill m => some (.table m)
  | .setZ o _ => some (.objZ o)
  | .setMeta o _ => some (.objMeta o)
  | .setNpErr _ => some .npErr

def Effect.isAlloc : Effect K → Bool
  | .allocArr _ | .allocTable _ | .allocObj _ => true
  | _ => false

def Heap.apply (h : Heap K) : Effect K → Heap K
  | .allocArr c => { h with arrays := h.arrays ++ [c] }
  | .allocTable t => { h with tables := h.tables ++ [t] }
  | .allocObj o => { h with objs := h.objs ++ [o] }
  | .writeArr i d => { h with arrays := upd h.arrays i fun c => { c with data := d } }
  | .writeDict i d => { h with dicts := upd h.dicts i fun _ => d }
  | .setFill m => { h with tables := upd h.tables m fun t => { t with fillNaN := true } }
  | .setZ o zs => { h with objs := upd h.objs o fun ob => { ob with zs := zs } }
  | .setMeta o m => { h with objs := upd h.objs o fun ob => { ob with md := m } }
  | .setNpErr g => { h with npErr := g }

def Heap.applyAll (h : Heap K) (es : List (Effect K)) : Heap K := es.foldl Heap.apply h

/-- the locations a list of effects overwrites -/
def writeSet (es : List (Effect K)) : List Loc := es.filterMap Effect.loc

/-! ### reading objects -/

/-- the table an `Empirical1D` instance presents: its views resolved through the array cells; and the
number filled in outside it -/
def Heap.table (h : Heap K) (m : Nat) : Option (Table K × K) := do
  let c ← h.tables[m]?
  let x ← h.arrays[c.pts]?
  let y ← h.arrays[c.vals]?
  pure ({ pts := if c.rev then x.data.reverse else x.data,
          vals := if c.rev then y.data.reverse else y.data,
          keepNeg := c.keepNeg, fillNaN := c.fillNaN }, c.fillVal)

/-- `Empirical1D.evaluate` with an arbitrary `fill_value`: inside the table, and outside it when
`fill_value is np.nan`, `Table.eval`; otherwise `interpn` fills in the number given to the constructor,
which then goes through `_process_neg_flux` like every other value -/
def tabEval (t : Table K) (fillVal x : K) : K :=
  if (x < t.pts.headD 0 ∨ x > t.pts.getLastD 0) ∧ t.fillNaN = false then
    (if t.keepNeg then fillVal else (if fillVal < 0 then 0 else fillVal))
  else t.eval x

/-- what evaluation needs from outside: constants, transcendental functions, Planck's law
(photon radiance at temperature `T` and wavelength `x`; C16's subject) -/
structure HEnv (K : Type) where
  E : Env K
  planck : K → K → K

def HTree.eval (env : HEnv K) (h : Heap K) : HTree K → K → Except Err K
  | .tab m, x => match h.table m with
      | some (t, c) => .ok (tabEval t c x)
      | none => .error .lookupError
  | .ana l, x => l.eval env.E x
  | .bb temp, x => if temp < 0 then .error .valueError else .ok (env.planck temp x)
  | .bin op l r, x => do
      let a ← l.eval env h x
      let b ← r.eval env h x
      op.apply a b
  | .scale m k, x => do
      let a ← m.eval env h x
      pure (a * k)
  | .redshift z m, x => m.eval env h (x / (1 + z))

/-- does evaluation reach a `BlackBody1D` whose temperature `blackbody_nu` rejects
(`np.any(temp < 0)` → `ValueError`) -/
def HTree.hasBadBB : HTree K → Bool
  | .tab _ | .ana _ => false
  | .bb temp => decide (temp < 0)
  | .bin _ l r => l.hasBadBB || r.hasBadBB
  | .scale m _ => m.hasBadBB
  | .redshift _ m => m.hasBadBB

/-- table cells a tree refers to -/
def HTree.tables : HTree K → List Nat
  | .tab m => [m]
  | .ana _ | .bb _ => []
  | .bin _ l r => l.tables ++ r.tables
  | .scale m _ => m.tables
  | .redshift _ m => m.tables

/-- `isinstance(self._model, Empirical1D)` -/
def HTree.rootTab? : HTree K → Option Nat
  | .tab m => some m
  | _ => none

inductive WS | undefined | bad | defined
  deriving DecidableEq, Repr

/-- does the analytic model define a sampling set -/
def leafHasWaveset : Leaf K → Bool
  | .table _ | .box .. | .trapezoid .. | .gaussian .. | .lorentz .. | .ricker .. => true
  | .extinction _ | .const1 _ | .constFlux .. | .powerLaw .. => false

/-- state of `waveset`: undefined (`None`), raising (a black body of non-positive temperature makes
`sampleset` all-NaN, which `validate_wavelengths` refuses with `UnsortedWavelength`), or defined -/
def HTree.ws : HTree K → WS
  | .tab _ => .defined
  | .ana l => if leafHasWaveset l then .defined else .undefined
  | .bb temp => if temp ≤ 0 then .bad else .defined
  | .bin _ l r =>
      match l.ws, r.ws with
      | .bad, _ | _, .bad => .bad
      | .undefined, .undefined => .undefined
      | _, _ => .defined
  | .scale m _ => m.ws
  | .redshift _ m => m.ws

/-- the `model` property: `_model` behind the redshift of a `SourceSpectrum` -/
def Obj.model (o : Obj K) : Except Err (HTree K) :=
  match o.kind with
  | .source =>
      if o.zs.z = 0 then .ok o.tree
      else match o.zs.zType with
        | .wavelengthOnly => .ok (.redshift o.zs.z o.tree)
        | .conserveFlux => match o.zs.fluxScale with
            | some k => .ok (.scale (.redshift o.zs.z o.tree) k)
            | none => .error .typeError
  | _ => .ok o.tree

/-- NumPy evaluates a compound model on the whole array: a raising black body raises whatever the
other operands produce (a division by zero elsewhere is only a NaN *value*) -/
def sampleTree (env : HEnv K) (h : Heap K) (t : HTree K) (xs : List K) : Except Err (List K) :=
  if t.hasBadBB then .error .valueError else xs.mapM (t.eval env h)

/-- `obj(xs)` as a pure function of the store -/
def sample (env : HEnv K) (h : Heap K) (o : Nat) (xs : List K) : Except Err (List K) :=
  match h.objs[o]? with
  | none => .error .lookupError
  | some ob => do
      let t ← ob.model
      sampleTree env h t xs

/-- the sampling set of a compound model (`_model_tree_evaluate_sampleset`, models.py:785-851; the
analogue of `Tree.sampleset` on references): a table's own points, an analytic leaf's set (data),
a black body's set (`bbss`, data), the merge of both operands', unchanged by `Scale`, multiplied by
`1+z` under a redshift -/
def HTree.sampleset (thr : K) (bbss : K → Option (List K)) (h : Heap K) : HTree K → Option (List K)
  | .tab m => (h.table m).map fun t => t.1.pts
  | .ana l => l.sampleset
  | .bb temp => bbss temp
  | .bin _ l r => mergeWavelengths thr (l.sampleset thr bbss h) (r.sampleset thr bbss h)
  | .scale m _ => m.sampleset thr bbss h
  | .redshift z m => (m.sampleset thr bbss h).map fun w => w.map (· * (1 + z))

/-- the `waveset` property as a pure function of the store: computed from the object's **current**
model (current redshift, current tables) on every access; `none` is Python's `None` -/
def waveset (thr : K) (bbss : K → Option (List K)) (h : Heap K) (o : Nat) : Except Err (Option (List K)) :=
  match h.objs[o]? with
  | none => .error .lookupError
  | some ob => do
      let t ← ob.model
      if t.ws = .bad then .error .unsortedWavelength else
      match t.sampleset thr bbss h with
      | none => pure none
      | some w => do
          validateWavelengths w
          pure (some w)

/-- net effect on `np.geterr()` of evaluating a tree: `BlackBody1D.evaluate` switches everything to
`'ignore'` and restores the old settings after the computation; when `blackbody_nu` raises, the
restoring line is not reached (as found) / `np.errstate` restores (repaired) -/
def evalEffects (fx : Fixes) (t : HTree K) : List (Effect K) :=
  if t.hasBadBB && !fx.errstate then [.setNpErr .allIgnore] else []

/-! ### calls -/

/-- the `wavelengths` argument -/
inductive WaveArg (K : Type)
  | default                              -- `None`: use `waveset`
  | cell (i : Nat) (conv : List K)       -- a caller-owned array (`conv`: its values in Å when it is a
                                         -- Quantity in another unit)

/-- the keyword `fill_value=` of `Empirical1D` -/
inductive FillArg (K : Type)
  | default               -- not given: 0 for a table whose end values are 0, NaN (extrapolate) otherwise
  | nan                   -- `np.nan`: extrapolate
  | value (c : K)         -- a number: filled in outside the table, no extrapolation

inductive Force | none | extrap | taper | bogus
  deriving DecidableEq, Repr

/-- verdict of `SpectralElement.check_overlap` -/
inductive Overlap | full | partialMost | partialNotMost | none
  deriving DecidableEq, Repr

def Overlap.isPartial : Overlap → Bool
  | .partialMost | .partialNotMost => true
  | _ => false

inductive IntegType | default | trapezoid | analytical | bogus
  deriving DecidableEq, Repr

/-- right-hand operands of an operator -/
inductive Arg (K : Type)
  | obj (i : Nat)
  | real (v : K)
  | quantity (v : K)
  | bad (t : OTag)        -- dimensioned Quantity, complex, str, None, …

/-- data `taper` obtains by sampling: `x = waveset`, `y = self(x)`, and for a model that is not a
table whether `self(w1)`, `self(w2)` are non-zero -/
structure TaperData (K : Type) where
  xs : List K
  ys : List K
  front : Bool
  back : Bool

inductive Call (K : Type)
  /-- `cls(Empirical1D, points=x, lookup_table=y, keep_neg=…, meta=d)` with caller-owned `x`, `y`, `d`;
  `zi`: the keywords `z=…, z_type=…` of a `SourceSpectrum` (the constructor assigns `z_type`, then `z`,
  before it builds the model);
  `fill`: the keyword `fill_value=` -/
  | newEmpirical (kind : Kind) (x y : Nat) (xconv yconv : List K) (keepNeg : Bool) (md : Option Nat)
      (fill : FillArg K) (zi : Option (K × ZType))
  /-- `cls(Box1D | ConstFlux1D | Gaussian1D | …, parameters)` -/
  | newAnalytic (kind : Kind) (l : Leaf K) (zi : Option (K × ZType))
  /-- `SourceSpectrum(BlackBody1D, temperature=T)`; `label`: the text `'bb({0})'.format(T)` the model
  class stores as `meta['expr']` -/
  | newBlackBody (temp : K) (label : String) (zi : Option (K × ZType))
  /-- `obj(w)` -/
  | sample (o : Nat) (w : Nat) (conv : List K)
  /-- `a <op> b` (left operand not an `Observation`) -/
  | arith (op : BinOp) (a : Nat) (b : Arg K)
  /-- `v * a` for a plain number -/
  | rmul (v : K) (a : Nat)
  /-- `o.normalize(value, band=band, force=force)` -/
  | normalize (o band : Nat) (force : Bool) (stat : Overlap) (k : K) (numErr : Option Err)
  /-- `o.taper()` -/
  | taper (o : Nat) (d : TaperData K)
  /-- `Observation(src, band, binset=…, force=…)` -/
  | observation (src band : Nat) (force : Force) (stat : Overlap) (binset : Option (Nat × List K))
      (d : TaperData K) (numErr : Option Err)
  /-- `o.integrate(wavelengths=w, integration_type=t)` -/
  | integrate (o : Nat) (w : WaveArg K) (t : IntegType) (numErr : Option Err)
  /-- any other parameter query that resolves its wavelengths, samples the object and does
  arithmetic: `avgwave`, `pivot`, `barlam`, `tpeak`, `equivwidth`, `efficiency`, `unit_response`,
  `countrate`, `effstim`, … -/
  | query (o : Nat) (w : WaveArg K) (numErr : Option Err)
  /-- `o.to_fits(filename, wavelengths=w, ext_header=d)`; `ioErr`: `write_fits_spec` failed -/
  | toFits (o : Nat) (w : WaveArg K) (extHeader : Option Nat) (ioErr : Option Err)
  /-- module-level helpers on caller-owned arrays and dicts: `units.convert_flux`,
  `utils.validate_wavelengths`, `utils.merge_wavelengths`, `binning.calculate_bin_edges`,
  `specio.write_fits_spec(..., pri_header=d1, ext_header=d2)` -/
  | utility (arrs dicts : List Nat) (out : Option Err)
  -- the documented in-place mutators
  | setZ (o : Nat) (z : K)
  | setZBad (o : Nat)
  | setZType (o : Nat) (t : ZType)
  | setZTypeBad (o : Nat)
  | forceExtrap (o : Nat)
  | setWarnings (o : Nat) (w : Dict)
  | setMeta (o : Nat) (k v : String)

inductive Res (K : Type)
  | none
  | obj (i : Nat)             -- a spectrum object (new, or `self` returned by `taper`)
  | objs (i j : Nat)          -- `Observation(force='taper')`: the tapered source and the observation
  | vals (v : List K)
  | flag (b : Bool)

inductive Outcome (K : Type)
  | ok (r : Res K)
  | err (e : Err)

/-! ### the calls, one by one -/

/-- the numbers the library sees in a caller-owned array -/
def cellData (c : ArrCell K) (conv : List K) : List K :=
  if c.container = .quantityOther then conv else c.data

/-- `_validate_wavelengths(wave)` -/
def resolveWaves (h : Heap K) (t : HTree K) : WaveArg K → Except Err Unit
  | .default =>
      match t.ws with
      | .undefined => .error .synphotError
      | .bad => .error .unsortedWavelength
      | .defined => .ok ()
  | .cell i conv =>
      match h.arrays[i]? with
      | none => .error .lookupError
      | some c => validateWavelengths (cellData c conv)

def freshObj (kind : Kind) (t : HTree K) (m : Meta) : Obj K :=
  { kind := kind, tree := t, zs := ZState.init 0 .wavelengthOnly, md := m }

/-- a new object whose constructor was given `z=`, `z_type=` (honoured by `SourceSpectrum` only) -/
def freshObjZ (kind : Kind) (t : HTree K) (m : Meta) (zi : Option (K × ZType)) : Obj K :=
  { kind := kind, tree := t,
    zs := (match kind, zi with
      | .source, some (z, zt) => ZState.init z zt
      | _, _ => ZState.init 0 .wavelengthOnly),
    md := m }

def negWarning (b : Bool) : Dict := if b then [("NegativeFlux", libText)] else []

/-- `Empirical1D.__init__` + `BaseSpectrum.__init__` on caller-owned arrays (models.py:336-404).

`x[-1] < x[0]` reverses both arrays as views; `_process_neg_flux` calls `np.asarray(y)` and stores
zeros through it: **into the caller's buffer** when `y` is a float ndarray or a Quantity in the
internal unit (as found); the repaired code copies `y` first when something has to be zeroed.
A one-point table then fails in `is_tapered` (`[::size-1]`, step 0 → `ValueError`) — after the
store. -/
def newEmpirical (fx : Fixes) (h : Heap K) (kind : Kind) (x y : Nat) (xconv yconv : List K)
    (keepNeg : Bool) (md : Option Nat) (fill : FillArg K) (zi : Option (K × ZType)) :
    List (Effect K) × Outcome K :=
  match h.arrays[x]?, h.arrays[y]? with
  | some cx, some cy =>
    let xd := cellData cx xconv
    let yd := cellData cy yconv
    if xd.isEmpty || yd.isEmpty then ([], .err .indexError) else
    let n := h.arrays.length
    let ex : List (Effect K) := if cx.container.aliased then [] else [.allocArr ⟨xd, .ndarray, false⟩]
    let xref := if cx.container.aliased then x else n
    let n1 := n + ex.length
    let neg := yd.any fun v => decide (v < 0)
    let doClip := !keepNeg && neg
    let clipped := (clipNeg false yd).1
    -- `old_x = x[i]` comes before the store: a negative entry beyond the end of a shorter `x`
    -- raises IndexError with nothing written
    if doClip && decide (xd.length < yd.length) &&
        ((yd.drop xd.length).any fun v => decide (v < 0)) then (ex, .err .indexError) else
    let yFinal := if doClip then clipped else yd
    let ey : List (Effect K) :=
      if cy.container.aliased then
        if doClip then
          (if fx.copyBeforeClip then [.allocArr ⟨clipped, .ndarray, false⟩] else [.writeArr y clipped])
        else []
      else [.allocArr ⟨yFinal, .ndarray, false⟩]
    let yref :=
      if cy.container.aliased then (if doClip && fx.copyBeforeClip then n1 else y) else n1
    if yd.length = 1 then (ex ++ ey, .err .valueError) else
    let tcell : TableCell K :=
      { pts := xref, vals := yref, rev := isDesc xd, keepNeg := keepNeg,
        -- tapered: `kwargs.get('fill_value', 0)`, otherwise `kwargs.get('fill_value', np.nan)`
        fillNaN := (match fill with
          | .default => !endsZero yFinal
          | .nan => true
          | .value _ => false),
        fillVal := (match fill with
          | .value c => c
          | _ => 0) }
    let entries : Dict := match md with
      | some d => (h.dicts[d]?).getD []
      | none => []
    let ob := freshObjZ kind (.tab h.tables.length) ⟨negWarning doClip, entries⟩ zi
    (ex ++ ey ++ [.allocTable tcell, .allocObj ob], .ok (.obj h.objs.length))
  | _, _ => ([], .err .lookupError)

/-- resolved right-hand operand -/
inductive ArgV (K : Type)
  | obj (o : Obj K)
  | real (v : K)
  | quantity (v : K)
  | bad (t : OTag)

def ArgV.tag : ArgV K → OTag
  | .obj o => .spec o.kind
  | .real _ => .real
  | .quantity _ => .quantity
  | .bad t => t

def ArgV.md : ArgV K → Meta
  | .obj o => o.md
  | _ => Meta.empty

/-- the compound model an operator builds (the analogue of `Synphot.resultTree` on references) -/
def arithTree (op : BinOp) (A : Obj K) : ArgV K → Except Err (HTree K)
  | .real v | .quantity v =>
      match op with
      | .mul => do
          let m ← A.model
          pure (.scale m v)
      | .div => do
          let m ← A.model
          if v = 0 then .error .zeroDivision else pure (.scale m (1 / v))
      | _ => .error .incompatibleSources
  | .obj B =>
      if A.kind.isUnitless ∧ B.kind = .source then do
        let mb ← B.model
        let ma ← A.model
        pure (.bin op mb ma)
      else do
        let ma ← A.model
        let mb ← B.model
        pure (.bin op ma mb)
  | .bad _ => .error .incompatibleSources

/-- metadata of an operator's result: `_merge_meta(self, other, result)` — deep copies of both
operands' metadata, `'header'` and `'expr'` removed, right operand wins
(`unitless * source` is evaluated as `source * unitless`) -/
def arithMeta (A : Obj K) (b : ArgV K) : Meta :=
  match b with
  | .obj B =>
      if A.kind.isUnitless ∧ B.kind = .source then Meta.merge B.md.clean A.md.clean
      else Meta.merge A.md.clean B.md.clean
  | _ => Meta.merge A.md.clean Meta.empty

def resolveArg (h : Heap K) : Arg K → Option (ArgV K)
  | .obj i => (h.objs[i]?).map .obj
  | .real v => some (.real v)
  | .quantity v => some (.quantity v)
  | .bad t => some (.bad t)

/-- `a <op> b`: a new object, nothing else.  (`Observation.__mul__` re-enters the constructor; in
histories it is written as `arith` on `obs.spectrum` followed by `observation`.) -/
def arith (h : Heap K) (op : BinOp) (a : Nat) (b : Arg K) : List (Effect K) × Outcome K :=
  match h.objs[a]?, resolveArg h b with
  | some A, some bv =>
      if A.kind = .observation then ([], .err .notImplemented) else
      match typing op A.kind bv.tag with
      | .error e => ([], .err e)
      | .ok k =>
          match arithTree op A bv with
          | .error e => ([], .err e)
          | .ok t => ([.allocObj (freshObj k t (arithMeta A bv))], .ok (.obj h.objs.length))
  | _, _ => ([], .err .lookupError)

/-- `force_extrapolation()` -/
def forceEffects (A : Obj K) : List (Effect K) :=
  match A.tree.rootTab? with
  | some m => [.setFill m]
  | none => []

/-- `normalize` (spectrum.py:937-1112): `check_overlap`, on the partial-overlap paths
`self.force_extrapolation()`, then integrals, then `self * const` with the warnings attached -/
def normalize (h : Heap K) (o band : Nat) (force : Bool) (stat : Overlap) (k : K)
    (numErr : Option Err) : List (Effect K) × Outcome K :=
  match h.objs[o]?, h.objs[band]? with
  | some A, some B =>
      if A.kind ≠ .source then ([], .err .notImplemented) else
      if B.kind ≠ .bandpass then ([], .err .synphotError) else
      match A.model with
      | .error e => ([], .err e)
      | .ok mA =>
        if mA.ws = .bad then ([], .err .unsortedWavelength) else
        match stat with
        | .none => ([], .err .disjointError)
        | .full =>
            match numErr with
            | some e => ([], .err e)
            | none => ([.allocObj (freshObj .source (.scale mA k) (Meta.merge A.md.clean Meta.empty))],
                       .ok (.obj h.objs.length))
        | _ =>
            if stat = .partialNotMost ∧ ¬ force then ([], .err .partialOverlap) else
            let es := forceEffects A
            match numErr with
            | some e => (es, .err e)
            | none =>
                let m := (Meta.merge A.md.clean Meta.empty).addWarnings [("PartialRenorm", libText)]
                (es ++ [.allocObj (freshObj .source (.scale mA k) m)], .ok (.obj h.objs.length))
  | _, _ => ([], .err .lookupError)

/-- first and last value of the table at the root, in table order -/
def rootEnds (h : Heap K) (A : Obj K) : Option (K × K × Bool) :=
  match A.tree.rootTab? with
  | some m => match h.table m with
      | some (t, _) => some (t.vals.headD 0, t.vals.getLastD 0, t.keepNeg)
      | none => none
  | none => none

/-- which ends `taper` extends (`y1 != 0`, `y2 != 0`) and the `keep_neg` flag it passes on: read
from the table when the model is one, otherwise from two extra samples -/
def taperEnds (h : Heap K) (A : Obj K) (d : TaperData K) : Bool × Bool × Bool :=
  match rootEnds h A with
  | some (y1, y2, kn) => (decide (y1 ≠ 0), decide (y2 ≠ 0), kn)
  | none => (d.front, d.back, true)      -- anything that is not a table keeps what it samples (`keep_neg=True`)

/-- new arrays, a new `Empirical1D` built with the table's own `keep_neg`, a new object whose
metadata starts empty -/
def taperBuild (A : Obj K) (d : TaperData K) (front back keep : Bool) (nArr nTab : Nat) :
    List (Effect K) × Obj K :=
  let x0 := d.xs.headD 0
  let x1 := (d.xs.drop 1).headD 0
  let xl := d.xs.getLastD 0
  let xl2 := d.xs.dropLast.getLastD 0
  let xa := if front then x0 ^ 2 / x1 :: d.xs else d.xs
  let ya := if front then (0 : K) :: d.ys else d.ys
  let xb := if back then xa ++ [xl ^ 2 / xl2] else xa
  let yb := if back then ya ++ [0] else ya
  let yc := clipNeg keep yb
  let tcell : TableCell K :=
    { pts := nArr, vals := nArr + 1, rev := false, keepNeg := keep, fillNaN := !endsZero yc.1, fillVal := 0 }
  ([.allocArr ⟨xb, .ndarray, false⟩, .allocArr ⟨yc.1, .ndarray, false⟩, .allocTable tcell],
   freshObj A.kind (.tab nTab) ⟨negWarning yc.2, []⟩)

/-- the effects of `A.taper()` given its samples, and the tapered object
(`none`: both end values already zero, `self` is returned) -/
def taperCore (h : Heap K) (A : Obj K) (d : TaperData K) (nArr nTab : Nat) :
    Option (List (Effect K) × Obj K) :=
  let e := taperEnds h A d
  if !e.1 && !e.2.1 then none else some (taperBuild A d e.1 e.2.1 e.2.2 nArr nTab)

def taper (h : Heap K) (o : Nat) (d : TaperData K) : List (Effect K) × Outcome K :=
  match h.objs[o]? with
  | none => ([], .err .lookupError)
  | some A =>
      if A.kind = .observation then ([], .err .notImplemented) else
      match A.model with
      | .error e => ([], .err e)
      | .ok mA =>
        match mA.ws with
        | .undefined => ([], .err .synphotError)
        | .bad => ([], .err .unsortedWavelength)
        | .defined =>
          if d.xs.length < 2 then ([], .err .indexError) else
          match taperCore h A d h.arrays.length h.tables.length with
          | none => ([], .ok (.obj o))
          | some (es, ob) => (es ++ [.allocObj ob], .ok (.obj h.objs.length))

/-- `Observation.__init__` (observation.py:77-205): admission by `check_overlap`; `force='extrap'`
calls `spec.force_extrapolation()` (a documented mutation of the caller's source), `force='taper'`
replaces the source by a tapered copy; then the composite, its metadata, and the bins.  A failure
in `_init_bins` comes after the forced extrapolation. -/
def observation (h : Heap K) (src band : Nat) (force : Force) (stat : Overlap)
    (binset : Option (Nat × List K)) (d : TaperData K) (numErr : Option Err) :
    List (Effect K) × Outcome K :=
  match h.objs[src]?, h.objs[band]? with
  | some S, some B =>
      if S.kind ≠ .source then ([], .err .synphotError) else
      if B.kind ≠ .bandpass then ([], .err .synphotError) else
      match S.model with
      | .error e => ([], .err e)
      | .ok mS =>
        if mS.ws = .bad then ([], .err .unsortedWavelength) else
        -- admission: effects so far, the source actually used (id, object), warning
        let adm : Except Err (List (Effect K) × Nat × Obj K × Dict × Bool) :=
          match stat with
          | .none => .error .disjointError
          | .full => .ok ([], src, S, [], false)
          | _ =>
              match force with
              | .none => .error .partialOverlap
              | .bogus => .error .synphotError
              | .extrap => .ok (forceEffects S, src, S, [("PartialOverlap", libText)], false)
              | .taper =>
                  if d.xs.length < 2 then .error .indexError else
                  match taperCore h S d h.arrays.length h.tables.length with
                  | none => .ok ([], src, S, [("PartialOverlap", libText)], false)
                  | some (es, ob) =>
                      .ok (es ++ [.allocObj ob], h.objs.length, ob, [("PartialOverlap", libText)], true)
        match adm with
        | .error e => ([], .err e)
        | .ok (es, sid, S', warn, tapered) =>
          let persist := es.filter fun e => !e.isAlloc      -- what survives a later exception
          match S'.model with
          | .error e => (persist, .err e)
          | .ok mS' =>
            let bins : Except Err Unit :=
              match binset with
              | some (i, conv) => match h.arrays[i]? with
                  | none => .error .lookupError
                  | some c => validateWavelengths (cellData c conv)
              | none =>
                  if B.tree.ws = .defined then .ok ()
                  else if mS'.ws = .defined then .ok ()
                  else .error .undefinedBinset
            match bins, numErr with
            | .error e, _ => (persist, .err e)
            | .ok (), some e => (persist, .err e)
            | .ok (), none =>
                let m := (Meta.merge S'.md.clean B.md.clean).addWarnings warn
                let ob : Obj K :=
                  { kind := .observation, tree := .bin .mul mS' B.tree,
                    zs := ZState.init 0 .wavelengthOnly, md := m, spec := some sid, band := some band }
                let oid := if tapered then h.objs.length + 1 else h.objs.length
                (es ++ [.allocObj ob], .ok (if tapered then .objs sid oid else .obj oid))
  | _, _ => ([], .err .lookupError)

/-- does the model class define `integrate` (everything but `Empirical1D`, astropy's `Const1D`
and compound models) -/
def hasIntegrate : HTree K → Bool
  | .bb _ => true
  | .ana (.const1 _) => false
  | .ana (.table _) | .ana (.extinction _) => false
  | .ana _ => true
  | _ => false

/-- `integrate` (spectrum.py:416-538): wavelengths, integrator choice (reads
`conf.default_integrator`), then either samples the object (trapezoid) or calls the model's closed
form (no sampling) -/
def integrate (fx : Fixes) (h : Heap K) (o : Nat) (w : WaveArg K) (t : IntegType)
    (numErr : Option Err) : List (Effect K) × Outcome K :=
  match h.objs[o]? with
  | none => ([], .err .lookupError)
  | some A =>
      match A.model with
      | .error e => ([], .err e)
      | .ok mA =>
        match resolveWaves h mA w with
        | .error e => ([], .err e)
        | .ok () =>
          let t' : IntegType := match t with
            | .default => (match h.integrator with | .trapezoid => .trapezoid | .analytical => .analytical)
            | x => x
          let t'' : IntegType := if t' = .analytical ∧ ¬ hasIntegrate mA then .trapezoid else t'
          match t'' with
          | .bogus | .default => ([], .err .notImplemented)
          | .analytical => ([], match numErr with | some e => .err e | none => .ok .none)
          | .trapezoid =>
              if mA.hasBadBB then (evalEffects fx mA, .err .valueError)
              else ([], match numErr with | some e => .err e | none => .ok .none)

/-- a query that samples: wavelengths, evaluation, arithmetic -/
def query (fx : Fixes) (h : Heap K) (o : Nat) (w : WaveArg K) (numErr : Option Err) :
    List (Effect K) × Outcome K :=
  match h.objs[o]? with
  | none => ([], .err .lookupError)
  | some A =>
      match A.model with
      | .error e => ([], .err e)
      | .ok mA =>
        match resolveWaves h mA w with
        | .error e => ([], .err e)
        | .ok () =>
          if mA.hasBadBB then (evalEffects fx mA, .err .valueError)
          else ([], match numErr with | some e => .err e | none => .ok .none)

/-- canonical form of the card `(self.meta['expr'], 'synphot expression')` -/
def exprCard (e : String) : String := "[" ++ e ++ ", \"synphot expression\"]"

/-- the cards `to_fits` adds to the extension header -/
def fitsKeys (m : Meta) : Dict :=
  [("tdisp1", "\"G15.7\""), ("tdisp2", "\"G15.7\"")] ++
    (match m.entries.lookup "expr" with
     | some e => [("expr", exprCard e)]
     | none => [])

/-- `to_fits` (spectrum.py:1303-1351, 1895-1931; reddening.py:93-135): samples the object, then
`kwargs['ext_header'].update(bkeys)` — **on the caller's dictionary** (as found) / on a copy
(repaired) — then `write_fits_spec`, whose failure (existing file, …) comes after the update -/
def toFits (fx : Fixes) (h : Heap K) (o : Nat) (w : WaveArg K) (extHeader : Option Nat)
    (ioErr : Option Err) : List (Effect K) × Outcome K :=
  match h.objs[o]? with
  | none => ([], .err .lookupError)
  | some A =>
      if A.kind ≠ .source ∧ A.kind ≠ .bandpass ∧ A.kind ≠ .reddening then ([], .err .typeError) else
      match A.model with
      | .error e => ([], .err e)
      | .ok mA =>
        match resolveWaves h mA w with
        | .error e => ([], .err e)
        | .ok () =>
          if mA.hasBadBB then (evalEffects fx mA, .err .valueError) else
          let es : List (Effect K) :=
            match extHeader with
            | none => []
            | some d =>
                if fx.copyExtHeader then []
                else match h.dicts[d]? with
                  | some dd => [.writeDict d (dd.update (fitsKeys A.md))]
                  | none => []
          (es, match ioErr with | some e => .err e | none => .ok .none)

/-- the `z` setter: a `SourceSpectrum` property; on any other class the assignment creates an
attribute nobody reads -/
def setZ (h : Heap K) (o : Nat) (z : K) : List (Effect K) × Outcome K :=
  match h.objs[o]? with
  | none => ([], .err .lookupError)
  | some A => if A.kind = .source then ([.setZ o (A.zs.setZ z)], .ok .none) else ([], .ok .none)

def setZBad (h : Heap K) (o : Nat) : List (Effect K) × Outcome K :=
  match h.objs[o]? with
  | none => ([], .err .lookupError)
  | some A => if A.kind = .source then ([], .err .synphotError) else ([], .ok .none)

def setZType (h : Heap K) (o : Nat) (t : ZType) : List (Effect K) × Outcome K :=
  match h.objs[o]? with
  | none => ([], .err .lookupError)
  | some A => if A.kind = .source then ([.setZ o (A.zs.setZType t)], .ok .none) else ([], .ok .none)

def forceExtrap (h : Heap K) (o : Nat) : List (Effect K) × Outcome K :=
  match h.objs[o]? with
  | none => ([], .err .lookupError)
  | some A => (forceEffects A, .ok (.flag A.tree.rootTab?.isSome))

def setWarnings (h : Heap K) (o : Nat) (w : Dict) : List (Effect K) × Outcome K :=
  match h.objs[o]? with
  | none => ([], .err .lookupError)
  | some A => ([.setMeta o (A.md.addWarnings w)], .ok .none)

def setMeta (h : Heap K) (o : Nat) (k v : String) : List (Effect K) × Outcome K :=
  match h.objs[o]? with
  | none => ([], .err .lookupError)
  | some A => ([.setMeta o { A.md with entries := A.md.entries.set k v }], .ok .none)

def sampleCall (fx : Fixes) (env : HEnv K) (h : Heap K) (o w : Nat) (conv : List K) :
    List (Effect K) × Outcome K :=
  match h.objs[o]?, h.arrays[w]? with
  | some A, some c =>
      let xs := cellData c conv
      match validateWavelengths xs with
      | .error e => ([], .err e)
      | .ok () =>
        match A.model with
        | .error e => ([], .err e)
        | .ok mA =>
            (evalEffects fx mA, match sampleTree env h mA xs with
              | .ok v => .ok (.vals v)
              | .error e => .err e)
  | _, _ => ([], .err .lookupError)

/-- **the effects of a call, computed from the pre-state**, and its outcome -/
def effects (fx : Fixes) (env : HEnv K) (h : Heap K) : Call K → List (Effect K) × Outcome K
  | .newEmpirical kind x y xc yc keep md f0 zi => newEmpirical fx h kind x y xc yc keep md f0 zi
  | .newAnalytic kind l zi =>
      ([.allocObj (freshObjZ kind (.ana l) Meta.empty zi)], .ok (.obj h.objs.length))
  | .newBlackBody temp label zi =>
      ([.allocObj (freshObjZ .source (.bb temp) ⟨[], [("expr", label)]⟩ zi)], .ok (.obj h.objs.length))
  | .sample o w conv => sampleCall fx env h o w conv
  | .arith op a b => arith h op a b
  | .rmul v a => arith h .mul a (.real v)
  | .normalize o band force stat k numErr => normalize h o band force stat k numErr
  | .taper o d => taper h o d
  | .observation src band force stat binset d numErr => observation h src band force stat binset d numErr
  | .integrate o w t numErr => integrate fx h o w t numErr
  | .query o w numErr => query fx h o w numErr
  | .toFits o w d ioErr => toFits fx h o w d ioErr
  | .utility _ _ out => ([], match out with | some e => .err e | none => .ok .none)
  | .setZ o z => setZ h o z
  | .setZBad o => setZBad h o
  | .setZType o t => setZType h o t
  | .setZTypeBad o => setZBad h o
  | .forceExtrap o => forceExtrap h o
  | .setWarnings o w => setWarnings h o w
  | .setMeta o k v => setMeta h o k v

/-- an API call as a function of the store -/
def step (fx : Fixes) (env : HEnv K) (h : Heap K) (c : Call K) : Heap K × Outcome K :=
  let r := effects fx env h c
  (h.applyAll r.1, r.2)

/-- what a call overwrites -/
def writes (fx : Fixes) (env : HEnv K) (h : Heap K) (c : Call K) : List Loc :=
  writeSet (effects fx env h c).1

/-- a history -/
def run (fx : Fixes) (env : HEnv K) (h : Heap K) : List (Call K) → Heap K
  | [] => h
  | c :: cs => run fx env (step fx env h c).1 cs

/-- everything the calls of a history overwrite, each in the state it is made in -/
def writesAlong (fx : Fixes) (env : HEnv K) (h : Heap K) : List (Call K) → List Loc
  | [] => []
  | c :: cs => writes fx env h c ++ writesAlong fx env (step fx env h c).1 cs

/-! ### the documented write-sets -/

/-- the table cell `force_extrapolation` re-assigns -/
def forceLocs (h : Heap K) (o : Nat) : List Loc :=
  match h.objs[o]? with
  | some A => (match A.tree.rootTab? with | some m => [.table m] | none => [])
  | none => []

/-- **what the documentation says a call may modify in place**: the redshift attributes by
assignment, the extrapolation behaviour of the underlying model by `force_extrapolation()`, by
`normalize` where it proceeds on a partial overlap (`partial_most`, or `partial_notmost` with
`force=True`; a refused call writes nothing) and by `Observation(force='extrap')`, the metadata by
assignment.  Every other call: nothing. -/
def documented (h : Heap K) : Call K → List Loc
  | .setZ o _ | .setZType o _ => [.objZ o]
  | .forceExtrap o => forceLocs h o
  | .setWarnings o _ | .setMeta o _ _ => [.objMeta o]
  | .normalize o _ force stat _ _ =>
      -- only where renormalisation *proceeds* on a partial overlap; a refused call writes nothing
      if stat.isPartial ∧ ¬ (stat = .partialNotMost ∧ ¬ force) then forceLocs h o else []
  | .observation src _ force stat _ _ _ => if stat.isPartial ∧ force = .extrap then forceLocs h src else []
  | _ => []

/-- does sampling object `o` reach a black body that raises -/
def objHasBadBB (h : Heap K) (o : Nat) : Bool :=
  match h.objs[o]? with
  | some A => (match A.model with | .ok m => m.hasBadBB | .error _ => false)
  | none => false

/-- `np.geterr()` when sampling `o` skips the restoring `np.seterr` -/
def errLocs (fx : Fixes) (h : Heap K) (o : Nat) : List Loc :=
  if !fx.errstate && objHasBadBB h o then [.npErr] else []

/-- **the undocumented writes** of the code selected by `fx` (empty for `Fixes.repaired`):
the caller's `lookup_table` buffer, the caller's `ext_header`, `np.geterr()` -/
def hidden (fx : Fixes) (h : Heap K) : Call K → List Loc
  | .newEmpirical _ _ y _ _ keep _ _ _ =>
      if !fx.copyBeforeClip && !keep then
        match h.arrays[y]? with
        | some cy => if cy.container.aliased && cy.data.any (fun v => decide (v < 0)) then [.arr y] else []
        | none => []
      else []
  | .toFits o _ d _ =>
      (match d with
       | some d => if !fx.copyExtHeader then [.dict d] else []
       | none => []) ++ errLocs fx h o
  | .sample o _ _ | .integrate o _ _ _ | .query o _ _ => errLocs fx h o
  | _ => []

def documentedAlong (fx : Fixes) (env : HEnv K) (h : Heap K) : List (Call K) → List Loc
  | [] => []
  | c :: cs => documented h c ++ documentedAlong fx env (step fx env h c).1 cs

def hiddenAlong (fx : Fixes) (env : HEnv K) (h : Heap K) : List (Call K) → List Loc
  | [] => []
  | c :: cs => hidden fx h c ++ hiddenAlong fx env (step fx env h c).1 cs

/-- the locations sampling an object reads -/
def reads (h : Heap K) (o : Nat) : List Loc :=
  match h.objs[o]? with
  | none => []
  | some ob =>
      [.objModel o, .objZ o] ++ ob.tree.tables.flatMap fun m =>
        .table m :: (match h.tables[m]? with
          | some c => [.arr c.pts, .arr c.vals]
          | none => [])

end Synphot.HeapModel
