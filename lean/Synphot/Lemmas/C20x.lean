/-
  Helper lemmas for the deepened C20 theorems (model: `Synphot/Core/FFT.lean`): minimum / maximum and the
  rescaling depend on the entries only (reversal), strictly ascending sampled wavelengths (first point,
  positive steps, median), the analytic model unfolded on a valid grid, the entries of the interpolated
  curve on the simplified grid.
-/
import Synphot.Lemmas.FFT

set_option linter.unusedSectionVars false
set_option linter.unusedVariables false

namespace Synphot.C20x
open Synphot Synphot.FFT
variable {K : Type} [Field K] [LinearOrder K] [IsStrictOrderedRing K]

/-! ### minimum / maximum depend on the entries only -/

theorem listMin_congr_mem {l l' : List K} (h : ∀ x, x ∈ l ↔ x ∈ l') : listMin l = listMin l' := by
  cases l with
  | nil =>
    cases l' with
    | nil => rfl
    | cons b t => exact absurd ((h b).mpr List.mem_cons_self) (by simp)
  | cons a t =>
    obtain ⟨m, hm⟩ := listMin_isOk (l := a :: t) (by simp)
    obtain ⟨h1, h2⟩ := listMin_spec hm
    rw [hm]
    exact (listMin_eq_of ((h m).mp h1) (fun x hx => h2 x ((h x).mpr hx))).symm

theorem listMax_congr_mem {l l' : List K} (h : ∀ x, x ∈ l ↔ x ∈ l') : listMax l = listMax l' := by
  cases l with
  | nil =>
    cases l' with
    | nil => rfl
    | cons b t => exact absurd ((h b).mpr List.mem_cons_self) (by simp)
  | cons a t =>
    obtain ⟨m, hm⟩ := listMax_isOk (l := a :: t) (by simp)
    obtain ⟨h1, h2⟩ := listMax_spec hm
    rw [hm]
    exact (listMax_eq_of ((h m).mp h1) (fun x hx => h2 x ((h x).mpr hx))).symm

theorem listMin_reverse (l : List K) : listMin l.reverse = listMin l :=
  listMin_congr_mem (fun x => List.mem_reverse)

theorem listMax_reverse (l : List K) : listMax l.reverse = listMax l :=
  listMax_congr_mem (fun x => List.mem_reverse)

/-- the rescaling of a reversed array is the reversed rescaling -/
theorem rescale_reverse (v : List K) (p : K) : rescale v.reverse p = (rescale v p).map List.reverse := by
  unfold rescale
  rw [listMin_reverse, listMax_reverse]
  cases listMin v with
  | error e => rfl
  | ok lo =>
    cases listMax v with
    | error e => rfl
    | ok hi =>
      simp only [bind, Except.bind, pure, Except.pure]
      split_ifs
      · rfl
      · simp [Except.map, List.map_reverse]

/-! ### strictly ascending sampled wavelengths -/

theorem listMin_of_pairwise (a : K) (t : List K) (h : (a :: t).Pairwise (· < ·)) : listMin (a :: t) = .ok a := by
  apply listMin_eq_of List.mem_cons_self
  intro x hx
  rcases List.mem_cons.mp hx with rfl | hx
  · exact le_rfl
  · exact le_of_lt (List.rel_of_pairwise_cons h hx)

theorem diffs_pos : ∀ (l : List K), l.Pairwise (· < ·) → ∀ x ∈ diffs l, 0 < x := by
  intro l
  induction l with
  | nil => intro _ x hx; simp [diffs] at hx
  | cons a l ih =>
    cases l with
    | nil => intro _ x hx; simp [diffs] at hx
    | cons b l =>
      intro h x hx
      simp only [diffs, List.mem_cons] at hx
      rcases hx with rfl | hx
      · exact sub_pos.mpr (List.rel_of_pairwise_cons h (by simp))
      · exact ih (List.pairwise_cons.mp h).2 x hx

theorem diffs_length : ∀ (l : List K), (diffs l).length = l.length - 1 := by
  intro l
  induction l with
  | nil => rfl
  | cons a l ih =>
    cases l with
    | nil => rfl
    | cons b l => simp only [diffs, List.length_cons, ih]; omega

theorem median_isOk (l : List K) (h : l ≠ []) : ∃ m, median l = .ok m := by
  unfold median
  have hlen : (l.mergeSort (fun a b => decide (a ≤ b))).length = l.length := (List.mergeSort_perm _ _).length_eq
  have : l.length ≠ 0 := by intro h0; exact h (List.length_eq_zero_iff.mp h0)
  simp only [hlen]
  rw [if_neg this]
  split_ifs
  · exact ⟨_, rfl⟩
  · exact ⟨_, rfl⟩

theorem median_pos (l : List K) (m : K) (h : median l = .ok m) (hp : ∀ x ∈ l, 0 < x) : 0 < m := by
  unfold median at h
  have hperm : (l.mergeSort (fun a b => decide (a ≤ b))).Perm l := List.mergeSort_perm _ _
  have hmem : ∀ i, i < (l.mergeSort (fun a b => decide (a ≤ b))).length →
      0 < (l.mergeSort (fun a b => decide (a ≤ b))).getD i 0 := by
    intro i hi
    rw [List.getD_eq_getElem?_getD, List.getElem?_eq_getElem hi]
    exact hp _ (hperm.mem_iff.1 (List.getElem_mem _))
  dsimp only at h
  split_ifs at h with h0 h1
  · injection h with h; subst h; exact hmem _ (by omega)
  · injection h with h; subst h
    have ha := hmem ((l.mergeSort (fun a b => decide (a ≤ b))).length / 2 - 1) (by omega)
    have hb := hmem ((l.mergeSort (fun a b => decide (a ≤ b))).length / 2) (by omega)
    linarith

/-! ### the analytic model unfolded -/

theorem pyIndex_sw (N : ℕ) (a d : K) (k : ℕ) (hk : k < N) :
    pyIndex (simplifiedWavelength N a d) (k : ℤ) = .ok (a + (k : K) * d) := by
  unfold pyIndex
  have := sw_getElem? N a d k hk
  simp only [sw_length]
  rw [if_neg (by omega), if_neg (by omega)]
  simp [this]

/-- `analytical_model_from_fft(…)(xs)` on a valid grid: the sine series at `(x − λ₀)/Δ`, rescaled over the
evaluated array -/
theorem analyticEval_eq (T : Transc K) {N : ℕ} (hN : 2 ≤ N) (lam0 : K) {delta : K} (hd : 0 < delta) (trMax : K)
    (params : List (K × K)) (hne : params ≠ []) (xs : List K) :
    analyticEval T N lam0 delta trMax params xs =
      rescale (xs.map fun x => analyticM T N params ((x - lam0) / delta)) trMax := by
  unfold analyticEval
  rw [if_neg hd.ne']
  dsimp only
  rw [listMin_sw N (by omega) lam0 hd]
  have h1 := pyIndex_sw N lam0 delta 1 (by omega)
  have h0 := pyIndex_sw N lam0 delta 0 (by omega)
  have hemp : params.isEmpty = false := by
    cases params with
    | nil => exact absurd rfl hne
    | cons _ _ => rfl
  simp only [Nat.cast_one, Nat.cast_zero] at h1 h0
  simp only [bind, Except.bind, h1, h0, hemp, Bool.false_eq_true, if_false]
  have e : lam0 + (1 : K) * delta - (lam0 + (0 : K) * delta) = delta := by ring
  rw [e]

/-! ### the interpolated curve on the simplified grid has the entries of the sampled curve -/

theorem mem_interp_iff (bp : K → K) (n : ℕ) (hn : 0 < n) (a d : K) (N : ℕ) (hN : n ≤ N) (y : K) :
    y ∈ (List.range N).map (fun k => bp (a + ((min k (n - 1) : ℕ) : K) * d)) ↔
      y ∈ (simplifiedWavelength n a d).map bp := by
  constructor
  · intro hy
    obtain ⟨k, _, rfl⟩ := List.mem_map.1 hy
    exact List.mem_map.2 ⟨_, sw_mem.2 ⟨min k (n - 1), by omega, rfl⟩, rfl⟩
  · intro hy
    obtain ⟨x, hx, rfl⟩ := List.mem_map.1 hy
    obtain ⟨k, hk, rfl⟩ := sw_mem.1 hx
    refine List.mem_map.2 ⟨k, List.mem_range.2 (by omega), ?_⟩
    rw [min_eq_left (by omega)]

end Synphot.C20x
