"""C05  Redshift maps wavelength (and optionally flux) exactly, in any setter order."""
import math
from fractions import Fraction as F

from ..core import NP as np

from .. import core, objects as O
from ..core import q, qs, guarded, same, unq

ZS = [F(0), F(1, 8), F(1, 2), F(1), F(3), F(7), F(20), F(-1, 4), F(-1, 2), F(-7, 8)]
# for profiles with jumps (box) the sample points sit exactly on the jump: only redshifts with 1+z a power of two
# keep L -> L/(1+z) exact in binary64, so that the side of the jump is not decided by rounding
ZS_EXACT = [F(0), F(1), F(3), F(7), F(15), F(-1, 2), F(-3, 4), F(-7, 8)]
BAD_Z = ['complex', 'str', 'none', 'array', 'quantity']
BAD_T = ['bogus', 'Conserve_Flux', '', 'wavelength']


def bad_z_value(kind):
    import astropy.units as u
    return {'complex': 1 + 2j, 'str': '1', 'none': None, 'array': np.array([1.0, 2.0]),
            'quantity': 1 * u.dimensionless_unscaled}[kind]


def apply_step(sp, st):
    k = st['do']
    if k == 'set_z':
        sp.z = O.fl(st['z'])
        return None
    if k == 'set_z_bad':
        sp.z = bad_z_value(st['kind'])
        return None
    if k == 'set_ztype':
        sp.z_type = st['t']
        return None
    if k == 'sample':
        return sp(np.array([O.fl(x) for x in st['xs']])).value
    if k == 'waveset':
        w = sp.waveset
        return None if w is None else w.value
    if k == 'integrate':
        # `analytical` is only requested while z != 0: a redshifted model has no closed form, so the documented
        # fallback makes it the same trapezoid computation
        return sp.integrate(integration_type='analytical' if st.get('analytical') else 'trapezoid').value
    raise KeyError(k)


UNIT_TABLE_UNITS = ['flam', 'fnu', 'jy', 'photnu', 'stmag', 'abmag']


def unit_table_call(case):
    """a table given as a flux Quantity together with z at construction: its values are flux densities at the observed
    (redshifted) wavelengths of the knots"""
    from synphot import SourceSpectrum
    from synphot.models import Empirical1D

    def f():
        unit = O.astropy_flux_unit(case['unit_name'])
        p = np.array([O.fl(x) for x in case['pts']])
        v = np.array([O.fl(x) for x in case['vals']])
        z = O.fl(case['z'])
        sp = SourceSpectrum(Empirical1D, points=p, lookup_table=v * unit, z=z, z_type=case['ztype'])
        return {'readback': sp(p * (1 + z), flux_unit=unit).value}
    return guarded(f)


def impl_call(case):
    if case['op'] == 'unit_table':
        return unit_table_call(case)
    sp = O.eval_expr(case['prim'])
    outs = []
    twins = {}
    for st in case['steps']:
        outs.append(guarded(lambda: apply_step(sp, st)))
        if st['do'] == 'integrate' and st.get('analytical'):
            twins[len(outs) - 1] = guarded(lambda: apply_step(sp, {'do': 'integrate'}))
    # oracle data: a fresh object with the final attribute values, and the rest-frame object
    final_z, final_t = case['final']
    if 'prim' in case['prim']:
        fresh_desc = dict(case['prim'])
        fresh_desc['z'] = final_z
        fresh_desc['ztype'] = final_t
        rest_desc = {k: v for k, v in case['prim'].items() if k not in ('z', 'ztype')}
    elif 'wrapz' in case['prim']:
        # SourceSpectrum(already redshifted spectrum, z=…): its rest frame is the inner spectrum as it stands
        fresh_desc = {'wrapz': {'z': final_z, 'ztype': final_t}, 'e': case['prim']['e']}
        rest_desc = case['prim']['e']
    else:
        # a composite has no constructor taking z: "fresh" is the rebuilt expression with the final values assigned once
        fresh_desc = {'setz': {'z': final_z, 'ztype': final_t}, 'e': case['prim']}
        rest_desc = case['prim']
    xs = np.array([O.fl(x) for x in case['probe']])

    def probe(obj):
        w = obj.waveset
        return {'vals': obj(xs).value, 'waveset': None if w is None else w.value,
                'integral': None if w is None else obj.integrate(integration_type='trapezoid').value}
    extra = {'live': guarded(lambda: probe(sp)), 'fresh': guarded(lambda: probe(O.eval_expr(fresh_desc))),
             'z_attr': guarded(lambda: [float(sp.z), sp.z_type]), 'twins': twins}

    def rest_probe():
        rest = O.eval_expr(rest_desc)
        z = O.fl(final_z)
        w = rest.waveset
        return {'vals_at_rest': rest(xs / (1 + z)).value, 'waveset': None if w is None else w.value,
                'integral': None if w is None else rest.integrate(integration_type='trapezoid').value}
    extra['rest'] = guarded(rest_probe)
    return {'ok': outs, '_extra': extra}


def model_case(case):
    if case['op'] == 'unit_table':
        return None         # oracle only (the conversion itself is C15's model)
    return {'op': 'z_history', 'const': case['const'], 'thr': q(O.THR), 'prim': case['prim'], 'steps': case['steps']}


def compare(case, o, m):
    if 'ok' not in m:
        return 'model: %s' % m
    for i, (a, b) in enumerate(zip(o['ok'], m['ok'])):
        st = case['steps'][i]
        if st['do'] == 'waveset' and 'ok' in a and a['ok'] is not None and 'ok' in b and b['ok'] is not None:
            if len(a['ok']) != len(b['ok']):
                return 'step %d: waveset lengths %d vs %d' % (i, len(a['ok']), len(b['ok']))
        if b.get('err') == 'NaN' and ('op' in case['prim']):
            continue        # a composite dividing by zero at a sampled wavelength: the model refuses, NumPy gives inf / nan / 0
        scale = 0.0
        if 'ok' in a and isinstance(a['ok'], list):
            scale = max([abs(x) for x in a['ok']] + [0.0])
        r = same(a, b, rtol=1e-9, atol=1e-12 * scale, path='step[%d:%s]' % (i, st['do']))
        if r:
            return r
    return None


# ------------------------------------------------------------------ oracle
def oracle(rep, case, out):
    if case['op'] == 'unit_table':
        if 'err' in out:
            rep.oracle_fail('unit_table:%s' % out['err'], 'construction / readback raised', case, out)
            return
        v = np.array([O.fl(x) for x in case['vals']])
        z = O.fl(case['z'])
        got = np.asarray(out['ok']['readback'])
        if case['unit_name'] in ('stmag', 'abmag'):
            want = v + (2.5 * math.log10(1 + z) if case['ztype'] == 'conserve_flux' else 0.0)
            bad = np.abs(got - want) > 1e-9
        else:
            want = v / (1 + z) if case['ztype'] == 'conserve_flux' else v
            bad = np.abs(got - want) > 1e-9 * np.abs(want)
        if bad.any():
            rep.oracle_fail('unit_table:%s:readback:z%s' % (case['unit_name'], '<0' if z < 0 else '>0' if z > 0 else '=0'),
                            'a table given in %s with z=%s reads back as %r at its observed knots, expected %r'
                            % (case['unit_name'], case['z'], got.tolist()[:4], want.tolist()[:4]), case, out)
        return
    steps, outs = case['steps'], out['ok']
    for i, tw in (out.get('_extra', {}).get('twins') or {}).items():
        o = outs[int(i)]
        if 'ok' in o and 'ok' in tw and o['ok'] is not None and tw['ok'] is not None:
            if abs(o['ok'] - tw['ok']) > 1e-12 * abs(tw['ok']):
                rep.oracle_fail('integrate:analytical_while_redshifted', 'analytical request on a redshifted source gave %r, the trapezoid '
                                'computation it must fall back to gives %r' % (o['ok'], tw['ok']), case, o)
        elif ('err' in o) != ('err' in tw):
            rep.oracle_fail('integrate:analytical_while_redshifted:outcome', 'analytical %s vs trapezoid %s' % (o, tw), case, o)
    for st, o in zip(steps, outs):
        if st['do'] in ('set_z_bad',) or (st['do'] == 'set_ztype' and st['t'] not in ('wavelength_only', 'conserve_flux')):
            if o.get('err') != 'SynphotError':
                rep.oracle_fail('reject:%s:%s' % (st['do'], o.get('err', 'accepted')),
                                'invalid assignment was not rejected with SynphotError', case, o)
        elif st['do'] == 'integrate' and o.get('err') == 'SynphotError' and 'waveset is undefined' in o.get('msg', ''):
            pass        # no optimal sampling set to integrate over (constant / power-law spectra)
        elif st['do'] in ('integrate', 'waveset') and o.get('err') == 'ZeroWavelength':
            pass        # a sampling set reaching non-positive wavelengths is refused (C13)
        elif 'err' in o and o['err'] != 'NaN':
            rep.oracle_fail('history:%s:%s' % (st['do'], o['err']),
                            'valid step %s raised %s (%s)' % (st['do'], o['err'], o.get('msg', '')[:80]), case, o)
    ex = out['_extra']
    final_z, final_t = case['final']
    za = ex['z_attr']
    if 'ok' in za and (abs(za['ok'][0] - O.fl(final_z)) > 0 or za['ok'][1] != final_t):
        rep.oracle_fail('attrs:final', 'attributes are %s, last valid assignments were %s' % (za['ok'], case['final']), case, za)
    live, fresh, rest = ex['live'], ex['fresh'], ex['rest']
    if 'err' in fresh or 'err' in rest:
        return          # nothing to compare with (e.g. non-positive waveset)
    if 'err' in live:
        rep.oracle_fail('history_vs_fresh:%s:ztype=%s' % (live['err'], final_t),
                        'object reached by the history cannot be sampled (%s) while a fresh object with the same z/z_type can'
                        % live['err'], case, live)
        return
    L, Fr, R = live['ok'], fresh['ok'], rest['ok']
    z = O.fl(final_z)
    fac = 1.0 / (1 + z) if final_t == 'conserve_flux' else 1.0

    def close(a, b, tol=1e-9):
        return abs(a - b) <= tol * max(abs(a), abs(b)) + 1e-300
    for a, b in zip(L['vals'], Fr['vals']):
        if not close(a, b, 1e-12):
            rep.oracle_fail('history_vs_fresh:value', 'history gives %r, fresh object %r' % (a, b), case, L)
            break
    for a, r in zip(L['vals'], R['vals_at_rest']):
        if not close(a, r * fac):
            rep.oracle_fail('redshift_law:value:ztype=%s' % final_t,
                            'sp(L)=%r but rest(L/(1+z))%s=%r' % (a, '/(1+z)' if fac != 1 else '', r * fac), case, L)
            break
    if (L['waveset'] is None) != (R['waveset'] is None):
        rep.oracle_fail('waveset:definedness', 'waveset defined-ness changed under redshift', case, L)
    elif L['waveset'] is not None:
        if len(L['waveset']) != len(R['waveset']) or any(not close(a, b * (1 + z)) for a, b in zip(L['waveset'], R['waveset'])):
            rep.oracle_fail('waveset:not_scaled', 'waveset is not the rest-frame set times (1+z)', case, L)
        elif final_t == 'conserve_flux' and not close(L['integral'], R['integral'], 1e-9):
            rep.oracle_fail('integral:not_conserved', 'integrated flux %r vs rest frame %r' % (L['integral'], R['integral']), case, L)
    if z == 0:
        for a, r in zip(L['vals'], R['vals_at_rest']):
            if a != r:
                rep.oracle_fail('z0:not_restored', 'z = 0 does not restore the rest-frame spectrum', case, L)
                break


# ------------------------------------------------------------------ generators
def gen_case(rng, K, maxlen):
    prim = O.gen_prim(rng, 'source', transcendental=rng.random() < 0.15, redshift=False)
    zs = ZS_EXACT if prim['leaf']['leaf'] in ('box', 'trapezoid') else ZS
    z0 = rng.choice(zs)
    t0 = rng.choice(['wavelength_only', 'conserve_flux'])
    if rng.random() < 0.6:
        prim['z'] = q(z0)
        prim['ztype'] = t0
    else:
        z0, t0 = F(0), 'wavelength_only'
    if rng.random() < 0.25:
        # a composite source (operands may carry their own redshift); no box / trapezoid leaves: their jumps would be
        # sampled at rounding distance after two wavelength maps
        from . import c02
        for _ in range(50):
            e = c02.gen_tree(rng, rng.randint(1, 2), 'source')
            leaves = [p['leaf']['leaf'] for p in O.walk_prims(e)]
            if 'op' in e and c02.static_kind(e) == 'source' and not set(leaves) & {'box', 'trapezoid'}:
                prim, z0, t0, zs = e, F(0), 'wavelength_only', ZS
                break
    if 'prim' in prim and rng.random() < 0.2:
        # an already redshifted spectrum object handed to the constructor with a further redshift
        inner = dict(prim)
        inner['z'] = q(rng.choice([z for z in zs if z != 0]))
        inner['ztype'] = rng.choice(['wavelength_only', 'conserve_flux'])
        prim = {'wrapz': {'z': q(z0), 'ztype': t0}, 'e': inner}
    O.fill_ss(prim)
    xs = qs(O.sample_grid(rng, 6, 300, 60000))
    steps = []
    z, t = z0, t0
    for _ in range(rng.randint(0, maxlen)):
        r = rng.random()
        if r < 0.3:
            z = rng.choice(zs)
            steps.append({'do': 'set_z', 'z': q(z)})
        elif r < 0.35:
            steps.append({'do': 'set_z_bad', 'kind': rng.choice(BAD_Z)})
        elif r < 0.6:
            t = rng.choice(['wavelength_only', 'conserve_flux'])
            steps.append({'do': 'set_ztype', 't': t})
        elif r < 0.65:
            steps.append({'do': 'set_ztype', 't': rng.choice(BAD_T)})
        elif r < 0.85:
            steps.append({'do': 'sample', 'xs': xs})
        elif r < 0.9:
            steps.append({'do': 'waveset'})
        else:
            st = {'do': 'integrate'}
            if z != 0 and rng.random() < 0.6:
                st['analytical'] = True
            steps.append(st)
    return {'op': 'z_history', 'const': K, 'prim': prim, 'steps': steps, 'final': [q(z), t], 'probe': xs}


def scripted_cases(rng, K):
    """every ordering of up to four assignments (two redshifts, both types) followed by a sample, on a table and on an
    analytic source, constructed with and without an initial flux-conserving redshift"""
    import itertools
    out = []
    acts = [('set_z', F(1)), ('set_z', F(3)), ('set_ztype', 'wavelength_only'), ('set_ztype', 'conserve_flux')]
    for init in (None, (F(1), 'conserve_flux'), (F(1, 2), 'wavelength_only')):
        for n in (2, 3, 4):
            for seq in itertools.permutations(acts, n):
                if rng.random() > 0.25:
                    continue
                prim = O.gen_prim(rng, 'source', transcendental=False, redshift=False)
                if prim['leaf']['leaf'] in ('box', 'trapezoid'):
                    prim = {'prim': 'source', 'leaf': O.gen_table_leaf(rng)}
                z, t = F(0), 'wavelength_only'
                if init:
                    z, t = init
                    prim['z'], prim['ztype'] = q(z), t
                O.fill_ss(prim)
                xs = qs(O.sample_grid(rng, 6, 300, 60000))
                steps = []
                for k, v in seq:
                    if k == 'set_z':
                        z = v
                        steps.append({'do': 'set_z', 'z': q(v)})
                    else:
                        t = v
                        steps.append({'do': 'set_ztype', 't': v})
                steps.append({'do': 'sample', 'xs': xs})
                out.append({'op': 'z_history', 'const': K, 'prim': prim, 'steps': steps, 'final': [q(z), t], 'probe': xs})
    return out


def run(rep):
    thorough = rep.tier == 'thorough'
    rng = rep.rng('c05')
    K = O.consts()
    cases = core.load_corpus('C05')
    for c in cases:
        c['const'] = K
    cases += scripted_cases(rng, K)
    for _ in range(3000 if thorough else 300):
        pts = sorted({O.dy(rng, 1000, 9000, 2) for _ in range(rng.randint(2, 6))})
        if len(pts) < 2:
            continue
        u = rng.choice(UNIT_TABLE_UNITS)
        e = F(2) ** rng.randint(-60, -20)       # one brightness scale per table: neighbouring knots within a factor 16
        m0 = O.dy(rng, 10, 28, 3)
        vals = [m0 + O.dy(rng, 0, 2, 3) if u in ('stmag', 'abmag') else e * O.dy(rng, 0.25, 4, 3) for _ in pts]
        cases.append({'op': 'unit_table', 'unit_name': u, 'pts': qs(pts), 'vals': qs(vals), 'z': q(rng.choice(ZS)),
                      'ztype': rng.choice(['wavelength_only', 'conserve_flux'])})
    cases += [gen_case(rng, K, 40 if thorough else 8) for _ in range(30000 if thorough else 1500)]
    rep.rule = ('a quarter of all orderings of 2-4 assignments (two redshifts, both types) ending in a sample, from three initial states; random histories of z / z_type assignments (incl. non-real z and unknown z_type), samples, waveset and integrate '
                'queries (<= 8 steps quick, <= 40 thorough) on SourceSpectrum objects of every leaf kind and (25%) composite sources whose operands may already be redshifted, and (15%) sources constructed from an already redshifted spectrum object, constructed with or '
                'without redshift; z from {0, 1/8, 1/2, 1, 3, 7, 20, -1/4, -1/2, -7/8}. Non-trivial: at least one assignment step.')

    def nontrivial(c, o):
        return c['op'] == 'unit_table' or any(s['do'].startswith('set_') for s in c['steps'])

    def tags(c, o):
        if c['op'] == 'unit_table':
            return ['unit_table', 'unit:' + c['unit_name'], 'outcome:' + (o.get('err') or 'ok')]
        t = ['final_ztype:' + c['final'][1], 'len:%d' % min(len(c['steps']), 9), 'leaf:' + (c['prim']['leaf']['leaf'] if 'leaf' in c['prim'] else 'wrapped' if 'wrapz' in c['prim'] else 'composite')]
        return t
    core.run_cases(rep, cases, impl_call, model_case, oracle, tags_fn=tags, nontrivial_fn=nontrivial, compare_fn=compare)
    rep.samples = [s if not isinstance(s, dict) else {k: v for k, v in s.items() if k != 'const'} for s in rep.samples]


def search(rep, mismatches):
    sub = core.Report(rep.pid, 'thorough', rep.seed + 1)
    rng = sub.rng('c05-search')
    K = O.consts()
    cases = [gen_case(rng, K, 12) for _ in range(4000)]
    impl = core.pmap(impl_call, cases)
    for c, o in zip(cases, impl):
        oracle(sub, c, o)
    rep.notes.append('directed search after mismatch: %d cases, %d oracle failures' % (len(cases), len(sub.oracle_failures)))
    return sub.oracle_failures


def replay(rep, payload):
    c = payload['case']
    c['const'] = O.consts()
    core.run_cases(rep, [c], impl_call, model_case, oracle, compare_fn=compare)
