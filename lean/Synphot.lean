-- root of the library: everything `./setup.sh` (lake build) has to compile
import Synphot.Driver.Main
import Synphot.Lemmas.Binning
import Synphot.Lemmas.Trapz
import Synphot.Lemmas.Wave
import Synphot.Lemmas.Merge
import Synphot.Lemmas.Units
import Synphot.Props.C01
import Synphot.Props.C18
