/-
  Synphot.Core.Basic — shared vocabulary of the model: error classes, Python
  indexing, and the class of number systems the model is written over.

  Every model function is generic over an ordered field `K`; theorems hold for
  every such `K` (in particular ℝ), the driver runs them at `K = ℚ` on the exact
  binary64 values the Python code receives.
-/
import Mathlib.Algebra.Order.Field.Basic

namespace Synphot

/-- The exception classes the model distinguishes (image of Python's exception
classes under the harness's canonicalisation). -/
inductive Err
  | zeroWavelength | unsortedWavelength | duplicateWavelength | unitError
  | synphotError | overlapError | partialOverlap | disjointError
  | incompatibleSources | interpolationNotAllowed | undefinedBinset
  | notImplemented | indexError | zeroDivision | nan | typeError | valueError
  | fileError | lookupError | unboundLocal
  deriving DecidableEq, Repr, Inhabited

def Err.name : Err → String
  | .zeroWavelength => "ZeroWavelength" | .unsortedWavelength => "UnsortedWavelength"
  | .duplicateWavelength => "DuplicateWavelength" | .unitError => "UnitError"
  | .synphotError => "SynphotError" | .overlapError => "OverlapError"
  | .partialOverlap => "PartialOverlap" | .disjointError => "DisjointError"
  | .incompatibleSources => "IncompatibleSources"
  | .interpolationNotAllowed => "InterpolationNotAllowed"
  | .undefinedBinset => "UndefinedBinset" | .notImplemented => "NotImplementedError"
  | .indexError => "IndexError" | .zeroDivision => "ZeroDivisionError" | .nan => "NaN"
  | .typeError => "TypeError" | .valueError => "ValueError" | .fileError => "OSError"
  | .lookupError => "LookupError" | .unboundLocal => "UnboundLocalError"

/-- Python `l[i]` for a possibly negative `i` (wraps once, then `IndexError`). -/
def pyIndex {α : Type} (l : List α) (i : Int) : Except Err α :=
  let n : Int := l.length
  let j := if i < 0 then i + n else i
  if j < 0 ∨ n ≤ j then .error .indexError
  else match l[j.toNat]? with
    | some a => .ok a
    | none => .error .indexError

/-- Normalisation of one Python slice bound against length `n`
(`None` is handled by the caller). -/
def pyClip (n : Nat) (i : Int) : Nat :=
  let j := if i < 0 then i + n else i
  if j < 0 then 0 else if (n : Int) < j then n else j.toNat

/-- Python `l[a:b]` with integer (possibly negative) bounds, step 1. -/
def pySlice {α : Type} (l : List α) (a b : Int) : List α :=
  let lo := pyClip l.length a
  let hi := pyClip l.length b
  (l.drop lo).take (hi - lo)

/-- `np.mean` of a slice: NaN (here `Err.nan`) on the empty slice. -/
def meanOf {K : Type} [Field K] (l : List K) : Except Err K :=
  if l.isEmpty then .error .nan else .ok (l.sum / (l.length : K))

end Synphot
