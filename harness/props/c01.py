"""C01  Flux-unit conversion is physically exact, invertible and path-independent."""
import math
from fractions import Fraction as F

from ..core import NP as np

from .. import core
from ..core import q, qs, guarded, same, unq

# physical definitions (exact): CODATA h [erg s], c [Angstrom/s], 1 Jy in FNU
H = F(662607015, 10 ** 35)
C = F(299792458) * 10 ** 10
JY = F(1, 10 ** 23)

UNITS = ['photlam', 'photnu', 'flam', 'fnu', 'jy', 'mjy', 'ujy', 'megajy', 'pjy', 'petajy', 'stmag', 'abmag', 'count', 'obmag', 'vegamag']
MAGS = {'stmag', 'abmag', 'obmag', 'vegamag'}
# prefixed Jy units, among them pairs whose symbols differ only in letter case (mJy / MJy, pJy / PJy)
JY_SCALE = {'jy': F(1), 'mjy': F(1, 1000), 'ujy': F(1, 10 ** 6), 'njy': F(1, 10 ** 9), 'megajy': F(10 ** 6), 'pjy': F(1, 10 ** 12),
            'petajy': F(10 ** 15)}
WAVE_UNITS = {           # name -> (kind, factor) as in Synphot.WaveUnit
    'AA_number': ('length', F(1)), 'AA': ('length', F(1)), 'nm': ('length', F(10)),
    'micron': ('length', F(10 ** 4)), 'm': ('length', F(10 ** 10)),
    'Hz': ('freq', F(1)), 'THz': ('freq', F(10 ** 12)),
    '1/micron': ('wavenumber', F(1, 10 ** 4)), '1/cm': ('wavenumber', F(1, 10 ** 8)),
}


def consts():
    import astropy.units as u
    st = (1 * u.ST).to(u.erg / u.cm ** 2 / u.s / u.AA).value
    ab = (1 * u.AB).to(u.erg / u.cm ** 2 / u.s / u.Hz).value
    return {'h': q(H), 'c': q(C), 'st': q(st), 'ab': q(ab), 'jy': q(JY)}


def astropy_unit(name):
    import astropy.units as u
    from synphot import units
    return {'photlam': units.PHOTLAM, 'photnu': units.PHOTNU, 'flam': units.FLAM, 'fnu': units.FNU,
            'jy': u.Jy, 'mjy': u.mJy, 'ujy': u.uJy, 'njy': u.nJy, 'megajy': u.MJy, 'pjy': u.pJy, 'petajy': u.PJy, 'stmag': u.STmag, 'abmag': u.ABmag,
            'count': u.count, 'obmag': units.OBMAG, 'vegamag': units.VEGAMAG}[name]


def model_unit(name):
    return {'jy': q(JY_SCALE[name])} if name in JY_SCALE else name


def wave_quantity(case):
    import astropy.units as u
    vals = [float(unq(x)) for x in case['wv']]
    v = vals[0] if case['scalar'] else np.array(vals)
    wu = case['wunit']
    if wu == 'AA_number':
        return v
    return v * u.Unit({'1/micron': 'micron-1', '1/cm': 'cm-1'}.get(wu, wu))


_VEGA = {}


def vega_spec(case):
    from synphot import SourceSpectrum
    from synphot.models import Empirical1D
    key = tuple(case['vega_tab'][0]), tuple(case['vega_tab'][1])
    if key not in _VEGA:
        _VEGA.clear()
        _VEGA[key] = SourceSpectrum(Empirical1D, points=[float(unq(x)) for x in key[0]],
                                    lookup_table=[float(unq(x)) for x in key[1]])
    return _VEGA[key]


def impl_convert(case, uin=None, uout=None, flux=None):
    from synphot import units
    uin = uin or case['uin']
    uout = uout or case['uout']
    f = flux if flux is not None else [float(unq(x)) for x in case['f']]
    fq = (f[0] if case['scalar'] else np.array(f, dtype=float)) * astropy_unit(uin)
    kw = {}
    if case.get('area') is not None:
        import astropy.units as u
        a = float(unq(case['area']))
        kw['area'] = a * u.m ** 2 / 10 ** 4 if case.get('area_m2') else a
    if case.get('vega_tab') is not None:
        kw['vegaspec'] = vega_spec(case)
    out = units.convert_flux(wave_quantity(case), fq, astropy_unit(uout), **kw)
    v = np.atleast_1d(out.value).astype(float)
    return v.tolist()


def impl_call(case):
    op = case['op']
    if op == 'convert_flux':
        for pr in case.get('prior', []):
            # earlier conversions with the same caller-owned Vega spectrum must not matter: results discarded
            try:
                impl_convert(dict(case, wv=pr['wv'], wunit=pr['wunit']), uin='photlam', uout='vegamag',
                             flux=[1.0] * len(pr['wv']))
            except Exception:   # noqa
                pass
        out = guarded(lambda: impl_convert(case))
        # property oracle pieces that need the implementation again
        extra = {}
        if 'ok' in out:
            extra['back'] = guarded(lambda: impl_convert(case, uin=case['uout'], uout=case['uin'], flux=out['ok']))
            if case.get('via'):
                def two_hop():
                    mid = impl_convert(case, uout=case['via'])
                    return impl_convert(case, uin=case['via'], flux=mid)
                extra['via'] = guarded(two_hop)
        if case.get('vega_tab') is not None:
            extra['vega_at_w'] = guarded(lambda: vega_spec(case)(wave_quantity(case)).value)
        out['extra'] = extra
        return out
    if op == 'unit_name':
        from synphot import units
        return guarded(lambda: units.validate_unit(case['name']).to_string())
    raise KeyError(op)


def to_aa(case):
    kind, fac = WAVE_UNITS[case['wunit']]
    out = []
    for x in case['wv']:
        v = unq(x)
        out.append(v * fac if kind == 'length' else C / (v * fac) if kind == 'freq' else 1 / (v * fac))
    return out


def model_case(case):
    if case['op'] != 'convert_flux':
        return None
    return dict(case['_model'])


def finish_case(case, impl_out):
    """the model needs Vega's PHOTLAM flux at the wavelengths: it is data (sampled from the implementation's
    Vega object; interpolation itself is C03's subject)"""
    return case


# ------------------------------------------------------------------ closed forms (oracle)
def closed_form_photlam(case, i, lam, f, unit, widths, vega):
    h, c = float(H), float(C)
    st = float(unq(case['_model']['const']['st']))
    ab = float(unq(case['_model']['const']['ab']))
    area = float(unq(case['area'])) if case.get('area') is not None else None
    if unit == 'photlam':
        return f
    if unit == 'photnu':
        return f * c / lam ** 2
    if unit == 'flam':
        return f * lam / (h * c)
    if unit == 'fnu':
        return f * c / lam ** 2 * lam / (h * c)
    if unit in JY_SCALE:
        return f * float(JY_SCALE[unit]) * 1e-23 * c / lam ** 2 * lam / (h * c)
    if unit == 'stmag':
        return 10 ** (-0.4 * f) * st * lam / (h * c)
    if unit == 'abmag':
        return 10 ** (-0.4 * f) * ab * c / lam ** 2 * lam / (h * c)
    if unit in ('count', 'obmag') and (widths is None or area is None):
        return None
    if unit == 'count':
        return f / (widths[i] * area)
    if unit == 'obmag':
        return 10 ** (-0.4 * f) / (widths[i] * area)
    if unit == 'vegamag':
        return 10 ** (-0.4 * f) * vega[i]


def closed_form_from_photlam(case, i, lam, p, unit, widths, vega):
    h, c = float(H), float(C)
    st = float(unq(case['_model']['const']['st']))
    ab = float(unq(case['_model']['const']['ab']))
    area = float(unq(case['area'])) if case.get('area') is not None else None
    if unit == 'photlam':
        return p
    if unit == 'photnu':
        return p * lam ** 2 / c
    flam = p * h * c / lam
    fnu = flam * lam ** 2 / c
    if unit == 'flam':
        return flam
    if unit == 'fnu':
        return fnu
    if unit in JY_SCALE:
        return fnu / 1e-23 / float(JY_SCALE[unit])
    if unit == 'stmag':
        lin = flam / st
    elif unit == 'abmag':
        lin = fnu / ab
    elif unit in ('count', 'obmag'):
        lin = None if area is None or widths is None else p * widths[i] * area
    else:
        lin = None if vega is None else p / vega[i]
    if lin is None or unit == 'count':
        return lin
    return -2.5 * math.log10(lin) if lin > 0 else math.nan


def bin_widths(lams):
    if len(lams) < 2:
        return None
    e = [(lams[i] + lams[i - 1]) / 2 for i in range(1, len(lams))]
    e = [2 * lams[0] - e[0]] + e + [2 * lams[-1] - e[-1]]
    return [abs(e[i + 1] - e[i]) for i in range(len(lams))]


def oracle(rep, case, out):
    if case['op'] == 'unit_name':
        if out.get('ok') != case['expect']:
            rep.oracle_fail('unit_name:%s' % case['name'].lower(),
                            'unit name %r resolves to %r, expected %r' % (case['name'], out.get('ok', out), case['expect']),
                            case, out)
        return
    uin, uout = case['uin'], case['uout']
    same_unit = uin == uout
    need_area = not same_unit and ({uin, uout} & {'count', 'obmag'})
    need_vega = not same_unit and 'vegamag' in (uin, uout)
    if (need_area and case.get('area') is None) or (need_vega and case.get('vega_tab') is None):
        if out.get('err') != 'SynphotError':
            rep.oracle_fail('convert_flux:missing_input:%s' % out.get('err', 'returned'),
                            'conversion needs an area / Vega spectrum that was not supplied but did not raise SynphotError',
                            case, out)
        return
    lams = [float(x) for x in to_aa(case)]
    f = [float(unq(x)) for x in case['f']]
    if 'err' in out:
        # NaN: magnitude of a non-positive linear value
        expect_nan = False
        if out['err'] == 'NaN' and uout in MAGS:
            expect_nan = True
        if need_area and case['scalar'] and out['err'] == 'SynphotError':
            return          # bin widths need at least two wavelengths
        if not expect_nan:
            rep.oracle_fail('convert_flux:%s->%s:%s' % (uin, uout, out['err']),
                            'valid conversion raised %s' % out['err'], case, out)
        return
    res = out['ok']
    widths = bin_widths(lams)
    ve = out['extra'].get('vega_at_w', {}).get('ok') if case.get('vega_tab') is not None else None
    if ve is not None:
        ve = list(np.atleast_1d(ve))
    for i, (lam, fi, ri) in enumerate(zip(lams, f, res)):
        if same_unit:
            expect = fi
        else:
            p = closed_form_photlam(case, i, lam, fi, uin, widths, ve)
            expect = None if p is None else closed_form_from_photlam(case, i, lam, p, uout, widths, ve)
        if expect is None or (isinstance(expect, float) and math.isnan(expect)):
            continue
        tol = 1e-9 * abs(expect) + (1e-9 if uout in MAGS else 0.0)
        if not abs(ri - expect) <= tol:
            rep.oracle_fail('convert_flux:%s->%s:value' % (uin, uout),
                            'sample %d: got %r, physical definition gives %r' % (i, ri, expect), case, out)
            return
    back = out['extra'].get('back')
    if back is not None and not same_unit:
        if 'err' in back:
            rep.oracle_fail('convert_flux:%s->%s->%s:%s' % (uin, uout, uin, back['err']),
                            'round trip failed: %s' % back, case, out)
        else:
            for fi, bi in zip(f, back['ok']):
                tol = 1e-9 * abs(fi) + (1e-9 if uin in MAGS else 0.0)
                if not abs(bi - fi) <= tol:
                    rep.oracle_fail('convert_flux:%s->%s->%s:roundtrip' % (uin, uout, uin),
                                    'A->B->A gives %r for %r' % (bi, fi), case, out)
                    break
    via = out['extra'].get('via')
    if via is not None:
        if 'err' in via:
            if via['err'] != 'NaN':
                rep.oracle_fail('convert_flux:%s->%s->%s:%s' % (uin, case['via'], uout, via['err']),
                                'two-hop conversion failed: %s' % via, case, out)
        else:
            for ri, vi in zip(res, via['ok']):
                tol = 1e-9 * abs(ri) + (1e-9 if uout in MAGS else 0.0)
                if not abs(vi - ri) <= tol:
                    rep.oracle_fail('convert_flux:%s->%s->%s:path' % (uin, case['via'], uout),
                                    'A->C->B gives %r, A->B gives %r' % (vi, ri), case, out)
                    break


# ------------------------------------------------------------------ generators
def gen_wavelengths(rng, n, wunit):
    """positive wavelengths in 1e1..1e7 Angstrom, expressed in the unit"""
    coarse = rng.random() < 0.2
    lo = 10 ** (rng.uniform(1, 1.5) if coarse else rng.uniform(1, 6.5))
    lams = [lo]       # neighbours up to a factor 11 apart (decade grids): the outer bins reach far out
    for _ in range(n - 1):
        lams.append(lams[-1] * (1 + 10 ** (rng.uniform(-0.5, 0.9) if coarse else rng.uniform(-4, -0.5))))
    lams = [l for l in lams if l < 1e7] or [lo]
    kind, fac = WAVE_UNITS[wunit]
    fac = float(fac)
    vals = [l / fac if kind == 'length' else float(C) / l / fac if kind == 'freq' else 1 / l / fac for l in lams]
    return vals


def gen_flux(rng, unit, n):
    out = []
    for _ in range(n):
        if unit in MAGS:
            out.append(rng.uniform(-60, 60))
        else:
            v = 10 ** rng.uniform(-30, 30)
            if unit != 'count' and rng.random() < 0.1:
                v = -v
            if rng.random() < 0.02:
                v = 0.0
            out.append(v)
    return out


def make_case(rng, uin, uout, K, shape=None, wunit=None, nmax=6):
    wunit = wunit or rng.choice(list(WAVE_UNITS))
    shape = shape or rng.choice(['asc', 'desc', 'scalar'])
    n = 1 if shape == 'scalar' else rng.randint(2, nmax)
    wv = gen_wavelengths(rng, n, wunit)
    if shape == 'scalar':
        wv = wv[:1]
    n = len(wv)
    kind = WAVE_UNITS[wunit][0]
    asc_in_unit = kind == 'length'
    if (shape == 'desc') == asc_in_unit:
        wv = wv[::-1]
    f = gen_flux(rng, uin, n)
    case = {'op': 'convert_flux', 'uin': uin, 'uout': uout, 'wunit': wunit, 'scalar': shape == 'scalar',
            'wv': qs(wv), 'f': qs(f), 'area': None, 'vega_tab': None}
    via = None
    if rng.random() < 0.35:
        cands = [u for u in UNITS if u not in (uin, uout)]
        if shape == 'scalar':       # bin widths need two wavelengths
            cands = [u for u in cands if u not in ('count', 'obmag')]
            if {uin, uout} & {'count', 'obmag'}:
                cands = []
        if not cands:
            return make_case(rng, uin, uout, K, 'asc', wunit, nmax)
        via = rng.choice(cands) if cands else None
    involved = {uin, uout} if uin != uout else set()
    needs_area = involved & {'count', 'obmag'}
    needs_vega = 'vegamag' in involved
    via_area = via in ('count', 'obmag')
    via_vega = via == 'vegamag'
    if via_area or (needs_area and rng.random() < 0.9) or rng.random() < 0.1:
        case['area'] = q(10 ** rng.uniform(0, 6))
        case['area_m2'] = rng.random() < 0.3
    if via_vega or (needs_vega and rng.random() < 0.9) or rng.random() < 0.1:
        pts = [5.0, 100.0, 3000.0, 5500.0, 20000.0, 2e6, 2e7]
        case['vega_tab'] = [qs(pts), qs([10 ** rng.uniform(-3, 4) for _ in pts])]
    if via and ((uin in ('count', 'obmag') or uout in ('count', 'obmag')) and case['area'] is None
                or 'vegamag' in (uin, uout) and case['vega_tab'] is None):
        via = None
    if via:
        case['via'] = via
    if case['vega_tab'] is not None and rng.random() < 0.5:
        # the same Vega spectrum object was used before: the same numbers in another wavelength unit, the same grid,
        # or another grid of the same length
        prior = []
        for _ in range(rng.randint(1, 2)):
            k = rng.random()
            if k < 0.5:
                other = rng.choice([w for w in WAVE_UNITS if w != wunit])
                prior.append({'wv': case['wv'], 'wunit': other})
            elif k < 0.7:
                prior.append({'wv': case['wv'], 'wunit': wunit})
            else:
                pv = gen_wavelengths(rng, max(n, 2), wunit)[:n]
                prior.append({'wv': qs(pv), 'wunit': wunit})
        case['prior'] = prior
    return case


def attach_model(cases, K):
    """model line: wavelengths converted exactly to Angstrom by the harness's rational arithmetic is NOT used -
    the model converts itself from (value, unit kind, factor)"""
    for c in cases:
        if c['op'] != 'convert_flux':
            continue
        kind, fac = WAVE_UNITS[c['wunit']]
        c['_model'] = {'op': 'convert_flux_w', 'const': K, 'wv': c['wv'], 'wkind': kind, 'wfac': q(fac),
                       'f': c['f'], 'uin': model_unit(c['uin']), 'uout': model_unit(c['uout']),
                       'area': c['area'], 'vega': None}


NAMES = [('photlam', 'PHOTLAM'), ('photnu', 'PHOTNU'), ('flam', 'FLAM'), ('fnu', 'FNU'), ('jy', 'Jy'),
         ('stmag', 'mag(ST)'), ('abmag', 'mag(AB)'), ('obmag', 'mag(OB)'), ('vegamag', 'mag(VEGA)'),
         ('angstroms', 'Angstrom'), ('inversemicrons', '1 / micron'), ('transmission', ''),
         ('extinction', ''), ('emissivity', ''), ('mag(st)', 'mag(ST)'), ('mag(ab)', 'mag(AB)'),
         ('mag(ob)', 'mag(OB)'), ('mag(vega)', 'mag(VEGA)'), ('throughput', ''), ('none', ''), ('sec', 's')]


def casings(rng, s):
    out = {s, s.upper(), s.capitalize(), s.swapcase(), s.title()}
    out.add(''.join(ch.upper() if rng.random() < 0.5 else ch for ch in s))
    return sorted(out)


def run(rep):
    thorough = rep.tier == 'thorough'
    rng = rep.rng('c01')
    K = consts()
    cases = []
    # every ordered pair x every wavelength-unit kind x every shape (exhaustive), then random fill
    for uin in UNITS:
        for uout in UNITS:
            for wunit in (WAVE_UNITS if thorough else ['AA_number', 'nm', 'Hz', '1/micron']):
                for shape in ('asc', 'desc', 'scalar'):
                    cases.append(make_case(rng, uin, uout, K, shape, wunit))
    for _ in range(150000 if thorough else 2500):
        cases.append(make_case(rng, rng.choice(UNITS), rng.choice(UNITS), K, nmax=40 if thorough else 8))
    attach_model(cases, K)
    # Vega flux at the wavelengths is data for the model: sample the implementation's Vega object once
    for c in cases:
        if c.get('vega_tab') is not None:
            v = guarded(lambda: vega_spec(c)(wave_quantity(c)).value)
            if 'ok' in v:
                c['_model']['vega'] = qs(np.atleast_1d(v['ok']))
    for name, expect in NAMES:
        for s in casings(rng, name):
            cases.append({'op': 'unit_name', 'name': s, 'expect': expect})
    rep.rule = ('every ordered pair of 15 flux units (incl. Jy, mJy, uJy, MJy, pJy, PJy) x wavelength-unit kinds x {ascending, descending, scalar}, '
                'plus random pairs; wavelengths log-uniform in 1e1..1e7 A (neighbours 1e-4 .. 10 apart in relative terms), linear fluxes log-uniform over 60 decades with '
                'both signs and zeros, magnitudes in [-60, 60], area in cm^2 or m^2, positive Vega table; 35% with an '
                'intermediate unit C (A->C->B); half of the Vega conversions after 1-2 earlier conversions with the same Vega object (same numbers in another wavelength unit, same grid, other grid); every unit name of the statement in up to 6 letter casings. '
                'Non-trivial: uin != uout and the conversion did not end in a missing-input error.')

    def nontrivial(c, o):
        return c['op'] == 'unit_name' or (c['uin'] != c['uout'] and o.get('err') != 'SynphotError')

    def tags(c, o):
        if c['op'] == 'unit_name':
            return ['unit_name']
        return ['pair:%s->%s' % (c['uin'], c['uout']), 'wunit:' + c['wunit'],
                'shape:' + ('scalar' if c['scalar'] else 'array'), 'outcome:' + (o.get('err') or 'ok')]

    def compare(c, o, m):
        o2 = {k: v for k, v in o.items() if k != 'extra'}
        atol = 1e-9 if c['uout'] in MAGS else 0.0
        return same(o2, m, rtol=1e-9, atol=atol)

    core.run_cases(rep, cases, impl_call, model_case, oracle, tags_fn=tags, nontrivial_fn=nontrivial,
                   compare_fn=compare)
    # keep evidence small
    d = rep.dist
    pairs = sum(1 for k in d if k.startswith('pair:'))
    for k in [k for k in d if k.startswith('pair:')]:
        del d[k]
    rep.extra['unit_pairs_exercised'] = pairs
    rep.samples = [{k: v for k, v in s.items() if k != '_model'} if isinstance(s, dict) else s for s in rep.samples]


def search(rep, mismatches):
    sub = core.Report(rep.pid, 'thorough', rep.seed + 1)
    rng = sub.rng('c01-search')
    K = consts()
    ops = {(m[2].get('uin'), m[2].get('uout')) for m in mismatches if m[2].get('op') == 'convert_flux'}
    cases = []
    for uin, uout in ops:
        for _ in range(300):
            cases.append(make_case(rng, uin, uout, K))
    for _ in range(3000):
        cases.append(make_case(rng, rng.choice(UNITS), rng.choice(UNITS), K))
    attach_model(cases, K)
    impl = core.pmap(impl_call, cases)
    for c, o in zip(cases, impl):
        oracle(sub, c, o)
    rep.notes.append('directed search after mismatch: %d cases, %d oracle failures' % (len(cases), len(sub.oracle_failures)))
    return sub.oracle_failures


def replay(rep, payload):
    c = payload['case']
    if '_model' not in c and c['op'] == 'convert_flux':
        attach_model([c], consts())
    core.run_cases(rep, [c], impl_call, model_case, oracle,
                   compare_fn=lambda c, o, m: same({k: v for k, v in o.items() if k != 'extra'}, m, rtol=1e-9,
                                                   atol=1e-9 if c.get('uout') in MAGS else 0.0))
