/-
  Synphot.Core.Wave — `utils.validate_wavelengths`, `utils.merge_wavelengths`
  (synphot/utils.py:76-139, 208-252).
-/
import Mathlib.Data.Finset.Sort
import Synphot.Core.Basic

namespace Synphot
variable {K : Type} [Field K] [LinearOrder K] [IsStrictOrderedRing K]

/-- `sorted_wave == wave` elementwise, i.e. weakly ascending -/
def WeakAsc : List K → Bool
  | a :: b :: t => decide (a ≤ b) && WeakAsc (b :: t)
  | _ => true

/-- `sorted_wave[::-1] == wave`, i.e. weakly descending -/
def WeakDesc : List K → Bool
  | a :: b :: t => decide (b ≤ a) && WeakDesc (b :: t)
  | _ => true

/-- `np.any(dw == 0)` on the sorted copy of a weakly monotone array: two equal neighbours -/
def HasAdjEq : List K → Bool
  | a :: b :: t => decide (a = b) || HasAdjEq (b :: t)
  | _ => false

/-- `validate_wavelengths` on the numeric part (the unit check is separate):
zero/negative first, then monotonicity, then duplicates. -/
def validateWavelengths (w : List K) : Except Err Unit :=
  if w.any (fun x => decide (x ≤ 0)) then .error .zeroWavelength
  else if !WeakAsc w && !WeakDesc w then .error .unsortedWavelength
  else if HasAdjEq w then .error .duplicateWavelength
  else .ok ()

/-- `np.union1d`: the sorted set union -/
def union1d (a b : List K) : List K := (a.toFinset ∪ b.toFinset).sort (· ≤ ·)

/-- the near-duplicate filter: drop `out[i]` when `out[i+1] − out[i] ≤ threshold`,
always keep the last point -/
def filterClose (thr : K) : List K → List K
  | a :: b :: t => if b - a > thr then a :: filterClose thr (b :: t) else filterClose thr (b :: t)
  | l => l

/-- `merge_wavelengths(w1, w2, threshold)`; `none` is Python's `None` -/
def mergeWavelengths (thr : K) : Option (List K) → Option (List K) → Option (List K)
  | none, none => none
  | some a, none => some a
  | none, some b => some b
  | some a, some b => some (filterClose thr (union1d a b))

end Synphot
