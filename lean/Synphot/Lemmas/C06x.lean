/-
  Helper lemmas for C06 (observation = source × bandpass, admitted only with adequate overlap):
  what `check_overlap` computes in terms of its pieces, `Spec.taper` on a tabulated source in terms of
  `Table.taper`, the table `taper()` builds written out, the fields of a constructed observation.
-/
import Mathlib.Algebra.Order.Field.Rat
import Synphot.Core.Observation
import Synphot.Lemmas.Spectrum
import Synphot.Lemmas.Merge
import Synphot.Props.C03

set_option linter.unusedSectionVars false
set_option linter.unusedVariables false
set_option linter.unusedSimpArgs false

namespace Synphot.C06x
open Synphot
variable {K : Type} [Field K] [LinearOrder K] [IsStrictOrderedRing K]

theorem ok_bind'' {ε α β : Type} (a : α) (f : α → Except ε β) : ((Except.ok a : Except ε α) >>= f) = f a := rfl

/-- the bandpass's sampled wavelengths with positive throughput (`x1[y1 > 0]`) -/
def support (x1 y1 : List K) : List K := ((x1.zip y1).filter fun p => decide (p.2 > 0)).map Prod.fst

/-- `isinstance(other.model, Empirical1D) and other.model.is_tapered() or not isinstance(other.model,
(Empirical1D, CompoundModel))` -/
def shortcutKind (om : Tree K) : Bool :=
  match om.rootTable? with
  | some t => t.isTapered
  | Option.none => !om.isCompound

/-- `x1[::x1.size - 1]` -/
def endPair (x1 : List K) : List K :=
  match x1.head?, x1.getLast? with
  | some f, some l => [f, l]
  | _, _ => []

/-- `np.allclose(values, 0)` with the absolute tolerance only -/
def allNearZero (atol : K) (vs : List K) : Bool := vs.all fun v => decide (|v| ≤ atol)

/-- in the sampled case an answer needs a non-empty positive-throughput sample set and a non-empty
range of the other spectrum (`.min()` of an empty array raises otherwise) -/
theorem co_sampled_ends (E : Env K) (P : OverlapPar K) (band src : Spec K) (bm om : Tree K) (x1 y1 b : List K)
    (hbm : band.model = .ok bm) (hom : src.model = .ok om) (ho : om.waveset P.mergeThr = .ok (some b))
    (hb : bm.waveset P.mergeThr = .ok (some x1)) (hy : sampleTree E bm x1 = .ok y1) (v : Verdict)
    (hv : checkOverlap E P band src none = .ok v) :
    ∃ a1 a2 b1 b2, listMin (support x1 y1) = some a1 ∧ listMax (support x1 y1) = some a2 ∧
      listMin b = some b1 ∧ listMax b = some b2 := by
  simp only [checkOverlap, hbm, hom, ho, hb, hy, wavesetOrErr, ok_bind'', Option.isNone_none, Option.isNone_some,
    if_true, Bool.false_eq_true, if_false, pure, Except.pure] at hv
  unfold support
  cases h1 : listMin (List.map Prod.fst (List.filter (fun p => decide (p.2 > 0)) (x1.zip y1))) with
  | none => simp [h1] at hv
  | some a1 =>
  cases h2 : listMax (List.map Prod.fst (List.filter (fun p => decide (p.2 > 0)) (x1.zip y1))) with
  | none => simp [h1, h2] at hv
  | some a2 =>
  cases h3 : listMin b with
  | none => simp [h1, h2, h3] at hv
  | some b1 =>
  cases h4 : listMax b with
  | none => simp [h1, h2, h3, h4] at hv
  | some b2 => exact ⟨a1, a2, b1, b2, rfl, rfl, rfl, rfl⟩

/-- what `check_overlap` answers in the sampled case, in terms of its pieces -/
theorem co_sampled_iff (E : Env K) (P : OverlapPar K) (band src : Spec K) (bm om : Tree K) (x1 y1 b : List K)
    (hbm : band.model = .ok bm) (hom : src.model = .ok om) (ho : om.waveset P.mergeThr = .ok (some b))
    (hb : bm.waveset P.mergeThr = .ok (some x1)) (hy : sampleTree E bm x1 = .ok y1)
    (a1 a2 b1 b2 : K) (h1 : listMin (support x1 y1) = some a1) (h2 : listMax (support x1 y1) = some a2)
    (h3 : listMin b = some b1) (h4 : listMax b = some b2) (v : Verdict) :
    checkOverlap E P band src none = .ok v ↔
      ((overlapStatus a1 a2 b1 b2 = .full ∧ v = .full) ∨ (overlapStatus a1 a2 b1 b2 = .none ∧ v = .none) ∨
       (overlapStatus a1 a2 b1 b2 = .part ∧ ∃ ends, sampleTree E om (endPair x1) = .ok ends ∧
          ((shortcutKind om = true ∧ allNearZero P.allcloseAtol ends = true ∧ v = .full) ∨
           (¬ (shortcutKind om = true ∧ allNearZero P.allcloseAtol ends = true) ∧
              ∃ tot e1 e2, integrateTrapz E bm x1 = .ok tot ∧ 0 < tot ∧
                (if a1 < b1 then integrateTrapz E bm [a1, b1] else .ok 0) = .ok e1 ∧
                (if a2 > b2 then integrateTrapz E bm [b2, a2] else .ok 0) = .ok e2 ∧
                v = gradeVerdict .part false (e1 + e2) tot P.threshold)))) := by
  unfold support at h1 h2
  simp only [checkOverlap, hbm, hom, ho, hb, hy, wavesetOrErr, ok_bind'', Option.isNone_none, Option.isNone_some,
    if_true, Bool.false_eq_true, if_false, pure, Except.pure, h1, h2, h3, h4]
  cases hst : overlapStatus a1 a2 b1 b2 with
  | full =>
    simp only [gradeVerdict, reduceCtorEq, false_and, or_false, true_and, false_or]
    constructor
    · intro h; cases h; rfl
    · intro h; rw [h]
  | none =>
    simp only [gradeVerdict, reduceCtorEq, false_and, or_false, true_and, false_or]
    constructor
    · intro h; cases h; rfl
    · intro h; rw [h]
  | part =>
    simp only [reduceCtorEq, false_and, true_and, false_or]
    constructor
    · intro hv
      obtain ⟨ends, he, hv⟩ := bind_ok hv
      refine ⟨ends, he, ?_⟩
      change (if shortcutKind om = true ∧ allNearZero P.allcloseAtol ends = true then _ else _) = _ at hv
      by_cases hc : shortcutKind om = true ∧ allNearZero P.allcloseAtol ends = true
      · rw [if_pos hc] at hv
        left; exact ⟨hc.1, hc.2, by cases hv; rfl⟩
      · rw [if_neg hc] at hv
        right
        refine ⟨hc, ?_⟩
        obtain ⟨tot, ht, hv⟩ := bind_ok hv
        obtain ⟨_, hvt, hv⟩ := bind_ok hv
        have hpos : 0 < tot := by
          unfold validateTotalflux at hvt
          by_contra hn
          rw [if_pos (not_lt.mp hn)] at hvt
          cases hvt
        refine ⟨tot, ?_⟩
        by_cases c1 : a1 < b1 <;> by_cases c2 : a2 > b2
        · rw [if_pos c1] at hv
          obtain ⟨e1, h1', hv⟩ := bind_ok hv
          rw [if_pos c2] at hv
          obtain ⟨e2, h2', hv⟩ := bind_ok hv
          exact ⟨e1, e2, ht, hpos, by rw [if_pos c1]; exact h1', by rw [if_pos c2]; exact h2', by cases hv; rfl⟩
        · rw [if_pos c1] at hv
          obtain ⟨e1, h1', hv⟩ := bind_ok hv
          rw [if_neg c2] at hv
          exact ⟨e1, 0, ht, hpos, by rw [if_pos c1]; exact h1', by rw [if_neg c2], by cases hv; rfl⟩
        · rw [if_neg c1, if_pos c2] at hv
          obtain ⟨e2, h2', hv⟩ := bind_ok hv
          exact ⟨0, e2, ht, hpos, by rw [if_neg c1], by rw [if_pos c2]; exact h2', by cases hv; rfl⟩
        · rw [if_neg c1, if_neg c2] at hv
          exact ⟨0, 0, ht, hpos, by rw [if_neg c1], by rw [if_neg c2], by cases hv; rfl⟩
    · rintro ⟨ends, he, h⟩
      change (sampleTree E om (endPair x1) >>= fun atEnds =>
        if shortcutKind om = true ∧ allNearZero P.allcloseAtol atEnds = true then _ else _) = _
      rw [he, ok_bind'']
      rcases h with ⟨hk, hz, rfl⟩ | ⟨hc, tot, e1, e2, ht, hpos, he1, he2, rfl⟩
      · rw [if_pos ⟨hk, hz⟩]; rfl
      · rw [if_neg hc, ht, ok_bind'']
        have hvt : validateTotalflux tot = .ok () := by
          unfold validateTotalflux; rw [if_neg (not_le.mpr hpos)]
        rw [hvt, ok_bind'']
        by_cases c1 : a1 < b1 <;> by_cases c2 : a2 > b2
        · rw [if_pos c1] at he1; rw [if_pos c2] at he2
          rw [if_pos c1, he1, ok_bind'', if_pos c2, he2, ok_bind'']
        · rw [if_pos c1] at he1; rw [if_neg c2] at he2
          cases he2
          rw [if_pos c1, he1, ok_bind'', if_neg c2]
        · rw [if_neg c1] at he1; rw [if_pos c2] at he2
          cases he1
          rw [if_neg c1, if_pos c2, he2, ok_bind'']
        · rw [if_neg c1] at he1; rw [if_neg c2] at he2
          cases he1; cases he2
          rw [if_neg c1, if_neg c2]

theorem sampleTree_table (E : Env K) (t : Table K) (xs : List K) :
    sampleTree E (.leaf (.table t)) xs = .ok (xs.map t.eval) := by
  unfold sampleTree
  induction xs with
  | nil => rfl
  | cons a l ih =>
    rw [List.mapM_cons, ih]; rfl

theorem model_z0 (s : Spec K) (hz : s.zs.z = 0) : s.model = .ok s.tree := by
  unfold Spec.model ZState.model
  cases s.kind <;> simp [hz]

theorem spec_taper_table (E : Env K) (thr : K) (s : Spec K) (t : Table K) (x0 x1 : K) (xs : List K)
    (ht : s.tree = .leaf (.table t)) (hz : s.zs.z = 0) (hp : t.pts = x0 :: x1 :: xs)
    (hv : validateWavelengths t.pts = .ok ()) :
    s.taper E thr none = .ok (t.taper.map fun t' => Spec.ofTree s.kind (.leaf (.table t'))) := by
  have hm : s.model = .ok (.leaf (.table t)) := by rw [model_z0 s hz, ht]
  rw [hp] at hv
  by_cases h1 : t.vals.headD 0 = 0 <;> by_cases h2 : t.vals.getLastD 0 = 0 <;>
  simp only [Spec.taper, hm, ok_bind'', wavesetOrErr, Tree.waveset, Tree.sampleset, Leaf.sampleset, pure, Except.pure, ht,
    Tree.rootTable?, hp, hv, sampleTree_table, Table.taper, taperPts, h1, h2, and_self, and_true, and_false, false_and,
    if_true, if_false, ne_eq, not_true_eq_false, not_false_eq_true, Option.map_none, Option.map_some]

theorem endsZero_iff (l : List K) (h : l ≠ []) : endsZero l = true ↔ (l.headD 0 = 0 ∧ l.getLastD 0 = 0) := by
  cases l with
  | nil => exact absurd rfl h
  | cons a t =>
    have hl : (a :: t).getLast? = some ((a :: t).getLast h) := List.getLast?_eq_getLast_of_ne_nil h
    have hd : (a :: t).getLastD 0 = (a :: t).getLast h := by
      rw [List.getLastD_eq_getLast?, hl]; rfl
    simp only [endsZero, List.head?_cons, hl, hd, List.headD_cons, Bool.and_eq_true, decide_eq_true_eq]

/-- the point `taper` adds below the table: `x₀²/x₁` -/
def lowEnd (t : Table K) : K := t.pts.headD 0 ^ 2 / t.pts.tail.headD 0
/-- the point `taper` adds above the table: `xₙ²/xₙ₋₁` -/
def highEnd (t : Table K) : K := t.pts.getLastD 0 ^ 2 / t.pts.dropLast.getLastD 0

/-- the table `taper()` builds from a well-formed table on positive wavelengths, explicitly -/
theorem taper_explicit (t : Table K) (x0 x1 : K) (xs : List K) (hp : t.pts = x0 :: x1 :: xs)
    (hw : C03.WF t) (hc : C03.Clipped t) (hpos : 0 < x0) :
    t.taper = if t.vals.headD 0 = 0 ∧ t.vals.getLastD 0 = 0 then none else
      some { pts := (if t.vals.headD 0 ≠ 0 then [lowEnd t] else []) ++ t.pts ++
                      (if t.vals.getLastD 0 ≠ 0 then [highEnd t] else []),
             vals := (if t.vals.headD 0 ≠ 0 then [0] else []) ++ t.vals ++
                      (if t.vals.getLastD 0 ≠ 0 then [0] else []),
             keepNeg := t.keepNeg, fillNaN := false } := by
  have hasc : StrictAsc (x0 :: x1 :: xs) := hp ▸ hw.asc
  have h01 : x0 < x1 := hasc.1
  obtain ⟨hlt, hge⟩ := dropLast_last_lt x0 x1 xs hasc
  have hout := C03.taper_points_outside x0 x1 _ _ hpos h01 (lt_of_lt_of_le hpos hge) hlt
  have hknots : (x0 :: x1 :: xs).map t.eval = t.vals := hp ▸ C03.eval_at_knots t hw hc
  have hlen : (x0 :: x1 :: xs).length = t.vals.length := by rw [← hp]; exact hw.len.symm
  have hspec := C03.taper_spec x0 x1 xs (t.vals.headD 0) (t.vals.getLastD 0) t.eval
  dsimp only at hspec
  have hlo : lowEnd t = x0 ^ 2 / x1 := by simp only [lowEnd, hp, List.headD_cons, List.tail_cons]
  have hhi : highEnd t = (x0 :: x1 :: xs).getLastD x0 ^ 2 / (x0 :: x1 :: xs).dropLast.getLastD x0 := by
    simp only [highEnd, hp, List.getLastD_cons, List.dropLast_cons_cons, List.dropLast]
  have hvne : t.vals ≠ [] := by
    intro h; rw [h] at hlen; simp at hlen
  unfold Table.taper
  rw [hp, hspec, hknots, hlo, hhi]
  set w1 := x0 ^ 2 / x1 with hw1
  set w2 := (x0 :: x1 :: xs).getLastD x0 ^ 2 / (x0 :: x1 :: xs).dropLast.getLastD x0 with hw2
  have hlastlt : ∀ y ∈ (x0 :: x1 :: xs).getLast?, y < w2 := by
    intro y hy
    have : (x0 :: x1 :: xs).getLastD x0 = y := by rw [List.getLastD_eq_getLast?, hy]; rfl
    rw [← this]; exact hout.2
  have hascA : StrictAsc ((x0 :: x1 :: xs) ++ [w2]) := strictAsc_append_one _ _ hasc hlastlt
  have hascP : StrictAsc (w1 :: x0 :: x1 :: xs) := strictAsc_cons_one _ _ hasc (by simp; exact hout.1)
  have hascPA : StrictAsc (w1 :: ((x0 :: x1 :: xs) ++ [w2])) :=
    strictAsc_cons_one _ _ hascA (by simp; exact hout.1)
  have hzero : t.keepNeg = true ∨ ∀ v ∈ t.vals, 0 ≤ v := hc
  have hnnA : t.keepNeg = true ∨ ∀ v ∈ t.vals ++ [0], 0 ≤ v := by
    rcases hzero with h | h
    · exact Or.inl h
    · right; intro v hv'; rcases List.mem_append.mp hv' with h' | h'
      · exact h v h'
      · simp at h'; rw [h']
  have hnnP : t.keepNeg = true ∨ ∀ v ∈ (0 : K) :: t.vals, 0 ≤ v := by
    rcases hzero with h | h
    · exact Or.inl h
    · right; intro v hv'; rcases List.mem_cons.mp hv' with h' | h'
      · rw [h']
      · exact h v h'
  have hnnPA : t.keepNeg = true ∨ ∀ v ∈ (0 : K) :: (t.vals ++ [0]), 0 ≤ v := by
    rcases hnnA with h | h
    · exact Or.inl h
    · right; intro v hv'; rcases List.mem_cons.mp hv' with h' | h'
      · rw [h']
      · exact h v h'
  by_cases h1 : t.vals.headD 0 = 0 <;> by_cases h2 : t.vals.getLastD 0 = 0
  · simp only [h1, h2, and_self, if_true]
  · simp only [h1, h2, and_false, if_false, ne_eq, not_true_eq_false, not_false_eq_true, if_true,
      List.nil_append]
    rw [C03.mkTable_of_asc _ _ _ hascA hnnA]
    have he : endsZero (t.vals ++ [0]) = true := by
      rw [endsZero_iff _ (by simp)]
      refine ⟨?_, by simp⟩
      cases hv : t.vals with
      | nil => exact absurd hv hvne
      | cons a l => rw [hv] at h1; simpa using h1
    rw [he]; rfl
  · simp only [h1, h2, false_and, if_false, ne_eq, not_true_eq_false, not_false_eq_true, if_true,
      List.append_nil, List.singleton_append]
    rw [C03.mkTable_of_asc _ _ _ hascP hnnP]
    have he : endsZero ((0 : K) :: t.vals) = true := by
      rw [endsZero_iff _ (by simp)]
      refine ⟨by simp, ?_⟩
      cases hv : t.vals with
      | nil => exact absurd hv hvne
      | cons a l => rw [hv] at h2; simpa [List.getLastD_cons] using h2
    rw [he]; rfl
  · simp only [h1, h2, false_and, and_false, if_false, ne_eq, not_true_eq_false, not_false_eq_true, if_true,
      List.singleton_append]
    have he : endsZero ((0 : K) :: (t.vals ++ [0])) = true := by
      rw [endsZero_iff _ (by simp)]
      refine ⟨by simp, ?_⟩
      rw [List.getLastD_cons, List.getLastD_concat]
    show some (mkTable (w1 :: ((x0 :: x1 :: xs) ++ [w2])) (0 :: (t.vals ++ [0])) t.keepNeg).1 = _
    rw [C03.mkTable_of_asc _ _ _ hascPA hnnPA, he]; rfl

/-! ### the shape of every answer of `check_overlap(other)` without wavelengths -/

/-- without sampling wavelengths an answer arises in exactly one of three ways: the other spectrum has no
sampling set ('full'), the bandpass has none ('partial_notmost'), or both are sampled -/
theorem co_cases (E : Env K) (P : OverlapPar K) (band src : Spec K) (v : Verdict)
    (hv : checkOverlap E P band src none = .ok v) :
    ∃ bm om, band.model = .ok bm ∧ src.model = .ok om ∧
      ((om.waveset P.mergeThr = .ok none ∧ v = .full) ∨
       (∃ b, om.waveset P.mergeThr = .ok (some b) ∧
          ((bm.waveset P.mergeThr = .ok none ∧ v = .partialNotMost) ∨
           (∃ x1 y1, bm.waveset P.mergeThr = .ok (some x1) ∧ sampleTree E bm x1 = .ok y1)))) := by
  cases hbm : band.model with
  | error e => simp [checkOverlap, hbm, bind, Except.bind] at hv
  | ok bm =>
  cases hom : src.model with
  | error e => simp [checkOverlap, hbm, hom, bind, Except.bind] at hv
  | ok om =>
  refine ⟨bm, om, rfl, rfl, ?_⟩
  cases ho : om.waveset P.mergeThr with
  | error e => simp [checkOverlap, hbm, hom, ho, bind, Except.bind] at hv
  | ok ow =>
  cases ow with
  | none =>
    left
    simp only [checkOverlap, hbm, hom, ho, ok_bind'', Option.isNone_none, if_true, pure, Except.pure] at hv
    exact ⟨rfl, by cases hv; rfl⟩
  | some b =>
    right
    refine ⟨b, rfl, ?_⟩
    cases hb : bm.waveset P.mergeThr with
    | error e => simp [checkOverlap, hbm, hom, ho, hb, bind, Except.bind] at hv
    | ok bw =>
    cases bw with
    | none =>
      left
      simp only [checkOverlap, hbm, hom, ho, hb, ok_bind'', Option.isNone_none, Option.isNone_some, if_true,
        Bool.false_eq_true, if_false, pure, Except.pure] at hv
      exact ⟨rfl, by cases hv; rfl⟩
    | some x1 =>
      right
      refine ⟨x1, ?_⟩
      cases hy : sampleTree E bm x1 with
      | error e =>
        simp [checkOverlap, hbm, hom, ho, hb, hy, wavesetOrErr, bind, Except.bind, pure, Except.pure] at hv
      | ok y1 => exact ⟨y1, rfl, rfl⟩

/-- an error inside `check_overlap` is the constructor's error, whatever `force` says -/
theorem obsAdmit_error (E : Env K) (P : OverlapPar K) (src band : Spec K) (force : Force) (e : Err)
    (h : checkOverlap E P band src none = .error e) : obsAdmit E P src band force = .error e := by
  simp [obsAdmit, h, bind, Except.bind]

/-! ### minimum / maximum of a list -/

theorem foldl_min_spec (l : List K) (a : K) :
    (l.foldl min a = a ∨ l.foldl min a ∈ l) ∧ l.foldl min a ≤ a ∧ ∀ x ∈ l, l.foldl min a ≤ x := by
  induction l generalizing a with
  | nil => simp
  | cons b t ih =>
    obtain ⟨h1, h2, h3⟩ := ih (min a b)
    simp only [List.foldl_cons, List.mem_cons]
    refine ⟨?_, le_trans h2 (min_le_left _ _), ?_⟩
    · rcases h1 with h1 | h1
      · rcases min_choice a b with hm | hm
        · left; rw [h1, hm]
        · right; left; rw [h1, hm]
      · right; right; exact h1
    · intro x hx
      rcases hx with rfl | hx
      · exact le_trans h2 (min_le_right _ _)
      · exact h3 x hx

theorem foldl_max_spec (l : List K) (a : K) :
    (l.foldl max a = a ∨ l.foldl max a ∈ l) ∧ a ≤ l.foldl max a ∧ ∀ x ∈ l, x ≤ l.foldl max a := by
  induction l generalizing a with
  | nil => simp
  | cons b t ih =>
    obtain ⟨h1, h2, h3⟩ := ih (max a b)
    simp only [List.foldl_cons, List.mem_cons]
    refine ⟨?_, le_trans (le_max_left _ _) h2, ?_⟩
    · rcases h1 with h1 | h1
      · rcases max_choice a b with hm | hm
        · left; rw [h1, hm]
        · right; left; rw [h1, hm]
      · right; right; exact h1
    · intro x hx
      rcases hx with rfl | hx
      · exact le_trans (le_max_right _ _) h2
      · exact h3 x hx

/-- `a.min()`: a member below all members -/
theorem listMin_spec (l : List K) (m : K) (h : listMin l = some m) : m ∈ l ∧ ∀ x ∈ l, m ≤ x := by
  cases l with
  | nil => cases h
  | cons a t =>
    simp only [listMin, Option.some.injEq] at h
    subst h
    obtain ⟨h1, h2, h3⟩ := foldl_min_spec t a
    refine ⟨?_, ?_⟩
    · rcases h1 with h1 | h1
      · rw [h1]; exact List.mem_cons_self
      · exact List.mem_cons_of_mem _ h1
    · intro x hx
      rcases List.mem_cons.mp hx with rfl | hx
      · exact h2
      · exact h3 x hx

/-- `a.max()`: a member above all members -/
theorem listMax_spec (l : List K) (m : K) (h : listMax l = some m) : m ∈ l ∧ ∀ x ∈ l, x ≤ m := by
  cases l with
  | nil => cases h
  | cons a t =>
    simp only [listMax, Option.some.injEq] at h
    subst h
    obtain ⟨h1, h2, h3⟩ := foldl_max_spec t a
    refine ⟨?_, ?_⟩
    · rcases h1 with h1 | h1
      · rw [h1]; exact List.mem_cons_self
      · exact List.mem_cons_of_mem _ h1
    · intro x hx
      rcases List.mem_cons.mp hx with rfl | hx
      · exact h2
      · exact h3 x hx

theorem listMin_le_listMax (l : List K) (a b : K) (h1 : listMin l = some a) (h2 : listMax l = some b) : a ≤ b :=
  (listMin_spec l a h1).2 b (listMax_spec l b h2).1

/-! ### samples -/

/-- a successful sampling pairs every wavelength with the value of the model there -/
theorem sampleTree_zip (E : Env K) (m : Tree K) :
    ∀ (xs ys : List K), sampleTree E m xs = .ok ys → ∀ p ∈ xs.zip ys, m.eval E p.1 = .ok p.2 := by
  intro xs
  induction xs with
  | nil => intro ys _ p hp; simp at hp
  | cons a l ih =>
    intro ys h p hp
    unfold sampleTree at h
    rw [List.mapM_cons] at h
    obtain ⟨v, hv, h⟩ := bind_ok h
    obtain ⟨vs, hvs, h⟩ := bind_ok h
    cases h
    simp only [List.zip_cons_cons, List.mem_cons] at hp
    rcases hp with rfl | hp
    · exact hv
    · exact ih vs hvs p hp

theorem mem_support (x1 y1 : List K) (x : K) : x ∈ support x1 y1 ↔ ∃ y, (x, y) ∈ x1.zip y1 ∧ 0 < y := by
  simp [support]

/-- every member of the positive-throughput sample set is a sampled wavelength of the bandpass at which its
throughput is positive -/
theorem support_sound (E : Env K) (m : Tree K) (x1 y1 : List K) (h : sampleTree E m x1 = .ok y1) (x : K)
    (hx : x ∈ support x1 y1) : x ∈ x1 ∧ ∃ y, m.eval E x = .ok y ∧ 0 < y := by
  obtain ⟨y, hm, hy⟩ := (mem_support x1 y1 x).mp hx
  exact ⟨(List.of_mem_zip hm).1, y, sampleTree_zip E m x1 y1 h (x, y) hm, hy⟩

/-- and conversely: a sampled wavelength whose throughput is positive is in the set -/
theorem support_complete (E : Env K) (m : Tree K) :
    ∀ (x1 y1 : List K), sampleTree E m x1 = .ok y1 → ∀ x ∈ x1, ∀ y, m.eval E x = .ok y → 0 < y →
      x ∈ support x1 y1 := by
  intro x1
  induction x1 with
  | nil => intro y1 _ x hx; simp at hx
  | cons a l ih =>
    intro y1 h x hx y hy hpos
    unfold sampleTree at h
    rw [List.mapM_cons] at h
    obtain ⟨v, hv, h⟩ := bind_ok h
    obtain ⟨vs, hvs, h⟩ := bind_ok h
    cases h
    rw [mem_support]
    rcases List.mem_cons.mp hx with rfl | hx
    · refine ⟨y, ?_, hpos⟩
      rw [hy] at hv; cases hv
      simp
    · obtain ⟨y', hm, hy'⟩ := (mem_support l vs x).mp (ih vs hvs x hx y hy hpos)
      exact ⟨y', by simp only [List.zip_cons_cons, List.mem_cons]; exact Or.inr hm, hy'⟩

/-! ### values of a table outside its range -/

/-- a zero-filled table, or one whose end values are zero, is zero outside its range -/
theorem eval_outside_zero (t : Table K)
    (hz : t.fillNaN = false ∨ (t.vals.headD 0 = 0 ∧ t.vals.getLastD 0 = 0)) (x : K)
    (hx : x < t.pts.headD 0 ∨ t.pts.getLastD 0 < x) : t.eval x = 0 := by
  have hraw : (if x < t.pts.headD 0 then (if t.fillNaN then t.vals.headD 0 else 0)
      else if x > t.pts.getLastD 0 then (if t.fillNaN then t.vals.getLastD 0 else 0)
      else interpAsc t.pts t.vals x) = 0 := by
    by_cases h1 : x < t.pts.headD 0
    · rw [if_pos h1]
      rcases hz with hz | hz
      · simp [hz]
      · rw [hz.1]; simp
    · have h2 : t.pts.getLastD 0 < x := by
        rcases hx with hx | hx
        · exact absurd hx h1
        · exact hx
      rw [if_neg h1, if_pos h2]
      rcases hz with hz | hz
      · simp [hz]
      · rw [hz.2]; simp
  unfold Table.eval
  dsimp only
  rw [hraw]
  simp

/-- inside the table's range the fill rule is not consulted -/
theorem forceExtrap_inside (t : Table K) (x : K) (h0 : t.pts.headD 0 ≤ x) (hn : x ≤ t.pts.getLastD 0) :
    t.forceExtrap.eval x = t.eval x := by
  have hn' : ¬ x > t.pts.getLastD 0 := not_lt.mpr hn
  simp only [Table.eval, Table.forceExtrap, if_neg (not_lt.mpr h0), if_neg hn']

/-- the first / last value of a clipped table is admissible -/
theorem clipped_head (t : Table K) (hc : C03.Clipped t) : t.keepNeg = true ∨ 0 ≤ t.vals.headD 0 := by
  rcases hc with h | h
  · exact Or.inl h
  · right
    cases hv : t.vals with
    | nil => simp
    | cons a l => simp only [List.headD_cons]; exact h a (by rw [hv]; exact List.mem_cons_self)

theorem clipped_last (t : Table K) (hc : C03.Clipped t) : t.keepNeg = true ∨ 0 ≤ t.vals.getLastD 0 := by
  rcases hc with h | h
  · exact Or.inl h
  · right
    cases hv : t.vals with
    | nil => simp
    | cons a l =>
      have hne : (a :: l) ≠ [] := by simp
      have : (a :: l).getLastD 0 = (a :: l).getLast hne := by
        rw [List.getLastD_eq_getLast?, List.getLast?_eq_getLast_of_ne_nil hne]; rfl
      rw [this]; exact h _ (by rw [hv]; exact List.getLast_mem hne)

/-- first point ≤ last point of an ascending table -/
theorem head_le_last (l : List K) (hs : StrictAsc l) : l.headD 0 ≤ l.getLastD 0 := by
  cases l with
  | nil => simp
  | cons a t => exact strictAsc_mem_le_last (a :: t) hs 0 a List.mem_cons_self

/-- positive, strictly ascending points pass `validate_wavelengths` -/
theorem validate_of_asc (x0 : K) (l : List K) (hs : StrictAsc (x0 :: l)) (hpos : 0 < x0) :
    validateWavelengths (x0 :: l) = .ok () := by
  rw [validate_ok_iff]
  exact ⟨fun x hx => lt_of_lt_of_le hpos (strictAsc_head_le_mem x0 l hs x hx), Or.inl hs⟩

/-! ### the tapered table -/

theorem getLastD_append_cons (l : List K) (a : K) (t : List K) (d : K) :
    (l ++ a :: t).getLastD d = t.getLastD a := by
  induction l generalizing d with
  | nil => simp only [List.nil_append, List.getLastD_cons]
  | cons b l ih => rw [List.cons_append, List.getLastD_cons, ih]

/-- what is known of the table `taper()` returns -/
theorem taper_some_props (t : Table K) (x0 x1 : K) (xs : List K) (hp : t.pts = x0 :: x1 :: xs)
    (hw : C03.WF t) (hc : C03.Clipped t) (hpos : 0 < x0) (t' : Table K) (ht : t.taper = some t') :
    t'.fillNaN = false ∧ t'.keepNeg = t.keepNeg ∧
    t'.pts.headD 0 = (if t.vals.headD 0 = 0 then x0 else lowEnd t) ∧
    t'.pts.getLastD 0 = (if t.vals.getLastD 0 = 0 then t.pts.getLastD 0 else highEnd t) := by
  rw [taper_explicit t x0 x1 xs hp hw hc hpos] at ht
  by_cases hb : t.vals.headD 0 = 0 ∧ t.vals.getLastD 0 = 0
  · rw [if_pos hb] at ht; cases ht
  · rw [if_neg hb] at ht
    cases ht
    refine ⟨rfl, rfl, ?_, ?_⟩
    · by_cases h1 : t.vals.headD 0 = 0
      · simp only [h1, ne_eq, not_true_eq_false, if_false, if_true, List.nil_append, hp, List.cons_append,
          List.headD_cons]
      · simp only [h1, ne_eq, not_false_eq_true, if_false, if_true, List.cons_append, List.headD_cons]
    · by_cases h2 : t.vals.getLastD 0 = 0
      · simp only [h2, ne_eq, not_true_eq_false, if_false, if_true, List.append_nil, hp, getLastD_append_cons,
          List.getLastD_cons]
      · simp only [h2, ne_eq, not_false_eq_true, if_false, if_true, List.getLastD_concat]

/-! ### the ramps of the tapered table -/

/-- the last segment of a table to which one knot was appended -/
theorem segs_append_last (w2 y2 : K) : ∀ (L V : List K), L.length = V.length → L ≠ [] →
    ((L.getLastD 0, V.getLastD 0), (w2, y2)) ∈ segs (L ++ [w2]) (V ++ [y2]) := by
  intro L
  induction L with
  | nil => intro V _ h; exact absurd rfl h
  | cons a L ih =>
    intro V hl _
    cases V with
    | nil => simp at hl
    | cons b V =>
      cases L with
      | nil =>
        cases V with
        | nil => simp [segs]
        | cons _ _ => simp at hl
      | cons a2 L =>
        cases V with
        | nil => simp at hl
        | cons b2 V =>
          have := ih (b2 :: V) (by simpa using hl) (by simp)
          simp only [List.cons_append, segs, List.mem_cons, List.getLastD_cons] at this ⊢
          exact Or.inr this

/-- the tapered table is well-formed and clipped -/
theorem taper_wf (t : Table K) (x0 x1 : K) (xs : List K) (hp : t.pts = x0 :: x1 :: xs)
    (hw : C03.WF t) (hc : C03.Clipped t) (hpos : 0 < x0) (t' : Table K) (ht : t.taper = some t') :
    C03.WF t' ∧ C03.Clipped t' := by
  have hasc : StrictAsc (x0 :: x1 :: xs) := hp ▸ hw.asc
  have h01 : x0 < x1 := hasc.1
  obtain ⟨hlt, hge⟩ := dropLast_last_lt x0 x1 xs hasc
  have hout := C03.taper_points_outside x0 x1 _ _ hpos h01 (lt_of_lt_of_le hpos hge) hlt
  have hlo : lowEnd t = x0 ^ 2 / x1 := by simp only [lowEnd, hp, List.headD_cons, List.tail_cons]
  have hhi : highEnd t = (x0 :: x1 :: xs).getLastD x0 ^ 2 / (x0 :: x1 :: xs).dropLast.getLastD x0 := by
    simp only [highEnd, hp, List.getLastD_cons, List.dropLast_cons_cons, List.dropLast]
  have hlastlt : ∀ y ∈ (x0 :: x1 :: xs).getLast?, y < highEnd t := by
    intro y hy
    have : (x0 :: x1 :: xs).getLastD x0 = y := by rw [List.getLastD_eq_getLast?, hy]; rfl
    rw [← this, hhi]; exact hout.2
  have hascA : StrictAsc ((x0 :: x1 :: xs) ++ [highEnd t]) := strictAsc_append_one _ _ hasc hlastlt
  have hascP : StrictAsc (lowEnd t :: x0 :: x1 :: xs) :=
    strictAsc_cons_one _ _ hasc (by simp; rw [hlo]; exact hout.1)
  have hascPA : StrictAsc (lowEnd t :: ((x0 :: x1 :: xs) ++ [highEnd t])) :=
    strictAsc_cons_one _ _ hascA (by simp; rw [hlo]; exact hout.1)
  rw [taper_explicit t x0 x1 xs hp hw hc hpos] at ht
  by_cases hb : t.vals.headD 0 = 0 ∧ t.vals.getLastD 0 = 0
  · rw [if_pos hb] at ht; cases ht
  · rw [if_neg hb] at ht
    cases ht
    constructor
    · constructor
      · show StrictAsc ((if t.vals.headD 0 ≠ 0 then [lowEnd t] else []) ++ t.pts ++
          (if t.vals.getLastD 0 ≠ 0 then [highEnd t] else []))
        rw [hp]
        by_cases h1 : t.vals.headD 0 = 0 <;> by_cases h2 : t.vals.getLastD 0 = 0 <;>
          simp only [h1, h2, ne_eq, not_true_eq_false, not_false_eq_true, if_true, if_false, List.nil_append,
            List.append_nil, List.singleton_append]
        · exact hasc
        · exact hascA
        · exact hascP
        · exact hascPA
      · show ((if t.vals.headD 0 ≠ 0 then [(0 : K)] else []) ++ t.vals ++
          (if t.vals.getLastD 0 ≠ 0 then [0] else [])).length =
          ((if t.vals.headD 0 ≠ 0 then [lowEnd t] else []) ++ t.pts ++
          (if t.vals.getLastD 0 ≠ 0 then [highEnd t] else [])).length
        by_cases h1 : t.vals.headD 0 = 0 <;> by_cases h2 : t.vals.getLastD 0 = 0 <;>
          simp only [h1, h2, ne_eq, not_true_eq_false, not_false_eq_true, if_true, if_false, List.length_append,
            List.length_cons, List.length_nil, hw.len]
    · rcases hc with hk | hk
      · exact Or.inl hk
      · right
        intro y hy
        change y ∈ (if t.vals.headD 0 ≠ 0 then [(0 : K)] else []) ++ t.vals ++
          (if t.vals.getLastD 0 ≠ 0 then [0] else []) at hy
        rcases List.mem_append.mp hy with hy | hy
        · rcases List.mem_append.mp hy with hy | hy
          · split_ifs at hy <;> simp at hy; rw [hy]
          · exact hk y hy
        · split_ifs at hy <;> simp at hy; rw [hy]

theorem taper_pts_vals (t : Table K) (x0 x1 : K) (xs : List K) (hp : t.pts = x0 :: x1 :: xs)
    (hw : C03.WF t) (hc : C03.Clipped t) (hpos : 0 < x0) (t' : Table K) (ht : t.taper = some t') :
    t'.pts = (if t.vals.headD 0 ≠ 0 then [lowEnd t] else []) ++ t.pts ++
      (if t.vals.getLastD 0 ≠ 0 then [highEnd t] else []) ∧
    t'.vals = (if t.vals.headD 0 ≠ 0 then [0] else []) ++ t.vals ++ (if t.vals.getLastD 0 ≠ 0 then [0] else []) := by
  rw [taper_explicit t x0 x1 xs hp hw hc hpos] at ht
  by_cases hb : t.vals.headD 0 = 0 ∧ t.vals.getLastD 0 = 0
  · rw [if_pos hb] at ht; cases ht
  · rw [if_neg hb] at ht; cases ht; exact ⟨rfl, rfl⟩

/-- between an added end point and the table's own end the tapered table is the straight line from zero to
the end value -/
theorem taper_ramps (t : Table K) (x0 x1 : K) (xs : List K) (hp : t.pts = x0 :: x1 :: xs)
    (hw : C03.WF t) (hc : C03.Clipped t) (hpos : 0 < x0) (t' : Table K) (ht : t.taper = some t') :
    (t.vals.headD 0 ≠ 0 → ∀ x, lowEnd t ≤ x → x ≤ x0 →
      t'.eval x = chord ((lowEnd t, 0), (x0, t.vals.headD 0)) x) ∧
    (t.vals.getLastD 0 ≠ 0 → ∀ x, t.pts.getLastD 0 ≤ x → x ≤ highEnd t →
      t'.eval x = chord ((t.pts.getLastD 0, t.vals.getLastD 0), (highEnd t, 0)) x) := by
  obtain ⟨hwf, hcl⟩ := taper_wf t x0 x1 xs hp hw hc hpos t' ht
  obtain ⟨hpts, hvals⟩ := taper_pts_vals t x0 x1 xs hp hw hc hpos t' ht
  have hlen : (x0 :: x1 :: xs).length = t.vals.length := by rw [← hp]; exact hw.len.symm
  obtain ⟨y0, y1, ys, hv⟩ : ∃ y0 y1 ys, t.vals = y0 :: y1 :: ys := by
    match hvv : t.vals, hlen with
    | y0 :: y1 :: ys, _ => exact ⟨y0, y1, ys, rfl⟩
    | [_], h => simp at h
    | [], h => simp at h
  constructor
  · intro h1 x hx1 hx2
    have hs : ((lowEnd t, (0 : K)), (x0, t.vals.headD 0)) ∈ segs t'.pts t'.vals := by
      rw [hpts, hvals, if_pos h1, if_pos h1, hp, hv]
      simp only [List.singleton_append, List.cons_append, List.nil_append, segs, List.headD_cons, List.mem_cons,
        true_or]
    exact C03.eval_is_chord t' hwf hcl _ hs x hx1 hx2
  · intro h2 x hx1 hx2
    have hs : ((t.pts.getLastD 0, t.vals.getLastD 0), (highEnd t, (0 : K))) ∈ segs t'.pts t'.vals := by
      rw [hpts, hvals, if_pos h2, if_pos h2]
      have hL : ((if t.vals.headD 0 ≠ 0 then [lowEnd t] else []) ++ t.pts).getLastD 0 = t.pts.getLastD 0 := by
        simp only [hp, getLastD_append_cons, List.getLastD_cons]
      have hV : ((if t.vals.headD 0 ≠ 0 then [(0 : K)] else []) ++ t.vals).getLastD 0 = t.vals.getLastD 0 := by
        simp only [hv, getLastD_append_cons, List.getLastD_cons]
      rw [← hL, ← hV]
      apply segs_append_last
      · by_cases h1 : t.vals.headD 0 = 0 <;>
          simp only [h1, ne_eq, not_true_eq_false, not_false_eq_true, if_true, if_false, List.length_append,
            List.length_cons, List.length_nil, hw.len]
      · rw [hp]; simp
    exact C03.eval_is_chord t' hwf hcl _ hs x hx1 hx2

/-! ### a tabulated spectrum object under redshift -/

/-- the rest-frame wavelength at which a (possibly redshifted) spectrum object reads its own model -/
def restWave (s : Spec K) (x : K) : K := if s.kind = .source ∧ s.zs.z ≠ 0 then x / (1 + s.zs.z) else x

/-- the flux factor of a redshifted source (`Scale(1/(1+z))` under `conserve_flux`, else none) -/
def fluxFactor (s : Spec K) : K :=
  if s.kind = .source ∧ s.zs.z ≠ 0 ∧ s.zs.zType = .conserveFlux then s.zs.fluxScale.getD 1 else 1

/-- sampling a spectrum object whose own model is a table: the table at the rest-frame wavelength, times
the flux factor -/
theorem table_evalAt (E : Env K) (s : Spec K) (t : Table K) (ht : s.tree = .leaf (.table t)) (m : Tree K)
    (hm : s.model = .ok m) (x : K) : s.evalAt E x = .ok (t.eval (restWave s x) * fluxFactor s) := by
  unfold Spec.evalAt
  rw [hm, ok_bind'']
  unfold Spec.model at hm
  by_cases hk : s.kind = .source
  · rw [hk] at hm
    simp only [] at hm
    unfold ZState.model at hm
    by_cases hz : s.zs.z = 0
    · rw [if_pos hz] at hm
      cases hm
      simp only [restWave, fluxFactor, hz, ne_eq, not_true_eq_false, and_false, false_and, if_false, ht, Tree.eval,
        Leaf.eval, mul_one]
    · rw [if_neg hz] at hm
      cases hzt : s.zs.zType with
      | wavelengthOnly =>
        rw [hzt] at hm
        cases hm
        simp only [restWave, fluxFactor, hk, hz, hzt, ne_eq, not_false_eq_true, and_self, and_true, reduceCtorEq,
          and_false, if_true, if_false, ht, Tree.eval, Leaf.eval, mul_one]
      | conserveFlux =>
        rw [hzt] at hm
        cases hfs : s.zs.fluxScale with
        | none => rw [hfs] at hm; cases hm
        | some k =>
          rw [hfs] at hm
          cases hm
          simp only [restWave, fluxFactor, hk, hz, hzt, hfs, ne_eq, not_false_eq_true, and_self, if_true, ht, Tree.eval,
            Leaf.eval, ok_bind'', Option.getD_some, pure, Except.pure]
  · have : s.model = .ok s.tree := model_of_not_source s hk
    unfold Spec.model at this
    rw [this] at hm
    cases hm
    simp only [restWave, fluxFactor, hk, false_and, if_false, ht, Tree.eval, Leaf.eval, mul_one]

/-- whether the `model` property raises does not depend on the stored tree -/
theorem model_ok_swap (s : Spec K) (tr : Tree K) (m : Tree K) (hm : s.model = .ok m) :
    ∃ m', ({ s with tree := tr } : Spec K).model = .ok m' := by
  unfold Spec.model at hm ⊢
  cases hk : s.kind <;> rw [hk] at hm <;> simp only [] at hm ⊢ <;> try exact ⟨_, rfl⟩
  unfold ZState.model at hm ⊢
  by_cases hz : s.zs.z = 0
  · rw [if_pos hz]; exact ⟨_, rfl⟩
  · rw [if_neg hz] at hm ⊢
    cases hzt : s.zs.zType with
    | wavelengthOnly => exact ⟨_, rfl⟩
    | conserveFlux =>
      rw [hzt] at hm
      cases hfs : s.zs.fluxScale with
      | none => rw [hfs] at hm; cases hm
      | some k => exact ⟨_, rfl⟩

/-! ### the table as observed: points × (1 + z), values × flux factor -/

/-- interpolation commutes with a positive scaling of the points and any scaling of the values -/
theorem interpAsc_scale (c k : K) (hc : 0 < c) : ∀ (xs ys : List K) (x : K),
    interpAsc (xs.map (· * c)) (ys.map (· * k)) x = interpAsc xs ys (x / c) * k := by
  intro xs
  induction xs with
  | nil =>
    intro ys x
    cases ys with
    | nil => simp [interpAsc]
    | cons y0 ys => simp [interpAsc]
  | cons x0 xs ih =>
    intro ys x
    cases ys with
    | nil => simp [interpAsc]
    | cons y0 ys =>
      cases xs with
      | nil => simp [interpAsc]
      | cons x1 xs =>
        cases ys with
        | nil => simp [interpAsc]
        | cons y1 ys =>
          have hiff : x ≤ x1 * c ↔ x / c ≤ x1 := (div_le_iff₀ hc).symm
          simp only [List.map_cons, interpAsc]
          by_cases h : x ≤ x1 * c
          · rw [if_pos h, if_pos (hiff.mp h)]
            have hcne : c ≠ 0 := ne_of_gt hc
            by_cases hx : x1 - x0 = 0
            · have : x1 * c - x0 * c = 0 := by rw [← sub_mul, hx, zero_mul]
              simp only [this, hx, div_zero]; ring
            · have : x1 * c - x0 * c ≠ 0 := by rw [← sub_mul]; exact mul_ne_zero hx hcne
              field_simp
          · rw [if_neg h, if_neg (fun h' => h (hiff.mpr h'))]
            have := ih (y1 :: ys) x
            simpa only [List.map_cons] using this

/-- `1 + z` for a redshifted source, 1 otherwise -/
def restScale (s : Spec K) : K := if s.kind = .source ∧ s.zs.z ≠ 0 then 1 + s.zs.z else 1

theorem restWave_eq (s : Spec K) (x : K) : restWave s x = x / restScale s := by
  unfold restWave restScale
  split_ifs <;> simp

/-- a table with its points scaled by `c` and its values by `k` -/
def scaleTable (t : Table K) (c k : K) : Table K :=
  { pts := t.pts.map (· * c), vals := t.vals.map (· * k), keepNeg := t.keepNeg, fillNaN := t.fillNaN }

/-- the table of a (possibly redshifted) tabulated source as observed -/
def obsTable (s : Spec K) (t : Table K) : Table K := scaleTable t (restScale s) (fluxFactor s)

theorem headD_map_mul (l : List K) (c : K) : (l.map (· * c)).headD 0 = l.headD 0 * c := by
  cases l <;> simp

theorem getLastD_map_mul (l : List K) (c : K) : (l.map (· * c)).getLastD 0 = l.getLastD 0 * c := by
  cases l with
  | nil => simp
  | cons a l =>
    rw [List.map_cons, List.getLastD_cons, List.getLastD_cons]
    induction l generalizing a with
    | nil => simp
    | cons b l ih => rw [List.map_cons, List.getLastD_cons, List.getLastD_cons]; exact ih b

/-- the scaled table read at `x` is the table read at `x / c`, times `k` -/
theorem scaleTable_eval (t : Table K) (c k : K) (hc : 0 < c) (hk : 0 ≤ k) (x : K) :
    (scaleTable t c k).eval x = t.eval (x / c) * k := by
  have h1 : x < t.pts.headD 0 * c ↔ x / c < t.pts.headD 0 := (div_lt_iff₀ hc).symm
  have h2 : x > t.pts.getLastD 0 * c ↔ x / c > t.pts.getLastD 0 := (lt_div_iff₀ hc).symm
  have hraw : (if x < t.pts.headD 0 * c then (if t.fillNaN then t.vals.headD 0 * k else 0)
      else if x > t.pts.getLastD 0 * c then (if t.fillNaN then t.vals.getLastD 0 * k else 0)
      else interpAsc (t.pts.map (· * c)) (t.vals.map (· * k)) x) =
      (if x / c < t.pts.headD 0 then (if t.fillNaN then t.vals.headD 0 else 0)
      else if x / c > t.pts.getLastD 0 then (if t.fillNaN then t.vals.getLastD 0 else 0)
      else interpAsc t.pts t.vals (x / c)) * k := by
    by_cases a : x < t.pts.headD 0 * c
    · rw [if_pos a, if_pos (h1.mp a)]; split_ifs <;> simp
    · rw [if_neg a, if_neg (fun h => a (h1.mpr h))]
      by_cases b : x > t.pts.getLastD 0 * c
      · rw [if_pos b, if_pos (h2.mp b)]; split_ifs <;> simp
      · rw [if_neg b, if_neg (fun h => b (h2.mpr h))]
        exact interpAsc_scale c k hc _ _ x
  unfold Table.eval scaleTable
  simp only [headD_map_mul, getLastD_map_mul]
  rw [hraw]
  set r := (if x / c < t.pts.headD 0 then (if t.fillNaN then t.vals.headD 0 else 0)
      else if x / c > t.pts.getLastD 0 then (if t.fillNaN then t.vals.getLastD 0 else 0)
      else interpAsc t.pts t.vals (x / c)) with hr
  by_cases hkn : t.keepNeg = true
  · simp only [hkn, if_true]
  · simp only [hkn, Bool.false_eq_true, if_false]
    by_cases hr0 : r < 0
    · rw [if_pos hr0, zero_mul]
      by_cases hrk : r * k < 0
      · rw [if_pos hrk]
      · rw [if_neg hrk]
        have : r * k ≤ 0 := mul_nonpos_of_nonpos_of_nonneg (le_of_lt hr0) hk
        exact le_antisymm this (not_lt.mp hrk)
    · rw [if_neg hr0, if_neg (not_lt.mpr (mul_nonneg (not_lt.mp hr0) hk))]

theorem strictAsc_map_mul (c : K) (hc : 0 < c) : ∀ l : List K, StrictAsc l → StrictAsc (l.map (· * c)) := by
  intro l
  induction l with
  | nil => intro _; trivial
  | cons a l ih =>
    intro h
    cases l with
    | nil => trivial
    | cons b l =>
      obtain ⟨hab, h'⟩ := h
      exact ⟨mul_lt_mul_of_pos_right hab hc, ih h'⟩

theorem scaleTable_wf (t : Table K) (c k : K) (hc : 0 < c) (hw : C03.WF t) : C03.WF (scaleTable t c k) :=
  ⟨strictAsc_map_mul c hc _ hw.asc, by simp [scaleTable, hw.len]⟩

theorem scaleTable_clipped (t : Table K) (c k : K) (hk : 0 ≤ k) (hcl : C03.Clipped t) :
    C03.Clipped (scaleTable t c k) := by
  rcases hcl with h | h
  · exact Or.inl h
  · right
    intro y hy
    simp only [scaleTable, List.mem_map] at hy
    obtain ⟨v, hv, rfl⟩ := hy
    exact mul_nonneg (h v hv) hk

/-- the sampling set of the model of a (possibly redshifted) tabulated spectrum object -/
theorem table_model_sampleset (thr : K) (s : Spec K) (t : Table K) (ht : s.tree = .leaf (.table t)) (m : Tree K)
    (hm : s.model = .ok m) : m.sampleset thr = some (t.pts.map (· * restScale s)) := by
  unfold Spec.model at hm
  by_cases hk : s.kind = .source
  · rw [hk] at hm
    simp only [] at hm
    unfold ZState.model at hm
    by_cases hz : s.zs.z = 0
    · rw [if_pos hz] at hm
      cases hm
      simp [restScale, hz, ht, Tree.sampleset, Leaf.sampleset]
    · rw [if_neg hz] at hm
      cases hzt : s.zs.zType with
      | wavelengthOnly =>
        rw [hzt] at hm
        cases hm
        simp [restScale, hk, hz, ht, Tree.sampleset, Leaf.sampleset]
      | conserveFlux =>
        rw [hzt] at hm
        cases hfs : s.zs.fluxScale with
        | none => rw [hfs] at hm; cases hm
        | some k =>
          rw [hfs] at hm
          cases hm
          simp [restScale, hk, hz, ht, Tree.sampleset, Leaf.sampleset]
  · have : s.model = .ok s.tree := model_of_not_source s hk
    unfold Spec.model at this
    rw [this] at hm
    cases hm
    simp [restScale, hk, ht, Tree.sampleset, Leaf.sampleset]

theorem sampleTree_of_eval (E : Env K) (m : Tree K) (f : K → K) (h : ∀ x, m.eval E x = .ok (f x)) (xs : List K) :
    sampleTree E m xs = .ok (xs.map f) := by
  unfold sampleTree
  induction xs with
  | nil => rfl
  | cons a l ih => rw [List.mapM_cons, h a, ih]; rfl

/-- a (possibly redshifted) tabulated source, sampled, is its observed table -/
theorem obsTable_evalAt (E : Env K) (s : Spec K) (t : Table K) (ht : s.tree = .leaf (.table t)) (m : Tree K)
    (hm : s.model = .ok m) (hc : 0 < restScale s) (hk : 0 ≤ fluxFactor s) (x : K) :
    s.evalAt E x = .ok ((obsTable s t).eval x) := by
  rw [table_evalAt E s t ht m hm x, restWave_eq, obsTable, scaleTable_eval t _ _ hc hk]

/-- `taper()` of a (possibly redshifted) tabulated source is `taper` of its observed table -/
theorem spec_taper_obs (E : Env K) (thr : K) (s : Spec K) (t : Table K) (x0 x1 : K) (xs : List K)
    (ht : s.tree = .leaf (.table t)) (m : Tree K) (hm : s.model = .ok m) (hp : t.pts = x0 :: x1 :: xs)
    (hw : C03.WF t) (hpos : 0 < x0) (hc : 0 < restScale s) (hk : 0 < fluxFactor s) :
    s.taper E thr none = .ok ((obsTable s t).taper.map fun t' => Spec.ofTree s.kind (.leaf (.table t'))) := by
  have hev : ∀ x, m.eval E x = .ok ((obsTable s t).eval x) := by
    intro x
    have := obsTable_evalAt E s t ht m hm hc (le_of_lt hk) x
    simpa only [Spec.evalAt, hm, ok_bind''] using this
  have hss := table_model_sampleset thr s t ht m hm
  have hasc : StrictAsc ((x0 :: x1 :: xs).map (· * restScale s)) := strictAsc_map_mul _ hc _ (hp ▸ hw.asc)
  have hval : validateWavelengths (x0 * restScale s :: x1 * restScale s :: xs.map (· * restScale s)) = .ok () :=
    validate_of_asc _ _ (by simpa using hasc) (mul_pos hpos hc)
  have hkne : fluxFactor s ≠ 0 := ne_of_gt hk
  have e1 : (obsTable s t).vals.headD 0 = 0 ↔ t.vals.headD 0 = 0 := by
    simp only [obsTable, scaleTable, headD_map_mul, mul_eq_zero, hkne, or_false]
  have e2 : (obsTable s t).vals.getLastD 0 = 0 ↔ t.vals.getLastD 0 = 0 := by
    simp only [obsTable, scaleTable, getLastD_map_mul, mul_eq_zero, hkne, or_false]
  have hT : (obsTable s t).pts = x0 * restScale s :: x1 * restScale s :: xs.map (· * restScale s) := by
    simp only [obsTable, scaleTable, hp, List.map_cons]
  have hkeep : (obsTable s t).keepNeg = t.keepNeg := rfl
  rw [hp] at hss
  by_cases h1 : t.vals.headD 0 = 0 <;> by_cases h2 : t.vals.getLastD 0 = 0 <;>
  simp only [Spec.taper, hm, ok_bind'', wavesetOrErr, Tree.waveset, hss, List.map_cons, hval, pure, Except.pure, ht,
    Tree.rootTable?, sampleTree_of_eval E m _ hev, Table.taper, taperPts, hT, h1, h2, e1.mpr, e2.mpr, hkeep,
    (not_congr e1).mpr, (not_congr e2).mpr, and_self, and_true, and_false, false_and,
    if_true, if_false, ne_eq, not_true_eq_false, not_false_eq_true, Option.map_none, Option.map_some]

/-- an unredshifted source is observed as its own table -/
theorem obsTable_of_z0 (s : Spec K) (t : Table K) (hz : s.zs.z = 0) : obsTable s t = t := by
  cases t
  simp [obsTable, scaleTable, restScale, fluxFactor, hz]

theorem obsTable_pts (s : Spec K) (t : Table K) : (obsTable s t).pts = t.pts.map (· * restScale s) := rfl
theorem obsTable_vals (s : Spec K) (t : Table K) : (obsTable s t).vals = t.vals.map (· * fluxFactor s) := rfl

/-! ### the fields of a constructed observation -/

/-- a constructed observation stores the admitted source, the bandpass and their product; its warning flag
is the admission's -/
theorem mkObs_ok {E : Env K} {P : OverlapPar K} {src band : Spec K} {binset : Option (List K)} {force : Force}
    {useC : Bool} {o : Obs K} (h : mkObs E P src band binset force useC = .ok o) :
    src.kind = .source ∧ band.kind = .bandpass ∧ obsAdmit E P src band force = .ok (o.src, o.warned) ∧
      o.band = band ∧ ∃ sm bm, o.src.model = .ok sm ∧ band.model = .ok bm ∧ o.model = .bin .mul sm bm := by
  unfold mkObs at h
  simp only [bind, Except.bind, pure, Except.pure] at h
  split_ifs at h with h1 h2
  refine ⟨not_not.mp h1, not_not.mp h2, ?_⟩
  cases ha : obsAdmit E P src band force with
  | error e => simp [ha] at h
  | ok sw =>
    obtain ⟨s, w⟩ := sw
    simp only [ha] at h
    cases hsm : s.model with
    | error e => simp [hsm] at h
    | ok sm =>
      cases hbm : band.model with
      | error e => simp [hsm, hbm] at h
      | ok bm =>
        simp only [hsm, hbm] at h
        have key : ∀ o', (o' : Obs K) = o → o'.src = s → o'.band = band → o'.model = .bin .mul sm bm →
            o'.warned = w →
            (Except.ok (s, w) : Except Err (Spec K × Bool)) = .ok (o.src, o.warned) ∧
              o.band = band ∧ ∃ sm' bm', o.src.model = .ok sm' ∧ (Except.ok bm : Except Err (Tree K)) = .ok bm' ∧
                o.model = .bin .mul sm' bm' := by
          intro o' ho hs' hb' hm hw'
          subst ho
          subst hs' hw'
          exact ⟨rfl, hb', sm, bm, hsm, rfl, hm⟩
        revert h
        cases binset with
        | none =>
          simp only []
          cases hd : defaultBinset P.mergeThr sm bm with
          | error e => intro h; simp at h
          | ok bs =>
            simp only []
            cases hb2 : initBins E P.mergeThr (Tree.bin BinOp.mul sm bm) bs useC with
            | error e => intro h; simp at h
            | ok bins => intro h; simp at h; exact key _ h rfl rfl rfl rfl
        | some b =>
          simp only []
          cases hvw : validateWavelengths b with
          | error e => intro h; simp at h
          | ok u =>
            simp only []
            cases hb2 : initBins E P.mergeThr (Tree.bin BinOp.mul sm bm) b useC with
            | error e => intro h; simp at h
            | ok bins => intro h; simp at h; exact key _ h rfl rfl rfl rfl

/-- a refused admission is the constructor's exception, whatever the binset -/
theorem mkObs_refused (E : Env K) (P : OverlapPar K) (src band : Spec K) (binset : Option (List K)) (force : Force)
    (useC : Bool) (hs : src.kind = .source) (hb : band.kind = .bandpass) (e : Err)
    (h : obsAdmit E P src band force = .error e) : mkObs E P src band binset force useC = .error e := by
  simp [mkObs, hs, hb, h, bind, Except.bind]

/-- a constructed observation evaluates exactly as "sample the stored source, sample the bandpass, multiply" -/
theorem obs_model_eval (E : Env K) (o : Obs K) (band : Spec K) (sm bm : Tree K) (hb : o.band = band)
    (hsm : o.src.model = .ok sm) (hbm : band.model = .ok bm) (hm : o.model = .bin .mul sm bm) (x : K) :
    o.model.eval E x = (do let a ← o.src.evalAt E x; let b ← o.band.evalAt E x; pure (a * b)) := by
  rw [hm, hb]
  simp only [Tree.eval, Spec.evalAt, hsm, hbm, ok_bind'']
  cases sm.eval E x with
  | error e => rfl
  | ok a =>
    cases bm.eval E x with
    | error e => rfl
    | ok b => rfl

/-! ### the sampled case, bundled -/

/-- the sampled case of `check_overlap(other)`: both spectra have a sampling set; `x1`, `y1` are the
bandpass's sampling set and its throughput there, `b` the other spectrum's sampling set, `[a1, a2]` the
range of the bandpass's positive-throughput samples, `[b1, b2]` the other spectrum's range -/
structure Sampled (E : Env K) (P : OverlapPar K) (band src : Spec K) (bm om : Tree K) (x1 y1 b : List K)
    (a1 a2 b1 b2 : K) : Prop where
  hbm : band.model = .ok bm
  hom : src.model = .ok om
  ho : om.waveset P.mergeThr = .ok (some b)
  hb : bm.waveset P.mergeThr = .ok (some x1)
  hy : sampleTree E bm x1 = .ok y1
  h1 : listMin (support x1 y1) = some a1
  h2 : listMax (support x1 y1) = some a2
  h3 : listMin b = some b1
  h4 : listMax b = some b2

theorem Sampled.le_a {E : Env K} {P : OverlapPar K} {band src : Spec K} {bm om : Tree K} {x1 y1 b : List K}
    {a1 a2 b1 b2 : K} (S : Sampled E P band src bm om x1 y1 b a1 a2 b1 b2) : a1 ≤ a2 :=
  listMin_le_listMax _ _ _ S.h1 S.h2

theorem Sampled.le_b {E : Env K} {P : OverlapPar K} {band src : Spec K} {bm om : Tree K} {x1 y1 b : List K}
    {a1 a2 b1 b2 : K} (S : Sampled E P band src bm om x1 y1 b a1 a2 b1 b2) : b1 ≤ b2 :=
  listMin_le_listMax _ _ _ S.h3 S.h4

theorem Sampled.x1_ne_nil {E : Env K} {P : OverlapPar K} {band src : Spec K} {bm om : Tree K} {x1 y1 b : List K}
    {a1 a2 b1 b2 : K} (S : Sampled E P band src bm om x1 y1 b a1 a2 b1 b2) : x1 ≠ [] := by
  intro h
  have := S.h1
  rw [h] at this
  simp [support, listMin] at this

/-- every answer of `check_overlap(other)` without wavelengths arises in one of three ways -/
theorem sampled_of_answer (E : Env K) (P : OverlapPar K) (band src : Spec K) (v : Verdict)
    (hv : checkOverlap E P band src none = .ok v) :
    ∃ bm om, band.model = .ok bm ∧ src.model = .ok om ∧
      ((om.waveset P.mergeThr = .ok none ∧ v = .full) ∨
       (∃ b, om.waveset P.mergeThr = .ok (some b) ∧ bm.waveset P.mergeThr = .ok none ∧ v = .partialNotMost) ∨
       (∃ x1 y1 b a1 a2 b1 b2, Sampled E P band src bm om x1 y1 b a1 a2 b1 b2)) := by
  obtain ⟨bm, om, hbm, hom, h⟩ := co_cases E P band src v hv
  refine ⟨bm, om, hbm, hom, ?_⟩
  rcases h with h | ⟨b, ho, h⟩
  · exact Or.inl h
  · rcases h with h | ⟨x1, y1, hb, hy⟩
    · exact Or.inr (Or.inl ⟨b, ho, h⟩)
    · obtain ⟨a1, a2, b1, b2, h1, h2, h3, h4⟩ := co_sampled_ends E P band src bm om x1 y1 b hbm hom ho hb hy v hv
      exact Or.inr (Or.inr ⟨x1, y1, b, a1, a2, b1, b2, ⟨hbm, hom, ho, hb, hy, h1, h2, h3, h4⟩⟩)

/-- the zero-at-both-ends test reads the other spectrum at the first and the last wavelength of the
bandpass's sampling set -/
theorem ends_near_zero (E : Env K) (om : Tree K) (x1 ends : List K) (atol : K) (hne : x1 ≠ [])
    (he : sampleTree E om (endPair x1) = .ok ends) (hz : allNearZero atol ends = true) :
    ∃ f l vf vl, x1.head? = some f ∧ x1.getLast? = some l ∧ om.eval E f = .ok vf ∧ om.eval E l = .ok vl ∧
      |vf| ≤ atol ∧ |vl| ≤ atol := by
  cases x1 with
  | nil => exact absurd rfl hne
  | cons a t =>
    have hl : (a :: t).getLast? = some ((a :: t).getLast hne) := List.getLast?_eq_getLast_of_ne_nil hne
    simp only [endPair, List.head?_cons, hl] at he
    unfold sampleTree at he
    rw [List.mapM_cons] at he
    obtain ⟨vf, hvf, he⟩ := bind_ok he
    obtain ⟨r, hr, he⟩ := bind_ok he
    rw [List.mapM_cons] at hr
    obtain ⟨vl, hvl, hr⟩ := bind_ok hr
    obtain ⟨r', hr', hr⟩ := bind_ok hr
    rw [List.mapM_nil] at hr'
    cases hr'; cases hr; cases he
    simp only [allNearZero, List.all_cons, List.all_nil, Bool.and_true, Bool.and_eq_true, decide_eq_true_eq] at hz
    exact ⟨a, _, vf, vl, rfl, hl, hvf, hvl, hz.1, hz.2⟩

theorem shortcutKind_iff (om : Tree K) : shortcutKind om = true ↔
    ((∃ t, om.rootTable? = some t ∧ t.isTapered = true) ∨ (om.rootTable? = none ∧ om.isCompound = false)) := by
  unfold shortcutKind
  cases om.rootTable? with
  | none => simp
  | some t => simp

/-! ### building an observation from its pieces (for the witnesses) -/

/-- the sorted union is the strictly ascending list with the same members -/
theorem union1d_eq_of (a b l : List K) (hl : StrictAsc l) (h : ∀ x, x ∈ l ↔ x ∈ a ∨ x ∈ b) : union1d a b = l := by
  have h1 : (union1d a b).SortedLT := by
    rw [List.sortedLT_iff_isChain, ← strictAsc_iff_chain]; exact union1d_strictAsc a b
  have h2 : l.SortedLT := by rw [List.sortedLT_iff_isChain, ← strictAsc_iff_chain]; exact hl
  exact h1.eq_of_mem_iff h2 (fun x => by rw [mem_union1d, h])

/-- `_init_bins` once the two unions and the model's sampling set are known -/
theorem initBins_of_unions (E : Env K) (thr : K) (m : Tree K) (b : List K) (useC : Bool) (f l : K)
    (edges w u1 u2 : List K) (hf : b.head? = some f) (hl : b.getLast? = some l) (hfl : ¬ f > l)
    (he : binEdges b = .ok edges) (hu1 : union1d edges b = u1) (hw : m.waveset thr = .ok (some w))
    (hu2 : union1d (filterClose thr u1) w = u2) :
    initBins E thr m b useC = (do
      let sp := (filterClose thr u2).filter fun w => decide (w > 0)
      let idx := edges.map (searchLeft sp)
      let ibeg := idx.dropLast
      let iend := idx.drop 1
      let flux ← sampleTree E m sp
      let avflux := pairSums flux
      let deltaw := pairDiffs sp
      let (bf, _) ← if useC then calcbinfluxC ibeg iend avflux deltaw else calcbinfluxPy ibeg iend avflux deltaw
      pure { binset := b, edges := edges, binflux := bf, spwave := sp, flux := flux, ibeg := ibeg, iend := iend }) := by
  simp only [initBins, hf, hl, if_neg hfl, he, ok_bind'', hu1, hw, hu2, pure, Except.pure]

/-- the constructor succeeds when its pieces do -/
theorem mkObs_of_pieces (E : Env K) (P : OverlapPar K) (src band s : Spec K) (w : Bool) (b : List K) (force : Force)
    (useC : Bool) (sm bm : Tree K) (bins : Bins K) (hs : src.kind = .source) (hb : band.kind = .bandpass)
    (ha : obsAdmit E P src band force = .ok (s, w)) (hsm : s.model = .ok sm) (hbm : band.model = .ok bm)
    (hv : validateWavelengths b = .ok ()) (hi : initBins E P.mergeThr (.bin .mul sm bm) b useC = .ok bins) :
    mkObs E P src band (some b) force useC =
      .ok { src := s, band := band, model := .bin .mul sm bm, warned := w, bins := bins } := by
  simp only [mkObs, hs, hb, ne_eq, not_true_eq_false, if_false, ha, hsm, hbm, hv, hi, ok_bind'', pure, Except.pure]

theorem exists_of_isOk {ε α : Type} (x : Except ε α) (h : x.isOk = true) : ∃ a, x = .ok a := by
  cases x with
  | error e => cases h
  | ok a => exact ⟨a, rfl⟩

/-- a table is its four fields -/
theorem table_eq (t : Table K) (p v : List K) (k f : Bool)
    (h : (t.pts, t.vals, t.keepNeg, t.fillNaN) = (p, v, k, f)) : t = ⟨p, v, k, f⟩ := by
  cases t; simp only [Prod.mk.injEq] at h; obtain ⟨rfl, rfl, rfl, rfl⟩ := h; rfl

/-! ### concrete rational witnesses

A bandpass tabulated at 2, 4, 6, 8 Å (throughput 1 everywhere) and four tabulated sources:
`src` on [3, 5] with non-zero ends (partial overlap: three quarters of the throughput lie outside),
`srcZ` on [3, 5] with zero ends (the zero-at-both-ends shortcut: 'full'), `srcW` on [1, 9] (contained: 'full'),
`srcF` on [10, 11] (disjoint), and a flat analytic source without a sampling set. -/
namespace W

def T0 : Transc ℚ :=
  ⟨fun _ => 0, fun _ => 0, fun _ => 0, fun _ => 0, fun _ => 0, fun _ => 0, fun _ => 0, fun _ _ => 0, 0,
    fun _ => 0, fun _ => 0⟩
def E0 : Env ℚ := ⟨⟨1, 1, 1, 1, 1⟩, T0⟩
def P0 : OverlapPar ℚ := ⟨0, 1 / 100000000, 1 / 100⟩
def bandT : Table ℚ := ⟨[2, 4, 6, 8], [1, 1, 1, 1], false, true⟩
def srcT : Table ℚ := ⟨[3, 4, 5], [2, 3, 2], false, true⟩
def zeroT : Table ℚ := ⟨[3, 4, 5], [0, 3, 0], false, false⟩
def wideT : Table ℚ := ⟨[1, 5, 9], [2, 3, 2], false, true⟩
def farT : Table ℚ := ⟨[10, 11], [2, 3], false, true⟩
/-- `srcT` after `taper()` -/
def tapT : Table ℚ := ⟨[9 / 4, 3, 4, 5, 25 / 4], [0, 2, 3, 2, 0], false, false⟩
def bandTree : Tree ℚ := .leaf (.table bandT)
def band : Spec ℚ := Spec.ofTree .bandpass bandTree
def src : Spec ℚ := Spec.ofTree .source (.leaf (.table srcT))
def srcZ : Spec ℚ := Spec.ofTree .source (.leaf (.table zeroT))
def srcW : Spec ℚ := Spec.ofTree .source (.leaf (.table wideT))
def srcF : Spec ℚ := Spec.ofTree .source (.leaf (.table farT))
def srcFlat : Spec ℚ := Spec.ofTree .source (.leaf (.const1 2))
/-- `src` at redshift z = 1 (`conserve_flux`): observed on [6, 10] at half the flux -/
def srcR : Spec ℚ := { kind := .source, tree := .leaf (.table srcT), zs := ZState.init 1 .conserveFlux }

theorem verdict_src : checkOverlap E0 P0 band src none = .ok .partialNotMost := by decide +kernel
theorem verdict_srcZ : checkOverlap E0 P0 band srcZ none = .ok .full := by decide +kernel
theorem verdict_srcW : checkOverlap E0 P0 band srcW none = .ok .full := by decide +kernel
theorem verdict_srcF : checkOverlap E0 P0 band srcF none = .ok .none := by decide +kernel
theorem verdict_srcR : checkOverlap E0 P0 band srcR none = .ok .partialNotMost := by decide +kernel
theorem verdict_flat : checkOverlap E0 P0 band srcFlat none = .ok .full := by decide +kernel

theorem band_model : band.model = .ok bandTree := rfl
theorem src_model (t : Table ℚ) : (Spec.ofTree .source (.leaf (.table t))).model = .ok (.leaf (.table t)) :=
  ofTree_model _ _

/-- the sampled case for `band` against a tabulated source on [3, 5] -/
theorem sampled (t : Table ℚ) (hp : t.pts = [3, 4, 5]) :
    Sampled E0 P0 band (Spec.ofTree .source (.leaf (.table t))) bandTree (.leaf (.table t))
      [2, 4, 6, 8] [1, 1, 1, 1] [3, 4, 5] 2 8 3 5 where
  hbm := rfl
  hom := src_model t
  ho := by
    have : validateWavelengths ([3, 4, 5] : List ℚ) = .ok () := by decide +kernel
    simp only [Tree.waveset, Tree.sampleset, Leaf.sampleset, hp, this, ok_bind'']; rfl
  hb := by decide +kernel
  hy := by decide +kernel
  h1 := by decide +kernel
  h2 := by decide +kernel
  h3 := by decide +kernel
  h4 := by decide +kernel

theorem wf_srcT : C03.WF srcT := ⟨⟨by norm_num, by norm_num, trivial⟩, rfl⟩
theorem clipped_srcT : C03.Clipped srcT := Or.inr (by decide +kernel)
theorem wf_zeroT : C03.WF zeroT := ⟨⟨by norm_num, by norm_num, trivial⟩, rfl⟩
theorem clipped_zeroT : C03.Clipped zeroT := Or.inr (by decide +kernel)

theorem taper_srcT : srcT.taper = some tapT := by
  have h : srcT.taper.map (fun t => (t.pts, t.vals, t.keepNeg, t.fillNaN)) =
      some ([9 / 4, 3, 4, 5, 25 / 4], [0, 2, 3, 2, 0], false, false) := by decide +kernel
  cases ht : srcT.taper with
  | none => rw [ht] at h; cases h
  | some t' =>
    rw [ht] at h
    simp only [Option.map_some, Option.some.injEq] at h
    rw [table_eq t' _ _ _ _ h]; rfl

/-! the three unions `_init_bins` and the product's sampling set need, for the binset [4, 6] -/

theorem u_edges : union1d ([3, 5, 7] : List ℚ) [4, 6] = [3, 4, 5, 6, 7] :=
  union1d_eq_of _ _ _ (by norm_num [StrictAsc]) (by intro x; simp only [List.mem_cons, List.not_mem_nil, or_false]; tauto)
theorem u_model : union1d ([3, 4, 5] : List ℚ) [2, 4, 6, 8] = [2, 3, 4, 5, 6, 8] :=
  union1d_eq_of _ _ _ (by norm_num [StrictAsc]) (by intro x; simp only [List.mem_cons, List.not_mem_nil, or_false]; tauto)
theorem u_all : union1d ([3, 4, 5, 6, 7] : List ℚ) [2, 3, 4, 5, 6, 8] = [2, 3, 4, 5, 6, 7, 8] :=
  union1d_eq_of _ _ _ (by norm_num [StrictAsc]) (by intro x; simp only [List.mem_cons, List.not_mem_nil, or_false]; tauto)
theorem u_model_tap : union1d ([9 / 4, 3, 4, 5, 25 / 4] : List ℚ) [2, 4, 6, 8] = [2, 9 / 4, 3, 4, 5, 6, 25 / 4, 8] :=
  union1d_eq_of _ _ _ (by norm_num [StrictAsc]) (by intro x; simp only [List.mem_cons, List.not_mem_nil, or_false]; tauto)
theorem u_all_tap : union1d ([3, 4, 5, 6, 7] : List ℚ) [2, 9 / 4, 3, 4, 5, 6, 25 / 4, 8] =
    [2, 9 / 4, 3, 4, 5, 6, 25 / 4, 7, 8] :=
  union1d_eq_of _ _ _ (by norm_num [StrictAsc]) (by intro x; simp only [List.mem_cons, List.not_mem_nil, or_false]; tauto)

theorem fc_edges : filterClose (0 : ℚ) [3, 4, 5, 6, 7] = [3, 4, 5, 6, 7] := by decide +kernel
theorem edges46 : binEdges ([4, 6] : List ℚ) = .ok [3, 5, 7] := by decide +kernel
theorem valid46 : validateWavelengths ([4, 6] : List ℚ) = .ok () := by decide +kernel

/-- sampling set of (table on [3, 4, 5]) × bandpass -/
theorem waveset_345 (t : Table ℚ) (hp : t.pts = [3, 4, 5]) :
    (Tree.bin .mul (.leaf (.table t)) bandTree).waveset P0.mergeThr = .ok (some [2, 3, 4, 5, 6, 8]) := by
  have h1 : filterClose (0 : ℚ) [2, 3, 4, 5, 6, 8] = [2, 3, 4, 5, 6, 8] := by decide +kernel
  have h2 : validateWavelengths ([2, 3, 4, 5, 6, 8] : List ℚ) = .ok () := by decide +kernel
  simp only [Tree.waveset, Tree.sampleset, Leaf.sampleset, mergeWavelengths, hp, bandTree, bandT, u_model, P0, h1, h2,
    ok_bind'']
  rfl

/-- sampling set of (tapered table) × bandpass -/
theorem waveset_tap :
    (Tree.bin .mul (.leaf (.table tapT)) bandTree).waveset P0.mergeThr =
      .ok (some [2, 9 / 4, 3, 4, 5, 6, 25 / 4, 8]) := by
  have h1 : filterClose (0 : ℚ) [2, 9 / 4, 3, 4, 5, 6, 25 / 4, 8] = [2, 9 / 4, 3, 4, 5, 6, 25 / 4, 8] := by
    decide +kernel
  have h2 : validateWavelengths ([2, 9 / 4, 3, 4, 5, 6, 25 / 4, 8] : List ℚ) = .ok () := by decide +kernel
  simp only [Tree.waveset, Tree.sampleset, Leaf.sampleset, mergeWavelengths, tapT, bandTree, bandT, u_model_tap, P0, h1,
    h2, ok_bind'']
  rfl

/-- `_init_bins` on the binset [4, 6] (edges 3, 5, 7; C implementation) after the unions -/
def binsRHS (m : Tree ℚ) (u2 : List ℚ) : Except Err (Bins ℚ) := do
  let sp := (filterClose P0.mergeThr u2).filter fun w => decide (w > 0)
  let idx := ([3, 5, 7] : List ℚ).map (searchLeft sp)
  let ibeg := idx.dropLast
  let iend := idx.drop 1
  let flux ← sampleTree E0 m sp
  let avflux := pairSums flux
  let deltaw := pairDiffs sp
  let (bf, _) ← if true then calcbinfluxC ibeg iend avflux deltaw else calcbinfluxPy ibeg iend avflux deltaw
  pure { binset := [4, 6], edges := [3, 5, 7], binflux := bf, spwave := sp, flux := flux, ibeg := ibeg, iend := iend }

theorem initBins_345 (t : Table ℚ) (hp : t.pts = [3, 4, 5]) :
    initBins E0 P0.mergeThr (.bin .mul (.leaf (.table t)) bandTree) [4, 6] true =
      binsRHS (.bin .mul (.leaf (.table t)) bandTree) [2, 3, 4, 5, 6, 7, 8] := by
  have hu2 : union1d (filterClose P0.mergeThr [3, 4, 5, 6, 7]) [2, 3, 4, 5, 6, 8] = [2, 3, 4, 5, 6, 7, 8] := by
    show union1d (filterClose (0 : ℚ) [3, 4, 5, 6, 7]) _ = _
    rw [fc_edges, u_all]
  rw [initBins_of_unions E0 P0.mergeThr _ [4, 6] true 4 6 [3, 5, 7] _ _ _ rfl rfl (by norm_num) edges46 u_edges
    (waveset_345 t hp) hu2]
  rfl

theorem initBins_tap :
    initBins E0 P0.mergeThr (.bin .mul (.leaf (.table tapT)) bandTree) [4, 6] true =
      binsRHS (.bin .mul (.leaf (.table tapT)) bandTree) [2, 9 / 4, 3, 4, 5, 6, 25 / 4, 7, 8] := by
  have hu2 : union1d (filterClose P0.mergeThr [3, 4, 5, 6, 7]) [2, 9 / 4, 3, 4, 5, 6, 25 / 4, 8] =
      [2, 9 / 4, 3, 4, 5, 6, 25 / 4, 7, 8] := by
    show union1d (filterClose (0 : ℚ) [3, 4, 5, 6, 7]) _ = _
    rw [fc_edges, u_all_tap]
  rw [initBins_of_unions E0 P0.mergeThr _ [4, 6] true 4 6 [3, 5, 7] _ _ _ rfl rfl (by norm_num) edges46 u_edges
    waveset_tap hu2]
  rfl

theorem bins_zero : ∃ bins, initBins E0 P0.mergeThr (.bin .mul (.leaf (.table zeroT)) bandTree) [4, 6] true = .ok bins :=
  exists_of_isOk _ (by rw [initBins_345 zeroT rfl]; decide +kernel)
theorem bins_extrap :
    ∃ bins, initBins E0 P0.mergeThr (.bin .mul (.leaf (.table srcT.forceExtrap)) bandTree) [4, 6] true = .ok bins :=
  exists_of_isOk _ (by rw [initBins_345 srcT.forceExtrap rfl]; decide +kernel)
theorem bins_tap : ∃ bins, initBins E0 P0.mergeThr (.bin .mul (.leaf (.table tapT)) bandTree) [4, 6] true = .ok bins :=
  exists_of_isOk _ (by rw [initBins_tap]; decide +kernel)

theorem admit_srcZ : obsAdmit E0 P0 srcZ band .none = .ok (srcZ, false) := by
  simp only [obsAdmit, verdict_srcZ, ok_bind'']; rfl

theorem admit_extrap :
    obsAdmit E0 P0 src band .extrap = .ok (Spec.ofTree .source (.leaf (.table srcT.forceExtrap)), true) := by
  simp only [obsAdmit, verdict_src, ok_bind'']; rfl

theorem admit_taper : obsAdmit E0 P0 src band .taper = .ok (Spec.ofTree .source (.leaf (.table tapT)), true) := by
  have hv : validateWavelengths srcT.pts = .ok () := by decide +kernel
  have ht := spec_taper_table E0 P0.mergeThr src srcT 3 4 [5] rfl rfl rfl hv
  rw [taper_srcT] at ht
  simp only [obsAdmit, verdict_src, ok_bind'', ht, Option.map_some]; rfl

/-- three constructed observations on the binset [4, 6]: without force on the zero-ended source, with
`force='extrap'` and with `force='taper'` on the partially overlapping source -/
theorem obs_unforced : ∃ o, mkObs E0 P0 srcZ band (some [4, 6]) .none true = .ok o := by
  obtain ⟨bins, hb⟩ := bins_zero
  exact ⟨_, mkObs_of_pieces E0 P0 srcZ band srcZ false [4, 6] .none true _ _ bins rfl rfl admit_srcZ
    (src_model zeroT) band_model valid46 hb⟩

theorem obs_extrap : ∃ o, mkObs E0 P0 src band (some [4, 6]) .extrap true = .ok o := by
  obtain ⟨bins, hb⟩ := bins_extrap
  exact ⟨_, mkObs_of_pieces E0 P0 src band _ true [4, 6] .extrap true _ _ bins rfl rfl admit_extrap
    (src_model _) band_model valid46 hb⟩

theorem obs_taper : ∃ o, mkObs E0 P0 src band (some [4, 6]) .taper true = .ok o := by
  obtain ⟨bins, hb⟩ := bins_tap
  exact ⟨_, mkObs_of_pieces E0 P0 src band _ true [4, 6] .taper true _ _ bins rfl rfl admit_taper
    (src_model _) band_model valid46 hb⟩

end W

end Synphot.C06x
