/-
  Float-backed transcendental functions at ℚ for the correspondence driver.
  NOT lawful (they round); used only to compare numbers with the implementation.
-/
import Mathlib.Algebra.Order.Field.Rat
import Synphot.Core.Transc

namespace Synphot.Driver

/-- exact value of a finite binary64; non-finite values map to a sentinel far outside any
tolerance so that a comparison involving them fails loudly -/
def floatToRat (f : Float) : Rat :=
  let b := f.toBits.toNat
  let neg := (b >>> 63) == 1
  let e := (b >>> 52) &&& 0x7ff
  let m := b &&& (2 ^ 52 - 1)
  if e == 0x7ff then (if neg then -((10 : Rat) ^ 400) else (10 : Rat) ^ 400)
  else
    let mant : Nat := if e == 0 then m else m + 2 ^ 52
    let ex : Int := if e == 0 then -1074 else (e : Int) - 1075
    let v : Rat := if ex ≥ 0 then ((mant * 2 ^ ex.toNat : Nat) : Rat) else mkRat mant (2 ^ (-ex).toNat)
    if neg then -v else v

/-- nearest-ish binary64 of a rational (64-bit truncated quotient, then one rounding) -/
def ratToFloat (q : Rat) : Float :=
  if q.num == 0 then 0 else
  let n := q.num.natAbs
  let d := q.den
  let shift : Int := 64 - (n.log2 : Int) + (d.log2 : Int)
  let m : Nat := if shift ≥ 0 then (n <<< shift.toNat) / d else n / (d <<< (-shift).toNat)
  let f := (Float.ofNat m).scaleB (-shift)
  if q.num < 0 then -f else f

def lift1 (g : Float → Float) (x : Rat) : Rat := floatToRat (g (ratToFloat x))

def expm1F (x : Float) : Float :=
  -- accurate for small |x| (Lean's Float has no expm1): Kahan's trick
  let u := Float.exp x
  if u == 1.0 then x
  else if u - 1.0 == -1.0 then -1.0
  else (u - 1.0) * x / Float.log u

def transcQ : Transc Rat where
  log10 := lift1 Float.log10
  pow10 := lift1 (fun x => Float.pow 10.0 x)
  ln := lift1 Float.log
  exp := lift1 Float.exp
  expm1 := lift1 expm1F
  sqrt := lift1 Float.sqrt
  atan := lift1 Float.atan
  rpow := fun x y => floatToRat (Float.pow (ratToFloat x) (ratToFloat y))
  pi := floatToRat 3.141592653589793
  sin := lift1 Float.sin
  cos := lift1 Float.cos

end Synphot.Driver
